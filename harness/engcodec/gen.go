// Package engcodec holds the correspondence engines of C17 (hash) and C20 (codec): generators of
// groups, chain infos, key pairs, shares, DKG database records and beacons over all schemes, the
// reflect-based conversion of real values into the model's values, and the property monitors.
package engcodec

import (
	"fmt"
	"math/rand"
	"reflect"
	"time"

	"github.com/drand/drand/v2/common/key"
	"github.com/drand/drand/v2/crypto"
	"github.com/drand/drand/v2/internal/dkg"
	pdkg "github.com/drand/drand/v2/protobuf/dkg"
	"github.com/drand/kyber"
	"github.com/drand/kyber/share"
	kdkg "github.com/drand/kyber/share/dkg"
	"github.com/drand/kyber/util/random"
)

type rngReader struct{ r *rand.Rand }

func (x rngReader) Read(p []byte) (int, error) { return x.r.Read(p) }

type gen struct {
	r      *rand.Rand
	stream func() interface{}
	sch    []*crypto.Scheme
}

func newGen(seed int64) *gen {
	g := &gen{r: rand.New(rand.NewSource(seed))}
	for _, n := range crypto.ListSchemes() {
		s, err := crypto.SchemeFromName(n)
		if err != nil {
			panic(err)
		}
		g.sch = append(g.sch, s)
	}
	return g
}

func (g *gen) bytes(n int) []byte {
	b := make([]byte, n)
	g.r.Read(b)
	return b
}

func (g *gen) scalar(s *crypto.Scheme) kyber.Scalar {
	return s.KeyGroup.Scalar().Pick(random.New(rngReader{g.r}))
}

func (g *gen) point(s *crypto.Scheme) kyber.Point { return s.KeyGroup.Point().Mul(g.scalar(s), nil) }

func (g *gen) addr() string {
	hosts := []string{"127.0.0.1", "node.example.org", "10.1.2.3", "[::1]", "drand-7.test",
		"Drand2.Example.ORG", "NODE-7.Test.", "[2001:DB8::A]", "Relay.drand.example.", "LocalHost"}
	return fmt.Sprintf("%s:%d", hosts[g.r.Intn(len(hosts))], 1+g.r.Intn(65535))
}

// pair builds a key pair from seeded randomness; realSig signs with the scheme's auth scheme.
func (g *gen) pair(s *crypto.Scheme, realSig bool) *key.Pair {
	k := g.scalar(s)
	p := &key.Pair{Key: k, Public: &key.Identity{Key: s.KeyGroup.Point().Mul(k, nil), Addr: g.addr(), Scheme: s}}
	if realSig {
		if err := p.SelfSign(); err != nil {
			panic(err)
		}
	} else {
		switch g.r.Intn(4) {
		case 0: // unsigned
		default:
			p.Public.Signature = g.bytes(48 + g.r.Intn(49))
		}
	}
	return p
}

var ids = []string{"default", "", "quicknet", "testnet-3s", "a", "évian-β", "default2", "DEFAULT"}

type groupOpts struct {
	n        int
	withKey  bool
	withSeed bool
	withTT   bool
	id       string
	subsec   bool
	shuffled bool
}

func (g *gen) randOpts() groupOpts {
	return groupOpts{n: 1 + g.r.Intn(10), withKey: g.r.Intn(4) != 0, withSeed: g.r.Intn(3) != 0, withTT: g.r.Intn(2) == 0,
		id: ids[g.r.Intn(len(ids))], shuffled: g.r.Intn(3) == 0}
}

// group builds a group of o.n nodes with pairwise distinct indices.
func (g *gen) group(s *crypto.Scheme, o groupOpts) (*key.Group, *share.PriPoly) {
	n := o.n
	nodes := make([]*key.Node, n)
	base := uint32(0)
	if g.r.Intn(4) == 0 {
		base = uint32(g.r.Intn(1 << 20))
	}
	perm := g.r.Perm(n)
	for i := 0; i < n; i++ {
		idx := base + uint32(i)
		if g.r.Intn(6) == 0 {
			idx = base + uint32(i) + uint32(n)*uint32(1+g.r.Intn(3)) // holes, as after a resharing
		}
		pos := i
		if o.shuffled {
			pos = perm[i]
		}
		nodes[pos] = &key.Node{Identity: g.pair(s, false).Public, Index: idx}
	}
	// make indices distinct
	seen := map[uint32]bool{}
	for _, nd := range nodes {
		for seen[nd.Index] {
			nd.Index += 7919
		}
		seen[nd.Index] = true
	}
	thr := key.MinimumT(n) + g.r.Intn(n-key.MinimumT(n)+1)
	period := time.Duration(1+g.r.Intn(120)) * time.Second
	if g.r.Intn(8) == 0 {
		period = time.Duration(1+g.r.Intn(1<<20)) * time.Second
	}
	if o.subsec {
		period += time.Duration(1+g.r.Intn(999)) * time.Millisecond
	}
	grp := &key.Group{Threshold: thr, Period: period, Scheme: s, ID: o.id, CatchupPeriod: time.Duration(g.r.Intn(60)) * time.Second,
		Nodes: nodes, GenesisTime: 1 + g.r.Int63n(1<<32)}
	if g.r.Intn(10) == 0 {
		// as key.LoadGroup does; whole seconds unless a sub-second group was asked for (the DKG
		// proposal carries the catch-up period in seconds, so nothing finer is reachable)
		grp.CatchupPeriod = period / 2
		if !o.subsec {
			grp.CatchupPeriod = grp.CatchupPeriod.Truncate(time.Second)
		}
	}
	var poly *share.PriPoly
	if o.withKey {
		poly = share.NewPriPoly(s.KeyGroup, thr, nil, random.New(rngReader{g.r}))
		_, commits := poly.Commit(s.KeyGroup.Point().Base()).Info()
		grp.PublicKey = &key.DistPublic{Coefficients: commits}
	}
	if o.withTT {
		grp.TransitionTime = grp.GenesisTime + g.r.Int63n(1<<30)
	}
	if o.withSeed {
		grp.GenesisSeed = g.bytes(32)
	}
	return grp, poly
}

func (g *gen) share(s *crypto.Scheme, poly *share.PriPoly, n int) *key.Share {
	i := g.r.Intn(n)
	sh := poly.Shares(n)[i]
	_, commits := poly.Commit(s.KeyGroup.Point().Base()).Info()
	return &key.Share{DistKeyShare: kdkg.DistKeyShare{Commits: commits, Share: sh}, Scheme: s}
}

func (g *gen) participant(s *crypto.Scheme) *pdkg.Participant {
	k, _ := g.point(s).MarshalBinary()
	p := &pdkg.Participant{Address: g.addr(), Key: k}
	if g.r.Intn(5) != 0 {
		p.Signature = g.bytes(48 + g.r.Intn(49))
	}
	return p
}

func (g *gen) participants(s *crypto.Scheme, n int) []*pdkg.Participant {
	if n == 0 {
		return nil
	}
	out := make([]*pdkg.Participant, n)
	for i := range out {
		out[i] = g.participant(s)
	}
	return out
}

// dbState builds a DKG database record in the given status.
func (g *gen) dbState(s *crypto.Scheme, st dkg.Status, withFinal bool) *dkg.DBState {
	return g.dbStateN(s, st, withFinal, 10)
}

func (g *gen) dbStateN(s *crypto.Scheme, st dkg.Status, withFinal bool, maxNodes int) *dkg.DBState {
	id := ids[g.r.Intn(len(ids))]
	if id == "" {
		id = "default"
	}
	nj, nr := g.r.Intn(3), g.r.Intn(3)
	d := &dkg.DBState{
		BeaconID: id, Epoch: uint32(1 + g.r.Intn(50)), State: st, Threshold: uint32(1 + g.r.Intn(9)),
		Timeout:       time.Unix(1600000000+g.r.Int63n(1<<28), 0).UTC(),
		SchemeID:      s.Name,
		GenesisTime:   time.Unix(1+g.r.Int63n(1<<32), 0).UTC(),
		CatchupPeriod: time.Duration(g.r.Intn(60)) * time.Second, BeaconPeriod: time.Duration(1+g.r.Intn(120)) * time.Second,
		Leader:    g.participant(s),
		Remaining: g.participants(s, nr), Joining: g.participants(s, nj), Leaving: g.participants(s, g.r.Intn(3)),
		Acceptors: g.participants(s, g.r.Intn(4)), Rejectors: g.participants(s, g.r.Intn(2)),
	}
	if g.r.Intn(3) != 0 {
		d.GenesisSeed = g.bytes(32)
	}
	if st == dkg.Fresh && g.r.Intn(2) == 0 {
		d = dkg.NewFreshState(id)
		d.SchemeID = s.Name // FromTOML needs a scheme name only when a final group is present
	}
	if withFinal {
		o := g.randOpts()
		o.withKey = true
		o.id = id
		if o.n > maxNodes {
			o.n = 1 + o.n%maxNodes
		}
		grp, poly := g.group(s, o)
		grp.GetGenesisSeed()
		d.FinalGroup = grp
		d.KeyShare = g.share(s, poly, grp.Len())
	}
	return d
}

var allStatuses = []dkg.Status{dkg.Fresh, dkg.Proposed, dkg.Proposing, dkg.Accepted, dkg.Rejected, dkg.Aborted,
	dkg.Executing, dkg.Complete, dkg.TimedOut, dkg.Joined, dkg.Left, dkg.Failed}

// fillZero sets every exported top-level field of *x that still has its zero value and is of a
// basic kind (string, integer, duration, byte slice, time) to a non-zero value, by reflection: a
// field the generators above do not know about (added to the struct later) is thereby exercised
// too, so that a mirror that forgets it loses a visible value.
func fillZero(x interface{}) {
	v := reflect.ValueOf(x).Elem()
	for i := 0; i < v.NumField(); i++ {
		f := v.Field(i)
		if !v.Type().Field(i).IsExported() || !f.CanSet() || !f.IsZero() {
			continue
		}
		switch {
		case f.Type() == reflect.TypeOf(time.Time{}):
			f.Set(reflect.ValueOf(time.Unix(1700000000, 0).UTC()))
		case f.Type() == reflect.TypeOf(time.Duration(0)):
			f.SetInt(int64(7 * time.Second))
		case f.Kind() == reflect.String:
			f.SetString("zz-filled")
		case f.Kind() >= reflect.Int && f.Kind() <= reflect.Int64:
			f.SetInt(7)
		case f.Kind() >= reflect.Uint && f.Kind() <= reflect.Uint64:
			f.SetUint(7)
		case f.Kind() == reflect.Slice && f.Type().Elem().Kind() == reflect.Uint8:
			f.SetBytes([]byte{1, 2, 3})
		}
	}
}
