package engcodec

// Conversion of real Go values (groups, identities, protobuf packets, TOML structs, JSON
// objects ...) into the values of the Coq codec model (Model/Codec.v), by reflection over the
// real structs. Field lists are computed here with reflect, independently of the translator;
// they are compared with the generated ones inside Coq (case CFields).

import (
	"encoding/json"
	"fmt"
	"math/big"
	"reflect"
	"strings"
	"time"

	"github.com/drand/drand/v2/crypto"
	"github.com/drand/drand/v2/zzverif/emit"
)

const modPrefix = "github.com/drand/drand/v2/"

func qualName(t reflect.Type) string {
	for t.Kind() == reflect.Ptr {
		t = t.Elem()
	}
	return strings.TrimPrefix(t.PkgPath(), modPrefix) + "." + t.Name()
}

type conv struct {
	roots map[string]bool
}

var timeType = reflect.TypeOf(time.Time{})
var schemeType = reflect.TypeOf(&crypto.Scheme{})

type binMarshaler interface{ MarshalBinary() ([]byte, error) }

func isLeafType(t reflect.Type) bool {
	if t == timeType || t == schemeType || t == schemeType.Elem() {
		return true
	}
	return false
}

// leaves computes the leaf paths of a struct type with reflect: exported fields in order,
// descending into (pointers to) structs that are neither mirror roots nor model leaves.
func (c *conv) leaves(t reflect.Type, depth int) [][]string {
	for t.Kind() == reflect.Ptr {
		t = t.Elem()
	}
	var out [][]string
	for i := 0; i < t.NumField(); i++ {
		f := t.Field(i)
		if !f.IsExported() {
			continue
		}
		ft := f.Type
		for ft.Kind() == reflect.Ptr {
			ft = ft.Elem()
		}
		if ft.Kind() == reflect.Struct && !isLeafType(ft) && !c.roots[qualName(ft)] && depth < 4 {
			for _, s := range c.leaves(ft, depth+1) {
				out = append(out, append([]string{f.Name}, s...))
			}
			continue
		}
		out = append(out, []string{f.Name})
	}
	return out
}

func coqPath(p []string) string {
	q := make([]string, len(p))
	for i, x := range p {
		q[i] = "\"" + x + "\""
	}
	return "[" + strings.Join(q, "; ") + "]"
}

func coqPaths(ps [][]string) string {
	q := make([]string, len(ps))
	for i, p := range ps {
		q[i] = coqPath(p)
	}
	return "[" + strings.Join(q, "; ") + "]"
}

// follow walks a leaf path; nil pointers on the way give the zero value of the leaf.
func follow(v reflect.Value, path []string) reflect.Value {
	for _, name := range path {
		for v.Kind() == reflect.Ptr {
			if v.IsNil() {
				v = reflect.Zero(v.Type().Elem())
			} else {
				v = v.Elem()
			}
		}
		v = v.FieldByName(name)
	}
	return v
}

func vbytes(b []byte) string { return "(VBytes " + emit.Bytes(b) + ")" }

// val renders one leaf value.
func (c *conv) val(v reflect.Value) string {
	t := v.Type()
	if t == timeType {
		tm := v.Interface().(time.Time)
		n := new(big.Int).Mul(big.NewInt(tm.Unix()), big.NewInt(1000000000))
		n.Add(n, big.NewInt(int64(tm.Nanosecond())))
		return "(VInt " + emit.Big(n) + ")"
	}
	if t == schemeType {
		if v.IsNil() {
			return "VNil"
		}
		return vbytes([]byte(v.Interface().(*crypto.Scheme).Name))
	}
	switch v.Kind() {
	case reflect.Interface:
		if v.IsNil() {
			return "VNil"
		}
		if m, ok := v.Interface().(binMarshaler); ok {
			b, err := m.MarshalBinary()
			if err != nil {
				panic(err)
			}
			return vbytes(b)
		}
		return c.val(v.Elem())
	case reflect.Ptr:
		if v.IsNil() {
			return "VNil"
		}
		if v.Elem().Kind() == reflect.Struct {
			return "(VRec " + c.record(v) + ")"
		}
		return c.val(v.Elem())
	case reflect.Struct:
		return "(VRec " + c.record(v) + ")"
	case reflect.Slice:
		if t.Elem().Kind() == reflect.Uint8 {
			if v.IsNil() {
				return "VNil"
			}
			return vbytes(v.Bytes())
		}
		items := make([]string, v.Len())
		for i := range items {
			items[i] = c.val(v.Index(i))
		}
		return "(VList " + emit.List(items) + ")"
	case reflect.String:
		return vbytes([]byte(v.String()))
	case reflect.Int, reflect.Int64, reflect.Int32, reflect.Int16, reflect.Int8:
		return "(VInt " + emit.Z(v.Int()) + ")"
	case reflect.Uint, reflect.Uint64, reflect.Uint32, reflect.Uint16, reflect.Uint8:
		return "(VInt " + emit.U(v.Uint()) + ")"
	case reflect.Bool:
		if v.Bool() {
			return "(VInt 1)"
		}
		return "(VInt 0)"
	}
	panic(fmt.Sprintf("engcodec: cannot convert %s", t))
}

// record renders a struct (or pointer to struct) as a record keyed by its leaf paths.
func (c *conv) record(v reflect.Value) string {
	t := v.Type()
	ls := c.leaves(t, 0)
	items := make([]string, len(ls))
	for i, p := range ls {
		items[i] = "(" + coqPath(p) + ", " + c.val(follow(v, p)) + ")"
	}
	return emit.List(items)
}

func (c *conv) rec(x interface{}) string { return c.record(reflect.ValueOf(x)) }

// jsonRecord renders a JSON object as a record over the given leaf paths: strings are byte
// strings, numbers integers, absent members nil.
func jsonRecord(js []byte, leaves [][]string) (string, error) {
	return jsonRecordT(js, leaves, nil)
}

// jsonRecordT is jsonRecord with the set of top-level members of Go type string / integer: when
// such a member is absent the decoder's struct holds "" / 0 (byte-slice members stay nil, and so
// do the members of an absent nested object).
func jsonRecordT(js []byte, leaves [][]string, zero map[string]string) (string, error) {
	var m map[string]interface{}
	d := json.NewDecoder(strings.NewReader(string(js)))
	d.UseNumber()
	if err := d.Decode(&m); err != nil {
		return "", err
	}
	items := make([]string, len(leaves))
	for i, p := range leaves {
		var cur interface{} = m
		for _, k := range p {
			mm, ok := cur.(map[string]interface{})
			if !ok {
				cur = nil
				break
			}
			cur = mm[k]
		}
		var v string
		switch x := cur.(type) {
		case nil:
			v = "VNil"
			if len(p) == 1 && zero[p[0]] != "" {
				v = zero[p[0]]
			}
		case string:
			v = vbytes([]byte(x))
		case json.Number:
			n, ok := new(big.Int).SetString(x.String(), 10)
			if !ok {
				return "", fmt.Errorf("non-integer json number %s", x)
			}
			v = "(VInt " + emit.Big(n) + ")"
		default:
			return "", fmt.Errorf("unexpected json value %T at %v", cur, p)
		}
		items[i] = "(" + coqPath(p) + ", " + v + ")"
	}
	return emit.List(items), nil
}
