package engcodec

import "errors"

// RunCodec is implemented in codec.go (placeholder until then).
func RunCodec(outDir string, seed int64, tier string) error { return errors.New("not yet") }
