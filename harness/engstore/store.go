// Package engstore holds the correspondence engines for C18 ("store": the chain storage
// back-ends as sorted maps) and C02 ("stack": the append/scheme/callback wrapper stack).
package engstore

import (
	"bytes"
	"context"
	"errors"
	"fmt"
	"math"
	"math/rand"
	"os"
	"sort"
	"strings"
	"sync"

	"github.com/drand/drand/v2/common"
	"github.com/drand/drand/v2/common/log"
	"github.com/drand/drand/v2/internal/chain"
	"github.com/drand/drand/v2/internal/chain/boltdb"
	chainerrors "github.com/drand/drand/v2/internal/chain/errors"
	"github.com/drand/drand/v2/internal/chain/memdb"
	"github.com/drand/drand/v2/zzverif/emit"
)

// quiet logger: the trimmed store logs an error for every failed reconstruction
func quietLogger() log.Logger { return log.New(nil, log.PanicLevel, false) }

type sop struct {
	kind string // put get last del len copen cclose cfirst cnext cseek clast
	r    uint64
	prev []byte
	sig  []byte
}

type sout struct {
	kind string // done beacon nobeacon len other
	r    uint64
	prev []byte
	sig  []byte
	n    int
}

type backendCfg struct {
	name    string // bucket name in the distribution
	coq     string // Coq term of type backend
	kind    string // boltU boltT mem
	rp      bool   // previous required on the context
	cap     int
	mutable bool // mutation inside a cursor session allowed (memdb only)
}

var storeBackends = []backendCfg{
	{"boltU/unchained", "BU", "boltU", false, 0, false},
	{"boltU/chained", "BU", "boltU", true, 0, false},
	{"boltT/unchained", "(BT false)", "boltT", false, 0, false},
	{"boltT/chained", "(BT true)", "boltT", true, 0, false},
	{"memdb/10", "(BM 10)", "mem", false, 10, true},
	{"memdb/12", "(BM 12)", "mem", true, 12, true},
}

func (c backendCfg) ctx() context.Context {
	ctx := context.Background()
	if c.rp {
		ctx = chain.SetPreviousRequiredOnContext(ctx)
	}
	if c.kind == "boltU" {
		ctx = boltdb.IsATest(ctx)
	}
	return ctx
}

// open returns a fresh real store of this configuration and its cleanup.
func (c backendCfg) open(root string) (chain.Store, func(), error) {
	if c.kind == "mem" {
		return memdb.NewStore(c.cap), func() {}, nil
	}
	dir, err := os.MkdirTemp(root, "db")
	if err != nil {
		return nil, nil, err
	}
	st, err := boltdb.NewBoltStore(c.ctx(), quietLogger(), dir)
	if err != nil {
		os.RemoveAll(dir)
		return nil, nil, err
	}
	return st, func() { st.Close(); os.RemoveAll(dir) }, nil
}

// tmpBase prefers a memory-backed directory for the throw-away bolt files (every bbolt commit
// fsyncs); "" lets os.MkdirTemp use the default temporary directory.
func tmpBase() string {
	if st, err := os.Stat("/dev/shm"); err == nil && st.IsDir() {
		if d, err := os.MkdirTemp("/dev/shm", "zzv-probe-"); err == nil {
			os.RemoveAll(d)
			return "/dev/shm"
		}
	}
	return ""
}

func cp(b []byte) []byte { return append([]byte{}, b...) }

func obsBeacon(b *common.Beacon, err error) sout {
	if err != nil {
		if errors.Is(err, chainerrors.ErrNoBeaconStored) {
			return sout{kind: "nobeacon"}
		}
		return sout{kind: "other"}
	}
	if b == nil {
		return sout{kind: "other"}
	}
	return sout{kind: "beacon", r: b.Round, prev: cp(b.PreviousSig), sig: cp(b.Signature)}
}

func obsErr(err error) sout {
	if err != nil {
		return sout{kind: "other"}
	}
	return sout{kind: "done"}
}

// runSeq drives the real store with the op sequence; sessions are well bracketed.
func runSeq(ctx context.Context, st chain.Store, ops []sop) []sout {
	outs := make([]sout, 0, len(ops))
	plain := func(o sop) sout {
		switch o.kind {
		case "put":
			return obsErr(st.Put(ctx, &common.Beacon{Round: o.r, PreviousSig: cp(o.prev), Signature: cp(o.sig)}))
		case "get":
			return obsBeacon(st.Get(ctx, o.r))
		case "last":
			return obsBeacon(st.Last(ctx))
		case "del":
			return obsErr(st.Del(ctx, o.r))
		case "len":
			n, err := st.Len(ctx)
			if err != nil {
				return sout{kind: "other"}
			}
			return sout{kind: "len", n: n}
		}
		return sout{kind: "other"}
	}
	i := 0
	for i < len(ops) {
		o := ops[i]
		if o.kind != "copen" {
			outs = append(outs, plain(o))
			i++
			continue
		}
		i++
		opened := false
		err := st.Cursor(ctx, func(ctx context.Context, c chain.Cursor) error {
			opened = true
			outs = append(outs, sout{kind: "done"})
			for i < len(ops) && ops[i].kind != "cclose" {
				o := ops[i]
				i++
				switch o.kind {
				case "cfirst":
					outs = append(outs, obsBeacon(c.First(ctx)))
				case "cnext":
					outs = append(outs, obsBeacon(c.Next(ctx)))
				case "cseek":
					outs = append(outs, obsBeacon(c.Seek(ctx, o.r)))
				case "clast":
					outs = append(outs, obsBeacon(c.Last(ctx)))
				default:
					outs = append(outs, plain(o))
				}
			}
			return nil
		})
		if !opened {
			outs = append(outs, sout{kind: "other"})
		}
		if i < len(ops) { // the cclose
			i++
			outs = append(outs, obsErr(err))
		}
	}
	return outs
}

// ---------- Coq rendering ----------

func coqBeacon(r uint64, prev, sig []byte) string {
	return fmt.Sprintf("(mkB %s %s %s)", emit.U(r), emit.Bytes(prev), emit.Bytes(sig))
}

func (o sop) coq() string {
	switch o.kind {
	case "put":
		return "Put " + coqBeacon(o.r, o.prev, o.sig)
	case "get":
		return "Get " + emit.U(o.r)
	case "last":
		return "Last"
	case "del":
		return "Del " + emit.U(o.r)
	case "len":
		return "Len"
	case "copen":
		return "COpen"
	case "cclose":
		return "CClose"
	case "cfirst":
		return "CFirst"
	case "cnext":
		return "CNext"
	case "cseek":
		return "CSeek " + emit.U(o.r)
	case "clast":
		return "CLast"
	}
	return "Len"
}

func (o sout) coq() string {
	switch o.kind {
	case "done":
		return "ODone"
	case "beacon":
		return "OBeacon " + coqBeacon(o.r, o.prev, o.sig)
	case "nobeacon":
		return "OErr ENoBeacon"
	case "len":
		return fmt.Sprintf("OLen %d", o.n)
	}
	return "OBad"
}

func (o sop) short() string {
	switch o.kind {
	case "put":
		return fmt.Sprintf("put(%d,prev=%x,sig=%x)", o.r, o.prev, o.sig)
	case "get", "del", "cseek":
		return fmt.Sprintf("%s(%d)", o.kind, o.r)
	}
	return o.kind
}

func (o sout) short() string {
	switch o.kind {
	case "beacon":
		return fmt.Sprintf("{%d,prev=%x,sig=%x}", o.r, o.prev, o.sig)
	case "len":
		return fmt.Sprintf("len=%d", o.n)
	}
	return o.kind
}

func seqShort(ops []sop, outs []sout) string {
	var sb strings.Builder
	for i, o := range ops {
		if i > 0 {
			sb.WriteString("; ")
		}
		sb.WriteString(o.short())
		if i < len(outs) {
			sb.WriteString("->" + outs[i].short())
		}
	}
	return sb.String()
}

// ---------- monitor M: an independent reference map ----------

type refB struct{ prev, sig []byte }

type refMap struct {
	cfg backendCfg
	m   map[uint64]refB
}

func (rm *refMap) keys() []uint64 {
	ks := make([]uint64, 0, len(rm.m))
	for k := range rm.m {
		ks = append(ks, k)
	}
	sort.Slice(ks, func(i, j int) bool { return ks[i] < ks[j] })
	return ks
}

func (rm *refMap) put(o sop) {
	if rm.cfg.kind == "mem" {
		if _, ok := rm.m[o.r]; ok {
			return // the ring keeps the old value
		}
		rm.m[o.r] = refB{o.prev, o.sig}
		for len(rm.m) > rm.cfg.cap { // forget the oldest rounds beyond the capacity
			delete(rm.m, rm.keys()[0])
		}
		return
	}
	rm.m[o.r] = refB{o.prev, o.sig} // bolt replaces
}

// expected says what a read of stored round r must return: the beacon, or mustFail when the
// previous signature has to be reconstructed and the preceding round is absent.
func (rm *refMap) expected(r uint64) (want sout, mustFail bool) {
	e := rm.m[r]
	want = sout{kind: "beacon", r: r, sig: e.sig}
	switch {
	case rm.cfg.kind != "boltT":
		want.prev = e.prev
	case rm.cfg.rp && r > 0:
		p, ok := rm.m[r-1]
		if !ok {
			return want, true
		}
		want.prev = p.sig
	}
	return want, false
}

func sameBeacon(a, b sout) bool {
	return a.kind == "beacon" && b.kind == "beacon" && a.r == b.r && bytes.Equal(a.prev, b.prev) && bytes.Equal(a.sig, b.sig)
}

// monitorSeq replays the observed outputs against the reference map and reports the first
// failure of each class.
func monitorSeq(cfg backendCfg, ops []sop, outs []sout, fail func(class, what string)) {
	rm := &refMap{cfg: cfg, m: map[uint64]refB{}}
	inSession := false
	var curRound uint64 // round the cursor stands on, valid when positioned
	positioned := false
	// every returned beacon must carry the data put for the round it is labelled with
	label := func(i int, got sout) {
		if got.kind != "beacon" {
			return
		}
		if _, ok := rm.m[got.r]; !ok {
			fail("label-absent-round", fmt.Sprintf("op %d %s returned a beacon labelled with round %d which is not stored", i, ops[i].short(), got.r))
			return
		}
		want, mustFail := rm.expected(got.r)
		if mustFail {
			fail("prev-reconstruction", fmt.Sprintf("op %d %s returned round %d although round %d (needed for the previous signature) is absent", i, ops[i].short(), got.r, got.r-1))
			return
		}
		if !bytes.Equal(want.sig, got.sig) {
			fail("label-integrity", fmt.Sprintf("op %d %s: beacon labelled %d carries signature %x, stored for that round: %x", i, ops[i].short(), got.r, got.sig, want.sig))
		} else if !bytes.Equal(want.prev, got.prev) {
			if cfg.kind == "boltT" {
				fail("prev-reconstruction", fmt.Sprintf("op %d %s: round %d previous signature %x, expected %x", i, ops[i].short(), got.r, got.prev, want.prev))
			} else {
				fail("label-integrity", fmt.Sprintf("op %d %s: round %d previous signature %x, stored %x", i, ops[i].short(), got.r, got.prev, want.prev))
			}
		}
	}
	// exact expectation for a read that must hit stored round r
	exact := func(i int, r uint64, got sout, class string) {
		want, mustFail := rm.expected(r)
		if mustFail {
			if got.kind != "nobeacon" {
				fail("prev-reconstruction", fmt.Sprintf("op %d %s: round %d absent, the read of round %d must fail, got %s", i, ops[i].short(), r-1, r, got.short()))
			}
			return
		}
		if !sameBeacon(want, got) {
			fail(class, fmt.Sprintf("op %d %s: expected %s got %s", i, ops[i].short(), want.short(), got.short()))
		}
	}
	for i, o := range ops {
		if i >= len(outs) {
			fail("short-output", "fewer outputs than operations")
			return
		}
		got := outs[i]
		if got.kind == "other" {
			fail("unexpected-error", fmt.Sprintf("op %d %s returned an error outside the store's error classes", i, o.short()))
			return
		}
		label(i, got)
		ks := rm.keys()
		switch o.kind {
		case "put":
			rm.put(o)
			if inSession { // a mutation voids what is expected of the next Next
				positioned = false
			}
		case "del":
			delete(rm.m, o.r)
			if inSession {
				positioned = false
			}
		case "get":
			if _, ok := rm.m[o.r]; ok {
				exact(i, o.r, got, "get")
			} else if got.kind != "nobeacon" {
				fail("get-absent", fmt.Sprintf("op %d get(%d) of an absent round returned %s", i, o.r, got.short()))
			}
		case "len":
			if got.kind != "len" || got.n != len(rm.m) {
				fail("len", fmt.Sprintf("op %d len: expected %d got %s", i, len(rm.m), got.short()))
			}
		case "last", "clast":
			if len(ks) == 0 {
				if got.kind != "nobeacon" {
					fail("last-empty", fmt.Sprintf("op %d %s on an empty store returned %s", i, o.kind, got.short()))
				}
			} else {
				exact(i, ks[len(ks)-1], got, "last")
			}
			if o.kind == "clast" {
				positioned = len(ks) > 0
				if positioned {
					curRound = ks[len(ks)-1]
				}
			}
		case "copen":
			inSession, positioned = true, false
		case "cclose":
			inSession, positioned = false, false
		case "cfirst":
			if len(ks) == 0 {
				if got.kind != "nobeacon" {
					fail("first-empty", fmt.Sprintf("op %d first on an empty store returned %s", i, got.short()))
				}
				positioned = false
			} else {
				exact(i, ks[0], got, "order")
				positioned, curRound = true, ks[0]
			}
		case "cnext":
			if positioned { // iteration in ascending order without skipping
				j := sort.Search(len(ks), func(j int) bool { return ks[j] > curRound })
				if j == len(ks) {
					if got.kind != "nobeacon" {
						fail("order", fmt.Sprintf("op %d next after the last round %d returned %s", i, curRound, got.short()))
					}
					// bolt stays on the last element, memdb moves past it: nothing more is claimed
					positioned = false
				} else {
					exact(i, ks[j], got, "order")
					curRound = ks[j]
				}
			}
		case "cseek":
			_, stored := rm.m[o.r]
			if !stored && got.kind == "beacon" && got.r == o.r && cfg.kind == "boltT" {
				fail("boltT-seek-mislabel", fmt.Sprintf("op %d seek(%d) of an absent round returned a beacon labelled %d with signature %x", i, o.r, got.r, got.sig))
			}
			switch {
			case stored: // seeking a stored round returns that round
				exact(i, o.r, got, "seek-stored")
				positioned, curRound = true, o.r
			case cfg.kind == "mem": // the ring fails on absent rounds; nothing is claimed
				positioned = false
			default: // bolt: the next stored round, correctly labelled, or the end
				j := sort.Search(len(ks), func(j int) bool { return ks[j] >= o.r })
				if j == len(ks) {
					if got.kind != "nobeacon" {
						fail("seek-absent", fmt.Sprintf("op %d seek(%d) beyond the last round returned %s", i, o.r, got.short()))
					}
					positioned = false
				} else {
					exact(i, ks[j], got, "seek-absent")
					positioned, curRound = true, ks[j]
				}
			}
		}
	}
}

// ---------- generators ----------

type seqGen struct {
	rng *rand.Rand
	ctr int
}

func (g *seqGen) data(r uint64, ref map[uint64][]byte) (prev, sig []byte) {
	g.ctr++
	sig = []byte{0x80 | byte(r&0x3f), byte(g.ctr), byte(g.ctr >> 8)}
	switch g.rng.Intn(12) {
	case 0:
		sig = append(sig, byte(g.rng.Intn(256)), byte(g.rng.Intn(256)))
	case 1:
		sig = sig[:2]
	}
	switch g.rng.Intn(4) {
	case 0:
		prev = nil
	case 1, 2:
		if p, ok := ref[r-1]; ok && r > 0 {
			prev = cp(p)
		} else {
			prev = []byte{0x40, byte(g.ctr)}
		}
	default:
		prev = []byte{0x41, byte(g.rng.Intn(256))}
	}
	ref[r] = sig
	return prev, sig
}

var alphabets = [][]uint64{
	{0, 1, 2, 3, 5},
	{0, 1, 2, 3, 4, 5, 6, 7, 8, 9, 10, 11, 12, 13, 14, 15, 17, 20},
	{0, 1, 254, 255, 256, 257, 511, 512, 65535, 65536, 1 << 24, 1 << 32, 1<<32 + 1, 1 << 56, math.MaxUint64 - 1, math.MaxUint64},
	{3, 4, 5, 6, 7, 8, 9, 10, 11, 12, 13, 14, 15, 16, 17, 18, 19, 20, 21, 22, 23, 24, 300, 301},
}

func (g *seqGen) random(cfg backendCfg, n int) []sop {
	rng := g.rng
	al := alphabets[rng.Intn(len(alphabets))]
	pick := func() uint64 { return al[rng.Intn(len(al))] }
	ref := map[uint64][]byte{}
	var ops []sop
	put := func() sop {
		r := pick()
		if rng.Intn(3) == 0 && len(ref) > 0 { // continue a run: round after a stored one
			for k := range ref {
				if k < math.MaxUint64 {
					r = k + 1
				}
				break
			}
		}
		p, s := g.data(r, ref)
		return sop{kind: "put", r: r, prev: p, sig: s}
	}
	// ascending warm-up so that rings fill and chained reads succeed
	if rng.Intn(2) == 0 {
		k := 1 + rng.Intn(14)
		start := al[rng.Intn(len(al))]
		for j := 0; j < k && start+uint64(j) >= start; j++ {
			r := start + uint64(j)
			p, s := g.data(r, ref)
			if rng.Intn(2) == 0 && j > 0 {
				p = cp(ref[r-1])
			}
			ops = append(ops, sop{kind: "put", r: r, prev: p, sig: s})
		}
	}
	for len(ops) < n {
		switch x := rng.Intn(100); {
		case x < 30:
			ops = append(ops, put())
		case x < 45:
			ops = append(ops, sop{kind: "get", r: pick()})
		case x < 52:
			ops = append(ops, sop{kind: "last"})
		case x < 62:
			r := pick()
			delete(ref, r)
			ops = append(ops, sop{kind: "del", r: r})
		case x < 67:
			ops = append(ops, sop{kind: "len"})
		default:
			ops = append(ops, sop{kind: "copen"})
			k := 1 + rng.Intn(9)
			for j := 0; j < k; j++ {
				switch y := rng.Intn(100); {
				case y < 18:
					ops = append(ops, sop{kind: "cfirst"})
				case y < 58:
					ops = append(ops, sop{kind: "cnext"})
				case y < 78:
					ops = append(ops, sop{kind: "cseek", r: pick()})
				case y < 84:
					ops = append(ops, sop{kind: "clast"})
				case y < 90:
					ops = append(ops, sop{kind: "get", r: pick()})
				case y < 93:
					ops = append(ops, sop{kind: "len"})
				default:
					if cfg.mutable {
						if rng.Intn(2) == 0 {
							ops = append(ops, put())
						} else {
							ops = append(ops, sop{kind: "del", r: pick()})
						}
					} else {
						ops = append(ops, sop{kind: "last"})
					}
				}
			}
			ops = append(ops, sop{kind: "cclose"})
		}
	}
	return ops
}

// probe is appended to every exhaustive mutation sequence: every read the interface offers.
func probe(rounds []uint64) []sop {
	ops := []sop{{kind: "len"}, {kind: "last"}}
	for _, r := range rounds {
		ops = append(ops, sop{kind: "get", r: r})
	}
	ops = append(ops, sop{kind: "copen"}, sop{kind: "cnext"}, sop{kind: "cfirst"})
	for range rounds {
		ops = append(ops, sop{kind: "cnext"})
	}
	for _, r := range rounds {
		ops = append(ops, sop{kind: "cseek", r: r}, sop{kind: "cnext"})
	}
	ops = append(ops, sop{kind: "clast"}, sop{kind: "cnext"}, sop{kind: "cclose"})
	return ops
}

// exhaustive enumerates all mutation sequences of length <= depth over put/del of the given
// rounds (every put carries fresh data), each followed by the probe.
func exhaustive(stored []uint64, probed []uint64, depth int) [][]sop {
	type mut struct {
		del bool
		r   uint64
	}
	var muts []mut
	for _, r := range stored {
		muts = append(muts, mut{false, r}, mut{true, r})
	}
	var res [][]sop
	var rec func(prefix []mut)
	rec = func(prefix []mut) {
		if len(prefix) > 0 {
			var ops []sop
			last := map[uint64][]byte{}
			for i, m := range prefix {
				if m.del {
					ops = append(ops, sop{kind: "del", r: m.r})
					delete(last, m.r)
					continue
				}
				sig := []byte{0x90 | byte(m.r), byte(i + 1)}
				prev := []byte{0x50, byte(i + 1)}
				if p, ok := last[m.r-1]; ok && i%2 == 0 {
					prev = cp(p)
				}
				last[m.r] = sig
				ops = append(ops, sop{kind: "put", r: m.r, prev: prev, sig: sig})
			}
			res = append(res, append(ops, probe(probed)...))
		}
		if len(prefix) == depth {
			return
		}
		for _, m := range muts {
			rec(append(append([]mut{}, prefix...), m))
		}
	}
	rec(nil)
	return res
}

// corpus of known witnesses, always run first.
func storeCorpus() [][]sop {
	s := func(r uint64) []byte { return []byte{0xC0, byte(r)} }
	return [][]sop{
		// F1 (fixed by "trimmed bolt cursor Seek labels the beacon with the round of the key
		// found"): store {1,5}, Seek 3
		{{kind: "put", r: 1, sig: s(1)}, {kind: "put", r: 5, sig: s(5)}, {kind: "copen"}, {kind: "cseek", r: 3}, {kind: "cnext"}, {kind: "cclose"}},
		{{kind: "put", r: 0, sig: s(0)}, {kind: "put", r: 1, sig: s(1), prev: s(0)}, {kind: "put", r: 4, sig: s(4)}, {kind: "put", r: 5, sig: s(5), prev: s(4)},
			{kind: "copen"}, {kind: "cseek", r: 3}, {kind: "cseek", r: 2}, {kind: "cseek", r: 5}, {kind: "cseek", r: 6}, {kind: "cclose"}},
		// byte order of the keys: 1 < 255 < 256 < 2^32
		{{kind: "put", r: 256, sig: s(2)}, {kind: "put", r: 1, sig: s(1)}, {kind: "put", r: 1 << 32, sig: s(4)}, {kind: "put", r: 255, sig: s(3)},
			{kind: "last"}, {kind: "copen"}, {kind: "cfirst"}, {kind: "cnext"}, {kind: "cnext"}, {kind: "cnext"}, {kind: "cnext"}, {kind: "cseek", r: 2}, {kind: "cclose"}},
		// re-put with different data, delete, re-put
		{{kind: "put", r: 2, sig: s(1), prev: s(9)}, {kind: "put", r: 2, sig: s(2), prev: s(8)}, {kind: "get", r: 2}, {kind: "del", r: 2}, {kind: "get", r: 2},
			{kind: "put", r: 2, sig: s(3)}, {kind: "get", r: 2}, {kind: "len"}},
		// empty signature: present, not absent (bbolt returns a non-nil empty value)
		{{kind: "put", r: 1, sig: []byte{}, prev: s(7)}, {kind: "get", r: 1}, {kind: "last"}, {kind: "len"}, {kind: "put", r: 2, sig: s(2), prev: s(6)}, {kind: "get", r: 2},
			{kind: "copen"}, {kind: "cfirst"}, {kind: "cnext"}, {kind: "cseek", r: 1}, {kind: "cclose"}},
		// empty store
		{{kind: "len"}, {kind: "last"}, {kind: "get", r: 0}, {kind: "del", r: 0}, {kind: "copen"}, {kind: "cnext"}, {kind: "cfirst"}, {kind: "cnext"}, {kind: "clast"}, {kind: "cnext"}, {kind: "cseek", r: 0}, {kind: "cnext"}, {kind: "cclose"}},
	}
}

func seqKey(cfg backendCfg, ops []sop) string {
	var sb strings.Builder
	sb.WriteString(cfg.name)
	for _, o := range ops {
		sb.WriteString("|" + o.short())
	}
	return sb.String()
}

// RunStore is the engine "store" (C18).
func RunStore(outDir string, seed int64, tier string) error {
	rep := emit.NewReport("store", seed, tier)
	root, err := os.MkdirTemp(tmpBase(), "zzv-store-")
	if err != nil {
		return err
	}
	defer os.RemoveAll(root)

	type job struct {
		cfg  backendCfg
		ops  []sop
		from string
	}
	var jobs []job
	for _, cfg := range storeBackends {
		for _, ops := range storeCorpus() {
			jobs = append(jobs, job{cfg, ops, "corpus"})
		}
	}
	depth, nrand, nlong := 3, 70, 6
	if tier == "thorough" {
		depth, nrand, nlong = 5, 2500, 200
		rep.Exhaustive = true
	}
	for _, cfg := range storeBackends {
		for _, ops := range exhaustive([]uint64{1, 2, 4}, []uint64{0, 1, 2, 3, 4, 5}, depth) {
			jobs = append(jobs, job{cfg, ops, "exhaustive"})
		}
	}
	g := &seqGen{rng: rand.New(rand.NewSource(seed))}
	for _, cfg := range storeBackends {
		for i := 0; i < nrand; i++ {
			jobs = append(jobs, job{cfg, g.random(cfg, 12+g.rng.Intn(30)), "random"})
		}
		for i := 0; i < nlong; i++ {
			jobs = append(jobs, job{cfg, g.random(cfg, 120+g.rng.Intn(120)), "random-long"})
		}
	}

	var lines, descr []string
	seen := map[string]bool{}
	record := func(cfg backendCfg, ops []sop, outs []sout, from string, extra [][2]string) {
		rep.Evaluations++
		rep.Count(cfg.name + "/" + from)
		nontrivial, hasMut := false, false
		for i, o := range ops {
			rep.Count("op/" + o.kind)
			if i < len(outs) {
				rep.Count("out/" + outs[i].kind)
				if outs[i].kind == "beacon" {
					nontrivial = true
				}
			}
			if o.kind == "put" || o.kind == "del" {
				hasMut = true
			}
		}
		k := seqKey(cfg, ops) + "|" + from
		if !seen[k] {
			seen[k] = true
			if nontrivial && hasMut {
				rep.DistinctNontrivial++
			}
		}
		short := seqShort(ops, outs)
		failed := map[string]bool{}
		fail := func(class, what string) {
			if !failed[class] {
				failed[class] = true
				rep.Fail(class, what, map[string]interface{}{"backend": cfg.name, "from": from, "sequence": short})
			}
		}
		for _, f := range extra {
			fail(f[0], f[1])
		}
		monitorSeq(cfg, ops, outs, fail)
		opsC := make([]string, len(ops))
		for i, o := range ops {
			opsC[i] = o.coq()
		}
		outsC := make([]string, len(outs))
		for i, o := range outs {
			outsC[i] = o.coq()
		}
		lines = append(lines, fmt.Sprintf("SCase %s %s %s", cfg.coq, emit.List(opsC), emit.List(outsC)))
		descr = append(descr, cfg.name+" ("+from+"): "+short)
		if from != "exhaustive" || rep.Evaluations%97 == 0 {
			rep.Sample(cfg.name+": "+short, 8)
		}
	}
	// reopen histories on the bolt back-ends (the model continues across the reopen); the
	// contended ones wait lockHold in real time, so they run side by side with the rest
	var reopened []reopenRun
	var rmu sync.Mutex
	var rwg sync.WaitGroup
	for _, cfg := range storeBackends {
		if cfg.kind == "mem" {
			continue
		}
		for _, contended := range []bool{false, true} {
			rwg.Add(1)
			go func(cfg backendCfg, contended bool) {
				defer rwg.Done()
				r := reopenHistory(cfg, root, contended)
				rmu.Lock()
				reopened = append(reopened, r)
				rmu.Unlock()
			}(cfg, contended)
		}
	}
	for _, j := range jobs {
		st, cleanup, err := j.cfg.open(root)
		if err != nil {
			return fmt.Errorf("opening %s: %w", j.cfg.name, err)
		}
		outs := runSeq(j.cfg.ctx(), st, j.ops)
		cleanup()
		record(j.cfg, j.ops, outs, j.from, nil)
	}
	// nested / interleaved cursors: two positions over one store, compared through the two
	// single-cursor projections of each history
	nnest := 25
	if tier == "thorough" {
		nnest = 1500
	}
	for bi, cfg := range storeBackends {
		for _, h := range nestedJobs(cfg, nnest, seed+int64(bi)) {
			st, cleanup, err := cfg.open(root)
			if err != nil {
				return fmt.Errorf("opening %s: %w", cfg.name, err)
			}
			ok := runNested(cfg.ctx(), st, h)
			cleanup()
			if !ok {
				rep.Fail("nested-cursor-refused", cfg.name+": a Cursor call made while another cursor is open did not run", map[string]interface{}{"backend": cfg.name})
				continue
			}
			opsA, outsA, opsB, outsB := h.projections()
			record(cfg, opsA, outsA, "nested-outer", nil)
			record(cfg, opsB, outsB, "nested-inner", nil)
		}
	}
	rwg.Wait()
	sort.Slice(reopened, func(i, j int) bool {
		return reopened[i].cfg.name+reopened[i].from < reopened[j].cfg.name+reopened[j].from
	})
	for _, r := range reopened {
		if r.err != nil {
			rep.Fail("reopen-failed", fmt.Sprintf("%s (%s): the store could not be closed and reopened: %v", r.cfg.name, r.from, r.err), map[string]interface{}{"backend": r.cfg.name, "from": r.from})
			continue
		}
		record(r.cfg, r.ops, r.outs, r.from, r.fails)
	}
	rep.Rule = "one evaluation = one operation sequence on a fresh real back-end (untrimmed bolt, trimmed bolt with and without previous-required context, memdb 10 and 12), result observed after every operation; corpus of known witnesses, all put/del sequences up to a depth over rounds {1,2,4} followed by a full read probe, and random sequences over four round alphabets (gaps, byte-boundary rounds up to 2^64-1, re-puts with new data, deletions, seeks to absent rounds, cursor sessions; mutation inside sessions for memdb), nested and interleaved cursors (a second cursor opened inside the first one's callback, both stepped alternately; each history is compared through its two single-cursor projections), and close/reopen histories on the bolt files (reopened through the daemon's format probe, once while another handle still holds the file lock for 1.5 s); distinct = distinct (back-end, sequence); non-trivial = at least one mutation and one read that returned a beacon"
	if err := rep.Shard(outDir, "cases_store", []string{"From DV Require Import Model.Backends Corr.StoreCorr."}, "scase", "mismatches", lines, descr, 200); err != nil {
		return err
	}
	return rep.Write(outDir)
}
