package engstore

import (
	"context"
	"math/rand"

	"github.com/drand/drand/v2/internal/chain"
)

// Nested / interleaved cursors on one store: cursor A is opened and stepped, cursor B is opened
// inside A's callback, both are stepped alternately, B is closed, A goes on. A cursor is a
// position over the sorted map (Backends.v: cursors are values), so two cursors alive at once are
// two independent positions: the history is compared with the model through its two
// projections, each an ordinary single-cursor sequence (store-level operations belong to both),
// and the monitor is run on each projection.

type nstep struct {
	who byte // 'A', 'B' or 'S' (store-level: get / len / last / put / del)
	op  sop
	out sout
}

type nestedHist struct {
	prefix []sop
	p1     []nstep // A open, before B is opened
	p2     []nstep // both open
	p3     []nstep // B closed, A still open
	preOut []sout
}

func cursorStep(ctx context.Context, c chain.Cursor, o sop) sout {
	switch o.kind {
	case "cfirst":
		return obsBeacon(c.First(ctx))
	case "cnext":
		return obsBeacon(c.Next(ctx))
	case "cseek":
		return obsBeacon(c.Seek(ctx, o.r))
	case "clast":
		return obsBeacon(c.Last(ctx))
	}
	return sout{kind: "other"}
}

// runNested drives the real store; ok is false when a Cursor call did not run its callback.
func runNested(ctx context.Context, st chain.Store, h *nestedHist) (ok bool) {
	h.preOut = runSeq(ctx, st, h.prefix)
	plain := func(o sop) sout { return runSeq(ctx, st, []sop{o})[0] }
	ranA, ranB := false, false
	errA := st.Cursor(ctx, func(ctx context.Context, ca chain.Cursor) error {
		ranA = true
		do := func(steps []nstep, cb chain.Cursor) {
			for i := range steps {
				switch steps[i].who {
				case 'A':
					steps[i].out = cursorStep(ctx, ca, steps[i].op)
				case 'B':
					steps[i].out = cursorStep(ctx, cb, steps[i].op)
				default:
					steps[i].out = plain(steps[i].op)
				}
			}
		}
		do(h.p1, nil)
		errB := st.Cursor(ctx, func(ctx context.Context, cb chain.Cursor) error {
			ranB = true
			do(h.p2, cb)
			return nil
		})
		if errB != nil {
			ranB = false
		}
		do(h.p3, nil)
		return nil
	})
	return ranA && ranB && errA == nil
}

// projections: the two single-cursor sequences the history consists of.
func (h *nestedHist) projections() (opsA []sop, outsA []sout, opsB []sop, outsB []sout) {
	done := sout{kind: "done"}
	opsA = append(opsA, h.prefix...)
	outsA = append(outsA, h.preOut...)
	opsB = append(opsB, h.prefix...)
	outsB = append(outsB, h.preOut...)
	opsA, outsA = append(opsA, sop{kind: "copen"}), append(outsA, done)
	for _, s := range h.p1 {
		if s.who != 'B' {
			opsA, outsA = append(opsA, s.op), append(outsA, s.out)
		}
		if s.who == 'S' { // happened before B was opened: a plain operation for B
			opsB, outsB = append(opsB, s.op), append(outsB, s.out)
		}
	}
	opsB, outsB = append(opsB, sop{kind: "copen"}), append(outsB, done)
	for _, s := range h.p2 {
		if s.who != 'B' {
			opsA, outsA = append(opsA, s.op), append(outsA, s.out)
		}
		if s.who != 'A' {
			opsB, outsB = append(opsB, s.op), append(outsB, s.out)
		}
	}
	opsB, outsB = append(opsB, sop{kind: "cclose"}), append(outsB, done)
	for _, s := range h.p3 {
		if s.who != 'B' {
			opsA, outsA = append(opsA, s.op), append(outsA, s.out)
		}
	}
	opsA, outsA = append(opsA, sop{kind: "cclose"}), append(outsA, done)
	return
}

func nestedCorpus() []*nestedHist {
	s := func(r uint64) []byte { return []byte{0xB0, byte(r)} }
	var pre []sop
	for r := uint64(1); r <= 8; r++ {
		var prev []byte
		if r > 1 {
			prev = s(r - 1)
		}
		pre = append(pre, sop{kind: "put", r: r, prev: prev, sig: s(r)})
	}
	a := func(k string) nstep { return nstep{who: 'A', op: sop{kind: k}} }
	b := func(k string, r uint64) nstep { return nstep{who: 'B', op: sop{kind: k, r: r}} }
	return []*nestedHist{
		// outer: First, Next; nested: Seek 6 and on to the end; outer: Next must be round 3
		{prefix: pre, p1: []nstep{a("cfirst"), a("cnext")},
			p2: []nstep{b("cseek", 6), b("cnext", 0), b("cnext", 0), b("cnext", 0)},
			p3: []nstep{a("cnext"), a("cnext")}},
		// alternating steps
		{prefix: pre, p1: []nstep{a("cfirst")},
			p2: []nstep{b("cfirst", 0), a("cnext"), b("cnext", 0), b("cnext", 0), a("cnext"), b("clast", 0), a("cnext"), b("cnext", 0), a("cnext")},
			p3: []nstep{a("cnext"), a("cnext"), a("cnext"), a("cnext")}},
	}
}

func (g *seqGen) nested(cfg backendCfg) *nestedHist {
	rng := g.rng
	al := alphabets[rng.Intn(2)]
	ref := map[uint64][]byte{}
	h := &nestedHist{}
	start := al[rng.Intn(len(al))]
	for j := 0; j < 3+rng.Intn(9); j++ {
		r := start + uint64(j)
		p, s := g.data(r, ref)
		h.prefix = append(h.prefix, sop{kind: "put", r: r, prev: p, sig: s})
	}
	for j := 0; j < rng.Intn(4); j++ {
		if rng.Intn(2) == 0 {
			h.prefix = append(h.prefix, sop{kind: "del", r: al[rng.Intn(len(al))]})
		} else {
			r := al[rng.Intn(len(al))]
			p, s := g.data(r, ref)
			h.prefix = append(h.prefix, sop{kind: "put", r: r, prev: p, sig: s})
		}
	}
	pick := func() uint64 {
		if rng.Intn(2) == 0 {
			return start + uint64(rng.Intn(10))
		}
		return al[rng.Intn(len(al))]
	}
	step := func(who byte) nstep {
		switch x := rng.Intn(100); {
		case x < 15:
			return nstep{who: who, op: sop{kind: "cfirst"}}
		case x < 70:
			return nstep{who: who, op: sop{kind: "cnext"}}
		case x < 92:
			return nstep{who: who, op: sop{kind: "cseek", r: pick()}}
		}
		return nstep{who: who, op: sop{kind: "clast"}}
	}
	store := func() nstep {
		if cfg.mutable && rng.Intn(3) == 0 {
			if rng.Intn(2) == 0 {
				return nstep{who: 'S', op: sop{kind: "del", r: pick()}}
			}
			r := pick()
			p, s := g.data(r, ref)
			return nstep{who: 'S', op: sop{kind: "put", r: r, prev: p, sig: s}}
		}
		return nstep{who: 'S', op: sop{kind: []string{"get", "len", "last"}[rng.Intn(3)], r: pick()}}
	}
	h.p1 = append(h.p1, nstep{who: 'A', op: sop{kind: "cfirst"}})
	for j := 0; j < rng.Intn(4); j++ {
		h.p1 = append(h.p1, step('A'))
	}
	for j := 0; j < 3+rng.Intn(10); j++ {
		switch x := rng.Intn(20); {
		case x < 9:
			h.p2 = append(h.p2, step('B'))
		case x < 18:
			h.p2 = append(h.p2, step('A'))
		default:
			h.p2 = append(h.p2, store())
		}
	}
	for j := 0; j < 1+rng.Intn(5); j++ {
		h.p3 = append(h.p3, step('A'))
	}
	return h
}

// nestedJobs: the corpus, then n random histories.
func nestedJobs(cfg backendCfg, n int, seed int64) []*nestedHist {
	g := &seqGen{rng: rand.New(rand.NewSource(seed ^ 0x6e657374))}
	hs := nestedCorpus()
	for i := 0; i < n; i++ {
		hs = append(hs, g.nested(cfg))
	}
	return hs
}
