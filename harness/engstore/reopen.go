package engstore

import (
	"context"
	"fmt"
	"os"
	"sync"
	"time"

	"github.com/drand/drand/v2/internal/chain"
	"github.com/drand/drand/v2/internal/chain/boltdb"
)

// Reopening an existing bolt file. A daemon start goes through boltdb.NewBoltStore WITHOUT the
// IsATest marker, i.e. through the probe that decides from the first stored value whether the
// file is in the old full-beacon format or in the signature-only format. The engines create
// untrimmed files with IsATest (the only way to get one from a fresh directory) and reopen
// them the way a daemon does. Model side (Backends.v / StoreStack.v): closing and reopening a
// store is the identity on the abstract map, so the case files simply continue the operation
// sequence across the reopen (stack: ERestart).
//
// lockHold: the one real-time element of the engines. In the contended scenarios another
// handle keeps bbolt's file lock for this long after the old store was closed (an old daemon
// still shutting down, a CLI tool on the db, a follow store not closed yet); the reopen must
// simply wait for it.
const lockHold = 1500 * time.Millisecond

// reopenCtx is the context of a daemon start: previous-required as configured, no test marker.
func reopenCtx(rp bool) context.Context {
	ctx := context.Background()
	if rp {
		ctx = chain.SetPreviousRequiredOnContext(ctx)
	}
	return ctx
}

// holdLock opens a second handle on the bolt file in dir (which takes the file lock) and
// releases it after d. The returned function waits for the release.
func holdLock(dir string, d time.Duration) (func(), error) {
	holder, err := boltdb.NewBoltStore(boltdb.IsATest(context.Background()), quietLogger(), dir)
	if err != nil {
		return nil, err
	}
	var wg sync.WaitGroup
	wg.Add(1)
	go func() {
		defer wg.Done()
		time.Sleep(d)
		holder.Close()
	}()
	return wg.Wait, nil
}

// reopenRun is one store-level reopen history: ops1 on a fresh store, close, reopen as a
// daemon does (optionally while the file lock is still held), ops2 on the reopened store.
type reopenRun struct {
	cfg   backendCfg
	from  string
	ops   []sop
	outs  []sout
	fails [][2]string // class, what
	err   error
}

func reopenHistory(cfg backendCfg, root string, contended bool) (res reopenRun) {
	res.cfg, res.from = cfg, "reopen"
	if contended {
		res.from = "reopen-contended"
	}
	s := func(r uint64) []byte { return []byte{0xE0 | byte(r), 0x5A, byte(r)} }
	const k = 4
	rounds := []uint64{}
	var ops1 []sop
	for r := uint64(0); r <= k; r++ {
		var prev []byte
		if r > 0 {
			prev = s(r - 1)
		}
		ops1 = append(ops1, sop{kind: "put", r: r, prev: prev, sig: s(r)})
		rounds = append(rounds, r)
	}
	reads := probe(append(rounds, k+1))
	ops1 = append(ops1, reads...)
	ops2 := append(append([]sop{}, reads...),
		sop{kind: "put", r: k + 1, prev: s(k), sig: s(k + 1)}, sop{kind: "get", r: k + 1}, sop{kind: "len"}, sop{kind: "last"},
		sop{kind: "copen"}, sop{kind: "cseek", r: k}, sop{kind: "cnext"}, sop{kind: "cnext"}, sop{kind: "cclose"})
	res.ops = append(append([]sop{}, ops1...), ops2...)

	dir, err := os.MkdirTemp(root, "db")
	if err != nil {
		res.err = err
		return res
	}
	defer os.RemoveAll(dir)
	st, err := boltdb.NewBoltStore(cfg.ctx(), quietLogger(), dir)
	if err != nil {
		res.err = err
		return res
	}
	outs1 := runSeq(cfg.ctx(), st, ops1)
	if err := st.Close(); err != nil {
		res.err = err
		return res
	}
	wait := func() {}
	if contended {
		if wait, err = holdLock(dir, lockHold); err != nil {
			res.err = err
			return res
		}
	}
	ctx2 := reopenCtx(cfg.rp)
	st2, err := boltdb.NewBoltStore(ctx2, quietLogger(), dir)
	wait()
	if err != nil {
		res.err = err
		return res
	}
	outs2 := runSeq(ctx2, st2, ops2)
	st2.Close()
	res.outs = append(append([]sout{}, outs1...), outs2...)
	// the format of an existing database never changes on reopen: every read gives back,
	// byte for byte, what it gave before the store was closed
	before, after := outs1[len(ops1)-len(reads):], outs2[:len(reads)]
	for i := range reads {
		a, b := before[i], after[i]
		if a.kind != b.kind || a.n != b.n || (a.kind == "beacon" && !sameBeacon(a, b)) {
			res.fails = append(res.fails, [2]string{"format-misdetected-on-reopen",
				fmt.Sprintf("%s (%s): read %d %s returned %s before the store was closed and %s after it was reopened", cfg.name, res.from, i, reads[i].short(), a.short(), b.short())})
			break
		}
	}
	return res
}
