package engstore

import (
	"bytes"
	"context"
	"errors"
	"fmt"
	"math/rand"
	"os"
	"strings"
	"sync"
	"time"

	clock "github.com/jonboulle/clockwork"

	"github.com/drand/drand/v2/common"
	"github.com/drand/drand/v2/common/key"
	"github.com/drand/drand/v2/crypto"
	"github.com/drand/drand/v2/internal/chain"
	"github.com/drand/drand/v2/internal/chain/beacon"
	"github.com/drand/drand/v2/internal/chain/boltdb"
	chainerrors "github.com/drand/drand/v2/internal/chain/errors"
	"github.com/drand/drand/v2/internal/chain/memdb"
	"github.com/drand/drand/v2/zzverif/emit"
)

// ---------- configurations ----------

type stackCfg struct {
	name    string
	kind    string // boltU boltT mem
	coqKind string
	cap     int
	chained bool
}

var stackCfgs = func() []stackCfg {
	var cs []stackCfg
	for _, ch := range []bool{true, false} {
		n := map[bool]string{true: "chained", false: "unchained"}[ch]
		cs = append(cs,
			stackCfg{"boltU/" + n, "boltU", "KBoltU", 0, ch},
			stackCfg{"boltT/" + n, "boltT", "KBoltT", 0, ch},
			stackCfg{"memdb10/" + n, "mem", "(KMem 10)", 10, ch},
			stackCfg{"memdb12/" + n, "mem", "(KMem 12)", 12, ch})
	}
	return cs
}()

func (c stackCfg) ctx() context.Context {
	ctx := context.Background()
	if c.chained { // core.createDBStore: chained scheme => previous required on the context
		ctx = chain.SetPreviousRequiredOnContext(ctx)
	}
	if c.kind == "boltU" {
		ctx = boltdb.IsATest(ctx)
	}
	return ctx
}

func (c stackCfg) scheme() *crypto.Scheme {
	if c.chained {
		return crypto.NewPedersenBLSChained()
	}
	return crypto.NewPedersenBLSUnchained()
}

var genesisSeed = []byte{0xC7, 0x5E, 0xED}

// ---------- the real stack ----------

type realStack struct {
	cfg     stackCfg
	dir     string
	created bool // the bolt file exists: later builds are daemon-style reopens
	base    chain.Store
	mem     *memdb.Store
	top     beacon.CallbackStore
	mu      sync.Mutex
	cbs     []sout // beacons delivered to the registered callback
	group   *key.Group
	wrap    func(chain.Store) chain.Store // racing-writers scenario: a gate between the wrappers and the base store
}

func newRealStack(cfg stackCfg, root string) (*realStack, error) {
	rs := &realStack{cfg: cfg, group: &key.Group{Period: 30 * time.Second, GenesisTime: 1700000000, ID: "default", Threshold: 1}}
	if cfg.kind == "mem" {
		rs.mem = memdb.NewStore(cfg.cap)
	} else {
		d, err := os.MkdirTemp(root, "db")
		if err != nil {
			return nil, err
		}
		rs.dir = d
	}
	if err := rs.build(); err != nil {
		return nil, err
	}
	return rs, nil
}

// build opens the base store, re-puts the genesis beacon on it as beacon.NewHandler does, and
// wraps it exactly as newChainStore does.
func (rs *realStack) build() error {
	ctx, l := rs.cfg.ctx(), quietLogger()
	if rs.cfg.kind == "mem" {
		rs.base = rs.mem
	} else {
		// the file is created with the configuration's context (IsATest is the only way to
		// get an untrimmed file from a fresh directory); every later start reopens it the way
		// a daemon does, through NewBoltStore's format probe
		octx := ctx
		if rs.created {
			octx = reopenCtx(rs.cfg.chained)
		}
		st, err := boltdb.NewBoltStore(octx, l, rs.dir)
		if err != nil {
			return err
		}
		rs.base = st
		rs.created = true
	}
	if err := rs.base.Put(ctx, chain.GenesisBeacon(cp(genesisSeed))); err != nil {
		return err
	}
	var under chain.Store = rs.base
	if rs.wrap != nil {
		under = rs.wrap(rs.base)
	}
	ds := beacon.VerifStackNewDiscrepancyStore(under, l, rs.group, clock.NewFakeClock())
	ss, err := beacon.NewSchemeStore(ctx, ds, rs.cfg.scheme())
	if err != nil {
		return err
	}
	as, err := beacon.VerifStackNewAppendStore(ctx, ss)
	if err != nil {
		return err
	}
	rs.top = beacon.NewCallbackStore(l, as)
	rs.top.AddCallback("verif", func(b *common.Beacon, closed bool) {
		if closed || b == nil {
			return
		}
		rs.mu.Lock()
		rs.cbs = append(rs.cbs, sout{kind: "beacon", r: b.Round, prev: cp(b.PreviousSig), sig: cp(b.Signature)})
		rs.mu.Unlock()
	})
	return nil
}

func (rs *realStack) waitCallbacks(n int) int {
	deadline := time.Now().Add(3 * time.Second)
	for {
		rs.mu.Lock()
		k := len(rs.cbs)
		rs.mu.Unlock()
		if k >= n || time.Now().After(deadline) {
			return k
		}
		time.Sleep(200 * time.Microsecond)
	}
}

// restart stops the stack and builds it again; contended: another handle still holds the
// file lock of the bolt file for lockHold when the new store is opened.
func (rs *realStack) restart(expectCbs int, contended bool) error {
	rs.waitCallbacks(expectCbs) // let the worker drain before the store is stopped
	top := rs.top
	rs.top = nil
	top.RemoveCallback("verif")
	if err := top.Close(); err != nil {
		return err
	}
	wait := func() {}
	if contended && rs.dir != "" {
		w, err := holdLock(rs.dir, lockHold)
		if err != nil {
			return err
		}
		wait = w
	}
	err := rs.build()
	wait()
	return err
}

func (rs *realStack) close() {
	if rs.top != nil {
		rs.top.RemoveCallback("verif")
		rs.top.Close()
	} else if rs.base != nil && rs.cfg.kind != "mem" {
		rs.base.Close() // a rebuild failed half-way: the reopened bolt file is still open
	}
	if rs.dir != "" {
		os.RemoveAll(rs.dir)
	}
}

func (rs *realStack) scan() ([]sout, sout) {
	ctx := rs.cfg.ctx()
	var sc []sout
	_ = rs.top.Cursor(ctx, func(ctx context.Context, c chain.Cursor) error {
		for b, err := c.First(ctx); err == nil; b, err = c.Next(ctx) {
			sc = append(sc, obsBeacon(b, nil))
		}
		return nil
	})
	return sc, obsBeacon(rs.top.Last(ctx))
}

// ---------- events ----------

type sev struct {
	kind      string // put try restart
	r         uint64
	prev, sig []byte
	lr        uint64 // tryAppend: the aggregator's last beacon
	lprev     []byte
	lsig      []byte
	cancelled bool
	what      string // generator intent, for the distribution
}

type sobs struct {
	res  string // stored already cancelled other | true false | restarted
	scan []sout
	last sout
}

func errClass(err error) string {
	if errors.Is(err, chainerrors.ErrNoBeaconStored) {
		return "ErrNoBeaconStored"
	}
	return "error"
}

func classify(err error) string {
	switch {
	case err == nil:
		return "stored"
	case errors.Is(err, beacon.ErrBeaconAlreadyStored):
		return "already"
	case errors.Is(err, context.Canceled):
		return "cancelled"
	}
	return "other"
}

func (rs *realStack) apply(e sev, expectCbs int) (string, error) {
	ctx := rs.cfg.ctx()
	if e.cancelled {
		c, cancel := context.WithCancel(ctx)
		cancel()
		ctx = c
	}
	switch e.kind {
	case "put":
		return classify(rs.top.Put(ctx, &common.Beacon{Round: e.r, PreviousSig: cp(e.prev), Signature: cp(e.sig)})), nil
	case "try":
		ok := beacon.VerifStackTryAppend(ctx, quietLogger(), rs.top,
			&common.Beacon{Round: e.lr, PreviousSig: cp(e.lprev), Signature: cp(e.lsig)},
			&common.Beacon{Round: e.r, PreviousSig: cp(e.prev), Signature: cp(e.sig)})
		return fmt.Sprint(ok), nil
	case "restart":
		return "restarted", rs.restart(expectCbs, false)
	case "restart-contended":
		return "restarted", rs.restart(expectCbs, true)
	}
	return "", fmt.Errorf("unknown event %q", e.kind)
}

// ---------- Coq rendering ----------

func (e sev) coq() string {
	switch e.kind {
	case "put":
		return fmt.Sprintf("EPut %s %s", coqBeacon(e.r, e.prev, e.sig), emit.Bool(e.cancelled))
	case "try":
		return fmt.Sprintf("ETry %s %s %s", coqBeacon(e.lr, e.lprev, e.lsig), coqBeacon(e.r, e.prev, e.sig), emit.Bool(e.cancelled))
	}
	return "ERestart"
}

func (o sobs) coq() string {
	var res string
	switch o.res {
	case "stored":
		res = "OPut CStored"
	case "already":
		res = "OPut CAlready"
	case "cancelled":
		res = "OPut CCancelled"
	case "other":
		res = "OPut COther"
	case "true", "false":
		res = "OTry " + o.res
	default:
		res = "ORestarted"
	}
	sc := make([]string, len(o.scan))
	for i, b := range o.scan {
		sc[i] = coqBeacon(b.r, b.prev, b.sig)
	}
	last := "None"
	if o.last.kind == "beacon" {
		last = "(Some " + coqBeacon(o.last.r, o.last.prev, o.last.sig) + ")"
	}
	return fmt.Sprintf("(%s, (%s, %s))", res, emit.List(sc), last)
}

func (e sev) short() string {
	c := ""
	if e.cancelled {
		c = ",cancelled"
	}
	switch e.kind {
	case "put":
		return fmt.Sprintf("put{%d,prev=%x,sig=%x%s}", e.r, e.prev, e.sig, c)
	case "try":
		return fmt.Sprintf("try(last=%d,{%d,prev=%x,sig=%x}%s)", e.lr, e.r, e.prev, e.sig, c)
	}
	return e.kind
}

// ---------- monitor M: contiguous, linked, never rewritten, written once ----------

type stackMonitor struct {
	cfg     stackCfg
	history map[uint64]sout // first value ever seen for a round
	head    uint64
	prev    []sout // previous scan
	stored  int    // successful writes through the stack
	fail    func(class, what string)
}

func (m *stackMonitor) check(i int, e sev, o sobs) {
	sc := o.scan
	where := fmt.Sprintf("event %d %s -> %s", i, e.short(), o.res)
	if e.kind == "restart" || e.kind == "restart-contended" {
		// stop/start: every round reads back byte-identical to what was stored before
		same := len(sc) == len(m.prev)
		for j := 0; same && j < len(sc); j++ {
			same = sameBeacon(sc[j], m.prev[j])
		}
		if !same {
			a, b := "nothing", "nothing"
			if len(m.prev) > 0 {
				a = m.prev[len(m.prev)-1].short()
			}
			if len(sc) > 0 {
				b = sc[len(sc)-1].short()
			}
			m.fail("stored-rounds-differ-after-restart", fmt.Sprintf("%s: %d rounds ending in %s before the restart, %d rounds ending in %s after it", where, len(m.prev), a, len(sc), b))
		}
	}
	if len(sc) == 0 || o.last.kind != "beacon" {
		m.fail("empty", where+": scan or Last is empty")
		return
	}
	// gap-free
	for j := 1; j < len(sc); j++ {
		if sc[j].r != sc[j-1].r+1 {
			m.fail("gap", fmt.Sprintf("%s: scan jumps from round %d to %d", where, sc[j-1].r, sc[j].r))
		}
	}
	if !sameBeacon(sc[len(sc)-1], o.last) {
		m.fail("last", fmt.Sprintf("%s: Last %s is not the end of the scan %s", where, o.last.short(), sc[len(sc)-1].short()))
	}
	if m.cfg.kind != "mem" {
		if sc[0].r != 0 {
			m.fail("gap", fmt.Sprintf("%s: persisted chain starts at round %d", where, sc[0].r))
		}
	} else if len(sc) > m.cfg.cap || (sc[0].r != 0 && len(sc) != m.cfg.cap) {
		m.fail("gap", fmt.Sprintf("%s: ring holds rounds %d..%d (%d entries, capacity %d)", where, sc[0].r, sc[len(sc)-1].r, len(sc), m.cfg.cap))
	}
	// head never decreases
	if o.last.r < m.head {
		m.fail("head-decreased", fmt.Sprintf("%s: head went from %d to %d", where, m.head, o.last.r))
	}
	// never rewritten
	for _, b := range sc {
		if h, ok := m.history[b.r]; ok {
			if !sameBeacon(h, b) {
				m.fail("rewrite", fmt.Sprintf("%s: round %d was %s and is now %s", where, b.r, h.short(), b.short()))
			}
		} else {
			m.history[b.r] = b
		}
	}
	// linked / stripped
	for _, b := range sc {
		if b.r == 0 {
			continue
		}
		if m.cfg.chained {
			if p, ok := m.history[b.r-1]; ok && !bytes.Equal(b.prev, p.sig) {
				m.fail("unlinked", fmt.Sprintf("%s: round %d has previous signature %x, round %d has signature %x", where, b.r, b.prev, b.r-1, p.sig))
			}
		} else if len(b.prev) != 0 {
			m.fail("unstripped", fmt.Sprintf("%s: unchained round %d carries previous signature %x", where, b.r, b.prev))
		}
	}
	// result vs effect
	grew := o.last.r != m.head
	switch {
	case o.res == "stored":
		m.stored++
		if o.last.r != m.head+1 || o.last.r != e.r || !bytes.Equal(o.last.sig, e.sig) {
			m.fail("stored-mismatch", fmt.Sprintf("%s: reported stored, head %d -> %s", where, m.head, o.last.short()))
		}
	case o.res == "true":
		if grew {
			m.stored++
		}
		if o.last.r != e.r || (grew && o.last.r != m.head+1) || !bytes.Equal(o.last.sig, e.sig) {
			m.fail("stored-mismatch", fmt.Sprintf("%s: tryAppend true, head %d -> %s", where, m.head, o.last.short()))
		}
	case o.res == "already":
		// already-stored may only be said of a beacon identical to the stored head
		if grew || e.r != o.last.r || !bytes.Equal(e.sig, o.last.sig) {
			m.fail("already-but-different", fmt.Sprintf("%s: reported already stored, but the head is %s", where, o.last.short()))
		}
	default:
		if grew || len(sc) != len(m.prev) {
			m.fail("changed-on-error", fmt.Sprintf("%s: the store changed although nothing was stored (head %d -> %d)", where, m.head, o.last.r))
		}
	}
	m.head, m.prev = o.last.r, sc
}

func (m *stackMonitor) callbacks(cbs []sout) {
	if len(cbs) != m.stored {
		m.fail("callback-count", fmt.Sprintf("%d beacons written through the stack, %d callback deliveries", m.stored, len(cbs)))
	}
	for j, b := range cbs {
		if j > 0 && b.r != cbs[j-1].r+1 {
			m.fail("callback-order", fmt.Sprintf("callback delivered round %d after round %d", b.r, cbs[j-1].r))
		}
		if h, ok := m.history[b.r]; ok && (h.r != b.r || !bytes.Equal(h.sig, b.sig)) {
			m.fail("callback-value", fmt.Sprintf("callback delivered %s, stored %s", b.short(), h.short()))
		}
	}
}

// ---------- generator (adaptive: looks at the real head to aim at the interesting cases) ----------

type stackGen struct {
	rng *rand.Rand
	ctr int
}

func (g *stackGen) freshSig(r uint64) []byte {
	g.ctr++
	return []byte{0x80 | byte(r&0x3f), byte(g.ctr), byte(g.ctr >> 8)}
}

// next picks an event given the current head beacon (as returned by Last) and the one before.
func (g *stackGen) next(cfg stackCfg, head, before sout, appendHeavy bool) sev {
	rng := g.rng
	junk := func() []byte { return []byte{0x41, byte(rng.Intn(256))} }
	goodPrev := func() []byte {
		if cfg.chained {
			return cp(head.sig)
		}
		switch rng.Intn(3) {
		case 0:
			return nil
		case 1:
			return cp(head.sig)
		}
		return junk()
	}
	e := sev{kind: "put"}
	x := rng.Intn(100)
	if appendHeavy && x >= 20 {
		x = rng.Intn(45)
	}
	switch {
	case x < 45:
		e.what, e.r, e.prev, e.sig = "next", head.r+1, goodPrev(), g.freshSig(head.r+1)
	case x < 55:
		e.what, e.r, e.prev, e.sig = "dup-same", head.r, cp(head.prev), cp(head.sig)
	case x < 60:
		e.what, e.r, e.prev, e.sig = "dup-prev-diff", head.r, junk(), cp(head.sig)
	case x < 65:
		e.what, e.r, e.prev, e.sig = "dup-sig-diff", head.r, cp(head.prev), g.freshSig(head.r)
	case x < 72:
		r := head.r + 2 + uint64(rng.Intn(4))
		e.what, e.r, e.prev, e.sig = "gap", r, goodPrev(), g.freshSig(r)
	case x < 79:
		r := uint64(0)
		if head.r > 0 {
			r = uint64(rng.Int63n(int64(head.r)))
		}
		e.what, e.r, e.prev, e.sig = "old", r, junk(), g.freshSig(r)
		if rng.Intn(2) == 0 && r+1 == head.r && before.kind == "beacon" {
			e.prev, e.sig = cp(before.prev), cp(before.sig) // an exact old beacon
		}
	case x < 85:
		e.what, e.r, e.prev, e.sig = "next-wrong-prev", head.r+1, junk(), g.freshSig(head.r+1)
	case x < 91:
		e.what, e.r, e.prev, e.sig, e.cancelled = "next-cancelled", head.r+1, goodPrev(), g.freshSig(head.r+1), true
	default:
		return sev{kind: "restart", what: "restart"}
	}
	if rng.Intn(2) == 0 { // the aggregation path
		e.kind = "try"
		switch y := rng.Intn(10); {
		case y < 6: // the aggregator's view is the real head
			e.lr, e.lprev, e.lsig = head.r, cp(head.prev), cp(head.sig)
		case y < 8 && e.r > 0: // whatever makes the quick check pass
			e.lr, e.lsig = e.r-1, junk()
		default: // a stale view
			e.lr, e.lprev, e.lsig = before.r, cp(before.prev), cp(before.sig)
		}
		e.what = "try/" + e.what
	} else {
		e.what = "put/" + e.what
	}
	return e
}

func stackCorpus() [][]sev {
	s := func(r, v byte) []byte { return []byte{0xC0 | r, v} }
	g := genesisSeed
	return [][]sev{
		// design example: appendStore must refuse round > last+1
		{{kind: "put", r: 1, prev: g, sig: s(1, 1)}, {kind: "put", r: 3, prev: s(1, 1), sig: s(3, 1)}, {kind: "put", r: 2, prev: s(1, 1), sig: s(2, 1)}},
		// both writers deliver the same round: one stores, the other is told already-stored
		{{kind: "put", r: 1, prev: g, sig: s(1, 1)}, {kind: "try", lr: 0, lsig: g, r: 1, prev: g, sig: s(1, 1)}, {kind: "put", r: 1, prev: g, sig: s(1, 1)},
			{kind: "try", lr: 0, lsig: g, r: 1, prev: g, sig: s(1, 2)}, {kind: "put", r: 1, prev: s(9, 9), sig: s(1, 1)}},
		// unchained aliasing: last.PreviousSig is stripped, so a re-put that still carries a
		// previous signature is "different previous signature", not already-stored
		{{kind: "put", r: 1, prev: s(7, 7), sig: s(1, 1)}, {kind: "put", r: 1, prev: s(7, 7), sig: s(1, 1)}, {kind: "put", r: 1, prev: nil, sig: s(1, 1)}, {kind: "restart"},
			{kind: "put", r: 1, prev: s(7, 7), sig: s(1, 1)}, {kind: "put", r: 1, prev: []byte{}, sig: s(1, 1)}},
		// wrong previous signature, cancelled context, restart, continue
		{{kind: "put", r: 1, prev: s(5, 5), sig: s(1, 1)}, {kind: "put", r: 1, prev: g, sig: s(1, 2), cancelled: true}, {kind: "put", r: 1, prev: g, sig: s(1, 3)}, {kind: "restart"},
			{kind: "put", r: 2, prev: s(1, 3), sig: s(2, 1)}, {kind: "put", r: 2, prev: s(1, 2), sig: s(2, 1)}, {kind: "put", r: 0, prev: nil, sig: g}, {kind: "put", r: 0, prev: nil, sig: s(0, 1)}},
	}
}

// contendedRestart: chain 0..5 through the stack (both writers), a restart whose reopen has to
// wait for the file lock, every round read back (the scan after each event), the next rounds
// appended, a plain restart, one more round.
func contendedRestart() []sev {
	s := func(r byte) []byte { return []byte{0xE0 | r, 0xA5, r} }
	g := genesisSeed
	put := func(r byte) sev {
		prev := g
		if r > 1 {
			prev = s(r - 1)
		}
		return sev{kind: "put", r: uint64(r), prev: prev, sig: s(r)}
	}
	try := func(r byte) sev {
		e := put(r)
		e.kind, e.lr, e.lsig = "try", uint64(r-1), s(r-1)
		return e
	}
	return []sev{put(1), put(2), try(3), put(4), try(5), {kind: "restart-contended"}, put(6), put(6), try(7), {kind: "restart"}, put(8)}
}

// RunStack is the engine "stack" (C02).
func RunStack(outDir string, seed int64, tier string) error {
	rep := emit.NewReport("stack", seed, tier)
	root, err := os.MkdirTemp(tmpBase(), "zzv-stack-")
	if err != nil {
		return err
	}
	defer os.RemoveAll(root)
	g := &stackGen{rng: rand.New(rand.NewSource(seed))}
	nseq, nlen := 16, 20
	if tier == "thorough" {
		nseq, nlen = 500, 40
	}
	var lines, descr []string
	seen := map[string]bool{}

	var mu sync.Mutex // guards rep, lines, descr, seen (the contended restarts run side by side)
	type caseOut struct{ line, descr string }
	late := make([]*caseOut, len(stackCfgs)) // cases of the side-by-side runs, appended in order at the end
	runOne := func(cfg stackCfg, fixed []sev, n int, appendHeavy bool, from string, slot int) error {
		rs, err := newRealStack(cfg, root)
		if err != nil {
			return fmt.Errorf("building the stack on %s: %w", cfg.name, err)
		}
		defer rs.close()
		failed := map[string]bool{}
		var trace, counts []string
		mon := &stackMonitor{cfg: cfg, history: map[uint64]sout{}}
		mon.fail = func(class, what string) {
			if !failed[class] {
				failed[class] = true
				mu.Lock()
				rep.Fail(class, what, map[string]interface{}{"config": cfg.name, "from": from, "events": strings.Join(trace, "; ")})
				mu.Unlock()
			}
		}
		sc, last := rs.scan()
		mon.prev, mon.head = sc, last.r
		for _, b := range sc {
			mon.history[b.r] = b
		}
		before := last
		var evs, obs []string
		nontrivial := false
		for i := 0; i < n; i++ {
			var e sev
			if fixed != nil {
				e = fixed[i]
			} else {
				e = g.next(cfg, last, before, appendHeavy)
			}
			res, err := rs.apply(e, mon.stored)
			if err != nil {
				// the stack cannot be rebuilt from what is in the store (Last fails): the
				// property is already broken; report and end this sequence
				trace = append(trace, e.short()+"->FAILED")
				mon.fail("restart-failed", fmt.Sprintf("event %d %s: the wrapper stack cannot be rebuilt on the stored chain: %v", i, e.short(), errClass(err)))
				break
			}
			sc, nl := rs.scan()
			o := sobs{res: res, scan: sc, last: nl}
			trace = append(trace, e.short()+"->"+res)
			mon.check(i, e, o)
			if nl.r != last.r {
				before = last
				nontrivial = true
			}
			last = nl
			evs = append(evs, e.coq())
			obs = append(obs, o.coq())
			what := e.what
			if what == "" {
				what = e.kind
			}
			counts = append(counts, cfg.name+"/"+from, "event/"+what, "result/"+res)
		}
		mon.callbacks(rs.cbsSnapshot(mon.stored))
		mu.Lock()
		defer mu.Unlock()
		for _, c := range counts {
			rep.Count(c)
		}
		rep.Evaluations++
		key := cfg.name + "|" + strings.Join(trace, ";")
		if !seen[key] {
			seen[key] = true
			if nontrivial {
				rep.DistinctNontrivial++
			}
		}
		co := &caseOut{fmt.Sprintf("KCase %s %s %s %s %s", cfg.coqKind, emit.Bool(cfg.chained), emit.Bytes(genesisSeed), emit.List(evs), emit.List(obs)),
			cfg.name + " (" + from + "): " + strings.Join(trace, "; ")}
		if slot >= 0 {
			late[slot] = co
			return nil
		}
		lines = append(lines, co.line)
		descr = append(descr, co.descr)
		rep.Sample(cfg.name+": "+strings.Join(trace, "; "), 8)
		return nil
	}

	// restart histories with the file lock still held when the new store is opened: they wait
	// lockHold in real time, so they run side by side with everything else and are recorded
	// after it (fixed sequences: the generator is not touched)
	var cwg sync.WaitGroup
	cerrs := make([]error, len(stackCfgs))
	for i, cfg := range stackCfgs {
		if cfg.kind == "mem" {
			continue
		}
		cwg.Add(1)
		go func(i int, cfg stackCfg) {
			defer cwg.Done()
			c := contendedRestart()
			cerrs[i] = runOne(cfg, c, len(c), false, "restart-contended", i)
		}(i, cfg)
	}

	for _, cfg := range stackCfgs {
		for _, c := range stackCorpus() {
			if err := runOne(cfg, c, len(c), false, "corpus", -1); err != nil {
				return err
			}
		}
	}
	for _, cfg := range stackCfgs {
		for i := 0; i < nseq; i++ {
			heavy := i%3 == 0
			if err := runOne(cfg, nil, nlen+g.rng.Intn(8), heavy, map[bool]string{true: "random-append-heavy", false: "random"}[heavy], -1); err != nil {
				return err
			}
		}
	}
	for _, cfg := range stackCfgs {
		if err := racingWriters(rep, cfg, root); err != nil {
			return err
		}
	}
	cwg.Wait()
	for _, err := range cerrs {
		if err != nil {
			return err
		}
	}
	for _, co := range late {
		if co != nil {
			lines = append(lines, co.line)
			descr = append(descr, co.descr)
		}
	}
	rep.Extra["resync_raw_put"] = resyncObservation(root)
	rep.Rule = "one evaluation = one event sequence on the real stack NewCallbackStore(newAppendStore(NewSchemeStore(newDiscrepancyStore(base)))) over untrimmed bolt, trimmed bolt, memdb 10 and 12, chained and unchained scheme/context; events chosen by looking at the real head: next round (right / wrong / arbitrary previous signature), duplicates (same, other signature, other previous signature), gaps, old rounds, cancelled contexts, through Put or through chainStore.tryAppend with a fresh or stale view, and close/reopen restarts (the bolt file is reopened through the daemon's format probe; once per bolt configuration while another handle still holds the file lock for 1.5 s); per configuration one racing-writers history (two Puts of different beacons for round head+1 overlapping while the first back-end write is in progress: monitor only, at most one accepted, one back-end write, one callback, stored = accepted); after every event the result class, a full cursor scan and Last are recorded; distinct = distinct (configuration, event trace); non-trivial = the head moved at least once"
	if err := rep.Shard(outDir, "cases_stack", []string{"From DV Require Import Model.Backends Model.StoreStack Corr.StackCorr."}, "kcase", "mismatches", lines, descr, 12); err != nil {
		return err
	}
	return rep.Write(outDir)
}

func (rs *realStack) cbsSnapshot(expect int) []sout {
	rs.waitCallbacks(expect)
	rs.mu.Lock()
	defer rs.mu.Unlock()
	return append([]sout{}, rs.cbs...)
}

// resyncObservation replays F14 (DESIGN.md section 6) on the raw base store, the path
// SyncManager.ReSync uses (insecureStore.Put): chain 0..3 written through the stack, then round
// 2 re-put directly with the same signature and a chosen previous signature. Reported as an
// observation (not a monitor failure): which configurations then serve the chosen value.
func resyncObservation(root string) map[string]string {
	res := map[string]string{}
	for _, cfg := range stackCfgs {
		rs, err := newRealStack(cfg, root)
		if err != nil {
			res[cfg.name] = "error: " + err.Error()
			continue
		}
		ctx := cfg.ctx()
		prev := cp(genesisSeed)
		var sig2 []byte
		for r := uint64(1); r <= 3; r++ {
			sig := []byte{0xD0, byte(r)}
			if err := rs.top.Put(ctx, &common.Beacon{Round: r, PreviousSig: cp(prev), Signature: cp(sig)}); err != nil {
				res[cfg.name] = "error: " + err.Error()
			}
			if r == 2 {
				sig2 = sig
			}
			prev = sig
		}
		junk := []byte{0x66, 0x66}
		if err := rs.base.Put(ctx, &common.Beacon{Round: 2, PreviousSig: cp(junk), Signature: cp(sig2)}); err != nil {
			res[cfg.name] = "raw put failed: " + err.Error()
			rs.close()
			continue
		}
		b, err := rs.top.Get(ctx, 2)
		switch {
		case err != nil:
			res[cfg.name] = "get failed"
		case bytes.Equal(b.PreviousSig, junk):
			res[cfg.name] = "serves the peer-chosen previous signature"
		default:
			res[cfg.name] = fmt.Sprintf("unchanged (previous signature %x)", []byte(b.PreviousSig))
		}
		rs.close()
	}
	return res
}

// ---------- racing writers (the aggregator and a sync both storing round head+1) ----------

// gatedStore sits between the wrapper stack and the base store: the first Put of the gated
// round announces itself and waits for the release; every Put is counted per round.
type gatedStore struct {
	chain.Store
	mu      sync.Mutex
	round   uint64
	gated   bool
	puts    map[uint64]int
	arrived chan struct{}
	release chan struct{}
}

func (g *gatedStore) Put(ctx context.Context, b *common.Beacon) error {
	g.mu.Lock()
	g.puts[b.Round]++
	hold := b.Round == g.round && !g.gated
	if hold {
		g.gated = true
	}
	g.mu.Unlock()
	g.arrived <- struct{}{}
	if hold {
		<-g.release
	}
	return g.Store.Put(ctx, b)
}

// racingWriters: chain 1..2 through the stack, then two writers put DIFFERENT beacons for round 3
// at once; the first one's back-end write is held until the second writer had every chance to
// get past the round checks. The property's "written once, never replaced, a re-put is reported"
// must hold for the pair: at most one Put is accepted, the back end is written once, the
// callback fires once, and what is stored is what was accepted.
func racingWriters(rep *emit.Report, cfg stackCfg, root string) error {
	gs := &gatedStore{round: 3, puts: map[uint64]int{}, arrived: make(chan struct{}, 16), release: make(chan struct{})}
	rs := &realStack{cfg: cfg, group: &key.Group{Period: 30 * time.Second, GenesisTime: 1700000000, ID: "default", Threshold: 1},
		wrap: func(st chain.Store) chain.Store { gs.Store = st; return gs }}
	if cfg.kind == "mem" {
		rs.mem = memdb.NewStore(cfg.cap)
	} else {
		d, err := os.MkdirTemp(root, "db")
		if err != nil {
			return err
		}
		rs.dir = d
	}
	if err := rs.build(); err != nil {
		return fmt.Errorf("racing writers: building the stack on %s: %w", cfg.name, err)
	}
	defer rs.close()
	ctx := rs.cfg.ctx()
	s := func(r, w byte) []byte { return []byte{0xD0 | r, 0x5A, w} }
	prev := genesisSeed
	for r := byte(1); r <= 2; r++ {
		if err := rs.top.Put(ctx, &common.Beacon{Round: uint64(r), PreviousSig: cp(prev), Signature: s(r, 0)}); err != nil {
			return fmt.Errorf("racing writers: round %d on %s: %w", r, cfg.name, err)
		}
		prev = s(r, 0)
	}
	for len(gs.arrived) > 0 {
		<-gs.arrived
	}
	res := make([]chan error, 2)
	for w := 0; w < 2; w++ {
		res[w] = make(chan error, 1)
	}
	put := func(w int) {
		res[w] <- rs.top.Put(ctx, &common.Beacon{Round: 3, PreviousSig: cp(prev), Signature: s(3, byte(w+1))})
	}
	go put(0)
	select {
	case <-gs.arrived:
	case <-time.After(10 * time.Second):
		rep.Fail("C02-harness-stuck", "racing writers: the first writer never reached the back end", map[string]interface{}{"config": cfg.name})
		close(gs.release)
		return nil
	}
	go put(1)
	// unchanged code: the second writer waits for the append store's lock and cannot arrive
	select {
	case <-gs.arrived:
	case <-time.After(250 * time.Millisecond):
	}
	close(gs.release)
	var errs [2]error
	for w := 0; w < 2; w++ {
		select {
		case errs[w] = <-res[w]:
		case <-time.After(10 * time.Second):
			rep.Fail("C02-harness-stuck", "racing writers: a Put never returned", map[string]interface{}{"config": cfg.name, "writer": w})
			return nil
		}
	}
	accepted := []int{}
	for w, e := range errs {
		if e == nil {
			accepted = append(accepted, w)
		}
	}
	gs.mu.Lock()
	writes := gs.puts[3]
	gs.mu.Unlock()
	input := map[string]interface{}{"config": cfg.name, "history": "put 1; put 2; two writers put round 3 with signatures " + emit.Bytes(s(3, 1)) + " and " + emit.Bytes(s(3, 2)) + " while the first back-end write is in progress",
		"results": []string{classify(errs[0]), classify(errs[1])}, "backend_writes_of_round_3": writes}
	rep.Evaluations++
	rep.Count(cfg.name + "/racing-writers")
	rep.Count("racing/accepted=" + fmt.Sprint(len(accepted)))
	if len(accepted) > 1 {
		rep.Fail("C02-two-different-beacons-accepted-for-one-round", "two overlapping Puts of different beacons for round 3 were both accepted (no already-stored / duplicate error for the loser)", input)
	}
	if writes > 1 {
		rep.Fail("C02-round-written-twice", fmt.Sprintf("round 3 was written %d times to the back end by two overlapping writers", writes), input)
	}
	if len(accepted) == 1 {
		b, err := rs.top.Get(ctx, 3)
		if err != nil || !bytes.Equal(b.Signature, s(3, byte(accepted[0]+1))) {
			rep.Fail("C02-stored-beacon-is-not-the-accepted-one", "after two overlapping writers the stored round 3 is not the beacon whose Put was accepted", input)
		}
		k := rs.waitCallbacks(3)
		time.Sleep(20 * time.Millisecond)
		n3 := 0
		for _, c := range rs.cbsSnapshot(k) {
			if c.r == 3 {
				n3++
			}
		}
		if n3 != 1 {
			rep.Fail("C02-callback-count-for-raced-round", fmt.Sprintf("round 3 was delivered %d times to the callback", n3), input)
		}
	}
	return nil
}
