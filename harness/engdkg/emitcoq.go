package engdkg

import (
	"fmt"
	"strings"

	"google.golang.org/protobuf/types/known/timestamppb"

	"github.com/drand/drand/v2/internal/util"
	pdkg "github.com/drand/drand/v2/protobuf/dkg"
	"github.com/drand/drand/v2/zzverif/emit"
)

// interner names long byte strings once per case file (top-level Definitions) so that the case
// terms stay small.
type interner struct {
	names map[string]string
	defs  []string
}

func newInterner() *interner { return &interner{names: map[string]string{}} }

func (in *interner) b(x []byte) string {
	if len(x) < 12 {
		return emit.Bytes(x)
	}
	if n, ok := in.names[string(x)]; ok {
		return n
	}
	n := fmt.Sprintf("b%d", len(in.names))
	in.names[string(x)] = n
	// primitive 63-bit integer literals (7 bytes each) parse natively: ~6x faster than lists of Z
	var ws []string
	last := 0
	for j := 0; j < len(x); j += 7 {
		e := j + 7
		if e > len(x) {
			e = len(x)
		}
		ws = append(ws, fmt.Sprintf("0x%x", x[j:e]))
		last = e - j
	}
	in.defs = append(in.defs, fmt.Sprintf("Definition %s : bytes := unw %d [%s]%%uint63.", n, last, strings.Join(ws, "; ")))
	return n
}

func (in *interner) part(p partProj) string {
	key := "P|" + string(p.addr) + "|" + string(p.key) + "|" + string(p.sig)
	if n, ok := in.names[key]; ok {
		return n
	}
	n := fmt.Sprintf("p%d", len(in.names))
	in.names[key] = n
	d := fmt.Sprintf("Definition %s : participant := mkP %s %s %s.", n, in.b(p.addr), in.b(p.key), in.b(p.sig))
	in.defs = append(in.defs, d)
	return n
}

func (in *interner) parts(l []partProj) string {
	s := make([]string, len(l))
	for i, p := range l {
		s[i] = in.part(p)
	}
	return emit.List(s)
}

func (in *interner) pparts(l []*pdkg.Participant) string { return in.parts(projParts(l)) }

func (in *interner) optPart(p *pdkg.Participant) string {
	if p == nil {
		return "None"
	}
	return "(Some " + in.part(projPart(p)) + ")"
}

func (in *interner) bytesList(l [][]byte) string {
	s := make([]string, len(l))
	for i, x := range l {
		s[i] = in.b(x)
	}
	return emit.List(s)
}

func zs(dec string) string {
	if strings.HasPrefix(dec, "-") {
		return "(" + dec + ")"
	}
	return dec
}

func tsNs(t *timestamppb.Timestamp) string { return zs(nsOf(t.AsTime())) }

func (in *interner) group(g *groupProj) string {
	return fmt.Sprintf("(mkG %s %s %s %s)", in.parts(g.nodes), emit.Z(g.threshold), emit.Z(g.genesisTime), in.b(g.genesisSeed))
}

func (in *interner) state(s *stateProj) string {
	leader := "None"
	if s.leader != nil {
		leader = "(Some " + in.part(*s.leader) + ")"
	}
	grp := "None"
	if s.group != nil {
		grp = "(Some " + in.group(s.group) + ")"
	}
	share := "None"
	if s.hasShare {
		share = "(Some " + in.b(s.share) + ")"
	}
	return fmt.Sprintf("(mkS %s %s %s %s %s %s %s %s %s %s %s %s %s %s %s %s %s %s)",
		in.b(s.beacon), emit.Z(s.epoch), s.state, emit.Z(s.threshold), zs(s.timeoutNs), in.b(s.scheme),
		zs(s.genesisNs), in.b(s.seed), emit.Z(s.catchup), emit.Z(s.period), leader,
		in.parts(s.remaining), in.parts(s.joining), in.parts(s.leaving), in.parts(s.acceptors), in.parts(s.rejectors),
		grp, share)
}

func (in *interner) optState(s *stateProj) string {
	if s == nil {
		return "None"
	}
	return "(Some " + in.state(s) + ")"
}

func (in *interner) terms(t *pdkg.ProposalTerms) string {
	return fmt.Sprintf("(mkT %s %d %d %s %s %d %d %s %s %s %s %s %s)",
		in.b([]byte(t.GetBeaconID())), t.GetThreshold(), t.GetEpoch(), tsNs(t.GetTimeout()), in.optPart(t.GetLeader()),
		t.GetCatchupPeriodSeconds(), t.GetBeaconPeriodSeconds(), in.b([]byte(t.GetSchemeID())),
		tsNs(t.GetGenesisTime()), in.b(t.GetGenesisSeed()),
		in.pparts(t.GetJoining()), in.pparts(t.GetRemaining()), in.pparts(t.GetLeaving()))
}

func (in *interner) event(st *stepRec) string {
	ev := st.ev
	switch ev.kind {
	case evCommand:
		md := "None"
		if ev.cmd.GetMetadata() != nil {
			md = "(Some " + in.b([]byte(ev.cmd.GetMetadata().GetBeaconID())) + ")"
		}
		body := "CNone"
		switch c := ev.cmd.Command.(type) {
		case *pdkg.DKGCommand_Initial:
			o := c.Initial
			gt := "None"
			if o.GetGenesisTime() != nil {
				gt = "(Some " + tsNs(o.GetGenesisTime()) + ")"
			}
			body = fmt.Sprintf("(CInitial (mkFo %s %d %d %s %d %s %s))", tsNs(o.GetTimeout()), o.GetThreshold(),
				o.GetPeriodSeconds(), in.b([]byte(o.GetScheme())), o.GetCatchupPeriodSeconds(), gt, in.pparts(o.GetJoining()))
		case *pdkg.DKGCommand_Resharing:
			o := c.Resharing
			body = fmt.Sprintf("(CResharing (mkPo %s %d %d %s %s %s))", tsNs(o.GetTimeout()), o.GetThreshold(),
				o.GetCatchupPeriodSeconds(), in.pparts(o.GetJoining()), in.pparts(o.GetLeaving()), in.pparts(o.GetRemaining()))
		case *pdkg.DKGCommand_Join:
			gf := c.Join.GetGroupFile()
			switch {
			case len(gf) == 0:
				body = "(CJoin JNone)"
			default:
				g, err := util.ParseGroupFileBytes(gf)
				if err != nil {
					body = "(CJoin JBad)"
				} else {
					body = "(CJoin (JGroup " + in.group(projGroup(g)) + "))"
				}
			}
		case *pdkg.DKGCommand_Accept:
			body = "CAccept"
		case *pdkg.DKGCommand_Reject:
			body = "CReject"
		case *pdkg.DKGCommand_Execute:
			body = "CExecute"
		case *pdkg.DKGCommand_Abort:
			body = "CAbort"
		}
		return fmt.Sprintf("(EvCommand (mkCmd %s %s %s %s))", md, body, in.b(st.csig), emit.Bool(ev.gossipFail))
	case evPacket:
		md := "None"
		if m := ev.packet.GetMetadata(); m != nil {
			md = fmt.Sprintf("(Some (mkMd %s %s %s))", in.b([]byte(m.GetBeaconID())), in.b([]byte(m.GetAddress())), in.b(m.GetSignature()))
		}
		body := "PNone"
		switch p := ev.packet.Packet.(type) {
		case *pdkg.GossipPacket_Proposal:
			body = "(PProposal " + in.terms(p.Proposal) + ")"
		case *pdkg.GossipPacket_Accept:
			body = "(PAccept " + in.optPart(p.Accept.GetAcceptor()) + ")"
		case *pdkg.GossipPacket_Reject:
			body = "(PReject " + in.optPart(p.Reject.GetRejector()) + ")"
		case *pdkg.GossipPacket_Execute:
			body = "(PExecute " + tsNs(p.Execute.GetTime()) + ")"
		case *pdkg.GossipPacket_Abort:
			body = "(PAbort " + in.b([]byte(p.Abort.GetReason())) + ")"
		case *pdkg.GossipPacket_Dkg:
			body = "PDkg"
		}
		return fmt.Sprintf("(EvPacket (mkGp %s %s))", md, body)
	case evFinishFail:
		return "(EvFinish None)"
	case evFinishObs:
		if ev.finOK {
			return fmt.Sprintf("(EvFinish (Some (%s, %s)))", in.group(ev.outGroup), in.b(ev.outShare))
		}
		return "(EvFinish None)"
	}
	panic("unknown event kind")
}

func classTerm(c string) string {
	switch {
	case c == "ok":
		return "ROk"
	case c == "other":
		return "ROther"
	case c == "panic":
		return "RPanic"
	case c == "unobserved":
		return "RUnobserved"
	case strings.HasPrefix(c, "T:"):
		p := strings.Split(c, ":")
		return fmt.Sprintf("(RErr (EInvalidTransition %s %s))", p[1], p[2])
	}
	return "(RErr " + c + ")"
}

func (in *interner) step(st *stepRec) string {
	msg := "None"
	if st.oracleMsg != nil {
		msg = "(Some " + in.b(st.oracleMsg) + ")"
	}
	return fmt.Sprintf("(mkDs %s %s %s %s %s %s %s %s %s %s)", emit.Z(st.nowNs), in.event(st),
		in.parts(st.validJoiners), in.bytesList(st.validKeys), msg, in.bytesList(st.sigKeysOK),
		classTerm(st.class), in.state(st.after.cur), in.optState(st.after.fin), in.bytesList(st.after.seen))
}

func (in *interner) storeTerm(sp storeProj, curPresent bool) string {
	cur := "None"
	if curPresent {
		cur = "(Some " + in.state(sp.cur) + ")"
	}
	return fmt.Sprintf("(mkStore %s %s %s)", cur, in.optState(sp.fin), in.bytesList(sp.seen))
}

func (in *interner) caseTerm(n *node) string {
	steps := make([]string, len(n.steps))
	for i, s := range n.steps {
		steps[i] = in.step(s)
	}
	return fmt.Sprintf("(mkDc %s %s %s\n    [%s])", in.part(projPart(n.id.part)), in.b([]byte(beaconID)),
		in.storeTerm(n.init0, n.init0.cur.state != "Fresh"), strings.Join(steps, ";\n     "))
}
