package engdkg

import (
	"context"
	"fmt"
	"math/rand"
	"os"
	"path/filepath"
	"sort"
	"strings"
	"sync"
	"time"

	"google.golang.org/protobuf/proto"
	"google.golang.org/protobuf/types/known/timestamppb"

	"github.com/drand/drand/v2/internal/dkg"
	pdkg "github.com/drand/drand/v2/protobuf/dkg"
	"github.com/drand/drand/v2/zzverif/emit"
	kdkg "github.com/drand/kyber/share/dkg"
)

const nNodes = 5 // real processes per world; one more identity (the last) has keys only: the attacker

type spec struct {
	id   int
	kind string
	seed int64
}

type result struct {
	extra      []emit.MonitorFailure // failures found by a history itself (concurrent runs)
	unreadable string
	spec       spec
	cases      []*node
	w          *world
	notes      []string
	cut        bool
}

func tmpBase() string {
	if st, err := os.Stat("/dev/shm"); err == nil && st.IsDir() {
		return "/dev/shm"
	}
	return os.TempDir()
}

func runHistory(sp spec, tmp string) (res *result, err error) {
	var w *world
	var h *hist
	defer func() {
		if r := recover(); r != nil {
			if se, ok := r.(storeUnreadable); ok && w != nil && h != nil {
				// the real store can no longer decode a record it wrote: keep what was observed so
				// far and report it (the monitor turns it into a failure)
				res = &result{spec: sp, w: w, notes: h.notes, cut: true, unreadable: se.Error()}
				for _, n := range w.nodes {
					if len(n.steps) > 0 {
						res.cases = append(res.cases, n)
					}
				}
				err = nil
				return
			}
			err = fmt.Errorf("history %d (%s): engine panic: %v", sp.id, sp.kind, r)
		}
	}()
	grace, phase := 1000*time.Hour, 300*time.Millisecond
	kyber := strings.HasPrefix(sp.kind, "kyber")
	if kyber {
		grace = 500 * time.Millisecond
	}
	w, err = newWorld(nNodes, 1, grace, phase, tmp, sp.id)
	if err != nil {
		return nil, err
	}
	for _, n := range w.nodes {
		n.init0 = mustSnapshot(n)
	}
	w.routeDKG = kyber
	h = &hist{id: sp.id, kind: sp.kind, w: w, rng: rand.New(rand.NewSource(sp.seed)), kyber: kyber}
	switch sp.kind {
	case "w-fresh-epoch":
		h.witnessFreshEpoch()
	case "w-left-panic":
		h.witnessLeftPanic()
	case "w-key-subst":
		h.witnessKeySubstitution()
	case "w-nonleader-exec":
		h.witnessNonLeaderExecute()
	case "w-nil-leader":
		h.witnessNilLeader()
	case "w-unsigned-key":
		h.witnessUnsignedKey()
	case "w-member-epoch":
		h.witnessMemberEpoch()
	case "d-exec-setup":
		h.directedExecSetup()
	case "d-shadow-joiner":
		h.directedShadowJoiner()
	case "d-below-old-thr":
		h.directedBelowOldThreshold()
	case "d-joiner-key-swap":
		h.directedJoinerKeySwap()
	case "d-timeout-abandon":
		h.directedTimeoutAbandon()
	case "d-concurrent":
		h.directedConcurrent()
	case "d-near-miss-address":
		h.directedNearMissAddress()
	case "d-stale-first-epoch":
		h.directedStaleFirstEpoch()
	case "d-redelivery":
		h.directedRedelivery()
	case "d-boundary-shift":
		h.directedBoundaryShift()
	case "d-duplicate-member-address":
		h.directedDuplicateMemberAddress()
	case "gen":
		for k := 0; k < 2+h.rng.Intn(2) && !h.cut; k++ {
			h.attempt()
		}
	case "fab":
		all := h.allNodes()
		m := h.subset(all, 3+h.rng.Intn(2))
		h.fabricate(m, minT(len(m))+h.rng.Intn(len(m)-minT(len(m))+1), uint32(1+h.rng.Intn(4)))
		if h.rng.Intn(3) == 0 {
			h.epochSweep(h.pick(m))
		}
		for k := 0; k < 2+h.rng.Intn(2) && !h.cut; k++ {
			h.attempt()
		}
	case "kyber-gen":
		for k := 0; k < 3 && !h.cut; k++ {
			h.attempt()
		}
	case "kyber-fab":
		all := h.allNodes()
		m := h.subset(all, 3)
		h.fabricate(m, 2, uint32(1+h.rng.Intn(3)))
		for k := 0; k < 2 && !h.cut; k++ {
			h.attempt()
		}
	case "sleep":
		h.sleepHistory()
	case "sweep":
		h.sweepHistory()
	}
	res = &result{spec: sp, w: w, notes: h.notes, cut: h.cut, extra: h.extra}
	for _, n := range w.nodes {
		if len(n.steps) > 0 {
			res.cases = append(res.cases, n)
		}
	}
	return res, nil
}

// ---------- known-witness scripts (always run first) ----------

func (h *hist) attacker() *ident { return h.w.ids[len(h.w.ids)-1] }

// F13a: a node without a finished record accepts epoch 7, is aborted, and then accepts epoch 3.
func (h *hist) witnessFreshEpoch() {
	x, j := h.attacker(), 1
	mk := func(epoch uint32) *pdkg.GossipPacket {
		t := &pdkg.ProposalTerms{BeaconID: beaconID, Threshold: 2, Epoch: epoch, Timeout: h.farTimeout(), Leader: proto.Clone(x.part).(*pdkg.Participant),
			CatchupPeriodSeconds: 5, BeaconPeriodSeconds: 30, SchemeID: h.w.sch.Name, GenesisTime: timestamppb.New(time.Now().Add(-time.Hour).Truncate(time.Second)),
			GenesisSeed: []byte("seed-of-some-network"), Remaining: []*pdkg.Participant{proto.Clone(x.part).(*pdkg.Participant)}, Joining: h.parts([]int{j})}
		return h.proposalPacket(t, x, x.part.Address)
	}
	h.packet(j, mk(7), "proposal epoch 7 (joiner, no finished record)", "leader")
	h.packet(j, h.forged(j, "abort", x, x), "abort by the leader", "leader")
	h.packet(j, mk(3), "proposal epoch 3", "leader")
}

// F13b: a node in state Left (no FinalGroup) receives a reshare proposal: nil dereference.
func (h *hist) witnessLeftPanic() {
	h.fabricate([]int{0, 1, 2}, 2, 2)
	s := reshareSpec{leader: 0, remaining: []int{0, 1}, leaving: []int{2}, joining: nil, thr: 2}
	_, prop := h.command(0, h.reshareCmd(s, ""), "cmd-reshare (node n2 leaving)", "leader", false)
	h.packet(2, prop, "proposal", "leader")
	h.packet(2, h.forged(2, "execute", h.w.ids[0], h.w.ids[0]), "execute from the leader: leaver moves to Left", "leader")
	// the next proposal of the network, epoch + 1 w.r.t. the Left state
	t := h.currentTerms(2)
	t.Epoch++
	t.Timeout = h.farTimeout()
	h.packet(2, h.proposalPacket(t, h.w.ids[0], h.w.ids[0].part.Address), "next proposal reaches the node in state Left", "leader")
}

// F7: an existing member accepts a reshare proposal in which an existing member's ADDRESS is kept
// but its KEY is the attacker's, signed with the attacker's key.
func (h *hist) witnessKeySubstitution() {
	h.fabricate([]int{0, 1, 2}, 2, 1)
	x := h.attacker()
	fake := &pdkg.Participant{Address: h.w.ids[0].part.Address, Key: x.part.Key, Signature: x.part.Signature}
	sp := mustSnapshot(h.w.nodes[1])
	t := &pdkg.ProposalTerms{BeaconID: beaconID, Threshold: 2, Epoch: sp.raw.cur.Epoch + 1, Timeout: h.farTimeout(), Leader: fake,
		CatchupPeriodSeconds: 5, BeaconPeriodSeconds: 30, SchemeID: h.w.sch.Name, GenesisTime: timestamppb.New(sp.raw.cur.GenesisTime),
		GenesisSeed: sp.raw.cur.GenesisSeed, Remaining: append([]*pdkg.Participant{fake}, h.parts([]int{1, 2})...)}
	h.packet(1, h.proposalPacket(t, x, fake.Address), "reshare proposal: address of n0, key of the attacker, signed by the attacker", "outsider")
}

// a remaining member that is not the leader sends Execute: a leaver obeys it and moves to Left.
func (h *hist) witnessNonLeaderExecute() {
	h.fabricate([]int{0, 1, 2}, 2, 1)
	s := reshareSpec{leader: 0, remaining: []int{0, 1}, leaving: []int{2}, joining: nil, thr: 2}
	_, prop := h.command(0, h.reshareCmd(s, ""), "cmd-reshare (node n2 leaving)", "leader", false)
	h.packet(2, prop, "proposal", "leader")
	h.packet(2, h.forged(2, "execute", h.w.ids[1], h.w.ids[1]), "execute signed by remaining member n1 (not the leader)", "member")
}

// the leader's genuine, signed reshare proposal is altered in transit: the KEY of another remaining
// member is replaced; keys are not covered by the signature and members compare addresses only.
func (h *hist) witnessUnsignedKey() {
	h.fabricate([]int{0, 1, 2}, 2, 1)
	s := reshareSpec{leader: 0, remaining: []int{0, 1, 2}, leaving: nil, joining: nil, thr: 2}
	_, prop := h.command(0, h.reshareCmd(s, ""), "cmd-reshare", "leader", false)
	if prop == nil {
		return
	}
	q := proto.Clone(prop).(*pdkg.GossipPacket)
	for _, p := range q.GetProposal().Remaining {
		if p.Address == h.w.ids[2].part.Address {
			p.Key = h.attacker().part.Key
		}
	}
	h.packet(1, q, "proposal:mutated:t-remainer-key", "leader")
}

// a MEMBER (finished record at epoch 1) is listed as leaving AND joining by its leader, joins with
// the group file, is moved to Left by the execute (keeping the group file as FinalGroup), accepts a
// proposal ten epochs ahead (Left accepts epoch jumps), is aborted, falls back to its finished
// record and accepts epoch 2: current epoch 11 -> 2.
func (h *hist) witnessMemberEpoch() {
	h.fabricate([]int{0, 1, 2}, 2, 1)
	leader := h.w.ids[0]
	mk := func(epoch uint32, joining []int) *pdkg.GossipPacket {
		t := &pdkg.ProposalTerms{BeaconID: beaconID, Threshold: 2, Epoch: epoch, Timeout: h.farTimeout(),
			Leader: proto.Clone(leader.part).(*pdkg.Participant), SchemeID: h.w.sch.Name, BeaconPeriodSeconds: 30, CatchupPeriodSeconds: 5,
			GenesisTime: timestamppb.New(h.gen), GenesisSeed: h.seed, Remaining: h.parts([]int{0, 1}), Leaving: h.parts([]int{2}), Joining: h.parts(joining)}
		return h.proposalPacket(t, leader, leader.part.Address)
	}
	h.packet(2, mk(2, []int{2}), "proposal epoch 2 (node both leaving and joining)", "leader")
	h.command(2, h.joinCmd("group"), "cmd-join:group", "self", false)
	h.packet(2, h.forged(2, "execute", leader, leader), "execute: leaver moves to Left, FinalGroup = group file", "leader")
	h.packet(2, mk(11, nil), "proposal epoch 11 (Left accepts epoch jumps)", "leader")
	h.packet(2, h.forged(2, "abort", leader, leader), "abort by the leader", "leader")
	h.packet(2, mk(2, nil), "proposal epoch 2", "leader")
}

// duplicate-address "shadow" joiners: the joining list re-uses the addresses of the leader n0 and of
// the remaining member n2 under the attacker's validly self-signed key. The sender of a packet is
// looked up first-match over Remaining ++ Joining, so the remaining member's own key must be the one
// that counts: packets claiming n0 / n2 but signed with the planted key must be refused, the genuine
// members' own packets accepted.
func (h *hist) directedShadowJoiner() {
	h.fabricate([]int{0, 1, 2}, 2, uint32(1+h.rng.Intn(3)))
	x, leader := h.attacker(), h.w.ids[0]
	sp := mustSnapshot(h.w.nodes[1])
	t := &pdkg.ProposalTerms{BeaconID: beaconID, Threshold: 3, Epoch: sp.raw.cur.Epoch + 1, Timeout: h.farTimeout(),
		Leader: proto.Clone(leader.part).(*pdkg.Participant), SchemeID: h.w.sch.Name, BeaconPeriodSeconds: 30, CatchupPeriodSeconds: 5,
		GenesisTime: timestamppb.New(h.gen), GenesisSeed: h.seed, Remaining: h.parts([]int{0, 1, 2}),
		Joining: []*pdkg.Participant{h.shadowOf(leader), h.shadowOf(h.w.ids[2])}}
	// an outsider forges the proposal "from the leader" with the planted key
	h.packet(1, h.proposalPacket(t, x, leader.part.Address), "forged-proposal:shadow-joiner-key claiming the leader", "outsider")
	// the genuine leader sends the same terms
	h.packet(1, h.proposalPacket(t, leader, leader.part.Address), "proposal with shadow joiners (genuine leader)", "leader")
	// forged and genuine answers in the name of the shadowed member n2
	h.packet(1, h.forged(1, "accept", h.w.ids[2], x), "forged-accept:shadow-joiner-key claiming n2", "outsider")
	h.packet(1, h.forged(1, "reject", h.w.ids[2], x), "forged-reject:shadow-joiner-key claiming n2", "outsider")
	h.packet(1, h.forged(1, "accept", h.w.ids[2], h.w.ids[2]), "accept by n2 (own key)", "member")
	// forged and genuine leader signals
	h.packet(1, h.forged(1, "execute", leader, x), "forged-execute:shadow-joiner-key claiming the leader", "outsider")
	h.packet(1, h.forged(1, "abort", leader, x), "forged-abort:shadow-joiner-key claiming the leader", "outsider")
	if h.rng.Intn(2) == 0 {
		h.packet(1, h.forged(1, "execute", leader, leader), "execute by the leader (own key)", "leader")
	} else {
		h.packet(1, h.forged(1, "abort", leader, leader), "abort by the leader (own key)", "leader")
	}
}

// a timed-out attempt must be abandonable: finished epoch N, proposal N+1 with a short timeout is
// made (accepted by a member, joined by a joiner), the clock passes the timeout, then the abort by
// command (leader and a member that does not get the packet) and the leader's Abort packet must
// succeed (aborts never consult the clock), and a fresh proposal for N+1 must be accepted everywhere.
func (h *hist) directedTimeoutAbandon() {
	h.fabricate([]int{0, 1, 2}, 2, uint32(1+h.rng.Intn(3)))
	s := reshareSpec{leader: 0, remaining: []int{0, 1, 2}, joining: []int{3}, thr: 3}
	c := h.reshareCmd(s, "")
	to := time.Now().Add(1300 * time.Millisecond)
	c.GetResharing().Timeout = timestamppb.New(to)
	_, prop := h.command(0, c, "cmd-reshare (short timeout)", "leader", false)
	for _, i := range []int{1, 2, 3} {
		h.packet(i, prop, "proposal", "leader")
	}
	h.command(1, simpleCmd("accept"), "cmd-accept", "member", false)
	h.command(3, h.joinCmd("group"), "cmd-join:group", "joiner", false)
	if d := time.Until(to.Add(400 * time.Millisecond)); d > 0 {
		time.Sleep(d)
	}
	_, ab := h.command(0, simpleCmd("abort"), "cmd-abort after the timeout (leader)", "leader", false)
	h.command(2, simpleCmd("abort"), "cmd-abort after the timeout (member)", "member", false)
	if ab == nil && !h.cut {
		// the leader could not abort: sign the Abort it would have sent (over its current terms)
		ab = h.forged(0, "abort", h.w.ids[0], h.w.ids[0])
	}
	for _, i := range []int{1, 3} {
		h.packet(i, ab, "abort by the leader after the timeout", "leader")
	}
	_, prop2 := h.command(0, h.reshareCmd(s, ""), "retry-after-timeout: cmd-reshare", "leader", false)
	if prop2 == nil && !h.cut {
		return
	}
	for _, i := range []int{1, 2, 3} {
		h.packet(i, prop2, "retry-after-timeout: proposal", "leader")
	}
}

// ---------- a command and a packet at the same time on one node ----------

// concurrentPair starts the operator command on node i, holds it right after it has LOADED the
// state (gate in the store wrapper), delivers the packet from a second goroutine, gives it time to
// run if nothing serialises it, then releases the command. It returns the result classes and the
// states the process persisted meanwhile. The node's trace is not continued afterwards.
func (h *hist) concurrentPair(i int, c *pdkg.DKGCommand, p *pdkg.GossipPacket) (clsCmd, clsPkt string, saved []string, ok bool) {
	n := h.w.nodes[i]
	k := len(n.gate.savedSince(0))
	run := func(f func() error) chan string {
		ch := make(chan string, 1)
		go func() {
			defer func() {
				if r := recover(); r != nil {
					ch <- "panic"
				}
			}()
			ch <- classify(f())
		}()
		return ch
	}
	n.gate.arm()
	ca := run(func() error { _, err := n.proc.Command(context.Background(), wireCmd(c)); return err })
	select {
	case <-n.gate.entered:
	case <-time.After(3 * time.Second):
		return "", "", nil, false
	}
	cb := run(func() error { _, err := n.proc.Packet(context.Background(), wirePkt(p)); return err })
	pktDone := false
	select {
	case clsPkt = <-cb:
		pktDone = true
	case <-time.After(150 * time.Millisecond):
	}
	close(n.gate.release)
	n.gate.release = make(chan struct{})
	select {
	case clsCmd = <-ca:
	case <-time.After(5 * time.Second):
		return "", "", nil, false
	}
	if !pktDone {
		select {
		case clsPkt = <-cb:
		case <-time.After(5 * time.Second):
			return "", "", nil, false
		}
	}
	return clsCmd, clsPkt, n.gate.savedSince(k), true
}

// directedConcurrent: three followers in the same state; n1 gets {command, packet} concurrently, n2
// the same two sequentially command-first, n3 packet-first. The property's own predicates: every
// state n1 persisted is a legal step of the protocol table from the previous one (fall-back rule
// included), and n1 ends, with the same answers, like ONE of the two sequential orders.
func (h *hist) directedConcurrent() {
	h.fabricate([]int{0, 1, 2, 3}, 3, uint32(1+h.rng.Intn(3)))
	s := reshareSpec{leader: 0, remaining: []int{0, 1, 2, 3}, thr: 3}
	_, prop := h.command(0, h.reshareCmd(s, ""), "cmd-reshare", "leader", false)
	for _, i := range []int{1, 2, 3} {
		h.packet(i, prop, "proposal", "leader")
	}
	variant := h.id % 3
	cmdKind, pktKind := "accept", "abort"
	switch variant {
	case 1:
		cmdKind = "reject"
	case 2:
		// followers have accepted; operator aborts while the leader's Execute arrives
		for _, i := range []int{1, 2, 3} {
			h.command(i, simpleCmd("accept"), "cmd-accept", "member", false)
		}
		cmdKind, pktKind = "abort", "execute"
	}
	if h.cut {
		return
	}
	pkt := h.forged(1, pktKind, h.w.ids[0], h.w.ids[0])
	startState := mustSnapshot(h.w.nodes[1]).cur.state
	finState := finStr(mustSnapshot(h.w.nodes[1]).fin)
	// sequential twins
	sa, _ := h.command(2, simpleCmd(cmdKind), "cmd-"+cmdKind+" (sequential, first)", "member", false)
	sb := h.packet(2, pkt, pktKind+" (sequential, second)", "leader")
	tb := h.packet(3, pkt, pktKind+" (sequential, first)", "leader")
	ta, _ := h.command(3, simpleCmd(cmdKind), "cmd-"+cmdKind+" (sequential, second)", "member", false)
	if h.cut || sa == nil || sb == nil || ta == nil || tb == nil {
		return
	}
	clsCmd, clsPkt, saved, ok := h.concurrentPair(1, simpleCmd(cmdKind), pkt)
	if !ok {
		h.notes = append(h.notes, "concurrent pair did not finish")
		return
	}
	final := mustSnapshot(h.w.nodes[1])
	in := map[string]interface{}{"history": h.id, "node": "n1", "start": startState + " (finished " + finState + ")",
		"concurrent": []string{"cmd-" + cmdKind + " -> " + clsCmd, "pkt-" + pktKind + " from the leader, delivered between the command's load and save -> " + clsPkt},
		"persisted":  saved, "final": final.cur.state,
		"sequential command-first (n2)": []string{sa.class, sb.class, sb.after.cur.state},
		"sequential packet-first (n3)":  []string{ta.class, tb.class, ta.after.cur.state}}
	// (i) every persisted step is legal
	prev := startState
	for _, st := range saved {
		base := prev
		if specTerminal[base] {
			base = "Complete" // the followers hold a finished record
		}
		if st != prev && !specEdge(base, st) {
			h.extra = append(h.extra, emit.MonitorFailure{Class: "C08-command-and-packet-not-serialised",
				What: fmt.Sprintf("concurrent command and packet: the node persisted %s after %s, which is not a legal transition", st, prev), Input: in})
			break
		}
		prev = st
	}
	// (ii) the outcome is that of some sequential order
	same := func(cmdCls, pktCls, state string) bool {
		return cmdCls == clsCmd && pktCls == clsPkt && state == final.cur.state
	}
	if !same(sa.class, sb.class, sb.after.cur.state) && !same(ta.class, tb.class, ta.after.cur.state) {
		h.extra = append(h.extra, emit.MonitorFailure{Class: "C08-command-and-packet-not-serialised",
			What: "concurrent command and packet: answers and final state match neither sequential order of the two operations", Input: in})
	}
	h.cut = true
}

// near-miss sender addresses: a forger lists itself in Joining under the leader's address spelled
// slightly differently (letter case, trailing dot), with its own validly self-signed key, signs with
// that key and claims the variant as sender. The named leader never signed: must be refused.
func (h *hist) directedNearMissAddress() {
	h.fabricate([]int{0, 1, 2}, 2, uint32(1+h.rng.Intn(3)))
	x, leader := h.attacker(), h.w.ids[0]
	host, port, _ := strings.Cut(leader.part.Address, ":")
	variants := []string{strings.ToUpper(host) + ":" + port, strings.ToUpper(host[:1]) + host[1:] + ":" + port, host + ".:" + port,
		strings.Replace(host, "node", "nOde", 1) + ":" + port}
	for _, target := range []int{1, 3} {
		sp := mustSnapshot(h.w.nodes[1])
		for _, v := range variants {
			fake := &pdkg.Participant{Address: v, Key: x.part.Key, Signature: x.part.Signature}
			joining := []*pdkg.Participant{fake}
			if target == 3 {
				joining = append(h.parts([]int{3}), fake)
			}
			n := 3 + len(joining)
			t := &pdkg.ProposalTerms{BeaconID: beaconID, Threshold: uint32(minT(n)), Epoch: sp.raw.cur.Epoch + 1, Timeout: h.farTimeout(),
				Leader: proto.Clone(leader.part).(*pdkg.Participant), SchemeID: h.w.sch.Name, BeaconPeriodSeconds: 30, CatchupPeriodSeconds: 5,
				GenesisTime: timestamppb.New(h.gen), GenesisSeed: h.seed, Remaining: h.parts([]int{0, 1, 2}), Joining: joining}
			h.packet(target, h.proposalPacket(t, x, v), "forged-proposal:near-miss-address "+v, "outsider")
		}
	}
	// the genuine leader's proposal (with a joiner) is accepted afterwards
	s := reshareSpec{leader: 0, remaining: []int{0, 1, 2}, joining: []int{3}, thr: 3}
	_, prop := h.command(0, h.reshareCmd(s, ""), "cmd-reshare", "leader", false)
	h.packet(1, prop, "proposal", "leader")
	h.packet(3, prop, "proposal", "leader")
	// near-miss senders on control packets over the stored terms
	for _, v := range variants[:2] {
		p := h.forged(1, "abort", leader, leader)
		p.Metadata.Address = v
		h.packet(1, p, "abort:near-miss-address "+v, "outsider")
	}
}

// a node with a completed epoch N gets first-epoch proposals (epoch 1, joiners only, no seed): by the
// operator's "initial" command at the old leader and as a correctly signed packet at members; all
// must be refused (also for N = 1), and the genuine N+1 proposal accepted afterwards.
func (h *hist) directedStaleFirstEpoch() {
	n := uint32(1 + h.id%3)
	h.fabricate([]int{0, 1, 2}, 2, n)
	leader := h.w.ids[0]
	h.command(0, h.initialCmd(0, []int{0, 1, 2}, ""), "cmd-initial at a node with a completed epoch", "leader", false)
	mk := func(joiners []int) *pdkg.GossipPacket {
		t := &pdkg.ProposalTerms{BeaconID: beaconID, Threshold: uint32(minT(len(joiners))), Epoch: 1, Timeout: h.farTimeout(),
			Leader: proto.Clone(leader.part).(*pdkg.Participant), SchemeID: h.w.sch.Name, BeaconPeriodSeconds: 30, CatchupPeriodSeconds: 5,
			GenesisTime: timestamppb.New(time.Now().Add(time.Hour).Truncate(time.Second)), Joining: h.parts(joiners)}
		return h.proposalPacket(t, leader, leader.part.Address)
	}
	h.packet(1, mk([]int{0, 1, 2}), "proposal:first-epoch at a node with a completed epoch", "leader")
	h.packet(2, mk([]int{0, 1, 2, 3}), "proposal:first-epoch at a node with a completed epoch", "leader")
	// and after an aborted attempt (fall-back to the finished record)
	s := reshareSpec{leader: 0, remaining: []int{0, 1, 2}, thr: 2}
	_, prop := h.command(0, h.reshareCmd(s, ""), "cmd-reshare", "leader", false)
	h.packet(1, prop, "proposal", "leader")
	_, ab := h.command(0, simpleCmd("abort"), "cmd-abort", "leader", false)
	h.packet(1, ab, "abort", "leader")
	h.packet(1, mk([]int{0, 1, 2}), "proposal:first-epoch after an aborted attempt", "leader")
	h.command(0, h.initialCmd(0, []int{0, 1, 2}, ""), "cmd-initial after an aborted attempt", "leader", false)
	// the real next epoch still goes through
	_, prop2 := h.command(0, h.reshareCmd(s, ""), "cmd-reshare", "leader", false)
	h.packet(1, prop2, "proposal", "leader")
	h.packet(2, prop2, "proposal", "leader")
}

// one member address twice under different keys: a forged entry {n0's address, attacker key} comes
// FIRST in Remaining and is the Leader, the genuine n0 entry is in Leaving or later in Remaining; the
// packet claims n0 and is signed with the attacker's key. A member must refuse it: it authenticates
// members against the keys of its current group.
func (h *hist) directedDuplicateMemberAddress() {
	h.fabricate([]int{0, 1, 2}, 2, uint32(1+h.rng.Intn(3)))
	x := h.attacker()
	forgedEntry := &pdkg.Participant{Address: h.w.ids[0].part.Address, Key: x.part.Key, Signature: x.part.Signature}
	genuine := h.parts([]int{0})[0]
	sp := mustSnapshot(h.w.nodes[1])
	mk := func(remaining, leaving []*pdkg.Participant, leader *pdkg.Participant) *pdkg.ProposalTerms {
		return &pdkg.ProposalTerms{BeaconID: beaconID, Threshold: uint32(minT(len(remaining))), Epoch: sp.raw.cur.Epoch + 1, Timeout: h.farTimeout(),
			Leader: proto.Clone(leader).(*pdkg.Participant), SchemeID: h.w.sch.Name, BeaconPeriodSeconds: 30, CatchupPeriodSeconds: 5,
			GenesisTime: timestamppb.New(h.gen), GenesisSeed: h.seed, Remaining: remaining, Leaving: leaving}
	}
	others := h.parts([]int{1, 2})
	variants := []struct {
		name string
		t    *pdkg.ProposalTerms
	}{
		{"genuine entry in leaving", mk(append([]*pdkg.Participant{forgedEntry}, others...), []*pdkg.Participant{genuine}, forgedEntry)},
		{"genuine entry later in remaining", mk(append([]*pdkg.Participant{forgedEntry, genuine}, others...), nil, forgedEntry)},
		{"genuine entry later in remaining, genuine leader field", mk(append([]*pdkg.Participant{forgedEntry, genuine}, others...), nil, genuine)},
		{"forged entry in leaving, genuine first", mk(append([]*pdkg.Participant{genuine}, others...), []*pdkg.Participant{forgedEntry}, genuine)},
	}
	for _, target := range []int{1, 2} {
		for _, v := range variants {
			h.packet(target, h.proposalPacket(v.t, x, forgedEntry.Address), "forged-proposal:duplicate-member-address ("+v.name+") signed with the planted key", "outsider")
		}
	}
	// the genuine leader's proposal is accepted afterwards
	s := reshareSpec{leader: 0, remaining: []int{0, 1, 2}, thr: 2}
	_, prop := h.command(0, h.reshareCmd(s, ""), "cmd-reshare", "leader", false)
	h.packet(1, prop, "proposal", "leader")
	h.packet(2, prop, "proposal", "leader")
}

// a refused packet leaves no trace: the leader proposes, aborts and re-proposes at once; at a follower
// the new Proposal overtakes the Abort (refused: Proposed -> Proposed is illegal), the Abort arrives,
// and the SAME new Proposal is delivered again (sender's retry / re-gossip): it must be applied now.
func (h *hist) directedRedelivery() {
	h.fabricate([]int{0, 1, 2}, 2, uint32(1+h.rng.Intn(3)))
	s := reshareSpec{leader: 0, remaining: []int{0, 1, 2}, joining: []int{3}, thr: 3}
	_, p1 := h.command(0, h.reshareCmd(s, ""), "cmd-reshare", "leader", false)
	for _, i := range []int{1, 2, 3} {
		h.packet(i, p1, "proposal", "leader")
	}
	_, ab := h.command(0, simpleCmd("abort"), "cmd-abort", "leader", false)
	_, p2 := h.command(0, h.reshareCmd(s, ""), "cmd-reshare (again, at once)", "leader", false)
	for _, i := range []int{1, 2, 3} {
		h.packet(i, p2, "proposal 2 overtakes the abort", "leader")
		h.packet(i, ab, "abort", "leader")
		h.packet(i, p2, "redelivery: proposal 2 again", "leader")
	}
	// the same with an acceptance that arrives before the proposal it answers
	_, acc := h.command(1, simpleCmd("accept"), "cmd-accept", "member", false)
	_, ab2 := h.command(0, simpleCmd("abort"), "cmd-abort", "leader", false)
	_, p3 := h.command(0, h.reshareCmd(s, ""), "cmd-reshare", "leader", false)
	_ = acc
	h.packet(2, ab2, "abort", "leader")
	_, acc3 := func() (*stepRec, *pdkg.GossipPacket) {
		h.packet(1, ab2, "abort", "leader")
		h.packet(1, p3, "proposal 3", "leader")
		return h.command(1, simpleCmd("accept"), "cmd-accept", "member", false)
	}()
	h.packet(2, acc3, "acceptance overtakes proposal 3", "member")
	h.packet(2, p3, "proposal 3", "leader")
	h.packet(2, acc3, "redelivery: acceptance again", "member")
}

// the boundary between the participant lists is part of the signed terms: the leader's genuinely
// signed proposal with the last remainer moved to the front of Leaving, or the first leaver moved to
// the end of Remaining (and likewise Joining/Remaining), signature kept, must be refused.
func (h *hist) directedBoundaryShift() {
	h.fabricate([]int{0, 1, 2, 3}, 3, uint32(1+h.rng.Intn(3)))
	shifts := []string{"t-shift-remaining-to-leaving", "t-shift-leaving-to-remaining", "t-shift-joining-to-remaining", "t-shift-remaining-to-joining"}
	run := func(s reshareSpec, target int) {
		_, prop := h.command(0, h.reshareCmd(s, ""), "cmd-reshare", "leader", false)
		if prop == nil {
			return
		}
		for _, m := range shifts {
			if q := h.applyMutation(prop, m); !proto.Equal(prop, q) {
				h.packet(target, q, "proposal:mutated:"+m, "leader")
			}
		}
		h.packet(target, prop, "proposal", "leader")
		_, ab := h.command(0, simpleCmd("abort"), "cmd-abort", "leader", false)
		h.packet(target, ab, "abort", "leader")
	}
	// all four remain, one joins: shifting the last remainer into Leaving keeps every other rule satisfied
	run(reshareSpec{leader: 0, remaining: []int{0, 1, 2, 3}, joining: []int{4}, thr: 3}, 1)
	// three remain, one leaves, one joins: shifting the leaver into Remaining keeps every other rule satisfied
	run(reshareSpec{leader: 0, remaining: []int{0, 1, 2}, leaving: []int{3}, joining: []int{4}, thr: 3}, 2)
}

// swapKey returns the genuinely signed proposal with the KEY of the k-th joiner replaced by the
// attacker's (address, self-signature and the leader's packet signature untouched).
func (h *hist) swapKey(p *pdkg.GossipPacket, k int) *pdkg.GossipPacket {
	q := proto.Clone(p).(*pdkg.GossipPacket)
	j := q.GetProposal().Joining[k]
	if j.Address == h.attacker().part.Address {
		j.Key = h.w.ids[0].part.Key // the attacker's own entry: somebody else's key
	} else {
		j.Key = h.attacker().part.Key
	}
	return q
}

// a relay replaces the key of the first / a middle / the last joiner of a genuinely signed proposal
// (three or four joiners). The leader's signature covers each joiner's address and self-signature;
// the key is tied to them because the self-signature must verify under it, for EVERY joiner. Delivered
// to a fresh joiner (first epoch and reshare) and to an existing member; then the genuine packet.
func (h *hist) directedJoinerKeySwap() {
	var prop *pdkg.GossipPacket
	var targets []int
	if h.id%2 == 0 {
		members := []int{0, 1, 2, 3}
		_, prop = h.command(0, h.initialCmd(0, members, ""), "cmd-initial (four joiners)", "leader", false)
		targets = []int{1, 3}
	} else {
		h.fabricate([]int{0, 1, 2}, 2, uint32(1+h.rng.Intn(3)))
		s := reshareSpec{leader: 0, remaining: []int{0, 1, 2}, joining: []int{3, 4}, thr: 4}
		c := h.reshareCmd(s, "")
		// a third joiner: the key-only identity
		c.GetResharing().Joining = append(c.GetResharing().Joining, proto.Clone(h.attacker().part).(*pdkg.Participant))
		_, prop = h.command(0, c, "cmd-reshare (three joiners)", "leader", false)
		targets = []int{1, 3, 4}
	}
	if prop == nil {
		return
	}
	n := len(prop.GetProposal().GetJoining())
	for _, i := range targets {
		for _, k := range []int{0, n / 2, n - 1} {
			pos := map[int]string{0: "first", n / 2: "middle", n - 1: "last"}[k]
			h.packet(i, h.swapKey(prop, k), "proposal:mutated:t-joiner-key-"+pos, h.role(i, 0))
		}
		h.packet(i, prop, "proposal", h.role(i, 0))
	}
}

// a reshare that keeps fewer current members than the threshold of the last completed epoch (the old
// secret cannot be re-shared) while joiners make the new group large enough for all other rules.
func (h *hist) directedBelowOldThreshold() {
	all := []int{0, 1, 2, 3}
	thr := 3
	if h.rng.Intn(2) == 0 {
		all, thr = []int{0, 1, 2}, 2
	}
	h.fabricate(all, thr, uint32(1+h.rng.Intn(3)))
	s := reshareSpec{leader: 0, remaining: all, thr: uint32(thr)}
	// by the operator's command at the leader
	h.command(0, h.reshareCmd(s, "few-remainers-many-joiners"), "cmd-reshare:few-remainers-many-joiners", "leader", false)
	// and as a correctly signed packet at a member (listed as leaving) and at a remaining-count boundary
	o := h.reshareCmd(s, "few-remainers-many-joiners").GetResharing()
	sp := mustSnapshot(h.w.nodes[1])
	mk := func(remaining []int) *pdkg.GossipPacket {
		leaving := without(all, remaining...)
		n := len(o.Joining) + len(remaining)
		t := &pdkg.ProposalTerms{BeaconID: beaconID, Threshold: uint32(minT(n)), Epoch: sp.raw.cur.Epoch + 1, Timeout: h.farTimeout(),
			Leader: h.parts([]int{0})[0], SchemeID: h.w.sch.Name, BeaconPeriodSeconds: 30, CatchupPeriodSeconds: 5,
			GenesisTime: timestamppb.New(h.gen), GenesisSeed: h.seed, Remaining: h.parts(remaining), Leaving: h.parts(leaving), Joining: o.Joining}
		return h.proposalPacket(t, h.w.ids[0], h.w.ids[0].part.Address)
	}
	h.packet(1, mk([]int{0}), "proposal:few-remainers-many-joiners", "leader")
	h.packet(2, mk(all[:thr-1]), "proposal:one-below-old-threshold", "leader")
	// exactly the old threshold remains: accepted
	h.packet(2, mk(all[:thr]), "proposal:exactly-old-threshold", "leader")
}

// coverage of the save-then-fail Execute path: a joiner accepts a proposal whose remaining list holds
// a participant with an unparsable key (remaining keys are not checked), joins, and the Execute
// packet is stored (Executing) before setupDKG fails on that key.
func (h *hist) directedExecSetup() {
	h.fabricate([]int{0, 1, 2}, 2, 1)
	leader := h.w.ids[0]
	bad := &pdkg.Participant{Address: "nowhere.drand.test:9999", Key: []byte("not-a-point"), Signature: []byte("x")}
	t := &pdkg.ProposalTerms{BeaconID: beaconID, Threshold: 3, Epoch: 2, Timeout: h.farTimeout(),
		Leader: proto.Clone(leader.part).(*pdkg.Participant), SchemeID: h.w.sch.Name, BeaconPeriodSeconds: 30, CatchupPeriodSeconds: 5,
		GenesisTime: timestamppb.New(h.gen), GenesisSeed: h.seed, Remaining: append(h.parts([]int{0, 1, 2}), bad), Joining: h.parts([]int{3})}
	h.packet(3, h.proposalPacket(t, leader, leader.part.Address), "proposal with an unparsable remaining key", "leader")
	h.command(3, h.joinCmd("group"), "cmd-join:group", "joiner", false)
	h.packet(3, h.forged(3, "execute", leader, leader), "execute: stored, then kyber set-up fails", "leader")
	h.finishFail(3)
}

// a proposal without a leader: terms.Leader.Address is a nil dereference in DBState.Proposed.
func (h *hist) witnessNilLeader() {
	x := h.attacker()
	t := &pdkg.ProposalTerms{BeaconID: beaconID, Threshold: 2, Epoch: 1, Timeout: h.farTimeout(), Leader: nil,
		CatchupPeriodSeconds: 5, BeaconPeriodSeconds: 30, SchemeID: h.w.sch.Name, GenesisTime: timestamppb.New(time.Now().Add(time.Hour)),
		Joining: append(h.parts([]int{1}), proto.Clone(x.part).(*pdkg.Participant))}
	h.packet(1, h.proposalPacket(t, x, x.part.Address), "proposal with no leader field", "outsider")
}

// sleepHistory: a proposal with a short timeout; steps before and after it expires.
func (h *hist) sleepHistory() {
	members := []int{0, 1, 2}
	var to time.Time
	var prop *pdkg.GossipPacket
	fab := h.rng.Intn(2) == 0
	if fab {
		h.fabricate(members, 2, uint32(1+h.rng.Intn(3)))
		s := reshareSpec{leader: 0, remaining: []int{0, 1}, leaving: []int{2}, joining: []int{3}, thr: 2}
		c := h.reshareCmd(s, "")
		to = time.Now().Add(1200 * time.Millisecond)
		c.GetResharing().Timeout = timestamppb.New(to)
		_, prop = h.command(0, c, "cmd-reshare (short timeout)", "leader", false)
	} else {
		c := h.initialCmd(0, members, "")
		to = time.Now().Add(1200 * time.Millisecond)
		c.GetInitial().Timeout = timestamppb.New(to)
		_, prop = h.command(0, c, "cmd-initial (short timeout)", "leader", false)
	}
	h.deliver(prop, []int{1, 2, 3}, "proposal", 0)
	if h.rng.Intn(2) == 0 {
		h.command(1, simpleCmd([]string{"accept", "join"}[h.rng.Intn(2)]), "cmd-before-timeout", "member", false)
	}
	if d := time.Until(to.Add(400 * time.Millisecond)); d > 0 {
		time.Sleep(d)
	}
	// after the timeout: everything that checks the clock must refuse; aborts still work
	for _, i := range []int{1, 2, 3, 0} {
		k := []string{"accept", "reject", "join", "execute"}[h.rng.Intn(4)]
		_, pk := h.command(i, simpleCmd(k), "cmd-after-timeout:"+k, "member", false)
		h.deliver(pk, without(h.allNodes(), i), "after-timeout", i)
	}
	h.packet(1, h.forged(1, "execute", h.w.ids[0], h.w.ids[0]), "execute-after-timeout", "leader")
	h.packet(2, h.forged(2, "accept", h.w.ids[1], h.w.ids[1]), "accept-after-timeout", "member")
	h.finishFail(0)
	_, ab := h.command(0, simpleCmd("abort"), "cmd-abort-after-timeout", "leader", false)
	h.deliver(ab, []int{1, 2, 3}, "abort", 0)
	if !fab {
		h.group = nil
	}
	h.attempt()
}

// epochSweep sends node i otherwise well-formed, correctly signed reshare proposals of the current
// group at the epochs around its own: e-1, e, e+2 and 0 must be refused (e+1 is what the honest
// flow sends afterwards).
func (h *hist) epochSweep(i int) {
	if len(h.group) == 0 || h.cut {
		return
	}
	base := effective(mustSnapshot(h.w.nodes[i]))
	leader := h.w.ids[h.group[0]]
	for _, e := range []int64{int64(base.Epoch) - 1, int64(base.Epoch), int64(base.Epoch) + 2, 0} {
		if e < 0 {
			continue
		}
		t := &pdkg.ProposalTerms{BeaconID: beaconID, Threshold: h.thr, Epoch: uint32(e), Timeout: h.farTimeout(),
			Leader: proto.Clone(leader.part).(*pdkg.Participant), SchemeID: h.w.sch.Name, BeaconPeriodSeconds: 30, CatchupPeriodSeconds: 5,
			GenesisTime: timestamppb.New(h.gen), GenesisSeed: h.seed, Remaining: h.parts(h.group)}
		h.packet(i, h.proposalPacket(t, leader, leader.part.Address), fmt.Sprintf("proposal:epoch%+d", e-int64(base.Epoch)), h.role(i, h.group[0]))
	}
}

// sweepHistory: an honest reshare flow in which every packet reaches a member and a joiner first in
// all its single-field alterations (signature kept), then genuinely.
func (h *hist) sweepHistory() {
	h.fabricate([]int{0, 1, 2, 3}, 3, uint32(1+h.rng.Intn(3)))
	h.epochSweep(3)
	h.epochSweep(4)
	s := reshareSpec{leader: 0, remaining: []int{0, 1, 2, 3}, leaving: nil, joining: []int{4}, thr: 3}
	_, prop := h.command(0, h.reshareCmd(s, ""), "cmd-reshare", "leader", false)
	h.sweep(1, prop, "proposal", 0)
	h.sweep(4, prop, "proposal", 0)
	h.packet(2, prop, "proposal", "leader")
	_, acc := h.command(2, simpleCmd("accept"), "cmd-accept", "member", false)
	h.sweep(1, acc, "accept", 2)
	// a remaining member (right key) vouching for another member's acceptance / rejection
	for _, kind := range []string{"accept", "reject"} {
		var pk *pdkg.GossipPacket
		if kind == "accept" {
			pk = &pdkg.GossipPacket{Packet: &pdkg.GossipPacket_Accept{Accept: &pdkg.AcceptProposal{Acceptor: h.parts([]int{0})[0]}}}
		} else {
			pk = &pdkg.GossipPacket{Packet: &pdkg.GossipPacket_Reject{Reject: &pdkg.RejectProposal{Rejector: h.parts([]int{0})[0]}}}
		}
		h.packet(1, h.sign(pk, h.currentTerms(1), h.w.ids[2], h.w.ids[2].part.Address), "forged-"+kind+"-for-other:right-key", "member")
	}
	h.command(4, h.joinCmd("group"), "cmd-join:group", "joiner", false)
	if h.rng.Intn(2) == 0 {
		_, ab := h.command(0, simpleCmd("abort"), "cmd-abort", "leader", false)
		h.sweep(1, ab, "abort", 0)
		h.sweep(4, ab, "abort", 0)
	} else {
		_, ex := h.command(0, simpleCmd("execute"), "cmd-execute", "leader", false)
		h.sweep(1, ex, "execute", 0)
		h.sweep(4, ex, "execute", 0)
	}
}

// ---------- table cases ----------

func tableCases() []string {
	var cs []string
	for _, a := range allStatuses {
		for _, b := range allStatuses {
			cs = append(cs, fmt.Sprintf("TValid %s %s %s", a.String(), b.String(), emit.Bool(dkg.VerifSMIsValidStateChange(a, b))))
		}
		cs = append(cs, fmt.Sprintf("TPhase %s %s", a.String(), emit.Bool(dkg.VerifSMIsProposalPhase(a))))
	}
	var ts []string
	for _, s := range dkg.VerifSMTerminalStates() {
		ts = append(ts, s.String())
	}
	cs = append(cs, "TTerminal "+emit.List(ts))
	for n := 0; n <= 40; n++ {
		cs = append(cs, fmt.Sprintf("TMinT %d %d", n, kdkg.MinimumT(n)))
	}
	return cs
}

// ---------- Run ----------

// Run is the engine entry point; name is the engine name ("dkgsm" reports the C08 monitor classes,
// "dkgsig" the C09 ones; the histories and the correspondence are the same family).
func Run(name, prop string) func(outDir string, seed int64, tier string) error {
	return func(outDir string, seed int64, tier string) error {
		rep := emit.NewReport(name, seed, tier)
		dkg.VerifSMSetGossipRetries(1, time.Millisecond)
		rng := rand.New(rand.NewSource(seed))
		var specs []spec
		add := func(kind string, n int) {
			for i := 0; i < n; i++ {
				specs = append(specs, spec{id: len(specs), kind: kind, seed: rng.Int63()})
			}
		}
		for _, wk := range []string{"w-fresh-epoch", "w-left-panic", "w-key-subst", "w-nonleader-exec", "w-nil-leader", "w-unsigned-key", "w-member-epoch", "d-exec-setup", "d-shadow-joiner", "d-below-old-thr", "d-joiner-key-swap", "d-joiner-key-swap", "d-timeout-abandon", "d-concurrent", "d-concurrent", "d-concurrent", "d-near-miss-address", "d-stale-first-epoch", "d-stale-first-epoch", "d-duplicate-member-address", "d-redelivery", "d-boundary-shift"} {
			add(wk, 1)
		}
		nGen, nFab, nKy, nSleep := 24, 44, 5, 4
		if prop == "C09" {
			nGen, nFab, nKy, nSleep = 20, 48, 4, 3
		}
		if tier == "thorough" {
			nGen, nFab, nKy, nSleep = nGen*15, nFab*15, nKy*8, nSleep*6
		}
		add("gen", nGen)
		add("fab", nFab)
		add("kyber-gen", nKy)
		add("kyber-fab", nKy)
		add("sleep", nSleep)
		nSweep := 1
		if prop == "C09" {
			nSweep = 3
		}
		if tier == "thorough" {
			nSweep *= 10
		}
		add("sweep", nSweep)

		tmp, err := os.MkdirTemp(tmpBase(), "zzv_dkgsm_")
		if err != nil {
			return err
		}
		defer os.RemoveAll(tmp)
		results := make([]*result, len(specs))
		errs := make([]error, len(specs))
		var wg sync.WaitGroup
		sem := make(chan struct{}, 24)
		for i := range specs {
			wg.Add(1)
			sem <- struct{}{}
			go func(i int) {
				defer wg.Done()
				defer func() { <-sem }()
				results[i], errs[i] = runHistory(specs[i], tmp)
			}(i)
		}
		wg.Wait()
		for _, e := range errs {
			if e != nil {
				return e
			}
		}

		// monitors, distribution, coverage
		distinct := map[string]bool{}
		for _, r := range results {
			rep.Count("history/" + r.spec.kind)
			if r.cut {
				rep.Count("history-cut")
			}
			if r.unreadable != "" {
				var tr []string
				for _, n := range r.cases {
					tr = append(tr, n.id.name+": "+traceStr(n))
				}
				rep.Fail("C08-store-unreadable", "the DKG store can no longer decode a record the process wrote: "+r.unreadable,
					map[string]interface{}{"history": r.spec.id, "kind": r.spec.kind, "seed": r.spec.seed, "trace": tr})
			}
			for _, f := range r.extra {
				if strings.HasPrefix(f.Class, prop) {
					rep.Fail(f.Class, f.What, f.Input)
				}
			}
			for _, n := range r.cases {
				r.w.monitor(rep, prop, r.spec.id, n)
				for _, st := range n.steps {
					rep.Evaluations++
					kind := evName(st.ev)
					rep.Count("event/" + kind)
					rep.Count("result/" + st.class)
					rep.Count("role/" + st.ev.role)
					if st.accepted {
						rep.Count("accepted/" + kind)
					}
					rep.Count("state-after/" + st.after.cur.state)
					key := kind + "|" + st.ev.role + "|" + st.class + "|" + st.before.cur.state + ">" + st.after.cur.state + "|" + finStr(st.before.fin) + "|" + mutName(st.ev.descr)
					distinct[key] = true
				}
			}
			for _, nt := range r.notes {
				rep.Count("note/" + nt)
			}
		}
		rep.DistinctNontrivial = len(distinct)
		rep.Rule = "histories: witness scripts first; genesis flows; reshare flows from a fabricated completed epoch; flows with a REAL kyber run between in-process nodes; short-timeout flows with real sleeps; each with single-field-invalid proposals, mutated/replayed/forged packets (claimed sender x signing key) and misplaced commands interleaved. distinct = distinct (event kind, sender role, result class, state before>after, finished epoch, mutation); every counted tuple is non-trivial (a real Command/Packet/finish call on a real process)"

		// case files: one Coq case per node trace; shards of ~40 traces
		var files [][]*node
		var descrs [][]string
		var cur []*node
		var curD []string
		steps := 0
		for _, r := range results {
			for _, n := range r.cases {
				cur = append(cur, n)
				curD = append(curD, fmt.Sprintf("history %d (%s, seed %d) node %s: %s", r.spec.id, r.spec.kind, r.spec.seed, n.id.name, traceStr(n)))
				steps += len(n.steps)
				if steps >= 260 {
					files, descrs, cur, curD, steps = append(files, cur), append(descrs, curD), nil, nil, 0
				}
			}
		}
		if len(cur) > 0 {
			files, descrs = append(files, cur), append(descrs, curD)
		}
		for k, ns := range files {
			in := newInterner()
			var cases []string
			for _, n := range ns {
				cases = append(cases, in.caseTerm(n))
			}
			fname := fmt.Sprintf("cases_%s_%03d.v", name, k)
			req := append([]string{"From Coq Require Import Uint63.", "From DV Require Import Gen.DKGTable Model.DKGState Model.DKGSign Corr.DKGCorr."}, in.defs...)
			if err := emit.CaseFile(filepath.Join(outDir, fname), req, "dcase", "mismatches", cases); err != nil {
				return err
			}
			rep.CaseFiles = append(rep.CaseFiles, fname)
			rep.CaseIndex[fname] = descrs[k]
		}
		// the tables
		tc := tableCases()
		if err := rep.Shard(outDir, "cases_"+name+"_tables", []string{"From DV Require Import Gen.DKGTable Model.DKGState Corr.DKGCorr."}, "tcase", "tmismatches", tc, tc, 1500); err != nil {
			return err
		}
		rep.Evaluations += len(tc)
		for _, r := range results {
			if len(rep.Samples) < 8 && len(r.cases) > 0 {
				rep.Sample(fmt.Sprintf("history %d (%s) %s: %s", r.spec.id, r.spec.kind, r.cases[0].id.name, traceStr(r.cases[0])), 8)
			}
		}
		var cw sync.WaitGroup
		for _, r := range results {
			cw.Add(1)
			go func(w *world) { defer cw.Done(); w.close() }(r.w)
		}
		cw.Wait()
		sort.Strings(rep.CaseFiles)
		return rep.Write(outDir)
	}
}

func evName(ev *event) string {
	switch ev.kind {
	case evCommand:
		switch ev.cmd.Command.(type) {
		case *pdkg.DKGCommand_Initial:
			return "cmd-initial"
		case *pdkg.DKGCommand_Resharing:
			return "cmd-reshare"
		case *pdkg.DKGCommand_Join:
			return "cmd-join"
		case *pdkg.DKGCommand_Accept:
			return "cmd-accept"
		case *pdkg.DKGCommand_Reject:
			return "cmd-reject"
		case *pdkg.DKGCommand_Execute:
			return "cmd-execute"
		case *pdkg.DKGCommand_Abort:
			return "cmd-abort"
		}
		return "cmd-none"
	case evPacket:
		switch ev.packet.Packet.(type) {
		case *pdkg.GossipPacket_Proposal:
			return "pkt-proposal"
		case *pdkg.GossipPacket_Accept:
			return "pkt-accept"
		case *pdkg.GossipPacket_Reject:
			return "pkt-reject"
		case *pdkg.GossipPacket_Execute:
			return "pkt-execute"
		case *pdkg.GossipPacket_Abort:
			return "pkt-abort"
		}
		return "pkt-none"
	case evFinishFail:
		return "finish-fail"
	}
	if ev.finOK {
		return "finish-complete"
	}
	return "finish-failed(kyber)"
}

func mutName(d string) string {
	if i := strings.Index(d, ":"); i >= 0 {
		return d[i+1:]
	}
	return ""
}

func traceStr(n *node) string {
	var s []string
	for _, st := range n.steps {
		s = append(s, fmt.Sprintf("%s=>%s/%s", st.ev.descr, st.class, st.after.cur.state))
	}
	return strings.Join(s, " ; ")
}
