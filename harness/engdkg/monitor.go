package engdkg

import (
	"bytes"
	"fmt"
	"strings"

	"github.com/drand/drand/v2/internal/dkg"
	pdkg "github.com/drand/drand/v2/protobuf/dkg"
	"github.com/drand/drand/v2/zzverif/emit"
)

// The protocol's legal transitions as a table written here from the protocol description
// (independent of isValidStateChange and of the Coq model): from -> allowed next states.
var specEdges = map[string][]string{
	"Fresh":     {"Proposing", "Proposed"},
	"Joined":    {"Left", "Executing", "Aborted", "TimedOut"},
	"Proposing": {"Executing", "Aborted", "TimedOut"},
	"Proposed":  {"Accepted", "Rejected", "Joined", "Left", "Aborted", "TimedOut"},
	"Accepted":  {"Executing", "Aborted", "TimedOut"},
	"Rejected":  {"Aborted", "TimedOut"},
	"Executing": {"Complete", "TimedOut", "Failed"},
	"Complete":  {"Proposing", "Proposed"},
	"Left":      {"Joined", "Aborted", "Proposed"},
	"Aborted":   {"Proposing", "Proposed"},
	"TimedOut":  {"Proposing", "Proposed", "Aborted"},
	"Failed":    {"Proposing", "Proposed", "Left", "Aborted"},
}
var specTerminal = map[string]bool{"Aborted": true, "TimedOut": true, "Failed": true}

func specEdge(a, b string) bool {
	for _, x := range specEdges[a] {
		if x == b {
			return true
		}
	}
	return false
}

func stepInput(hid int, n *node, k int) map[string]interface{} {
	var trace []string
	for j := 0; j <= k && j < len(n.steps); j++ {
		s := n.steps[j]
		trace = append(trace, fmt.Sprintf("%s[%s] -> %s; current=%s/e%d finished=%s", s.ev.descr, s.ev.role, s.class,
			s.after.cur.state, s.after.cur.epoch, finStr(s.after.fin)))
	}
	return map[string]interface{}{"history": hid, "node": n.id.name, "step": k, "trace": trace}
}

func finStr(f *stateProj) string {
	if f == nil {
		return "none"
	}
	return fmt.Sprintf("%s/e%d", f.state, f.epoch)
}

func eqProj(a, b *stateProj) bool { return derefS(a) == derefS(b) }

// monitor evaluates the property predicates on the implementation's observations of one node
// trace. prop selects which property's classes are reported ("C08" or "C09").
func (w *world) monitor(rep *emit.Report, prop string, hid int, n *node) {
	// M16 bookkeeping: packet signatures refused / applied so far at this node, and signatures the
	// node produced itself (deterministic BLS: its own command may re-create a signature)
	refused, applied, own := map[string]bool{}, map[string]bool{}, map[string]bool{}
	for k, st := range n.steps {
		if prop == "C08" {
			if st.ev.kind == evCommand && st.csig != nil {
				own[string(st.csig)] = true
			}
			if st.ev.kind == evPacket && st.ev.packet.GetMetadata() != nil && st.ev.packet.GetDkg() == nil {
				sig := string(st.ev.packet.GetMetadata().GetSignature())
				switch {
				case st.accepted:
					applied[sig] = true
				case st.class == "ok" && refused[sig] && !applied[sig] && !own[sig]:
					// a packet that was refused leaves no trace: delivered again it is judged afresh, it is
					// not acknowledged as an already-processed duplicate
					rep.Fail("C08-rejected-packet-cannot-be-redelivered",
						"a packet that this node had only ever refused was acknowledged as a duplicate without being applied when it was delivered again", stepInput(hid, n, k))
				case st.class != "ok" && st.class != "unobserved":
					refused[sig] = true
				}
			}
		}
		b, a := st.before, st.after
		in := func() map[string]interface{} { return stepInput(hid, n, k) }
		isFinish := st.ev.kind == evFinishFail || st.ev.kind == evFinishObs
		if prop == "C08" {
			// M1 legal edge (with the fallback rule for commands and packets)
			if a.cur.state != b.cur.state {
				base := b.cur.state
				if !isFinish && specTerminal[base] {
					if b.fin != nil {
						base = b.fin.state
					} else {
						base = "Fresh"
					}
				}
				if !specEdge(base, a.cur.state) {
					rep.Fail("C08-illegal-transition", fmt.Sprintf("current.State %s -> %s (base %s) is not a legal transition", b.cur.state, a.cur.state, base), in())
				}
			}
			// M2 rejected events leave the finished record (and, outside the two documented
			// save-then-fail paths, the current record) unchanged
			if st.class != "ok" && st.class != "unobserved" && st.ev.kind != evFinishFail {
				if !eqProj(a.fin, b.fin) {
					rep.Fail("C08-finished-changed-on-rejection", "a rejected event changed the finished record", in())
				}
				saveThenFail := false
				if st.ev.kind == evCommand {
					c := st.ev.cmd
					saveThenFail = c.GetInitial() != nil || c.GetResharing() != nil || c.GetExecute() != nil
				}
				if st.ev.kind == evPacket && st.ev.packet.GetExecute() != nil {
					saveThenFail = true
				}
				if !saveThenFail && !eqProj(a.cur, b.cur) {
					rep.Fail("C08-current-changed-on-rejection", "a rejected event changed the current record", in())
				}
			}
			if st.ev.kind == evFinishFail && !eqProj(a.fin, b.fin) {
				rep.Fail("C08-finished-changed-on-failure", "a failed execution changed the finished record", in())
			}
			// M3 the finished record changes only by a successful completion, to a larger epoch
			if !eqProj(a.fin, b.fin) {
				okc := st.ev.kind == evFinishObs && st.ev.finOK && a.fin != nil && a.fin.state == "Complete" &&
					(b.fin == nil || a.fin.epoch > b.fin.epoch) && a.fin.group != nil && a.fin.hasShare
				if !okc {
					rep.Fail("C08-finished-replaced", "finished record changed without a successful completion of a later epoch", in())
				}
				if okc && st.ev.outGroup != nil && fmt.Sprint(*st.ev.outGroup) != fmt.Sprint(*a.fin.group) {
					rep.Fail("C08-finished-not-output", "finished group differs from the execution output", in())
				}
			}
			// M15 a node WITH a finished record never enters a proposal (by packet or by its own command)
			// whose epoch is not above the finished epoch: a completed epoch is only followed by later ones
			// (distinct from the listed findings, where the new epoch stays above the finished one)
			if b.fin != nil && (a.cur.state == "Proposed" || a.cur.state == "Proposing") &&
				(a.cur.state != b.cur.state || a.cur.epoch != b.cur.epoch) && a.cur.epoch <= b.fin.epoch {
				cl := "C08-stale-proposal-accepted-over-finished-epoch"
				if a.cur.epoch == 1 {
					cl = "C08-stale-first-epoch-proposal-accepted"
				}
				rep.Fail(cl, fmt.Sprintf("a node whose last completed epoch is %d entered a proposal for epoch %d", b.fin.epoch, a.cur.epoch), in())
			} else
			// M4 the epoch never decreases
			if a.cur.epoch < b.cur.epoch {
				cl := "C08-member-epoch-decreases"
				if b.fin == nil {
					cl = "C08-fresh-node-epoch-decreases"
				}
				rep.Fail(cl, fmt.Sprintf("current epoch %d -> %d", b.cur.epoch, a.cur.epoch), in())
			}
			if a.fin != nil && a.cur.epoch < a.fin.epoch {
				rep.Fail("C08-current-below-finished", "current epoch below the finished epoch", in())
			}
			// M5 panics
			if st.class == "panic" {
				cl := "C08-panic-other"
				if st.ev.kind == evPacket && st.ev.packet.GetProposal() != nil {
					base := effective(b)
					switch {
					case st.ev.packet.GetProposal().GetLeader() == nil:
						cl = "C08-nil-leader-proposal-panics"
					case base.State == dkg.Left:
						cl = "C08-left-state-proposal-panics"
					}
				}
				if st.ev.kind == evCommand && st.ev.cmd.GetResharing() != nil && effective(b).State == dkg.Left {
					cl = "C08-left-state-proposal-panics"
				}
				rep.Fail(cl, "the event made the process panic (nil dereference)", in())
			}
			// M14 a timed-out (or any other) attempt can always be abandoned: aborts never consult the
			// clock, an operator's abort succeeds from every state the protocol lets it leave by abort,
			// and after the abort the retry at the same epoch is accepted
			isAbortCmd := st.ev.kind == evCommand && st.ev.cmd.GetAbort() != nil
			isAbortPkt := st.ev.kind == evPacket && st.ev.packet.GetAbort() != nil
			if (isAbortCmd || isAbortPkt) && st.class == "ETimeoutReached" {
				rep.Fail("C08-timed-out-attempt-cannot-be-abandoned", "an abort was refused because the proposal's timeout has passed: the attempt can never be left and the finished epoch is unusable for a new proposal", in())
			} else if isAbortCmd && st.ev.cmd.GetMetadata() != nil && st.class != "ok" && st.class != "panic" {
				base := b.cur.state
				if specTerminal[base] {
					if b.fin != nil {
						base = b.fin.state
					} else {
						base = "Fresh"
					}
				}
				if specEdge(base, "Aborted") {
					rep.Fail("C08-timed-out-attempt-cannot-be-abandoned", "the operator's abort was refused ("+st.class+") in state "+base+", from which the protocol allows aborting", in())
				}
			}
			if strings.HasPrefix(st.ev.descr, "retry-after-timeout") && st.class != "ok" {
				rep.Fail("C08-timed-out-attempt-cannot-be-abandoned", "after the timed-out attempt was aborted, the fresh proposal for the same epoch was refused ("+st.class+")", in())
			}
			// M9 proposals the generator knows to break a rule must not be accepted
			if st.ev.kind == evPacket && st.accepted && mustReject(st) != "" {
				rep.Fail("C08-invalid-proposal-accepted", "proposal violating rule "+mustReject(st)+" was accepted", in())
			}
			// M11 a node with a completed epoch must not enter (by packet or by its own command) a reshare
			// that keeps fewer current members than that epoch's threshold: the old secret could not be
			// re-shared. Evaluated on the stored outcome only.
			if (a.cur.state == "Proposed" || a.cur.state == "Proposing") && (a.cur.state != b.cur.state || a.cur.epoch != b.cur.epoch) &&
				b.fin != nil && effective(b).State == dkg.Complete && a.cur.epoch > 1 &&
				int64(len(a.cur.remaining)) < b.fin.threshold {
				rep.Fail("C08-reshare-below-old-threshold-accepted",
					fmt.Sprintf("reshare proposal accepted with %d remaining members although the last completed epoch has threshold %d",
						len(a.cur.remaining), b.fin.threshold), in())
			}
		}
		// M10 a single-field alteration of a genuinely signed packet (signature kept) must be refused
		if prop == "C09" && st.ev.kind == evPacket && st.accepted {
			if i := strings.Index(st.ev.descr, "mutated:"); i >= 0 {
				m := st.ev.descr[i+len("mutated:"):]
				switch m {
				// (a joiner's key IS tied to the signed terms: its signed self-signature must verify under
				// it, so an altered joiner key falls under the default class below)
				case "t-leader-key", "t-remainer-key", "t-seed":
					// keys and the genesis seed are not covered by the signature: a node WITH a group must
					// refuse such packets by comparing with its group (fixed, F7); a node without any
					// group has nothing to compare with (C09_fresh_caveat)
					cl := "C09-unsigned-field-altered-packet-accepted"
					if b.raw.fin == nil {
						cl = "C09-fresh-node-unsigned-field-altered-packet-accepted"
					}
					rep.Fail(cl,
						"a captured, genuinely signed packet was accepted after altering a field the signature does not cover ("+m+")", in())
				default:
					rep.Fail("C09-altered-packet-accepted",
						"a captured, genuinely signed packet was accepted after altering "+m+" (signature unchanged)", in())
				}
			}
		}
		// M13 joiner identities must be validly self-signed: every joining entry a node STORES when it
		// enters a proposal (by packet or by command) has a self-signature that verifies under the key
		// stored for that entry (independent IdentityFromProto + ValidSignature on the stored record)
		if prop == "C09" && (a.cur.state == "Proposed" || a.cur.state == "Proposing") &&
			(a.cur.state != b.cur.state || a.cur.epoch != b.cur.epoch) {
			for _, j := range a.raw.cur.Joining {
				if !joinerValid(j, a.raw.cur.SchemeID) {
					rep.Fail("C09-joiner-key-not-self-signed-accepted",
						"the node stored a proposal whose joining entry "+j.GetAddress()+" carries a key under which the entry's self-signature does not verify", in())
					break
				}
			}
		}
		if prop == "C09" && st.ev.kind == evPacket && st.accepted && st.ev.packet.GetMetadata() != nil {
			md := st.ev.packet.GetMetadata()
			next := a.raw.cur
			// M8 the signature verifies under the key the applied terms list for the sender
			var signer *pdkg.Participant
			for _, p := range append(append([]*pdkg.Participant{}, next.Remaining...), next.Joining...) {
				if p.GetAddress() == md.GetAddress() {
					signer = p
					break
				}
			}
			verifiesUnder := func(k []byte) bool {
				for _, x := range st.sigKeysOK {
					if bytes.Equal(x, k) {
						return true
					}
				}
				return false
			}
			if signer == nil || !verifiesUnder(signer.Key) {
				cl, what := "C09-unsigned-packet-accepted", "accepted packet is not signed by the participant it names"
				// does it verify under a LATER entry with the same address (a shadow joiner)?
				first := true
				for _, p := range append(append([]*pdkg.Participant{}, next.Remaining...), next.Joining...) {
					if p.GetAddress() != md.GetAddress() {
						continue
					}
					if !first && verifiesUnder(p.Key) {
						cl = "C09-shadow-joiner-key-accepted"
						what = "accepted packet verifies only under the key of a later (joining) entry that re-uses the sender's address, not under the key the applied terms record first (remaining member) for " + md.GetAddress()
					}
					first = false
				}
				rep.Fail(cl, what, in())
			}
			// M12 packets other than proposals: the key that counts is the one the node's STORED remaining
			// list records for the sender's address
			if st.ev.packet.GetProposal() == nil {
				for _, p := range effective(b).Remaining {
					if p.GetAddress() == md.GetAddress() && !verifiesUnder(p.Key) {
						rep.Fail("C09-shadow-joiner-key-accepted",
							"packet accepted although its signature does not verify under the key the node's stored remaining list records for "+md.GetAddress(), in())
						break
					}
				}
			}
			// M7 role rule
			base := effective(b)
			switch p := st.ev.packet.Packet.(type) {
			case *pdkg.GossipPacket_Proposal:
				// only the leader proposes: the sender is EXACTLY the named leader's address and the
				// signature verifies under the key the proposal lists for the named leader
				if p.Proposal.GetLeader().GetAddress() != md.GetAddress() || !verifiesUnder(p.Proposal.GetLeader().GetKey()) {
					rep.Fail("C09-proposal-not-signed-by-named-leader-accepted",
						fmt.Sprintf("proposal accepted although the named leader %s did not sign it (sender %q; the signature does not verify under the leader's key or the sender is not the leader's address)",
							p.Proposal.GetLeader().GetAddress(), md.GetAddress()), in())
				}
			case *pdkg.GossipPacket_Execute:
				if base.Leader.GetAddress() != md.GetAddress() {
					cl := "C09-role-violation"
					if a.cur.state == "Left" {
						cl = "C09-nonleader-execute-accepted-by-leaver"
					}
					rep.Fail(cl, "execute accepted from a sender that is not the leader", in())
				}
			case *pdkg.GossipPacket_Abort:
				if base.Leader.GetAddress() != md.GetAddress() {
					rep.Fail("C09-role-violation", "abort accepted from a sender that is not the leader", in())
				}
			case *pdkg.GossipPacket_Accept:
				if p.Accept.GetAcceptor().GetAddress() != md.GetAddress() || !hasAddr(base.Remaining, md.GetAddress()) {
					rep.Fail("C09-role-violation", "acceptance accepted from somebody else than the remaining member it names", in())
				}
			case *pdkg.GossipPacket_Reject:
				if p.Reject.GetRejector().GetAddress() != md.GetAddress() || !hasAddr(base.Remaining, md.GetAddress()) {
					rep.Fail("C09-role-violation", "rejection accepted from somebody else than the remaining member it names", in())
				}
			}
			// M6 a node with a completed epoch: the sender must verify under the key recorded in
			// its finished group for that address
			if b.raw.fin != nil && b.raw.fin.FinalGroup != nil {
				for _, nd := range b.raw.fin.FinalGroup.Nodes {
					if nd.Address() == md.GetAddress() {
						k, _ := nd.Key.MarshalBinary()
						if !verifiesUnder(k) {
							cl := "C09-member-key-substitution-accepted"
							if t := st.ev.packet.GetProposal(); t != nil {
								// the same member address more than once in the packet, under different keys
								keys := map[string]bool{}
								for _, p := range append(append(append([]*pdkg.Participant{}, t.GetRemaining()...), t.GetLeaving()...), t.GetJoining()...) {
									if p.GetAddress() == md.GetAddress() {
										keys[string(p.GetKey())] = true
									}
								}
								if len(keys) > 1 {
									cl = "C09-member-authenticated-against-key-from-the-packet"
								}
							}
							rep.Fail(cl,
								"packet accepted although its signature does not verify under the key recorded for "+md.GetAddress()+" in the node's finished group (a node that belongs to the group authenticates members against the keys of its current group)", in())
						}
					}
				}
			}
		}
	}
}

func hasAddr(l []*pdkg.Participant, a string) bool {
	for _, p := range l {
		if p.GetAddress() == a {
			return true
		}
	}
	return false
}

// mustReject names the rule an accepted proposal packet certainly violates (evaluated on the
// packet and the node's stores only, with the property's wording; "" when none applies).
func mustReject(st *stepRec) string {
	t := st.ev.packet.GetProposal()
	if t == nil {
		return ""
	}
	base := effective(st.before)
	n := len(t.GetJoining()) + len(t.GetRemaining())
	switch {
	case t.GetTimeout().AsTime().UnixNano() < st.nowNs-int64(timeGuard):
		return "expired"
	case int(t.GetThreshold()) > n:
		return "threshold-above-node-count"
	case int(t.GetThreshold()) < n/2+1:
		return "threshold-below-minimum"
	case t.GetEpoch() < base.Epoch:
		return "stale-epoch"
	}
	if st.before.raw.fin != nil && base.State == dkg.Complete {
		if t.GetEpoch() != base.Epoch+1 {
			return "epoch-not-next"
		}
		if t.GetGenesisTime().AsTime().Unix() != base.GenesisTime.Unix() {
			return "genesis-time-changed"
		}
		if !bytes.Equal(t.GetGenesisSeed(), base.GenesisSeed) {
			return "genesis-seed-changed"
		}
		have := map[string]bool{}
		for _, p := range append(append([]*pdkg.Participant{}, t.GetRemaining()...), t.GetLeaving()...) {
			have[p.GetAddress()] = true
		}
		old := map[string]bool{}
		for _, nd := range base.FinalGroup.Nodes {
			old[nd.Address()] = true
			if !have[nd.Address()] {
				return "drops-current-member"
			}
		}
		for a := range have {
			if !old[a] {
				return "invents-member"
			}
		}
	}
	return ""
}
