// Package engdkg is the correspondence engine "dkgsm" for C08/C09: it drives the REAL dkg.Process
// (real bolt dkg.db, real keys and signatures) through generated histories of operator commands and
// gossip packets, records projected observables after every step, evaluates the property monitors on
// them, and writes the histories as Coq case files for Corr/DKGCorr.v.
package engdkg

import (
	"bytes"
	"context"
	"encoding/hex"
	"errors"
	"fmt"
	"io"
	"os"
	"sort"
	"strings"
	"sync"
	"time"

	"go.uber.org/zap/zapcore"
	"google.golang.org/grpc"
	"google.golang.org/protobuf/proto"

	"github.com/drand/drand/v2/common/key"
	"github.com/drand/drand/v2/common/log"
	"github.com/drand/drand/v2/crypto"
	"github.com/drand/drand/v2/internal/dkg"
	"github.com/drand/drand/v2/internal/net"
	"github.com/drand/drand/v2/internal/util"
	pdkg "github.com/drand/drand/v2/protobuf/dkg"
)

const beaconID = "default"

// ident is a key pair with its participant form.
type ident struct {
	kp   *key.Pair
	part *pdkg.Participant
	name string
}

func newIdent(addr string, sch *crypto.Scheme, name string) (*ident, error) {
	kp, err := key.NewKeyPair(addr, sch)
	if err != nil {
		return nil, err
	}
	p, err := util.PublicKeyAsParticipant(kp.Public)
	if err != nil {
		return nil, err
	}
	return &ident{kp: kp, part: p, name: name}, nil
}

type stubBeacon struct{ kp *key.Pair }

func (s stubBeacon) KeypairFor(string) (*key.Pair, error) { return s.kp, nil }

// sent is one gossip send recorded by the client.
type sent struct {
	to     string
	packet *pdkg.GossipPacket
}

// recClient is the DKGClient of a node: control gossip goes nowhere (it is recorded), kyber
// packets are routed to the other real processes of the world when routing is on.
type recClient struct {
	mu       sync.Mutex
	w        *world
	out      []sent
	failSend bool
}

func (c *recClient) Packet(_ context.Context, p net.Peer, packet *pdkg.GossipPacket, _ ...grpc.CallOption) (*pdkg.EmptyDKGResponse, error) {
	c.mu.Lock()
	defer c.mu.Unlock()
	c.out = append(c.out, sent{to: p.Address(), packet: proto.Clone(packet).(*pdkg.GossipPacket)})
	if c.failSend {
		return nil, errors.New("verif: simulated send failure")
	}
	return &pdkg.EmptyDKGResponse{}, nil
}

func (c *recClient) BroadcastDKG(ctx context.Context, p net.Peer, in *pdkg.DKGPacket, _ ...grpc.CallOption) (*pdkg.EmptyDKGResponse, error) {
	c.w.mu.Lock()
	target := c.w.byAddr[p.Address()]
	route := c.w.routeDKG
	c.w.mu.Unlock()
	if !route || target == nil || target.proc == nil {
		return nil, errors.New("verif: no route")
	}
	return target.proc.BroadcastDKG(ctx, in)
}

func (c *recClient) take() []sent {
	c.mu.Lock()
	defer c.mu.Unlock()
	o := c.out
	c.out = nil
	return o
}

// node is one real dkg.Process with its store.
type node struct {
	id     *ident
	idx    int
	proc   *dkg.Process
	store  *dkg.BoltStore
	gate   *gateStore
	client *recClient
	outCh  chan dkg.SharingOutput
	fan    *util.FanOutChan[dkg.SharingOutput]
	steps  []*stepRec
	init0  storeProj // the store at the start of the trace (model initial store)
}

// gateStore is the Store handed to the real process: the real BoltStore, plus (i) a log of every
// state the process persists and (ii) a gate that can hold ONE GetCurrent call after it has read the
// store, so that the engine can deliver another operation inside a command's load/save window.
type gateStore struct {
	*dkg.BoltStore
	mu      sync.Mutex
	armed   bool
	entered chan struct{}
	release chan struct{}
	saved   []string
}

func (g *gateStore) arm() { g.mu.Lock(); g.armed = true; g.mu.Unlock() }

func (g *gateStore) GetCurrent(beaconID string) (*dkg.DBState, error) {
	st, err := g.BoltStore.GetCurrent(beaconID)
	g.mu.Lock()
	held := g.armed
	g.armed = false
	g.mu.Unlock()
	if held {
		g.entered <- struct{}{}
		<-g.release
	}
	return st, err
}

func (g *gateStore) SaveCurrent(beaconID string, st *dkg.DBState) error {
	g.mu.Lock()
	g.saved = append(g.saved, st.State.String())
	g.mu.Unlock()
	return g.BoltStore.SaveCurrent(beaconID, st)
}

func (g *gateStore) SaveFinished(beaconID string, st *dkg.DBState) error {
	g.mu.Lock()
	g.saved = append(g.saved, st.State.String())
	g.mu.Unlock()
	return g.BoltStore.SaveFinished(beaconID, st)
}

func (g *gateStore) savedSince(k int) []string {
	g.mu.Lock()
	defer g.mu.Unlock()
	return append([]string{}, g.saved[k:]...)
}

type world struct {
	mu       sync.Mutex
	sch      *crypto.Scheme
	ids      []*ident // all identities (nodes first, then key-only identities)
	nodes    []*node
	byAddr   map[string]*node
	routeDKG bool
	dir      string
}

var discardLogger = log.New(zapcore.AddSync(io.Discard), log.FatalLevel, false)

func newWorld(nNodes, nExtra int, grace, phase time.Duration, tmp string, hid int) (*world, error) {
	sch := crypto.NewPedersenBLSChained()
	w := &world{sch: sch, byAddr: map[string]*node{}}
	dir, err := os.MkdirTemp(tmp, fmt.Sprintf("h%d_", hid))
	if err != nil {
		return nil, err
	}
	w.dir = dir
	for i := 0; i < nNodes+nExtra; i++ {
		id, err := newIdent(fmt.Sprintf("node%d.drand.test:%d", i, 8000+i), sch, fmt.Sprintf("n%d", i))
		if err != nil {
			return nil, err
		}
		w.ids = append(w.ids, id)
	}
	for i := 0; i < nNodes; i++ {
		st, err := dkg.NewDKGStore(fmt.Sprintf("%s/n%d", dir, i))
		if err != nil {
			return nil, err
		}
		cl := &recClient{w: w}
		fan := util.NewFanOutChan[dkg.SharingOutput]()
		conf := dkg.Config{Timeout: time.Minute, TimeBetweenDKGPhases: phase, KickoffGracePeriod: grace}
		gs := &gateStore{BoltStore: st, entered: make(chan struct{}, 1), release: make(chan struct{})}
		p := dkg.NewDKGProcess(gs, stubBeacon{w.ids[i].kp}, fan, cl, nil, conf, discardLogger)
		n := &node{id: w.ids[i], idx: i, proc: p, store: st, gate: gs, client: cl, fan: fan, outCh: fan.Listen()}
		w.nodes = append(w.nodes, n)
		w.byAddr[w.ids[i].part.Address] = n
	}
	return w, nil
}

// close shuts the processes down. Process.Close can block for ever when an echoBroadcast of a
// node whose kyber protocol never started holds its lock on a full channel (observed; outside
// C08/C09), so each Close gets a deadline and is abandoned after it.
func (w *world) close() {
	done := make(chan struct{}, len(w.nodes))
	for _, n := range w.nodes {
		go func(n *node) {
			defer func() { _ = recover(); done <- struct{}{} }()
			n.proc.Close()
		}(n)
	}
	deadline := time.After(2 * time.Second)
	for range w.nodes {
		select {
		case <-done:
		case <-deadline:
			_ = os.RemoveAll(w.dir)
			return
		}
	}
	_ = os.RemoveAll(w.dir)
}

// ---------- error classes (by sentinel identity, never by message text) ----------

type sentinel struct {
	name string
	err  error
}

var sentinels = []sentinel{
	{"EMissingTerms", dkg.ErrMissingTerms}, {"ETimeoutReached", dkg.ErrTimeoutReached},
	{"EInvalidBeaconID", dkg.ErrInvalidBeaconID}, {"EInvalidScheme", dkg.ErrInvalidScheme},
	{"EGenesisTimeNotEqual", dkg.ErrGenesisTimeNotEqual},
	{"ENoGenesisSeedForFirstEpoch", dkg.ErrNoGenesisSeedForFirstEpoch},
	{"EGenesisTimeNotConsistent", dkg.ErrGenesisTimeNotConsistentWithProposal},
	{"EGenesisSeedCannotChange", dkg.ErrGenesisSeedCannotChange},
	{"ESelfMissing", dkg.ErrSelfMissingFromProposal},
	{"ECannotJoinIfNotInJoining", dkg.ErrCannotJoinIfNotInJoining},
	{"EJoiningNeedsGroupFile", dkg.ErrJoiningAfterFirstEpochNeedsGroupFile},
	{"EInvalidEpoch", dkg.ErrInvalidEpoch},
	{"ELeaderCantJoinAfterFirstEpoch", dkg.ErrLeaderCantJoinAfterFirstEpoch},
	{"ELeaderNotRemaining", dkg.ErrLeaderNotRemaining}, {"ELeaderNotJoining", dkg.ErrLeaderNotJoining},
	{"EOnlyJoinersFirstEpoch", dkg.ErrOnlyJoinersAllowedForFirstEpoch},
	{"ENoNodesRemaining", dkg.ErrNoNodesRemaining}, {"EMissingNodes", dkg.ErrMissingNodesInProposal},
	{"ECannotProposeAsNonLeader", dkg.ErrCannotProposeAsNonLeader},
	{"EThresholdHigher", dkg.ErrThresholdHigherThanNodeCount},
	{"ENodeCountTooLow", dkg.ErrNodeCountTooLow}, {"EThresholdTooLow", dkg.ErrThresholdTooLow},
	{"ERemainingAndLeavingMustExist", dkg.ErrRemainingAndLeavingNodesMustExistInCurrentEpoch},
	{"ECannotAcceptLeaving", dkg.ErrCannotAcceptProposalWhereLeaving},
	{"ECannotAcceptJoining", dkg.ErrCannotAcceptProposalWhereJoining},
	{"ECannotRejectLeaving", dkg.ErrCannotRejectProposalWhereLeaving},
	{"ECannotRejectJoining", dkg.ErrCannotRejectProposalWhereJoining},
	{"ECannotLeaveIfNotALeaver", dkg.ErrCannotLeaveIfNotALeaver},
	{"EOnlyLeaderCanExecute", dkg.ErrOnlyLeaderCanTriggerExecute},
	{"EOnlyLeaderCanAbort", dkg.ErrOnlyLeaderCanRemoteAbort},
	{"ECannotExecuteIfNotJoinerOrRemainer", dkg.ErrCannotExecuteIfNotJoinerOrRemainer},
	{"EUnknownAcceptor", dkg.ErrUnknownAcceptor}, {"EDuplicateAcceptance", dkg.ErrDuplicateAcceptance},
	{"EInvalidAcceptor", dkg.ErrInvalidAcceptor}, {"EInvalidRejector", dkg.ErrInvalidRejector},
	{"EUnknownRejector", dkg.ErrUnknownRejector}, {"EDuplicateRejection", dkg.ErrDuplicateRejection},
	{"EFinalGroupEmpty", dkg.ErrFinalGroupCannotBeEmpty}, {"EKeyShareEmpty", dkg.ErrKeyShareCannotBeEmpty},
	{"EReceivedAcceptance", dkg.ErrReceivedAcceptance}, {"EReceivedRejection", dkg.ErrReceivedRejection},
	{"EInvalidKeyScheme", key.ErrInvalidKeyScheme}, {"EMissingPreviousGroup", dkg.ErrMissingPreviousGroup},
}

var allStatuses = []dkg.Status{dkg.Fresh, dkg.Proposed, dkg.Proposing, dkg.Accepted, dkg.Rejected, dkg.Aborted,
	dkg.Executing, dkg.Complete, dkg.TimedOut, dkg.Joined, dkg.Left, dkg.Failed}

// classify maps a returned error to its class: "ok", a sentinel name, "T:<from>:<to>" for
// InvalidStateChange (recognised by comparing with the text the real constructor produces for each
// of the 144 pairs, since it has no sentinel), or "other".
func classify(err error) string {
	if err == nil {
		return "ok"
	}
	for _, s := range sentinels {
		if errors.Is(err, s.err) {
			return s.name
		}
	}
	msg := err.Error()
	for _, a := range allStatuses {
		for _, b := range allStatuses {
			if strings.Contains(msg, dkg.InvalidStateChange(a, b).Error()) {
				return "T:" + a.String() + ":" + b.String()
			}
		}
	}
	return "other"
}

// ---------- projections ----------

type partProj struct{ addr, key, sig []byte }

func projPart(p *pdkg.Participant) partProj {
	return partProj{[]byte(p.GetAddress()), p.GetKey(), p.GetSignature()}
}

type groupProj struct {
	nodes       []partProj
	threshold   int64
	genesisTime int64
	genesisSeed []byte
}

func projGroup(g *key.Group) *groupProj {
	if g == nil {
		return nil
	}
	gp := &groupProj{threshold: int64(g.Threshold), genesisTime: g.GenesisTime, genesisSeed: g.GenesisSeed}
	for _, n := range g.Nodes {
		k, _ := n.Key.MarshalBinary()
		gp.nodes = append(gp.nodes, partProj{[]byte(n.Address()), k, n.Signature})
	}
	return gp
}

func shareID(s *key.Share) []byte {
	if s == nil {
		return nil
	}
	b, _ := s.Share.V.MarshalBinary()
	// only a short non-secret tag of the share enters the case file
	h := hashBytes(append([]byte(fmt.Sprintf("share-%d-", s.Share.I)), b...))
	return h[:8]
}

type stateProj struct {
	beacon                                            []byte
	epoch                                             int64
	state                                             string
	threshold                                         int64
	timeoutNs, genesisNs                              string // decimal (may exceed int64 for year 1)
	scheme                                            []byte
	seed                                              []byte
	catchup, period                                   int64
	leader                                            *partProj
	remaining, joining, leaving, acceptors, rejectors []partProj
	group                                             *groupProj
	share                                             []byte
	hasShare                                          bool
}

func nsOf(t time.Time) string {
	// Unix seconds * 1e9 + nanoseconds, computed without int64 overflow
	return bigMulAdd(t.Unix(), int64(t.Nanosecond()))
}

func projParts(l []*pdkg.Participant) []partProj {
	var o []partProj
	for _, p := range l {
		o = append(o, projPart(p))
	}
	return o
}

func projState(d *dkg.DBState) *stateProj {
	if d == nil {
		return nil
	}
	sp := &stateProj{beacon: []byte(d.BeaconID), epoch: int64(d.Epoch), state: d.State.String(),
		threshold: int64(d.Threshold), timeoutNs: nsOf(d.Timeout), genesisNs: nsOf(d.GenesisTime),
		scheme: []byte(d.SchemeID), seed: d.GenesisSeed,
		catchup: int64(d.CatchupPeriod / time.Second), period: int64(d.BeaconPeriod / time.Second),
		remaining: projParts(d.Remaining), joining: projParts(d.Joining), leaving: projParts(d.Leaving),
		acceptors: projParts(d.Acceptors), rejectors: projParts(d.Rejectors),
		group: projGroup(d.FinalGroup), share: shareID(d.KeyShare), hasShare: d.KeyShare != nil}
	if d.Leader != nil {
		l := projPart(d.Leader)
		sp.leader = &l
	}
	return sp
}

type storeProj struct {
	cur  *stateProj // GetCurrent (Fresh when the bucket is empty)
	fin  *stateProj // GetFinished (nil when none)
	seen [][]byte
	raw  struct{ cur, fin *dkg.DBState }
}

func (n *node) snapshot() (storeProj, error) {
	var sp storeProj
	c, err := n.store.GetCurrent(beaconID)
	if err != nil {
		return sp, err
	}
	f, err := n.store.GetFinished(beaconID)
	if err != nil {
		return sp, err
	}
	sp.raw.cur, sp.raw.fin = c, f
	sp.cur, sp.fin = projState(c), projState(f)
	for _, h := range n.proc.VerifSMSeenPackets() {
		b, _ := hex.DecodeString(h)
		sp.seen = append(sp.seen, b)
	}
	sort.Slice(sp.seen, func(i, j int) bool { return bytes.Compare(sp.seen[i], sp.seen[j]) < 0 })
	return sp, nil
}
