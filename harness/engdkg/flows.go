package engdkg

import (
	"time"

	"google.golang.org/protobuf/proto"
	"google.golang.org/protobuf/types/known/timestamppb"

	"github.com/drand/drand/v2/internal/dkg"
	pdkg "github.com/drand/drand/v2/protobuf/dkg"
)

// ---------- grammar: roles x command/packet kinds x valid / single-field-invalid ----------

func (h *hist) role(target int, sender int) string {
	if sender < 0 || sender >= len(h.w.ids) {
		return "outsider"
	}
	if sender == target {
		return "self"
	}
	sp := mustSnapshot(h.w.nodes[target])
	addr := h.w.ids[sender].part.Address
	c := sp.raw.cur
	if c.Leader != nil && c.Leader.Address == addr {
		return "leader"
	}
	for _, p := range c.Remaining {
		if p.Address == addr {
			return "member"
		}
	}
	for _, p := range c.Joining {
		if p.Address == addr {
			return "joiner"
		}
	}
	for _, p := range c.Leaving {
		if p.Address == addr {
			return "leaver"
		}
	}
	for _, g := range h.group {
		if g == sender {
			return "member"
		}
	}
	return "outsider"
}

func (h *hist) pick(l []int) int { return l[h.rng.Intn(len(l))] }

func (h *hist) subset(l []int, k int) []int {
	p := h.rng.Perm(len(l))
	var o []int
	for _, i := range p[:k] {
		o = append(o, l[i])
	}
	return o
}

func without(l []int, x ...int) []int {
	var o []int
	for _, v := range l {
		keep := true
		for _, y := range x {
			if v == y {
				keep = false
			}
		}
		if keep {
			o = append(o, v)
		}
	}
	return o
}

func minT(n int) int { return n/2 + 1 }

// mutation names of proposals; "" = valid
var initialMutations = []string{"", "", "", "", "thr-low", "thr-high", "expired", "bad-scheme", "bad-joiner-sig", "leader-missing", "empty-joiner", "nil-timeout", "dup-joiner"}
var reshareMutations = []string{"", "", "", "", "", "thr-low", "thr-high", "expired", "bad-joiner-sig", "drop-member", "invent-member", "leader-leaving", "leader-joining", "no-remaining", "below-old-thr", "joiner-also-leaving", "few-remainers-many-joiners", "shadow-joiner", "shadow-joiner"}

func corruptSig(p *pdkg.Participant) *pdkg.Participant {
	q := proto.Clone(p).(*pdkg.Participant)
	if len(q.Signature) > 0 {
		q.Signature[len(q.Signature)/2] ^= 0x55
	}
	return q
}

// initialCmd builds a FirstProposalOptions command for leader l over the given joiners.
func (h *hist) initialCmd(l int, joiners []int, mut string) *pdkg.DKGCommand {
	n := len(joiners)
	thr := uint32(minT(n) + h.rng.Intn(n-minT(n)+1))
	o := &pdkg.FirstProposalOptions{Timeout: h.farTimeout(), Threshold: thr, PeriodSeconds: 30, Scheme: h.w.sch.Name,
		CatchupPeriodSeconds: 5, GenesisTime: timestamppb.New(time.Now().Add(time.Hour).Truncate(time.Second)), Joining: h.parts(joiners)}
	switch mut {
	case "thr-low":
		o.Threshold = uint32(minT(n) - 1)
	case "thr-high":
		o.Threshold = uint32(n + 1)
	case "expired":
		o.Timeout = pastTimeout()
	case "nil-timeout":
		o.Timeout = nil
	case "bad-scheme":
		o.Scheme = "no-such-scheme"
	case "bad-joiner-sig":
		k := h.rng.Intn(n)
		o.Joining[k] = corruptSig(o.Joining[k])
	case "leader-missing":
		o.Joining = h.parts(without(joiners, l))
	case "empty-joiner":
		o.Joining = append(o.Joining, &pdkg.Participant{})
	case "dup-joiner":
		o.Joining = append(o.Joining, o.Joining[0])
	}
	return &pdkg.DKGCommand{Metadata: cmdMeta(), Command: &pdkg.DKGCommand_Initial{Initial: o}}
}

type reshareSpec struct {
	leader                      int
	remaining, leaving, joining []int
	thr                         uint32
}

func (h *hist) reshareSpec() reshareSpec {
	g := h.group
	leader := h.pick(g)
	nLeave := 0
	if len(g) > int(h.thr) && h.rng.Intn(2) == 0 {
		nLeave = 1
	}
	rest := without(g, leader)
	leaving := h.subset(rest, nLeave)
	remaining := without(g, leaving...)
	var outside []int
	for i := range h.w.nodes {
		if len(without([]int{i}, g...)) == 1 {
			outside = append(outside, i)
		}
	}
	nJoin := 0
	if len(outside) > 0 {
		nJoin = h.rng.Intn(minInt(len(outside), 2) + 1)
	}
	joining := h.subset(outside, nJoin)
	n := len(remaining) + len(joining)
	thr := uint32(minT(n) + h.rng.Intn(n-minT(n)+1))
	return reshareSpec{leader, remaining, leaving, joining, thr}
}

func minInt(a, b int) int {
	if a < b {
		return a
	}
	return b
}

func (h *hist) reshareCmd(s reshareSpec, mut string) *pdkg.DKGCommand {
	o := &pdkg.ProposalOptions{Timeout: h.farTimeout(), Threshold: s.thr, CatchupPeriodSeconds: 5,
		Joining: h.parts(s.joining), Remaining: h.parts(s.remaining), Leaving: h.parts(s.leaving)}
	n := len(s.remaining) + len(s.joining)
	switch mut {
	case "thr-low":
		o.Threshold = uint32(minT(n) - 1)
	case "thr-high":
		o.Threshold = uint32(n + 1)
	case "expired":
		o.Timeout = pastTimeout()
	case "bad-joiner-sig":
		if len(o.Joining) > 0 {
			o.Joining[0] = corruptSig(o.Joining[0])
		} else {
			o.Joining = []*pdkg.Participant{corruptSig(h.w.ids[len(h.w.ids)-1].part)}
		}
	case "drop-member":
		if len(o.Remaining) > 1 {
			// drop a non-leader member entirely (neither remaining nor leaving)
			for k, p := range o.Remaining {
				if p.Address != h.w.ids[s.leader].part.Address {
					o.Remaining = append(o.Remaining[:k:k], o.Remaining[k+1:]...)
					break
				}
			}
		}
	case "invent-member":
		o.Remaining = append(o.Remaining, proto.Clone(h.w.ids[len(h.w.ids)-1].part).(*pdkg.Participant))
	case "leader-leaving":
		o.Leaving = append(o.Leaving, proto.Clone(h.w.ids[s.leader].part).(*pdkg.Participant))
	case "leader-joining":
		o.Joining = append(o.Joining, proto.Clone(h.w.ids[s.leader].part).(*pdkg.Participant))
	case "no-remaining":
		o.Leaving = append(o.Leaving, o.Remaining...)
		o.Remaining = nil
	case "below-old-thr":
		if len(o.Remaining) >= 2 {
			o.Leaving = append(o.Leaving, o.Remaining[1:]...)
			o.Remaining = o.Remaining[:1]
			o.Threshold = 1
		}
	case "joiner-also-leaving":
		if len(o.Joining) > 0 {
			o.Leaving = append(o.Leaving, o.Joining[0])
		}
	case "few-remainers-many-joiners":
		// fewer current members than the OLD threshold remain, but joiners make the new group large
		// enough for every other rule: only the old-threshold rule refuses it
		h.fewRemainers(o, s.leader)
	case "shadow-joiner":
		// a VALID proposal (today's rules) whose joining list re-uses the address of a remaining member
		// (the leader, and one more member if any) under the attacker's validly self-signed key
		if !h.kyber {
			h.addShadows(o, s)
		}
	}
	return &pdkg.DKGCommand{Metadata: cmdMeta(), Command: &pdkg.DKGCommand_Resharing{Resharing: o}}
}

// shadowOf is a joiner entry with the address of id and the attacker's key and self-signature (the
// self-signature of an identity does not cover its address, so the entry is validly self-signed).
func (h *hist) shadowOf(id *ident) *pdkg.Participant {
	x := h.w.ids[len(h.w.ids)-1]
	return &pdkg.Participant{Address: id.part.Address, Key: x.part.Key, Signature: x.part.Signature}
}

func (h *hist) addShadows(o *pdkg.ProposalOptions, s reshareSpec) {
	o.Joining = append(o.Joining, h.shadowOf(h.w.ids[s.leader]))
	for _, r := range s.remaining {
		if r != s.leader {
			o.Joining = append(o.Joining, h.shadowOf(h.w.ids[r]))
			break
		}
	}
	n := len(o.Joining) + len(o.Remaining)
	if int(o.Threshold) < minT(n) {
		o.Threshold = uint32(minT(n))
	}
}

// fewRemainers rewrites the options so that only the leader remains, every other member leaves and
// all outsiders (and the key-only identity) join.
func (h *hist) fewRemainers(o *pdkg.ProposalOptions, leader int) {
	o.Remaining = h.parts([]int{leader})
	o.Leaving = h.parts(without(h.group, leader))
	var outside []int
	for i := range h.w.ids {
		if len(without([]int{i}, h.group...)) == 1 {
			outside = append(outside, i)
		}
	}
	o.Joining = h.parts(outside)
	n := len(o.Joining) + len(o.Remaining)
	o.Threshold = uint32(minT(n))
}

func simpleCmd(kind string) *pdkg.DKGCommand {
	c := &pdkg.DKGCommand{Metadata: cmdMeta()}
	switch kind {
	case "accept":
		c.Command = &pdkg.DKGCommand_Accept{Accept: &pdkg.AcceptOptions{}}
	case "reject":
		c.Command = &pdkg.DKGCommand_Reject{Reject: &pdkg.RejectOptions{}}
	case "execute":
		c.Command = &pdkg.DKGCommand_Execute{Execute: &pdkg.ExecutionOptions{}}
	case "abort":
		c.Command = &pdkg.DKGCommand_Abort{Abort: &pdkg.AbortOptions{}}
	case "join":
		c.Command = &pdkg.DKGCommand_Join{Join: &pdkg.JoinOptions{}}
	case "none":
	case "nometa":
		c.Metadata = nil
		c.Command = &pdkg.DKGCommand_Abort{Abort: &pdkg.AbortOptions{}}
	}
	return c
}

func (h *hist) joinCmd(mode string) *pdkg.DKGCommand {
	c := simpleCmd("join")
	switch mode {
	case "group":
		if h.prevG != nil {
			c.GetJoin().GroupFile = groupFileBytes(h.prevG)
		}
	case "bad":
		c.GetJoin().GroupFile = []byte("this is not = [toml")
	case "wrong-genesis":
		if h.prevG != nil {
			g := *h.prevG
			g.GenesisTime += 7
			c.GetJoin().GroupFile = groupFileBytes(&g)
		}
	}
	return c
}

// mutatePacket applies one single-field mutation to a captured (signed) packet, keeping the
// original signature (so every mutation of a signed term must be refused).
func mutationsFor(q *pdkg.GossipPacket) []string {
	muts := []string{"md-addr", "md-sig-flip", "md-sig-short", "md-nil", "md-beacon"}
	if q.GetProposal() != nil {
		// the alterations of fields the signature does not cover come last (they are accepted today)
		muts = append(muts, "t-threshold", "t-epoch", "t-timeout", "t-catchup", "t-period", "t-scheme", "t-genesis",
			"t-beacon", "t-leader-nil", "t-remainer-sig", "t-drop-last", "t-add-leaver", "t-swap-lists",
			"t-shift-remaining-to-leaving", "t-shift-leaving-to-remaining", "t-shift-joining-to-remaining", "t-shift-remaining-to-joining",
			"t-joiner-key", "t-seed", "t-leader-key", "t-remainer-key")
	}
	if q.GetExecute() != nil {
		muts = append(muts, "x-time")
	}
	if q.GetAccept() != nil {
		muts = append(muts, "a-other", "a-nil")
	}
	if q.GetAbort() != nil {
		muts = append(muts, "b-reason")
	}
	return muts
}

func (h *hist) mutatePacket(p *pdkg.GossipPacket) (*pdkg.GossipPacket, string) {
	muts := mutationsFor(p)
	m := muts[h.rng.Intn(len(muts))]
	q := h.applyMutation(p, m)
	if proto.Equal(p, q) {
		return q, "none" // the alteration does not apply to this packet
	}
	return q, m
}

func (h *hist) applyMutation(p *pdkg.GossipPacket, m string) *pdkg.GossipPacket {
	q := proto.Clone(p).(*pdkg.GossipPacket)
	t := q.GetProposal()
	other := h.w.ids[h.rng.Intn(len(h.w.ids))]
	for q.GetMetadata() != nil && other.part.Address == q.GetMetadata().GetAddress() {
		other = h.w.ids[h.rng.Intn(len(h.w.ids))] // a real alteration: somebody else than the signer
	}
	switch m {
	case "md-addr":
		q.Metadata.Address = other.part.Address
	case "md-sig-flip":
		q.Metadata.Signature[3] ^= 1
	case "md-sig-short":
		q.Metadata.Signature = q.Metadata.Signature[:3]
	case "md-nil":
		q.Metadata = nil
	case "md-beacon":
		q.Metadata.BeaconID = "other"
	case "t-threshold":
		t.Threshold++
	case "t-epoch":
		t.Epoch++
	case "t-timeout":
		t.Timeout = timestamppb.New(t.Timeout.AsTime().Add(time.Second))
	case "t-catchup":
		t.CatchupPeriodSeconds++
	case "t-period":
		t.BeaconPeriodSeconds++
	case "t-scheme":
		t.SchemeID = "pedersen-bls-unchained"
	case "t-genesis":
		t.GenesisTime = timestamppb.New(t.GenesisTime.AsTime().Add(time.Second))
	case "t-seed":
		t.GenesisSeed = append([]byte{1}, t.GenesisSeed...)
	case "t-beacon":
		t.BeaconID = "other"
	case "t-leader-nil":
		t.Leader = nil
	case "t-leader-key":
		t.Leader.Key = other.part.Key
	case "t-joiner-key":
		if len(t.Joining) > 0 {
			t.Joining[0].Key = other.part.Key
		}
	case "t-remainer-key":
		if len(t.Remaining) > 0 {
			t.Remaining[len(t.Remaining)-1].Key = other.part.Key
		}
	case "t-remainer-sig":
		if len(t.Remaining) > 0 {
			t.Remaining[len(t.Remaining)-1] = corruptSig(t.Remaining[len(t.Remaining)-1])
		}
	case "t-drop-last":
		if len(t.Joining) > 1 {
			t.Joining = t.Joining[:len(t.Joining)-1]
		} else if len(t.Remaining) > 1 {
			t.Remaining = t.Remaining[:len(t.Remaining)-1]
		}
	case "t-add-leaver":
		t.Leaving = append(t.Leaving, proto.Clone(other.part).(*pdkg.Participant))
	case "t-shift-remaining-to-leaving":
		// move the list boundary: the last remainer becomes the first leaver (order of the entries kept)
		if n := len(t.Remaining); n > 1 {
			t.Leaving = append([]*pdkg.Participant{t.Remaining[n-1]}, t.Leaving...)
			t.Remaining = t.Remaining[:n-1]
		}
	case "t-shift-leaving-to-remaining":
		if len(t.Leaving) > 0 {
			t.Remaining = append(t.Remaining, t.Leaving[0])
			t.Leaving = t.Leaving[1:]
		}
	case "t-shift-joining-to-remaining":
		if n := len(t.Joining); n > 0 {
			t.Remaining = append([]*pdkg.Participant{t.Joining[n-1]}, t.Remaining...)
			t.Joining = t.Joining[:n-1]
		}
	case "t-shift-remaining-to-joining":
		if len(t.Remaining) > 1 {
			t.Joining = append(t.Joining, t.Remaining[0])
			t.Remaining = t.Remaining[1:]
		}
	case "t-swap-lists":
		t.Joining, t.Remaining = t.Remaining, t.Joining
	case "x-time":
		q.GetExecute().Time = timestamppb.New(q.GetExecute().Time.AsTime().Add(time.Second))
	case "a-other":
		q.GetAccept().Acceptor = proto.Clone(other.part).(*pdkg.Participant)
	case "a-nil":
		q.GetAccept().Acceptor = nil
	case "b-reason":
		q.GetAbort().Reason = "because"
	}
	return q
}

// sweep delivers every single-field alteration of a genuinely signed packet to node i, one after the
// other (each must be refused, so the node's state stays put), and finally the genuine packet.
func (h *hist) sweep(i int, p *pdkg.GossipPacket, what string, from int) {
	if p == nil {
		return
	}
	for _, m := range mutationsFor(p) {
		if q := h.applyMutation(p, m); !proto.Equal(p, q) {
			h.packet(i, q, what+":mutated:"+m, h.role(i, from))
		}
	}
	h.packet(i, p, what, h.role(i, from))
}

// forged builds a control packet of the given kind over the target's current terms, claiming to
// come from claimed and signed with signer's private key.
func (h *hist) forged(target int, kind string, claimed, signer *ident) *pdkg.GossipPacket {
	terms := h.currentTerms(target)
	var p *pdkg.GossipPacket
	switch kind {
	case "accept":
		p = &pdkg.GossipPacket{Packet: &pdkg.GossipPacket_Accept{Accept: &pdkg.AcceptProposal{Acceptor: proto.Clone(claimed.part).(*pdkg.Participant)}}}
	case "reject":
		p = &pdkg.GossipPacket{Packet: &pdkg.GossipPacket_Reject{Reject: &pdkg.RejectProposal{Rejector: proto.Clone(claimed.part).(*pdkg.Participant)}}}
	case "accept-other", "reject-other":
		// the sender vouches for somebody else's answer: acceptor/rejector is another participant
		o := h.w.ids[h.rng.Intn(len(h.w.ids))]
		for o == claimed {
			o = h.w.ids[h.rng.Intn(len(h.w.ids))]
		}
		if kind == "accept-other" {
			p = &pdkg.GossipPacket{Packet: &pdkg.GossipPacket_Accept{Accept: &pdkg.AcceptProposal{Acceptor: proto.Clone(o.part).(*pdkg.Participant)}}}
		} else {
			p = &pdkg.GossipPacket{Packet: &pdkg.GossipPacket_Reject{Reject: &pdkg.RejectProposal{Rejector: proto.Clone(o.part).(*pdkg.Participant)}}}
		}
	case "execute":
		p = &pdkg.GossipPacket{Packet: &pdkg.GossipPacket_Execute{Execute: &pdkg.StartExecution{Time: timestamppb.New(time.Now().Add(1000 * time.Hour))}}}
	case "abort":
		p = &pdkg.GossipPacket{Packet: &pdkg.GossipPacket_Abort{Abort: &pdkg.AbortDKG{Reason: "none"}}}
	default:
		p = &pdkg.GossipPacket{}
	}
	return h.sign(p, terms, signer, claimed.part.Address)
}

// forgedFor builds an accept / reject in which [sender] (signing with its own, valid key and naming
// itself as the packet's sender) answers in the name of another participant [victim].
func (h *hist) forgedFor(target int, kind string, sender, victim *ident) *pdkg.GossipPacket {
	terms := h.currentTerms(target)
	var p *pdkg.GossipPacket
	if kind == "accept" {
		p = &pdkg.GossipPacket{Packet: &pdkg.GossipPacket_Accept{Accept: &pdkg.AcceptProposal{Acceptor: proto.Clone(victim.part).(*pdkg.Participant)}}}
	} else {
		p = &pdkg.GossipPacket{Packet: &pdkg.GossipPacket_Reject{Reject: &pdkg.RejectProposal{Rejector: proto.Clone(victim.part).(*pdkg.Participant)}}}
	}
	return h.sign(p, terms, sender, sender.part.Address)
}

// chaos delivers one adversarial / misplaced event to a random node.
func (h *hist) chaos() {
	if h.cut {
		return
	}
	i := h.rng.Intn(len(h.w.nodes))
	switch h.rng.Intn(9) {
	case 0, 1: // replay or mutate a captured packet
		if len(h.pool) == 0 {
			return
		}
		p := h.pool[h.rng.Intn(len(h.pool))]
		if h.rng.Intn(3) == 0 {
			h.packet(i, p, "replay", "pool")
		} else {
			q, m := h.mutatePacket(p)
			h.packet(i, q, "pool:"+mutLabel(m), "pool")
		}
	case 2, 3, 4: // forged control packet: claimed sender x signing key
		kinds := []string{"accept", "reject", "execute", "abort", "none", "accept-other", "reject-other"}
		kind := kinds[h.rng.Intn(len(kinds))]
		claimed := h.w.ids[h.rng.Intn(len(h.w.ids))]
		signer := claimed
		keyMode := "right-key"
		switch h.rng.Intn(3) {
		case 1:
			signer = h.w.ids[h.rng.Intn(len(h.w.ids))]
			keyMode = "other-key"
		case 2:
			signer = h.w.ids[len(h.w.ids)-1]
			keyMode = "attacker-key"
		}
		h.packet(i, h.forged(i, kind, claimed, signer), "forged-"+kind+":"+keyMode, h.role(i, indexOf(h.w.ids, claimed)))
	case 5: // misplaced operator command
		kinds := []string{"accept", "reject", "execute", "abort", "join", "none", "nometa"}
		k := kinds[h.rng.Intn(len(kinds))]
		h.command(i, simpleCmd(k), "cmd-"+k, "self", false)
	case 6:
		h.finishFail(i)
	case 7: // join with various group files
		modes := []string{"", "group", "bad", "wrong-genesis"}
		m := modes[h.rng.Intn(len(modes))]
		h.command(i, h.joinCmd(m), "cmd-join:"+m, "self", false)
	case 8: // foreign beacon id
		p := h.forged(i, "abort", h.w.ids[0], h.w.ids[0])
		p.Metadata.BeaconID = "other"
		h.packet(i, p, "foreign-beacon", "outsider")
	}
}

func mutLabel(m string) string {
	if m == "none" {
		return "unaltered"
	}
	return "mutated:" + m
}

func indexOf(ids []*ident, x *ident) int {
	for i, v := range ids {
		if v == x {
			return i
		}
	}
	return -1
}

func (h *hist) maybeChaos(p int) {
	for h.rng.Intn(100) < p {
		h.chaos()
	}
}

// deliver gives a captured packet to the listed nodes, sometimes mutated or duplicated.
func (h *hist) deliver(p *pdkg.GossipPacket, to []int, what string, from int) {
	for _, i := range to {
		if p == nil || h.cut {
			return
		}
		if h.kyber && p.GetExecute() != nil {
			// real executions are about to start in the background: nothing else is interleaved
			// until runKyber has recorded their outcomes
			h.packet(i, p, what, h.role(i, from))
			continue
		}
		r := h.rng.Intn(100)
		switch {
		case r < 8:
			q, m := h.mutatePacket(p)
			h.packet(i, q, what+":"+mutLabel(m), h.role(i, from))
			h.packet(i, p, what, h.role(i, from))
		case r < 14:
			h.packet(i, p, what, h.role(i, from))
			h.packet(i, p, what+":duplicate", h.role(i, from))
		case r < 18:
			// lost
		default:
			h.packet(i, p, what, h.role(i, from))
		}
		h.maybeChaos(10)
	}
}

func (h *hist) allNodes() []int {
	var o []int
	for i := range h.w.nodes {
		o = append(o, i)
	}
	return o
}

// attempt runs one proposal attempt (genesis when there is no group, reshare otherwise) and
// returns true when the epoch completed at the group (only possible in kyber histories).
func (h *hist) attempt() bool {
	var prop *pdkg.GossipPacket
	var leader int
	var participants, accepters, joiners, leavers []int
	if len(h.group) == 0 {
		cand := h.allNodes()
		members := h.subset(cand, 3+h.rng.Intn(minInt(2, len(cand)-2)))
		leader = members[0]
		mut := initialMutations[h.rng.Intn(len(initialMutations))]
		fail := h.rng.Intn(25) == 0
		_, prop = h.command(leader, h.initialCmd(leader, members, mut), "cmd-initial:"+mut, "leader", fail)
		if prop == nil && mut != "" {
			_, prop = h.command(leader, h.initialCmd(leader, members, ""), "cmd-initial", "leader", false)
		}
		participants, joiners = members, without(members, leader)
	} else {
		s := h.reshareSpec()
		leader = s.leader
		mut := reshareMutations[h.rng.Intn(len(reshareMutations))]
		_, prop = h.command(leader, h.reshareCmd(s, mut), "cmd-reshare:"+mut, "leader", false)
		if prop == nil && mut != "" {
			_, prop = h.command(leader, h.reshareCmd(s, ""), "cmd-reshare", "leader", false)
		}
		participants = append(append([]int{}, s.remaining...), s.joining...)
		accepters, joiners, leavers = without(s.remaining, leader), s.joining, s.leaving
	}
	if prop == nil || h.cut {
		return false
	}
	h.maybeChaos(15)
	others := without(h.allNodes(), leader)
	h.deliver(prop, others, "proposal", leader)
	// responses
	for _, i := range accepters {
		kind := "accept"
		if h.rng.Intn(5) == 0 {
			kind = "reject"
		}
		_, pk := h.command(i, simpleCmd(kind), "cmd-"+kind, "member", false)
		delivered := false
		if pk != nil && h.rng.Intn(3) > 0 {
			h.deliver(pk, without(h.allNodes(), i), kind, i)
			delivered = true
		}
		// another participant answers in the name of member i AFTER i's own answer was recorded:
		// the opposite answer (vote flipping) or the same one, signed with the other's valid key
		if delivered && len(participants) > 1 && h.rng.Intn(2) == 0 && !h.cut {
			y := h.pick(without(participants, i))
			flip := map[string]string{"accept": "reject", "reject": "accept"}[kind]
			if h.rng.Intn(4) == 0 {
				flip = kind
			}
			for _, tgt := range without(h.allNodes(), i) {
				if h.rng.Intn(2) == 0 {
					h.packet(tgt, h.forgedFor(tgt, flip, h.w.ids[y], h.w.ids[i]), "forged-"+flip+"-in-name-of-answered-member", h.role(tgt, y))
				}
			}
		}
	}
	for _, i := range joiners {
		mode := ""
		if len(h.group) > 0 {
			mode = "group"
			if h.rng.Intn(8) == 0 {
				mode = []string{"", "bad", "wrong-genesis"}[h.rng.Intn(3)]
			}
		}
		h.command(i, h.joinCmd(mode), "cmd-join:"+mode, "joiner", false)
	}
	h.maybeChaos(20)
	// outcome of the attempt
	r := h.rng.Intn(100)
	switch {
	case r < 25: // leader aborts
		_, ab := h.command(leader, simpleCmd("abort"), "cmd-abort", "leader", false)
		h.deliver(ab, others, "abort", leader)
		return false
	case r < 35: // somebody else tries to abort / execute
		i := h.pick(others)
		_, pk := h.command(i, simpleCmd([]string{"abort", "execute"}[h.rng.Intn(2)]), "cmd-by-nonleader", h.role(i, i), false)
		h.deliver(pk, without(h.allNodes(), i), "nonleader-packet", i)
		_, ab := h.command(leader, simpleCmd("abort"), "cmd-abort", "leader", false)
		h.deliver(ab, others, "abort", leader)
		return false
	}
	_, ex := h.command(leader, simpleCmd("execute"), "cmd-execute", "leader", false)
	if ex == nil {
		return false
	}
	h.deliver(ex, others, "execute", leader)
	if h.kyber {
		h.runKyber(6 * time.Second)
		done := 0
		for _, i := range participants {
			if mustSnapshot(h.w.nodes[i]).raw.cur.State == dkg.Complete {
				done++
			}
		}
		if done == len(participants) && done > 0 {
			sp := mustSnapshot(h.w.nodes[participants[0]])
			h.group, h.epoch, h.thr = participants, sp.raw.cur.Epoch, sp.raw.cur.Threshold
			h.prevG = sp.raw.cur.FinalGroup
			return true
		}
		// partial completion: later attempts in this history would need a consistent group
		h.cut = true
		return false
	}
	// no kyber: the run is reported as failed at every node that is executing (hook)
	for _, i := range h.allNodes() {
		st := mustSnapshot(h.w.nodes[i]).raw.cur.State
		if (st == dkg.Executing && h.rng.Intn(10) > 0) || h.rng.Intn(8) == 0 {
			h.finishFail(i)
		}
	}
	_ = leavers
	return false
}
