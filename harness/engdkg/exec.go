package engdkg

import (
	"bytes"
	"context"
	"crypto/sha256"
	"fmt"
	"math/big"
	"time"

	"google.golang.org/protobuf/proto"

	"github.com/drand/drand/v2/common/key"
	"github.com/drand/drand/v2/crypto"
	"github.com/drand/drand/v2/internal/dkg"
	pdkg "github.com/drand/drand/v2/protobuf/dkg"
	kdkg "github.com/drand/kyber/share/dkg"
)

func hashBytes(b []byte) []byte { h := sha256.Sum256(b); return h[:] }

func bigMulAdd(sec, nsec int64) string {
	x := new(big.Int).Mul(big.NewInt(sec), big.NewInt(1000000000))
	return x.Add(x, big.NewInt(nsec)).String()
}

type evKind int

const (
	evCommand evKind = iota
	evPacket
	evFinishFail // hook: real executeAndFinishDKG with a kyber config that fails at once
	evFinishObs  // outcome of a real kyber run, observed
)

type event struct {
	kind       evKind
	cmd        *pdkg.DKGCommand
	gossipFail bool
	packet     *pdkg.GossipPacket
	descr      string
	role       string // role of the acting/claimed sender relative to the target (for the distribution)
	// evFinishObs
	finOK    bool
	outGroup *groupProj
	outShare []byte
	// set for join commands: the parsed group (nil when none / unparsable)
	joinGroup *groupProj
	joinBad   bool
}

type stepRec struct {
	nowNs        int64
	ev           *event
	csig         []byte
	validJoiners []partProj
	validKeys    [][]byte
	oracleMsg    []byte
	sigKeysOK    [][]byte
	class        string // "unobserved" when the return value cannot be observed
	before       storeProj
	after        storeProj
	accepted     bool // the implementation returned no error and the store changed
}

// effective replicates only the choice of the base state (terminal-state fallback); it is used to
// compute oracle inputs (which scheme / which terms the signature is checked against), never to
// judge the implementation: a wrong replica shows up as a model/implementation disagreement.
func effective(sp storeProj) *dkg.DBState {
	cur := sp.raw.cur
	for _, t := range dkg.VerifSMTerminalStates() {
		if cur.State == t {
			if sp.raw.fin == nil {
				return dkg.NewFreshState(beaconID)
			}
			return sp.raw.fin
		}
	}
	return cur
}

func (w *world) keyOK(k []byte) bool {
	return w.sch.KeyGroup.Point().UnmarshalBinary(k) == nil
}

func joinerValid(p *pdkg.Participant, schemeName string) bool {
	sch, err := crypto.SchemeFromName(schemeName)
	if err != nil {
		return false
	}
	id, err := key.IdentityFromProto(p, sch)
	if err != nil {
		return false
	}
	return id.ValidSignature() == nil
}

func collectParts(acc map[string]*pdkg.Participant, ls ...[]*pdkg.Participant) {
	for _, l := range ls {
		for _, p := range l {
			if p != nil {
				acc[string(p.Address)+"|"+string(p.Key)+"|"+string(p.Signature)] = p
			}
		}
	}
}

func stateParts(acc map[string]*pdkg.Participant, d *dkg.DBState) {
	if d == nil {
		return
	}
	collectParts(acc, d.Remaining, d.Joining, d.Leaving, d.Acceptors, d.Rejectors, []*pdkg.Participant{d.Leader})
	if d.FinalGroup != nil {
		for _, n := range d.FinalGroup.Nodes {
			k, _ := n.Key.MarshalBinary()
			collectParts(acc, []*pdkg.Participant{{Address: n.Address(), Key: k, Signature: n.Signature}})
		}
	}
}

// oracles fills the oracle inputs of a step: which joiners are validly self-signed for the scheme
// the code will use, which keys unmarshal, the real messageForSigning bytes for the terms of the
// next state, and under which keys the packet signature verifies (independent Verify calls).
func (w *world) oracles(n *node, st *stepRec) {
	ev := st.ev
	parts := map[string]*pdkg.Participant{}
	stateParts(parts, st.before.raw.cur)
	stateParts(parts, st.before.raw.fin)
	for _, id := range w.ids {
		collectParts(parts, []*pdkg.Participant{id.part})
	}
	var joiners []*pdkg.Participant
	scheme := ""
	eff := effective(st.before)
	switch ev.kind {
	case evCommand:
		switch c := ev.cmd.Command.(type) {
		case *pdkg.DKGCommand_Initial:
			joiners, scheme = c.Initial.GetJoining(), c.Initial.GetScheme()
			collectParts(parts, c.Initial.GetJoining())
		case *pdkg.DKGCommand_Resharing:
			joiners, scheme = c.Resharing.GetJoining(), eff.SchemeID
			collectParts(parts, c.Resharing.GetJoining(), c.Resharing.GetRemaining(), c.Resharing.GetLeaving())
		}
	case evPacket:
		if t := ev.packet.GetProposal(); t != nil {
			joiners, scheme = t.GetJoining(), t.GetSchemeID()
			collectParts(parts, t.GetJoining(), t.GetRemaining(), t.GetLeaving(), []*pdkg.Participant{t.GetLeader()})
		}
		if a := ev.packet.GetAccept(); a != nil {
			collectParts(parts, []*pdkg.Participant{a.GetAcceptor()})
		}
		if r := ev.packet.GetReject(); r != nil {
			collectParts(parts, []*pdkg.Participant{r.GetRejector()})
		}
	}
	for _, j := range joiners {
		if j != nil && joinerValid(j, scheme) {
			st.validJoiners = append(st.validJoiners, projPart(j))
		}
	}
	seenKey := map[string]bool{}
	var keys [][]byte
	for _, p := range parts {
		if !seenKey[string(p.Key)] {
			seenKey[string(p.Key)] = true
			keys = append(keys, p.Key)
			if w.keyOK(p.Key) {
				st.validKeys = append(st.validKeys, p.Key)
			}
		}
	}
	if ev.kind == evPacket && ev.packet.GetMetadata() != nil && ev.packet.GetDkg() == nil {
		// terms of the next state, obtained from the real Apply on a private copy of the base state
		base := effective(mustSnapshot(n))
		var next *dkg.DBState
		func() {
			defer func() { _ = recover() }()
			nx, err := base.Apply(n.id.part, proto.Clone(ev.packet).(*pdkg.GossipPacket))
			if err == nil {
				next = nx
			}
		}()
		if next != nil {
			md := ev.packet.GetMetadata()
			st.oracleMsg = dkg.VerifSMMessageForSigning(md.GetBeaconID(), ev.packet, dkg.VerifSMTermsFromState(next))
			for _, k := range keys {
				pt := w.sch.KeyGroup.Point()
				if pt.UnmarshalBinary(k) != nil {
					continue
				}
				if w.sch.AuthScheme.Verify(pt, st.oracleMsg, md.GetSignature()) == nil {
					st.sigKeysOK = append(st.sigKeysOK, k)
				}
			}
		}
	}
}

// storeUnreadable is raised when GetCurrent/GetFinished of the real store fail.
type storeUnreadable struct {
	node string
	err  error
}

func (s storeUnreadable) Error() string { return s.node + ": " + s.err.Error() }

func mustSnapshot(n *node) storeProj {
	sp, err := n.snapshot()
	if err != nil {
		panic(storeUnreadable{n.id.name, err})
	}
	return sp
}

func (n *node) last() storeProj {
	if len(n.steps) == 0 {
		return n.init0
	}
	return n.steps[len(n.steps)-1].after
}

func wireCmd(c *pdkg.DKGCommand) *pdkg.DKGCommand {
	b, err := proto.Marshal(c)
	if err != nil {
		panic(err)
	}
	o := &pdkg.DKGCommand{}
	if err := proto.Unmarshal(b, o); err != nil {
		panic(err)
	}
	return o
}

func wirePkt(p *pdkg.GossipPacket) *pdkg.GossipPacket {
	b, err := proto.Marshal(p)
	if err != nil {
		panic(err)
	}
	o := &pdkg.GossipPacket{}
	if err := proto.Unmarshal(b, o); err != nil {
		panic(err)
	}
	return o
}

// timeGuard: no timeout that the step can read may lie within this distance of the step's clock
// readings, otherwise the step is ambiguous and the history is cut there.
const timeGuard = 150 * time.Millisecond

func relevantTimeouts(sp storeProj, ev *event) []time.Time {
	var ts []time.Time
	ts = append(ts, sp.raw.cur.Timeout)
	if sp.raw.fin != nil {
		ts = append(ts, sp.raw.fin.Timeout)
	}
	if ev.kind == evCommand {
		if i := ev.cmd.GetInitial(); i != nil {
			ts = append(ts, i.GetTimeout().AsTime())
		}
		if r := ev.cmd.GetResharing(); r != nil {
			ts = append(ts, r.GetTimeout().AsTime())
		}
	}
	if ev.kind == evPacket {
		if t := ev.packet.GetProposal(); t != nil {
			ts = append(ts, t.GetTimeout().AsTime())
		}
	}
	return ts
}

// do runs one event on the real process of node n and records the observables. It returns nil
// when the step was time-ambiguous (the caller must stop the history).
func (w *world) do(n *node, ev *event) *stepRec {
	st := &stepRec{ev: ev, before: n.last()}
	if ev.kind == evCommand {
		ev.cmd = wireCmd(ev.cmd)
	}
	if ev.kind == evPacket {
		ev.packet = wirePkt(ev.packet)
	}
	w.oracles(n, st)
	n.client.mu.Lock()
	n.client.failSend = ev.gossipFail
	n.client.mu.Unlock()
	t0 := time.Now()
	st.nowNs = t0.UnixNano()
	var err error
	panicked := false
	func() {
		defer func() {
			if r := recover(); r != nil {
				panicked = true
			}
		}()
		ctx := context.Background()
		switch ev.kind {
		case evCommand:
			_, err = n.proc.Command(ctx, ev.cmd)
		case evPacket:
			_, err = n.proc.Packet(ctx, ev.packet)
		case evFinishFail:
			err = n.proc.VerifSMExecuteAndFinish(ctx, beaconID, &kdkg.Config{})
		}
	}()
	t1 := time.Now()
	for _, to := range relevantTimeouts(st.before, ev) {
		if to.After(t0.Add(-timeGuard)) && to.Before(t1.Add(timeGuard)) {
			return nil
		}
	}
	if panicked {
		st.class = "panic"
	} else {
		st.class = classify(err)
	}
	st.after = mustSnapshot(n)
	if ev.kind == evCommand {
		// the signature produced by signMessage: the new element of SeenPackets, if any
		for _, s := range st.after.seen {
			found := false
			for _, b := range st.before.seen {
				if bytes.Equal(s, b) {
					found = true
				}
			}
			if !found {
				st.csig = s
			}
		}
	}
	st.accepted = err == nil && !panicked && !sameState(st.before, st.after)
	n.steps = append(n.steps, st)
	return st
}

func sameState(a, b storeProj) bool {
	return derefS(a.cur) == derefS(b.cur) && derefS(a.fin) == derefS(b.fin)
}

func derefS(s *stateProj) string {
	if s == nil {
		return "<nil>"
	}
	x := *s
	l, g := "", ""
	if x.leader != nil {
		l = fmt.Sprint(*x.leader)
	}
	if x.group != nil {
		g = fmt.Sprint(*x.group)
	}
	x.leader, x.group = nil, nil
	return fmt.Sprint(x) + l + g
}

// waitOutbox returns the packets gossiped by the last command of n (it waits briefly for the send
// goroutines when the process marked a new packet as seen).
func (n *node) waitOutbox(expect, maybe bool) []sent {
	deadline := time.Now().Add(2 * time.Second)
	if !expect && maybe {
		deadline = time.Now().Add(40 * time.Millisecond)
	}
	for {
		out := n.client.take()
		if len(out) > 0 || (!expect && !maybe) || time.Now().After(deadline) {
			if len(out) > 0 {
				// let the remaining sends of the same gossip land
				time.Sleep(2 * time.Millisecond)
				out = append(out, n.client.take()...)
			}
			return out
		}
		time.Sleep(time.Millisecond)
	}
}
