package engdkg

import (
	"bytes"
	"fmt"
	"math/rand"
	"time"

	"github.com/BurntSushi/toml"
	"google.golang.org/protobuf/proto"
	"google.golang.org/protobuf/types/known/timestamppb"

	"github.com/drand/drand/v2/common/key"
	"github.com/drand/drand/v2/internal/dkg"
	pdkg "github.com/drand/drand/v2/protobuf/dkg"
	"github.com/drand/drand/v2/zzverif/emit"
	"github.com/drand/kyber/share"
	kdkg "github.com/drand/kyber/share/dkg"
	"github.com/drand/kyber/util/random"
)

// hist is one generated history over a world of real processes.
type hist struct {
	id    int
	kind  string
	w     *world
	rng   *rand.Rand
	cut   bool // a step was time-ambiguous: the history stops there
	pool  []*pdkg.GossipPacket
	group []int // indices of the nodes in the current (last completed) group
	epoch uint32
	thr   uint32
	gen   time.Time
	seed  []byte
	prevG *key.Group
	notes []string
	extra []emit.MonitorFailure
	kyber bool
}

var farFuture = 10 * time.Hour

func (h *hist) farTimeout() *timestamppb.Timestamp {
	return timestamppb.New(time.Now().Add(farFuture + time.Duration(h.rng.Intn(3600))*time.Second))
}

func pastTimeout() *timestamppb.Timestamp { return timestamppb.New(time.Now().Add(-time.Hour)) }

func (h *hist) parts(idx []int) []*pdkg.Participant {
	var o []*pdkg.Participant
	for _, i := range idx {
		o = append(o, proto.Clone(h.w.ids[i].part).(*pdkg.Participant))
	}
	return o
}

func cmdMeta() *pdkg.CommandMetadata { return &pdkg.CommandMetadata{BeaconID: beaconID} }

// command runs a command on node i and returns the packet it gossiped (nil if none).
func (h *hist) command(i int, c *pdkg.DKGCommand, descr, role string, gossipFail bool) (*stepRec, *pdkg.GossipPacket) {
	if h.cut {
		return nil, nil
	}
	n := h.w.nodes[i]
	n.client.take()
	st := h.w.do(n, &event{kind: evCommand, cmd: c, descr: descr, role: role, gossipFail: gossipFail})
	if st == nil {
		h.cut = true
		return nil, nil
	}
	var pk *pdkg.GossipPacket
	// BLS metadata signatures are deterministic: when the signature the command produced was already
	// in SeenPackets no new element shows up, so the signature is then read off the gossiped packet
	maybe := st.csig == nil && (st.class == "ok" || st.class == "other") && c.GetJoin() == nil
	out := n.waitOutbox(st.csig != nil, maybe)
	if len(out) > 0 {
		pk = out[0].packet
		if st.csig == nil {
			st.csig = pk.GetMetadata().GetSignature()
		}
		if !gossipFail {
			h.pool = append(h.pool, pk)
		} else {
			pk = nil
		}
	}
	return st, pk
}

func (h *hist) packet(i int, p *pdkg.GossipPacket, descr, role string) *stepRec {
	if h.cut || p == nil {
		return nil
	}
	n := h.w.nodes[i]
	st := h.w.do(n, &event{kind: evPacket, packet: proto.Clone(p).(*pdkg.GossipPacket), descr: descr, role: role})
	if st == nil {
		h.cut = true
		return nil
	}
	n.client.take()
	return st
}

func (h *hist) finishFail(i int) *stepRec {
	if h.cut {
		return nil
	}
	st := h.w.do(h.w.nodes[i], &event{kind: evFinishFail, descr: "finish-fail(hook)", role: "self"})
	if st == nil {
		h.cut = true
	}
	return st
}

// sign produces the metadata a node with the given private identity would attach.
func (h *hist) sign(p *pdkg.GossipPacket, terms *pdkg.ProposalTerms, signer *ident, claimedAddr string) *pdkg.GossipPacket {
	q := proto.Clone(p).(*pdkg.GossipPacket)
	q.Metadata = nil
	msg := dkg.VerifSMMessageForSigning(beaconID, q, terms)
	sig, err := h.w.sch.AuthScheme.Sign(signer.kp.Key, msg)
	if err != nil {
		panic(err)
	}
	q.Metadata = &pdkg.GossipMetadata{BeaconID: beaconID, Address: claimedAddr, Signature: sig}
	return q
}

// termsAsStored is what termsFromState gives after a node has stored these terms.
func termsAsStored(t *pdkg.ProposalTerms) *pdkg.ProposalTerms {
	// only the NonEmpty filter of Proposed/Proposing is mirrored here (a wrong mirror would only make
	// the forged signature invalid, which the oracle Verify call reports as such)
	o := proto.Clone(t).(*pdkg.ProposalTerms)
	f := func(l []*pdkg.Participant) []*pdkg.Participant {
		var r []*pdkg.Participant
		for _, p := range l {
			if p != nil && p.Address != "" {
				r = append(r, p)
			}
		}
		return r
	}
	o.Joining, o.Remaining, o.Leaving = f(o.Joining), f(o.Remaining), f(o.Leaving)
	return o
}

func (h *hist) proposalPacket(t *pdkg.ProposalTerms, signer *ident, claimedAddr string) *pdkg.GossipPacket {
	p := &pdkg.GossipPacket{Packet: &pdkg.GossipPacket_Proposal{Proposal: t}}
	return h.sign(p, termsAsStored(t), signer, claimedAddr)
}

// currentTerms returns the terms of node i's effective current state (what an honest peer would
// sign accept/reject/execute/abort packets over).
func (h *hist) currentTerms(i int) *pdkg.ProposalTerms {
	sp := mustSnapshot(h.w.nodes[i])
	return dkg.VerifSMTermsFromState(sp.raw.cur)
}

// ---------- fabricated completed epoch (initial stores) ----------

// fabricate writes a finished record of a completed epoch for the given members into their
// stores (shares dealt centrally with share.NewPriPoly), and makes it the initial store of their
// traces.
func (h *hist) fabricate(members []int, thr int, epoch uint32) {
	w := h.w
	g := w.sch.KeyGroup
	poly := share.NewPriPoly(g, thr, nil, random.New())
	pub := poly.Commit(g.Point().Base())
	_, commits := pub.Info()
	var nodes []*key.Node
	for k, i := range members {
		nodes = append(nodes, &key.Node{Identity: w.ids[i].kp.Public, Index: uint32(k)})
	}
	gen := time.Now().Add(-24 * time.Hour).Truncate(time.Second).UTC()
	grp := &key.Group{Threshold: thr, Period: 30 * time.Second, Scheme: w.sch, ID: beaconID, CatchupPeriod: 5 * time.Second,
		Nodes: nodes, GenesisTime: gen.Unix(), TransitionTime: gen.Unix(), PublicKey: &key.DistPublic{Coefficients: commits}}
	grp.GenesisSeed = grp.Hash()
	parts := h.parts(members)
	// the timeout of the completed proposal: often still in the future shortly after completion
	timeout := time.Now().Add(-time.Hour).UTC()
	if h.rng.Intn(2) == 0 {
		timeout = time.Now().Add(farFuture).UTC()
	}
	for k, i := range members {
		sh := &key.Share{DistKeyShare: kdkg.DistKeyShare{Commits: commits, Share: poly.Eval(k)}, Scheme: w.sch}
		st := &dkg.DBState{BeaconID: beaconID, Epoch: epoch, State: dkg.Complete, Threshold: uint32(thr),
			Timeout: timeout, SchemeID: w.sch.Name, GenesisTime: gen, GenesisSeed: grp.GenesisSeed,
			CatchupPeriod: 5 * time.Second, BeaconPeriod: 30 * time.Second, Leader: parts[0],
			FinalGroup: grp, KeyShare: sh}
		if epoch == 1 {
			st.Joining = parts
		} else {
			st.Remaining = parts
		}
		st.Acceptors = nil
		if err := w.nodes[i].store.SaveFinished(beaconID, st); err != nil {
			panic(err)
		}
		w.nodes[i].init0 = mustSnapshot(w.nodes[i])
	}
	h.group, h.epoch, h.thr, h.gen, h.seed, h.prevG = members, epoch, uint32(thr), gen, grp.GenesisSeed, grp
}

func groupFileBytes(g *key.Group) []byte {
	var b bytes.Buffer
	if err := toml.NewEncoder(&b).Encode(g.TOML()); err != nil {
		panic(err)
	}
	return b.Bytes()
}

// ---------- real kyber runs ----------

// runKyber waits for the executions started by Execute steps (short kick-off) to end and records
// the observed outcome as a finish event in every node whose state left Executing.
func (h *hist) runKyber(maxWait time.Duration) {
	if h.cut {
		return
	}
	deadline := time.Now().Add(maxWait)
	pending := map[int]bool{}
	for i, n := range h.w.nodes {
		// the state as of the node's last recorded step: a fast run may already have completed
		if n.last().raw.cur.State == dkg.Executing {
			pending[i] = true
		}
	}
	for len(pending) > 0 && time.Now().Before(deadline) {
		for i := range pending {
			n := h.w.nodes[i]
			sp := mustSnapshot(n)
			if sp.raw.cur.State == dkg.Executing {
				continue
			}
			delete(pending, i)
			ev := &event{kind: evFinishObs, descr: "kyber-run", role: "self"}
			if sp.raw.cur.State == dkg.Complete {
				ev.finOK = true
				select {
				case out := <-n.outCh:
					ev.outGroup, ev.outShare = projGroup(out.New.FinalGroup), shareID(out.New.KeyShare)
				case <-time.After(2 * time.Second):
					ev.outGroup, ev.outShare = projGroup(sp.raw.cur.FinalGroup), shareID(sp.raw.cur.KeyShare)
					h.notes = append(h.notes, "no SharingOutput received; group read from the store")
				}
				h.prevG = sp.raw.cur.FinalGroup
			}
			st := &stepRec{ev: ev, before: n.last(), nowNs: time.Now().UnixNano(), class: "unobserved", after: sp}
			st.accepted = true
			n.steps = append(n.steps, st)
		}
		time.Sleep(20 * time.Millisecond)
	}
	if len(pending) > 0 {
		h.notes = append(h.notes, fmt.Sprintf("%d executions still running at the deadline", len(pending)))
	}
}
