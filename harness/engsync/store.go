package engsync

import (
	"context"
	"errors"
	"fmt"
	"os"
	"sort"
	"sync"

	"github.com/drand/drand/v2/common"
	"github.com/drand/drand/v2/common/log"
	"github.com/drand/drand/v2/crypto"
	"github.com/drand/drand/v2/internal/chain"
	"github.com/drand/drand/v2/internal/chain/beacon"
	"github.com/drand/drand/v2/internal/chain/boltdb"
	"github.com/drand/drand/v2/internal/chain/memdb"
)

// recorder wraps the raw store: it logs every Put that reaches the raw level (beacon as handed
// down, result) and the round the raw store ended at before the Put.
type putRec struct {
	b        *common.Beacon
	headPrev uint64
	err      error
}

type recorder struct {
	chain.Store
	mu    sync.Mutex
	puts  []putRec
	lasts int // Last() calls seen (Run asks for the last beacon when it takes a request)
	// fault injection: the Put of this round fails once (0: never)
	failRound uint64
	failed    bool
}

var errInjected = errors.New("injected: transient failure of the underlying store")

func (r *recorder) Last(ctx context.Context) (*common.Beacon, error) {
	r.mu.Lock()
	r.lasts++
	r.mu.Unlock()
	return r.Store.Last(ctx)
}

func (r *recorder) lastCalls() int {
	r.mu.Lock()
	defer r.mu.Unlock()
	return r.lasts
}

func (r *recorder) Put(ctx context.Context, b *common.Beacon) error {
	var head uint64
	if l, err := r.Store.Last(context.Background()); err == nil && l != nil {
		head = l.Round
	}
	rec := putRec{b: cp(b), headPrev: head}
	r.mu.Lock()
	inject := r.failRound != 0 && b.Round == r.failRound && !r.failed
	if inject {
		r.failed = true
	}
	r.mu.Unlock()
	var err error
	if inject {
		err = errInjected // nothing is written
	} else {
		err = r.Store.Put(ctx, b)
	}
	rec.err = err
	r.mu.Lock()
	r.puts = append(r.puts, rec)
	r.mu.Unlock()
	return err
}

func (r *recorder) count() int {
	r.mu.Lock()
	defer r.mu.Unlock()
	return len(r.puts)
}

// putsSince: how many of the Puts numbered n, n+1, ... were of that beacon
func (r *recorder) putsSince(n int, key string) int {
	r.mu.Lock()
	defer r.mu.Unlock()
	k := 0
	for i := n; i < len(r.puts); i++ {
		if putKey(r.puts[i].b) == key {
			k++
		}
	}
	return k
}

func (r *recorder) okPuts() []putRec {
	r.mu.Lock()
	defer r.mu.Unlock()
	var o []putRec
	for _, p := range r.puts {
		if p.err == nil {
			o = append(o, p)
		}
	}
	return o
}

const (
	bkMem   = "memdb"
	bkBoltU = "bolt-untrimmed"
	bkBoltT = "bolt-trimmed"
)

var quietLog log.Logger

// newRaw opens a fresh raw store of the given kind. cleanup removes its files.
func newRaw(ctx context.Context, kind string) (chain.Store, func(), error) {
	switch kind {
	case bkMem:
		return memdb.NewStore(4000), func() {}, nil
	case bkBoltU, bkBoltT:
		dir, err := os.MkdirTemp("", "zzv-sync-")
		if err != nil {
			return nil, nil, err
		}
		c := ctx
		if kind == bkBoltU {
			c = boltdb.IsATest(ctx) // untrimmed format: the whole beacon is stored
		}
		st, err := boltdb.NewBoltStore(c, quietLog, dir)
		if err != nil {
			os.RemoveAll(dir)
			return nil, nil, err
		}
		return st, func() { os.RemoveAll(dir) }, nil
	}
	return nil, nil, fmt.Errorf("unknown back-end %s", kind)
}

func coqBackend(kind string) string {
	if kind == bkMem {
		return "BkKeep"
	}
	return "BkOverwrite"
}

const (
	skAppend = "SkAppend" // callback(append(scheme(raw)))  -- newChainStore without the metrics wrapper
	skFollow = "SkFollow" // callback(scheme(raw))          -- what StartFollowChain built before it got the append store; hand-built here to keep that branch of the model validated
)

func buildStack(ctx context.Context, raw chain.Store, sch *crypto.Scheme, sk string) (beacon.CallbackStore, error) {
	ss, err := beacon.NewSchemeStore(ctx, raw, sch)
	if err != nil {
		return nil, err
	}
	top := ss
	if sk == skAppend {
		top, err = beacon.VerifSyncNewAppendStore(ctx, ss)
		if err != nil {
			return nil, err
		}
	}
	return beacon.NewCallbackStore(quietLog, top), nil
}

// scan reads the whole raw store back, ascending.
func scan(ctx context.Context, st chain.Store) ([]*common.Beacon, error) {
	var out []*common.Beacon
	err := st.Cursor(ctx, func(ctx context.Context, c chain.Cursor) error {
		for b, err := c.First(ctx); b != nil && err == nil; b, err = c.Next(ctx) {
			out = append(out, cp(b))
		}
		return nil
	})
	sort.Slice(out, func(i, j int) bool { return out[i].Round < out[j].Round })
	return out, err
}
