package engsync

import (
	"context"
	"errors"
	"fmt"
	"strings"
	"sync"
	"time"

	"google.golang.org/grpc"

	"github.com/drand/drand/v2/common"
	"github.com/drand/drand/v2/internal/net"
	"github.com/drand/drand/v2/protobuf/drand"
)

const selfAddr = "127.0.0.1:4000"

// stream elements of a scripted peer
type elemKind int

const (
	ePkt elemKind = iota
	eStall
	eClose
)

// metadata classes of a packet relative to the pinned beacon id
const (
	mdNone  = 0
	mdSame  = 1
	mdOther = 2
)

type elem struct {
	kind elemKind
	md   int
	b    *common.Beacon
}

// peerSpec is one scripted peer: own address / unreachable / a stream that may depend on the
// round the syncing node asks from.
type peerSpec struct {
	self  bool
	reach bool
	gen   func(from uint64) []elem
	kind  string // description for reports: honest, stall, close, badsig, ...
	// for the monitor's premises only: serves the honest chain from any round; may keep the stream
	// open without sending (any Stall element)
	honest   bool
	mayStall bool
}

// call is what the client recorded about one SyncChain call
type call struct {
	spec   *peerSpec
	from   uint64
	stream []elem
}

// scriptClient is the in-memory net.ProtocolClient. Behaviours are bound to calls in the order the
// specs are listed (per attempt): the SyncManager picks addresses in a random order, the harness
// decides which behaviour the k-th picked address has. This fixes the effective order without
// touching math/rand.
type scriptClient struct {
	w  *world
	mu sync.Mutex
	// attempts[a] = specs (own-address entries included, they are never called) of attempt a
	attempts   [][]*peerSpec
	cur        int // current attempt
	used       int // calls consumed in the current attempt
	autoNext   bool
	calls      [][]*call // per attempt
	stalled    chan struct{}
	rec        *recorder // the raw store's recorder (nil: no view on the store)
	active     int       // feeding goroutines alive
	extraCalls int
	// a stream that reached its Stall element and is held open: its context and how many such
	// streams are waiting right now (tick mode uses them to see renewals)
	stalledCtx context.Context
	stalledNow int
	tickMode   bool
	noRecorder bool
	upTo       uint64
	foreign    string
	// called when a SyncChain call arrives after the last scripted attempt was used up
	onExhausted func()
}

// target is the upTo of the request being served (an input of the case, set by the driver)
func (c *scriptClient) target() uint64 {
	c.mu.Lock()
	defer c.mu.Unlock()
	return c.upTo
}

func (c *scriptClient) setTarget(u uint64) {
	c.mu.Lock()
	c.upTo = u
	c.mu.Unlock()
}

// settled: every stream being served is one that is held open at its Stall element
func (c *scriptClient) settled() bool {
	c.mu.Lock()
	defer c.mu.Unlock()
	return c.active == c.stalledNow
}

// blocked: a stream is held open at its Stall element and its context is still alive
func (c *scriptClient) blocked() bool {
	c.mu.Lock()
	defer c.mu.Unlock()
	return c.stalledCtx != nil && c.stalledCtx.Err() == nil
}

// blockedCtx: the context of the stream held open at its Stall element, nil when there is none alive
func (c *scriptClient) blockedCtx() context.Context {
	c.mu.Lock()
	defer c.mu.Unlock()
	if c.stalledCtx != nil && c.stalledCtx.Err() == nil {
		return c.stalledCtx
	}
	return nil
}

func (c *scriptClient) totalCalls() int {
	c.mu.Lock()
	defer c.mu.Unlock()
	n := c.extraCalls
	for _, a := range c.calls {
		n += len(a)
	}
	return n
}

// idle: no stream is being fed (every served stream was closed or released by its consumer)
func (c *scriptClient) idle() bool {
	c.mu.Lock()
	defer c.mu.Unlock()
	return c.active == 0
}

func newScriptClient(w *world, attempts [][]*peerSpec, autoNext bool) *scriptClient {
	return &scriptClient{w: w, attempts: attempts, autoNext: autoNext,
		calls: make([][]*call, len(attempts)), stalled: make(chan struct{}, 64),
		foreign: "another-beacon"}
}

func others(specs []*peerSpec) []*peerSpec {
	var o []*peerSpec
	for _, s := range specs {
		if !s.self {
			o = append(o, s)
		}
	}
	return o
}

// nodes builds the address list handed to the SyncManager for an attempt's specs.
func nodesFor(specs []*peerSpec) []net.Peer {
	var ps []net.Peer
	k := 0
	for _, s := range specs {
		if s.self {
			ps = append(ps, net.CreatePeer(selfAddr))
		} else {
			ps = append(ps, net.CreatePeer(fmt.Sprintf("10.0.0.%d:4444", k+1)))
			k++
		}
	}
	return ps
}

func (c *scriptClient) setAttempt(a int) {
	c.mu.Lock()
	c.cur, c.used = a, 0
	c.mu.Unlock()
}

// putKey identifies a stored beacon by round and signature (the previous signature may be cleared
// by the scheme store on the way down).
func putKey(b *common.Beacon) string { return fmt.Sprintf("%d|%x", b.Round, b.Signature) }

var errUnreachable = errors.New("scripted: peer unreachable")

func (c *scriptClient) SyncChain(ctx context.Context, p net.Peer, in *drand.SyncRequest, _ ...net.CallOption) (chan *drand.BeaconPacket, error) {
	c.mu.Lock()
	if c.tickMode && c.stalledCtx != nil && c.stalledCtx.Err() != nil {
		// the Sync that was blocked on a silent peer has been cancelled: this call belongs to the
		// Sync that replaces it
		c.cur, c.used, c.stalledCtx = c.cur+1, 0, nil
	} else if c.autoNext && c.cur < len(c.attempts) && c.used >= len(others(c.attempts[c.cur])) {
		c.cur, c.used = c.cur+1, 0
	}
	var spec *peerSpec
	if c.cur < len(c.attempts) {
		o := others(c.attempts[c.cur])
		if c.used < len(o) {
			spec = o[c.used]
		}
	}
	a := c.cur
	c.used++
	if spec == nil || p.Address() == selfAddr {
		c.extraCalls++
		ex := c.onExhausted
		c.mu.Unlock()
		if ex != nil && spec == nil {
			ex()
		}
		return nil, fmt.Errorf("scripted: unexpected SyncChain call (attempt %d, peer %s)", a, p.Address())
	}
	cl := &call{spec: spec, from: in.GetFromRound()}
	if spec.reach {
		if in.GetFromRound() == 0 {
			// what every server does for FromRound 0: nothing from the store, only future rounds
			cl.stream = []elem{{kind: eStall}}
		} else {
			cl.stream = spec.gen(in.GetFromRound())
		}
	}
	c.calls[a] = append(c.calls[a], cl)
	c.mu.Unlock()
	if !spec.reach {
		return nil, errUnreachable
	}
	ch := make(chan *drand.BeaconPacket) // unbuffered: a send completes when tryNode is back in its select
	c.mu.Lock()
	c.active++
	c.mu.Unlock()
	go func() {
		c.feed(ctx, ch, cl.stream)
		// ctx is tryNode's per-peer context: it is cancelled when tryNode returns. Only then is
		// this stream really finished (a closed channel may still have its last packet in work).
		select {
		case <-ctx.Done():
		case <-time.After(hangTimeout):
		}
		c.mu.Lock()
		c.active--
		c.mu.Unlock()
	}()
	return ch, nil
}

func (c *scriptClient) feed(ctx context.Context, ch chan *drand.BeaconPacket, stream []elem) {
	// every Put made from now on belongs to this stream (tryNode handles one peer at a time and has
	// not received anything yet); sent counts the packets handed over, by beacon
	start := 0
	if c.rec != nil {
		start = c.rec.count()
	}
	sent := map[string]int{}
	for i, e := range stream {
		switch e.kind {
		case eClose:
			close(ch)
			return
		case eStall:
			// the previous packet (if any) was received; it is being verified and stored, or refused.
			// Stalled for good once its Put came back and tryNode did not return shortly after.
			if i > 0 && stream[i-1].kind == ePkt {
				// wait for the verdict on the last packet: refused => tryNode returns (ctx done);
				// stored => its Put is reported by the recorder
				want := putKey(stream[i-1].b)
				deadline := time.Now().Add(hangTimeout)
				if c.noRecorder || c.rec == nil {
					// no view on the store (StartFollowChain builds its own): give the packet time
					deadline = time.Now().Add(150 * time.Millisecond)
				}
				// every earlier packet of this stream was stored (a refusal ends tryNode): the last one
				// is stored once the store has seen that beacon as often as it was handed over
				for !(c.rec != nil && c.rec.putsSince(start, want) >= sent[want]) && time.Now().Before(deadline) {
					select {
					case <-ctx.Done():
						return
					case <-time.After(200 * time.Microsecond):
					}
				}
				// stored. tryNode returns exactly when that round was the target; otherwise it is back
				// in its select for good. (A target hit that does not return shows up as a hang.)
				grace := 5 * time.Millisecond
				if stream[i-1].b.Round == c.target() {
					grace = hangTimeout
				}
				select {
				case <-ctx.Done():
					return
				case <-time.After(grace):
				}
			}
			c.mu.Lock()
			c.stalledCtx = ctx
			c.stalledNow++
			c.mu.Unlock()
			select {
			case c.stalled <- struct{}{}:
			default:
			}
			<-ctx.Done()
			c.mu.Lock()
			c.stalledNow--
			c.mu.Unlock()
			return
		case ePkt:
			pk := &drand.BeaconPacket{Round: e.b.Round, PreviousSignature: e.b.PreviousSig, Signature: e.b.Signature}
			switch e.md {
			case mdSame:
				pk.Metadata = &drand.Metadata{BeaconID: c.w.beaconID}
			case mdOther:
				pk.Metadata = &drand.Metadata{BeaconID: c.foreign}
			}
			select {
			case ch <- pk:
			case <-ctx.Done():
				return
			}
			sent[putKey(e.b)]++
			// StartFollowChain returns as soon as a stored round >= the target closes `done`, and
			// cancels the Sync still running asynchronously: leave it the time to do so before the
			// next packet is offered (every later cut is accepted by the correspondence anyway)
			if t := c.target(); c.noRecorder && t != 0 && e.b.Round >= t {
				select {
				case <-ctx.Done():
					return
				case <-time.After(400 * time.Millisecond):
				}
			}
		}
	}
	close(ch) // end of the list = Close
}

func (c *scriptClient) GetIdentity(context.Context, net.Peer, *drand.IdentityRequest, ...net.CallOption) (*drand.IdentityResponse, error) {
	return nil, errors.New("not scripted")
}
func (c *scriptClient) PartialBeacon(context.Context, net.Peer, *drand.PartialBeaconPacket, ...net.CallOption) error {
	return errors.New("not scripted")
}
func (c *scriptClient) Status(context.Context, net.Peer, *drand.StatusRequest, ...grpc.CallOption) (*drand.StatusResponse, error) {
	return nil, errors.New("not scripted")
}
func (c *scriptClient) Check(context.Context, net.Peer) error { return nil }

// ---- coq terms ----

func (w *world) elemTerm(e elem) string {
	switch e.kind {
	case eStall:
		return "Stall"
	case eClose:
		return "Close"
	}
	return fmt.Sprintf("Pkt %s %s", [...]string{"MdNone", "MdSame", "MdOther"}[e.md], w.bterm(e.b))
}

func (w *world) peerTerm(s *peerSpec, cl *call) string {
	var es []string
	if cl != nil {
		for _, e := range cl.stream {
			es = append(es, w.elemTerm(e))
		}
	}
	return fmt.Sprintf("(mkPC %v %v [%s])", s.self, s.reach, strings.Join(es, "; "))
}

// attemptTerm renders the specs of an attempt in tried order with the streams actually served.
func (c *scriptClient) attemptTerm(a int) string {
	var ps []string
	k := 0
	for _, s := range c.attempts[a] {
		var cl *call
		if !s.self {
			if k < len(c.calls[a]) {
				cl = c.calls[a][k]
			}
			k++
		}
		ps = append(ps, c.w.peerTerm(s, cl))
	}
	return "[" + strings.Join(ps, "; ") + "]"
}
