package engsync

import (
	"fmt"
	"math/rand"

	"github.com/drand/drand/v2/common"
)

// ---- scripted peer kinds ----

func (w *world) pkt(b *common.Beacon, md int) elem { return elem{kind: ePkt, md: md, b: b} }

// honestStream: what a peer holding the honest chain up to round top streams from round from;
// after its last beacon the stream stays open (the peer waits for new rounds). A peer asked for a
// round it does not have answers with an error: the channel is closed.
func (w *world) honestStream(from, top uint64, md int) []elem {
	if from > top {
		return []elem{{kind: eClose}}
	}
	var es []elem
	for r := from; r <= top; r++ {
		es = append(es, w.pkt(cp(w.chain[r]), md))
	}
	return append(es, elem{kind: eStall})
}

func (w *world) honest() *peerSpec {
	return &peerSpec{reach: true, kind: "honest", honest: true, mayStall: true,
		gen: func(from uint64) []elem { return w.honestStream(from, chainLen, mdSame) }}
}

// honest peer of an older version: no metadata on its packets
func (w *world) honestNoMD() *peerSpec {
	return &peerSpec{reach: true, kind: "honest-nomd", honest: true, mayStall: true,
		gen: func(from uint64) []elem { return w.honestStream(from, chainLen, mdNone) }}
}

// an honest peer that is itself behind: it only has the chain up to round top
func (w *world) behind(top uint64) *peerSpec {
	return &peerSpec{reach: true, kind: fmt.Sprintf("behind(%d)", top), mayStall: true,
		gen: func(from uint64) []elem { return w.honestStream(from, top, mdSame) }}
}

func selfSpec() *peerSpec { return &peerSpec{self: true, reach: true, kind: "self"} }
func unreachableSpec() *peerSpec {
	return &peerSpec{reach: false, kind: "unreachable", gen: func(uint64) []elem { return nil }}
}

// first n honest packets, then the end element (Stall: silent; Close: closes early)
func (w *world) cut(n int, end elemKind) *peerSpec {
	name := "close"
	if end == eStall {
		name = "stall"
	}
	return &peerSpec{reach: true, kind: fmt.Sprintf("%s(%d)", name, n), mayStall: end == eStall,
		gen: func(from uint64) []elem {
			var es []elem
			for r := from; r <= chainLen && len(es) < n; r++ {
				es = append(es, w.pkt(cp(w.chain[r]), mdSame))
			}
			return append(es, elem{kind: end})
		}}
}

var lieKinds = []string{"badsig", "foreignkey", "label+1", "label-1", "skip", "replay", "wrongprev",
	"foreignid", "far", "alien"}

// liar: the honest stream with the packet at position pos replaced by a lie of the given kind;
// afterwards it goes on honestly (tail) and finally closes or stalls.
func (w *world) liar(kind string, pos int, end elemKind) *peerSpec {
	return &peerSpec{reach: true, kind: fmt.Sprintf("lie:%s@%d", kind, pos), mayStall: end == eStall,
		gen: func(from uint64) []elem {
			var es []elem
			i := 0
			for r := from; r <= chainLen; r, i = r+1, i+1 {
				if i != pos {
					es = append(es, w.pkt(cp(w.chain[r]), mdSame))
					continue
				}
				switch kind {
				case "badsig":
					es = append(es, w.pkt(w.badSig(r), mdSame))
				case "foreignkey":
					es = append(es, w.pkt(w.foreignKey(r), mdSame))
				case "label+1": // genuine signature of r, labelled r+1
					es = append(es, w.pkt(w.wrongRoundLabel(r, r+1), mdSame))
				case "label-1":
					es = append(es, w.pkt(w.wrongRoundLabel(r, r-1), mdSame))
				case "skip": // a genuine beacon, but of the next round (gap)
					n := r + 1
					if n > chainLen {
						n = chainLen
					}
					es = append(es, w.pkt(cp(w.chain[n]), mdSame))
				case "replay": // a genuine beacon of the previous round (what the node already has)
					es = append(es, w.pkt(cp(w.chain[r-1]), mdSame))
				case "wrongprev":
					es = append(es, w.pkt(w.wrongPrev(r), mdSame))
				case "foreignid":
					es = append(es, w.pkt(cp(w.chain[r]), mdOther))
				case "far": // genuine beacon of the last round
					es = append(es, w.pkt(cp(w.chain[chainLen]), mdSame))
				case "alien": // genuine beacon, metadata absent, replayed with junk prev
					b := w.wrongPrev(r)
					es = append(es, w.pkt(b, mdNone))
				}
			}
			return append(es, elem{kind: end})
		}}
}

// a lossy (or lying) peer: the honest stream with round skip left out, then the stream ends
func (w *world) skipper(skip uint64) *peerSpec {
	return &peerSpec{reach: true, kind: fmt.Sprintf("omits(%d)", skip),
		gen: func(from uint64) []elem {
			var es []elem
			for r := from; r <= chainLen; r++ {
				if r != skip {
					es = append(es, w.pkt(cp(w.chain[r]), mdSame))
				}
			}
			return append(es, elem{kind: eClose})
		}}
}

// honest, except that a stream asked from round bad is closed at once (that stream is lost)
func (w *world) failsOn(bad uint64) *peerSpec {
	return &peerSpec{reach: true, kind: fmt.Sprintf("honest-but-stream-from-%d-lost", bad), mayStall: true,
		gen: func(from uint64) []elem {
			if from == bad {
				return []elem{{kind: eClose}}
			}
			return w.honestStream(from, chainLen, mdSame)
		}}
}

// only one genuine beacon, of round r, whatever was asked
func (w *world) only(r uint64) *peerSpec {
	return &peerSpec{reach: true, kind: fmt.Sprintf("only(%d)", r),
		gen: func(uint64) []elem { return []elem{w.pkt(cp(w.chain[r]), mdSame), {kind: eClose}} }}
}

// ---- cases ----

type plant struct {
	round uint64
	how   string // missing | badsig | foreignkey
}

type job struct {
	round    uint64
	attempts [2][]*peerSpec
}

type scase struct {
	kind     string // sync | resync | check | correct | run | follow
	w        *world
	bk, sk   string
	head     uint64
	plants   []plant
	upTo     uint64
	from, to uint64
	attempts [][]*peerSpec
	jobs     []job
	descr    string
	witness  string
	nticks   int    // ticks: number of periods, one request each
	lost     uint64 // checkcorrect: every stream asked from this round is lost
	// follow only
	fol *followIn
}

func (c *scase) label() string {
	s := fmt.Sprintf("%s %s %s %s head=%d", c.kind, c.w.name, c.bk, c.sk, c.head)
	switch c.kind {
	case "sync", "run":
		s += fmt.Sprintf(" upTo=%d", c.upTo)
	case "ticks":
		s += fmt.Sprintf(" upTo=%d ticks=%d(one request per period)", c.upTo, c.nticks)
	case "resync":
		s += fmt.Sprintf(" from=%d to=%d", c.from, c.to)
	case "check":
		s += fmt.Sprintf(" upTo=%d", c.upTo)
	case "fault":
		s += fmt.Sprintf(" upTo=%d; the raw store under the stack fails the Put of round %d once; one Sync call per attempt", c.upTo, c.lost)
	case "checkcorrect":
		s += fmt.Sprintf(" check(upTo=%d) then correct what it listed; every stream asked from round %d is lost on all peers", c.upTo, c.lost)
	}
	for _, p := range c.plants {
		s += fmt.Sprintf(" plant(%d,%s)", p.round, p.how)
	}
	for _, a := range c.attempts {
		s += " ["
		for i, p := range a {
			if i > 0 {
				s += " "
			}
			s += p.kind
		}
		s += "]"
	}
	for _, j := range c.jobs {
		s += fmt.Sprintf(" job%d", j.round)
		for _, a := range j.attempts {
			s += "["
			for i, p := range a {
				if i > 0 {
					s += " "
				}
				s += p.kind
			}
			s += "]"
		}
	}
	if c.witness != "" {
		s += " witness=" + c.witness
	}
	return s + " " + c.descr
}

func permutations(n int) [][]int {
	if n == 0 {
		return [][]int{{}}
	}
	var out [][]int
	for _, p := range permutations(n - 1) {
		for i := 0; i <= len(p); i++ {
			q := append(append(append([]int{}, p[:i]...), n-1), p[i:]...)
			out = append(out, q)
		}
	}
	return out
}

type gen struct {
	rng     *rand.Rand
	worlds  []*world
	fworlds []*world // follow: period 1 s (the retry sleeps one real period)
	cases   []*scase
}

func (g *gen) add(c *scase) { g.cases = append(g.cases, c) }

func (g *gen) backends(w *world) []string {
	if w.chained {
		// chained chains on the trimmed format read the previous signature back from the
		// neighbouring round; that read-back belongs to the back-end model (C18), not to this one
		return []string{bkMem, bkBoltU}
	}
	return []string{bkMem, bkBoltU, bkBoltT}
}

func (g *gen) randPeer(w *world) *peerSpec {
	switch g.rng.Intn(12) {
	case 0, 1:
		return w.honest()
	case 2:
		return w.honestNoMD()
	case 3:
		return w.behind(uint64(1 + g.rng.Intn(chainLen)))
	case 4:
		return selfSpec()
	case 5:
		return unreachableSpec()
	case 6:
		return w.cut(g.rng.Intn(4), eClose)
	case 7:
		return w.cut(g.rng.Intn(4), eStall)
	case 8:
		return w.only(uint64(1 + g.rng.Intn(chainLen)))
	default:
		end := eClose
		if g.rng.Intn(4) == 0 {
			end = eStall
		}
		return w.liar(lieKinds[g.rng.Intn(len(lieKinds))], g.rng.Intn(4), end)
	}
}

func (g *gen) randPeers(w *world, max int) []*peerSpec {
	n := 1 + g.rng.Intn(max)
	var ps []*peerSpec
	for i := 0; i < n; i++ {
		ps = append(ps, g.randPeer(w))
	}
	return ps
}

func (g *gen) pickBk(w *world) string {
	b := g.backends(w)
	// memdb most of the time (bolt files cost milliseconds per write)
	if g.rng.Intn(10) < 7 {
		return bkMem
	}
	return b[1+g.rng.Intn(len(b)-1)]
}

func (g *gen) build(tier string) {
	scale := 1
	if tier == "thorough" {
		scale = 12
	}
	// ---- corpus: known witnesses, always first ----
	for _, w := range g.worlds {
		// a silent peer tried before an honest one
		g.add(&scase{kind: "sync", w: w, bk: bkMem, sk: skAppend, head: 0, upTo: 3,
			attempts: [][]*peerSpec{{w.cut(0, eStall), w.honest()}}, witness: "stall-before-honest"})
		g.add(&scase{kind: "sync", w: w, bk: bkMem, sk: skAppend, head: 2, upTo: 6,
			attempts: [][]*peerSpec{{w.cut(2, eStall), w.honest()}}, witness: "stall-before-honest"})
		// the follow stack has no appendStore
		g.add(&scase{kind: "sync", w: w, bk: bkBoltU, sk: skFollow, head: 0, upTo: 5,
			attempts: [][]*peerSpec{{w.only(5), w.honest()}}, witness: "follow-stack-gap"})
		g.add(&scase{kind: "sync", w: w, bk: bkMem, sk: skFollow, head: 1, upTo: 6,
			attempts: [][]*peerSpec{{w.liar("skip", 1, eClose), w.honest()}}, witness: "follow-stack-gap"})
		// repair on memdb of a present-but-invalid round
		for _, bk := range []string{bkMem, bkBoltU} {
			g.add(&scase{kind: "correct", w: w, bk: bk, sk: skAppend, head: 6,
				plants: []plant{{2, "badsig"}, {4, "missing"}},
				jobs: []job{{round: 2, attempts: [2][]*peerSpec{{w.honest()}, {w.honest()}}},
					{round: 4, attempts: [2][]*peerSpec{{w.cut(0, eClose), w.honest()}, {w.honest()}}}},
				witness: "repair-existing-round"})
		}
		// every peer fails the first attempt of a repair (transient), the retry reaches an honest one
		for _, hd := range []uint64{8, chainLen} {
			for _, bk := range []string{bkMem, bkBoltU} {
				g.add(&scase{kind: "correct", w: w, bk: bk, sk: skAppend, head: hd,
					plants: []plant{{3, "badsig"}, {7, "missing"}},
					jobs: []job{{round: 3, attempts: [2][]*peerSpec{{unreachableSpec(), w.cut(0, eClose)}, {w.cut(0, eClose), w.honest()}}},
						{round: 7, attempts: [2][]*peerSpec{{w.liar("badsig", 0, eClose), unreachableSpec()}, {w.honest(), unreachableSpec()}}}},
					witness: "repair-after-transient-failure"})
			}
			g.add(&scase{kind: "resync", w: w, bk: bkMem, sk: skAppend, head: hd, from: 4, to: 4,
				plants:   []plant{{4, "badsig"}},
				attempts: [][]*peerSpec{{unreachableSpec(), w.cut(0, eClose)}, {w.cut(1, eClose), w.honest()}}, witness: "repair-after-transient-failure"})
		}
		// a run of consecutive faulty rounds, a first peer that omits one round of it, an honest second
		for _, skip := range []uint64{5, 4} {
			var js []job
			for rd := uint64(4); rd <= 6; rd++ {
				js = append(js, job{round: rd, attempts: [2][]*peerSpec{{w.skipper(skip), w.honest()}, {w.honest()}}})
			}
			g.add(&scase{kind: "correct", w: w, bk: bkBoltU, sk: skAppend, head: 9,
				plants: []plant{{4, "badsig"}, {5, "missing"}, {6, "badsig"}}, jobs: js, witness: "repair-run-of-rounds-lossy-peer"})
		}
		// check beyond the head, then correct what the check listed, one stream lost on every peer
		for _, hd := range []uint64{5, 8} {
			g.add(&scase{kind: "checkcorrect", w: w, bk: bkBoltU, sk: skAppend, head: hd, upTo: hd + 4,
				plants: []plant{{2, "badsig"}}, lost: hd + 2, witness: "check-beyond-head-then-correct"})
			g.add(&scase{kind: "checkcorrect", w: w, bk: bkMem, sk: skAppend, head: hd, upTo: hd + 3,
				plants: []plant{{3, "missing"}}, lost: 3, witness: "check-beyond-head-then-correct"})
		}
		// the raw store fails one Put once while a verified beacon is being stored; honest peers only
		for _, bk := range g.backends(w) {
			for _, fr := range []uint64{5, 7} { // 7 = the target itself
				g.add(&scase{kind: "fault", w: w, bk: bk, sk: skAppend, head: 3, upTo: 7, lost: fr,
					attempts: [][]*peerSpec{{w.honest(), w.honest()}, {w.honest()}, {w.honestNoMD()}}, witness: "transient-store-failure"})
				g.add(&scase{kind: "fault", w: w, bk: bk, sk: skAppend, head: 3, upTo: 7, lost: fr,
					attempts: [][]*peerSpec{{w.honest()}, {w.honest()}, {w.honest()}}, witness: "transient-store-failure"})
			}
		}
		// F14: re-sync bypasses the scheme store (observation)
		g.add(&scase{kind: "resync", w: w, bk: bkBoltU, sk: skAppend, head: 6, from: 3, to: 3,
			attempts: [][]*peerSpec{{w.liar("wrongprev", 0, eClose)}, {w.honest()}}, witness: "resync-prev"})
	}
	// ---- every starting height / target combination, a failing peer before the honest one ----
	for _, w := range g.worlds {
		for head := uint64(0); head < chainLen; head++ {
			for upTo := uint64(0); upTo <= chainLen; upTo++ {
				if tier != "thorough" && upTo != 0 && upTo <= head && (head+upTo)%3 != 0 {
					continue // targets at or below the head: a third of them in the quick tier
				}
				first := w.cut(int((head+upTo)%3), eClose)
				if (head+upTo)%4 == 1 {
					first = w.liar(lieKinds[int(head+2*upTo)%len(lieKinds)], int(upTo%3), eClose)
				}
				g.add(&scase{kind: "sync", w: w, bk: bkMem, sk: skAppend, head: head, upTo: upTo,
					attempts: [][]*peerSpec{{first, w.honest()}}, descr: "grid"})
			}
		}
	}
	// ---- all orders of small peer sets ----
	for _, w := range g.worlds {
		sets := [][]*peerSpec{
			{w.honest(), w.liar("badsig", 1, eClose), w.cut(1, eClose)},
			{w.honest(), w.cut(1, eStall), unreachableSpec()},
			{w.honest(), selfSpec(), w.liar("skip", 0, eClose), w.liar("foreignid", 2, eClose)},
			{w.behind(3), w.liar("replay", 0, eClose), w.honestNoMD(), w.cut(2, eClose)},
		}
		if tier == "thorough" {
			sets = append(sets,
				[]*peerSpec{w.honest(), w.liar("foreignkey", 0, eStall), w.liar("wrongprev", 1, eClose), selfSpec()},
				[]*peerSpec{w.only(4), w.behind(2), w.cut(0, eClose), w.honest()})
		}
		for si, set := range sets {
			for pi, perm := range permutations(len(set)) {
				if tier != "thorough" && len(set) == 4 && pi%2 == 1 {
					continue
				}
				var order []*peerSpec
				for _, i := range perm {
					order = append(order, set[i])
				}
				sk := skAppend
				if (si+pi)%5 == 0 {
					sk = skFollow
				}
				g.add(&scase{kind: "sync", w: w, bk: bkMem, sk: sk, head: uint64(si), upTo: uint64(5 + si),
					attempts: [][]*peerSpec{order}, descr: fmt.Sprintf("order%v", perm)})
			}
		}
	}
	// ---- every lie at every position, alone and before an honest peer ----
	for _, w := range g.worlds {
		for _, k := range lieKinds {
			for pos := 0; pos < 3; pos++ {
				for _, sk := range []string{skAppend, skFollow} {
					if sk == skFollow && tier != "thorough" && pos == 2 {
						continue
					}
					g.add(&scase{kind: "sync", w: w, bk: bkMem, sk: sk, head: 2, upTo: 6,
						attempts: [][]*peerSpec{{w.liar(k, pos, eClose), w.honest()}}, descr: "lies"})
				}
			}
			g.add(&scase{kind: "sync", w: w, bk: g.pickBk(w), sk: skAppend, head: 3, upTo: 3 + uint64(g.rng.Intn(3)),
				attempts: [][]*peerSpec{{w.liar(k, 0, eStall)}}, descr: "lies-alone"})
		}
	}
	// ---- random ----
	for i := 0; i < 260*scale; i++ {
		w := g.worlds[g.rng.Intn(len(g.worlds))]
		head := uint64(g.rng.Intn(chainLen))
		upTo := uint64(g.rng.Intn(chainLen + 1))
		if g.rng.Intn(3) > 0 && head < chainLen {
			upTo = head + 1 + uint64(g.rng.Intn(int(chainLen-head)))
		}
		sk := skAppend
		if g.rng.Intn(4) == 0 {
			sk = skFollow
		}
		g.add(&scase{kind: "sync", w: w, bk: g.pickBk(w), sk: sk, head: head, upTo: upTo,
			attempts: [][]*peerSpec{g.randPeers(w, 4)}, descr: "random"})
	}
	// ---- re-sync ----
	for i := 0; i < 70*scale; i++ {
		w := g.worlds[g.rng.Intn(len(g.worlds))]
		head := uint64(2 + g.rng.Intn(chainLen-2))
		from := uint64(g.rng.Intn(int(head) + 2))
		to := from + uint64(g.rng.Intn(3))
		switch g.rng.Intn(8) {
		case 0:
			from = 0
		case 1:
			if from > 1 {
				to = from - 1
			}
		}
		var pl []plant
		if from >= 1 && from <= head && g.rng.Intn(2) == 0 {
			pl = append(pl, plant{from, []string{"missing", "badsig"}[g.rng.Intn(2)]})
		}
		g.add(&scase{kind: "resync", w: w, bk: g.pickBk(w), sk: skAppend, head: head, from: from, to: to, plants: pl,
			attempts: [][]*peerSpec{g.randPeers(w, 3), g.randPeers(w, 3)}, descr: "random"})
	}
	// ---- check: planted corruption, every bound ----
	for _, w := range g.worlds {
		for _, bk := range g.backends(w) {
			n := 14
			if bk == bkMem {
				n = 26
			}
			for i := 0; i < n*scale; i++ {
				head := uint64(1 + g.rng.Intn(chainLen))
				var pl []plant
				for r := uint64(1); r <= head; r++ {
					switch g.rng.Intn(7) {
					case 0:
						if r < head { // the raw store's Last must stay the head
							pl = append(pl, plant{r, "missing"})
						}
					case 1:
						pl = append(pl, plant{r, "badsig"})
					case 2:
						if g.rng.Intn(3) == 0 {
							pl = append(pl, plant{r, "foreignkey"})
						}
					}
				}
				if i%5 == 0 { // the last round itself is corrupt
					pl = append(pl, plant{head, "badsig"})
				}
				upTo := []uint64{0, head, head + 3, uint64(g.rng.Intn(int(head) + 1)), head - 1 + uint64(g.rng.Intn(2))}[i%5]
				g.add(&scase{kind: "check", w: w, bk: bk, sk: skAppend, head: head, plants: pl, upTo: upTo, descr: "planted"})
			}
		}
	}
	// ---- correct: repair of the rounds the check reports ----
	for i := 0; i < 70*scale; i++ {
		w := g.worlds[g.rng.Intn(len(g.worlds))]
		head := uint64(3 + g.rng.Intn(chainLen-3))
		var pl []plant
		var jobs []job
		for r := uint64(1); r <= head; r++ {
			if g.rng.Intn(4) == 0 {
				how := []string{"missing", "badsig"}[g.rng.Intn(2)]
				if r == head {
					how = "badsig"
				}
				pl = append(pl, plant{r, how})
			}
		}
		c := &scase{kind: "correct", w: w, bk: g.pickBk(w), sk: skAppend, head: head, plants: pl, descr: "random"}
		mode := g.rng.Intn(4)
		for _, p := range pl {
			j := job{round: p.round}
			if mode == 0 {
				j.attempts = [2][]*peerSpec{{w.cut(g.rng.Intn(2), eClose), w.honest()}, {w.honest()}}
			} else if mode == 2 && p.round < chainLen { // a first peer that omits a round near the faulty one
				j.attempts = [2][]*peerSpec{{w.skipper(p.round + uint64(g.rng.Intn(2))), w.honest()}, {w.honest()}}
			} else if mode == 1 { // transient: the whole first attempt fails, the retry finds an honest peer
				j.attempts = [2][]*peerSpec{{g.randPeerNoStall(w), g.randPeerNoStall(w)}, {g.randPeerNoStall(w), w.honest()}}
			} else {
				j.attempts = [2][]*peerSpec{g.randPeers(w, 3), g.randPeers(w, 2)}
			}
			jobs = append(jobs, j)
		}
		if g.rng.Intn(6) == 0 { // a round that is not faulty at all, and a round beyond the head
			jobs = append(jobs, job{round: 1 + uint64(g.rng.Intn(int(head))), attempts: [2][]*peerSpec{g.randPeers(w, 2), g.randPeers(w, 2)}})
		}
		c.jobs = jobs
		g.add(c)
	}
	// ---- transient store failure at a random round ----
	for i := 0; i < 8*scale; i++ {
		w := g.worlds[g.rng.Intn(len(g.worlds))]
		head := uint64(g.rng.Intn(chainLen - 2))
		upTo := head + 1 + uint64(g.rng.Intn(int(chainLen-head)))
		fr := head + 1 + uint64(g.rng.Intn(int(upTo-head)))
		first := []*peerSpec{w.honest()}
		if g.rng.Intn(2) == 0 {
			first = append(first, selfSpec(), w.honest())
		}
		g.add(&scase{kind: "fault", w: w, bk: g.pickBk(w), sk: skAppend, head: head, upTo: upTo, lost: fr,
			attempts: [][]*peerSpec{first, {w.cut(0, eClose), w.honest()}, {w.honest()}}, descr: "random"})
	}
	// ---- check then correct, targets at, below and beyond the head ----
	for i := 0; i < 12*scale; i++ {
		w := g.worlds[g.rng.Intn(len(g.worlds))]
		head := uint64(3 + g.rng.Intn(chainLen-6))
		var pl []plant
		for r := uint64(1); r < head; r++ {
			if g.rng.Intn(5) == 0 {
				pl = append(pl, plant{r, []string{"missing", "badsig"}[g.rng.Intn(2)]})
			}
		}
		upTo := head + uint64(g.rng.Intn(4))
		if upTo > chainLen {
			upTo = chainLen
		}
		g.add(&scase{kind: "checkcorrect", w: w, bk: g.pickBk(w), sk: skAppend, head: head, upTo: upTo, plants: pl,
			lost: 1 + uint64(g.rng.Intn(int(upTo))), descr: "random"})
	}
	// ---- Run: renewals ----
	for i := 0; i < 24*scale; i++ {
		w := g.worlds[g.rng.Intn(len(g.worlds))]
		head := uint64(g.rng.Intn(chainLen - 2))
		upTo := head + 1 + uint64(g.rng.Intn(int(chainLen-head)))
		var atts [][]*peerSpec
		for k := g.rng.Intn(3); k > 0; k-- {
			// attempts that stall or fail
			a := []*peerSpec{w.cut(g.rng.Intn(3), []elemKind{eStall, eClose}[g.rng.Intn(2)])}
			if g.rng.Intn(2) == 0 {
				a = append([]*peerSpec{g.randPeer(w)}, a...)
			}
			atts = append(atts, a)
		}
		atts = append(atts, []*peerSpec{w.cut(1, eClose), w.honest()})
		g.add(&scase{kind: "run", w: w, bk: bkMem, sk: skAppend, head: head, upTo: upTo, attempts: atts, descr: "renewal"})
	}
	// ---- Run with its clock: one request per period while the node is behind ----
	for i := 0; i < 10*scale; i++ {
		w := g.worlds[i%len(g.worlds)]
		head := uint64(g.rng.Intn(chainLen - 3))
		upTo := head + 2 + uint64(g.rng.Intn(int(chainLen-head-1)))
		k := 1 + i%2
		var atts [][]*peerSpec
		for j := 0; j < k; j++ {
			var a []*peerSpec
			switch (i + j) % 4 {
			case 0: // opens the stream and stays silent
				a = []*peerSpec{w.cut(0, eStall), w.honest()}
			case 1: // sends something, then falls silent
				a = []*peerSpec{w.cut(1, eClose), w.cut(1+g.rng.Intn(2), eStall)}
			case 2: // a failing attempt: the very next request starts another one
				a = []*peerSpec{unreachableSpec(), w.liar("badsig", g.rng.Intn(2), eClose)}
			default:
				a = []*peerSpec{w.liar(lieKinds[g.rng.Intn(len(lieKinds))], 1, eStall), selfSpec()}
			}
			atts = append(atts, a)
		}
		atts = append(atts, []*peerSpec{w.cut(1, eClose), w.honest()})
		wit := ""
		if i < 2 {
			wit = "silent-stream-must-be-renewed"
		}
		g.add(&scase{kind: "ticks", w: w, bk: bkMem, sk: skAppend, head: head, upTo: upTo,
			attempts: padAttempts(atts), nticks: 3*k + 4 + g.rng.Intn(2), witness: wit, descr: "request-per-period"})
	}
	g.buildFollow(tier)
}
