package engsync

import (
	"context"
	"errors"
	"fmt"
	"io"
	"math/rand"
	"sort"
	"strings"
	"sync"
	"time"

	clockwork "github.com/jonboulle/clockwork"
	"go.uber.org/zap/zapcore"

	"github.com/drand/drand/v2/common"
	"github.com/drand/drand/v2/common/log"
	"github.com/drand/drand/v2/internal/chain"
	"github.com/drand/drand/v2/internal/chain/beacon"
	"github.com/drand/drand/v2/zzverif/emit"
)

func init() { quietLog = log.New(zapcore.AddSync(io.Discard), log.FatalLevel, false) }

// outcome of one executed case
type outcome struct {
	line          string   // Coq term
	extra2        []string // further Coq terms of the same case
	before, after []*common.Beacon
	descr         string
	fails         []emit.MonitorFailure
	buckets       []string
	nontriv       bool
	key           string
	extra         map[string]int
	err           error
}

const hangTimeout = 20 * time.Second

type rig struct {
	c      *scase
	w      *world
	ctx    context.Context
	cancel context.CancelFunc
	raw    chain.Store
	rec    *recorder
	top    beacon.CallbackStore
	sm     *beacon.SyncManager
	cl     *scriptClient
	clock  *clockwork.FakeClock
	clean  func()
	before []*common.Beacon
}

func (r *rig) close() {
	r.sm.Stop()
	r.cancel()
	_ = r.top.Close()
	r.clean()
}

// setup builds the raw store with the case's initial content, the stack, the client and the
// REAL SyncManager around them.
func setup(c *scase, attempts [][]*peerSpec, autoNext bool) (*rig, error) {
	w := c.w
	ctx, cancel := context.WithCancel(context.Background())
	raw, clean, err := newRaw(ctx, c.bk)
	if err != nil {
		cancel()
		return nil, err
	}
	for r := uint64(0); r <= c.head; r++ {
		if err := raw.Put(ctx, cp(w.chain[r])); err != nil {
			cancel()
			clean()
			return nil, err
		}
	}
	for _, p := range c.plants {
		if err := raw.Del(ctx, p.round); err != nil {
			cancel()
			clean()
			return nil, err
		}
		var b *common.Beacon
		switch p.how {
		case "badsig":
			b = w.badSig(p.round)
		case "foreignkey":
			b = w.foreignKey(p.round)
		}
		if b != nil {
			if err := raw.Put(ctx, b); err != nil {
				cancel()
				clean()
				return nil, err
			}
		}
	}
	before, err := scan(ctx, raw)
	if err != nil {
		cancel()
		clean()
		return nil, err
	}
	cl := newScriptClient(w, attempts, autoNext)
	rec := &recorder{Store: raw}
	cl.rec = rec
	top, err := buildStack(ctx, rec, w.sch, c.sk)
	if err != nil {
		cancel()
		clean()
		return nil, err
	}
	clk := clockwork.NewFakeClockAt(time.Unix(w.genesis, 0).Add(1000 * w.period))
	sm, err := beacon.NewSyncManager(ctx, &beacon.SyncConfig{Log: quietLog, Client: cl, Clock: clk,
		Store: top, BoltdbStore: rec, Info: w.info, NodeAddr: selfAddr})
	if err != nil {
		cancel()
		clean()
		return nil, err
	}
	go sm.Run() // drains the newSyncedBeacon channel, as in the daemon
	return &rig{c: c, w: w, ctx: ctx, cancel: cancel, raw: raw, rec: rec, top: top, sm: sm, cl: cl,
		clock: clk, clean: clean, before: before}, nil
}

// blockingCall runs f (a call into the SyncManager that may block on a silent peer). When a
// scripted peer reports that it is stalled for good the call's context is cancelled, exactly what
// the daemon's renewal / the operator would do. Returns the error, whether we had to cancel, and
// whether the call hung beyond the timeout.
func (r *rig) blockingCall(f func(ctx context.Context) error) (err error, cancelled, hung bool) {
	ctx, cancel := context.WithCancel(r.ctx)
	defer cancel()
	done := make(chan error, 1)
	go func() { done <- f(ctx) }()
	select {
	case err = <-done:
		return err, false, false
	case <-r.cl.stalled:
		cancel()
		select {
		case err = <-done:
			return err, true, false
		case <-time.After(hangTimeout):
			return nil, true, true
		}
	case <-time.After(hangTimeout):
		cancel()
		return nil, true, true
	}
}

func classify(err error, cancelled bool) string {
	switch {
	case err == nil:
		return "SyncOk"
	case errors.Is(err, beacon.ErrFailedAll):
		if cancelled {
			return "(SyncBlocked EFailedAll)"
		}
		return "(SyncErr EFailedAll)"
	case cancelled:
		return "(SyncBlocked ECanceled)"
	default:
		return "(SyncErr EInvalid)" // any other error class
	}
}

func (r *rig) baseTerm() string {
	var bs []string
	for i := len(r.before) - 1; i >= 0; i-- {
		bs = append(bs, r.w.bterm(r.before[i]))
	}
	return "[" + strings.Join(bs, "; ") + "]"
}

// validTerm lists every beacon of the case (store content and served streams) that the oracle
// accepts.
func (r *rig) validTerm() string {
	seen := map[string]bool{}
	var out []string
	add := func(b *common.Beacon) {
		k := bkey(b)
		if seen[k] {
			return
		}
		seen[k] = true
		if r.w.valid(b) {
			out = append(out, r.w.bterm(b))
		}
	}
	for _, b := range r.before {
		add(b)
	}
	for _, a := range r.cl.calls {
		for _, cl := range a {
			for _, e := range cl.stream {
				if e.kind == ePkt {
					add(e.b)
					// the stored form on unchained schemes
					if !r.w.chained {
						s := cp(e.b)
						s.PreviousSig = nil
						add(s)
					}
				}
			}
		}
	}
	sort.Strings(out)
	return "[" + strings.Join(out, "; ") + "]"
}

func (r *rig) reqsTerm() string {
	var fs []string
	for _, a := range r.cl.calls {
		for _, cl := range a {
			fs = append(fs, fmt.Sprint(cl.from))
		}
	}
	return "[" + strings.Join(fs, "; ") + "]"
}

func (r *rig) putsTerm() string {
	var ps []string
	for _, p := range r.rec.okPuts() {
		ps = append(ps, r.w.bterm(p.b))
	}
	return "[" + strings.Join(ps, "; ") + "]"
}

func (r *rig) dumpTerm() (string, []*common.Beacon) {
	after, _ := scan(context.Background(), r.raw)
	var ds []string
	for _, b := range after {
		sig := "[]"
		if i := r.w.id(b.Signature); i >= 0 {
			sig = fmt.Sprintf("[%d]", i)
		}
		ds = append(ds, fmt.Sprintf("(%d, %s)", b.Round, sig))
	}
	return "[" + strings.Join(ds, "; ") + "]", after
}

func (r *rig) obsTerm(res string) (string, []*common.Beacon) {
	d, after := r.dumpTerm()
	return fmt.Sprintf("(mkObs %s %s %s %s)", res, r.reqsTerm(), r.putsTerm(), d), after
}

func coqBool(b bool) string {
	if b {
		return "true"
	}
	return "false"
}

func (r *rig) attemptsTerm() string {
	var as []string
	for a := range r.cl.attempts {
		as = append(as, r.cl.attemptTerm(a))
	}
	return "[" + strings.Join(as, "; ") + "]"
}

// ---- the monitor M: the property's own predicates on what the implementation did ----

type mon struct {
	c     *scase
	fails []emit.MonitorFailure
	extra map[string]int
}

func (m *mon) fail(class, what string) {
	m.fails = append(m.fails, emit.MonitorFailure{Class: class, What: what, Input: m.c.label()})
}

// puts: every beacon that reached the raw store verifies against the pinned key; through the
// stack the rounds go head+1, head+2, ...
func (m *mon) checkPuts(r *rig, viaStack bool) {
	for _, p := range r.rec.okPuts() {
		if !r.w.valid(p.b) {
			m.fail("stored-unverified-beacon", fmt.Sprintf("round %d reached the store but does not verify against the pinned key", p.b.Round))
		}
		// (the hand-built callback(scheme(raw)) stack is no production stack any more: it only
		// validates that branch of the model, the order of its writes is not a property of drand)
		if viaStack && m.c.sk == skAppend && p.b.Round != p.headPrev+1 {
			m.fail("sync-put-out-of-order", fmt.Sprintf("round %d stored while the head was %d", p.b.Round, p.headPrev))
		}
		if !viaStack && !r.w.chained && len(p.b.PreviousSig) > 0 {
			m.extra["observation:resync-stores-peer-chosen-prev-on-unchained"]++
		}
	}
}

// the peers tried before the first honest one: do they let the attempt get to it?
func tolerable(c *scase, specs []*peerSpec, calls []*call) (honestIdx int, stallBefore, misorderBefore bool) {
	honestIdx = -1
	k := 0
	for i, s := range specs {
		if s.self {
			continue
		}
		var cl *call
		if k < len(calls) {
			cl = calls[k]
		}
		k++
		if s.honest {
			honestIdx = i
			return
		}
		if cl == nil {
			continue
		}
		for _, e := range cl.stream {
			if e.kind == eStall {
				stallBefore = true
			}
			if e.kind == ePkt && e.md != mdOther && c.kind != "follow" && c.sk == skFollow && !c.w.chained && c.w.valid(e.b) {
				misorderBefore = true // may store out of order: outside the premise of convergence
			}
		}
	}
	return
}

func lastRound(st chain.Store) uint64 {
	l, err := st.Last(context.Background())
	if err != nil || l == nil {
		return 0
	}
	return l.Round
}

// storeSummary describes a raw store for a failing input: every round with its state
func storeSummary(w *world, bs []*common.Beacon) string {
	have := map[uint64]*common.Beacon{}
	var max uint64
	for _, b := range bs {
		have[b.Round] = b
		if b.Round > max {
			max = b.Round
		}
	}
	var parts []string
	for rd := uint64(1); rd <= max; rd++ {
		switch b := have[rd]; {
		case b == nil:
			parts = append(parts, fmt.Sprintf("%d:missing", rd))
		case !w.valid(b):
			parts = append(parts, fmt.Sprintf("%d:INVALID", rd))
		}
	}
	return fmt.Sprintf("rounds 0..%d stored, faulty: %v", max, parts)
}

// ---- executing the SyncManager-level cases ----

func runCase(c *scase) (out outcome) {
	out.descr = c.label()
	out.extra = map[string]int{}
	defer func() {
		if p := recover(); p != nil {
			out.err = fmt.Errorf("panic in case %s: %v", c.label(), p)
		}
	}()
	m := &mon{c: c, extra: out.extra}
	w := c.w
	switch c.kind {
	case "sync":
		r, err := setup(c, c.attempts, false)
		if err != nil {
			out.err = err
			return
		}
		defer r.close()
		nodes := nodesFor(c.attempts[0])
		r.cl.setTarget(c.upTo)
		err, cancelled, hung := r.blockingCall(func(ctx context.Context) error {
			return r.sm.Sync(ctx, beacon.NewRequestInfo(ctx, c.upTo, nodes))
		})
		if hung {
			m.fail("sync-hangs-after-cancel", "Sync did not return after its context was cancelled")
		}
		res := classify(err, cancelled)
		obs, _ := r.obsTerm(res)
		out.line = fmt.Sprintf("CSync %s %s %s %s %s %d %s %s", coqBool(w.chained), coqBackend(c.bk), c.sk,
			r.validTerm(), r.baseTerm(), c.upTo, r.cl.attemptTerm(0), obs)
		m.checkPuts(r, true)
		hi, stallB, misB := tolerable(c, c.attempts[0], r.cl.calls[0])
		out.buckets = append(out.buckets, "sync/"+res)
		if hi >= 0 && c.upTo > c.head && c.upTo <= chainLen && !misB {
			if !stallB {
				out.buckets = append(out.buckets, "sync/honest-reachable")
				if err != nil || lastRound(r.raw) != c.upTo {
					m.fail("no-convergence-with-honest-peer", fmt.Sprintf("honest peer reachable through non-stalling peers, result %s, head %d, target %d", res, lastRound(r.raw), c.upTo))
				}
			} else if err != nil {
				out.buckets = append(out.buckets, "sync/stall-before-honest")
				m.fail("sync-blocked-by-silent-peer", fmt.Sprintf("a peer that opened the stream and sent nothing more blocked Sync until it was cancelled; the honest peer after it was never tried (result %s, head %d, target %d)", res, lastRound(r.raw), c.upTo))
			}
		}
		out.nontriv = len(r.rec.okPuts()) > 0 || res != "SyncOk"
	case "resync":
		r, err := setup(c, c.attempts, true)
		if err != nil {
			out.err = err
			return
		}
		defer r.close()
		// both attempts see the same addresses: the second attempt's behaviours are bound to them anew
		r.cl.attempts = padAttempts(c.attempts)
		nodes := nodesFor(r.cl.attempts[0])
		r.cl.setTarget(c.to)
		err, cancelled, hung := r.blockingCall(func(ctx context.Context) error {
			return r.sm.ReSync(ctx, c.from, c.to, nodes)
		})
		if hung {
			m.fail("sync-hangs-after-cancel", "ReSync did not return after its context was cancelled")
		}
		res := classify(err, cancelled)
		obs, _ := r.obsTerm(res)
		a2 := "[]"
		if len(r.cl.attempts) > 1 {
			a2 = r.cl.attemptTerm(1)
		}
		out.line = fmt.Sprintf("CResync %s %s %s %s %s %d %d %s %s %s", coqBool(w.chained), coqBackend(c.bk), c.sk,
			r.validTerm(), r.baseTerm(), c.from, c.to, r.cl.attemptTerm(0), a2, obs)
		m.checkPuts(r, false)
		// M: ReSync(from, to) with an honest peer reachable in the first attempt, or in the retry after
		// a first attempt in which every peer failed: no error, rounds from..to verify on read-back
		// (single rounds, as CorrectPastBeacons asks for them: over a range, a peer that delivers the
		// genuine round `to` at once ends the call before the rounds below it were replaced)
		if c.from >= 1 && c.from == c.to && c.to <= chainLen {
			pa := r.cl.attempts
			reach := func(a []*peerSpec) (found, clean bool) {
				for _, s := range a {
					if s.self {
						continue
					}
					if s.honest {
						return true, true
					}
					if s.mayStall {
						return false, false
					}
				}
				return false, true
			}
			f0, clean0 := reach(pa[0])
			f1 := false
			if len(pa) > 1 {
				f1, _ = reach(pa[1])
			}
			if f0 || (clean0 && f1) {
				out.buckets = append(out.buckets, "resync/honest-reachable")
				var still []uint64
				for rd := c.from; rd <= c.to; rd++ {
					if b, gerr := r.raw.Get(r.ctx, rd); gerr != nil || !w.valid(b) {
						still = append(still, rd)
					}
				}
				if err != nil || len(still) > 0 {
					cls := "repair-incomplete"
					if !f0 {
						cls = "C10-repair-incomplete-after-retry"
					}
					m.fail(cls, fmt.Sprintf("ReSync(%d,%d) with an honest peer reachable (retry needed: %v) returned %q (%s), rounds %v still do not verify on read-back; store before: %s", c.from, c.to, !f0, fmt.Sprint(err), res, still, storeSummary(w, r.before)))
				}
			}
		}
		out.buckets = append(out.buckets, "resync/"+res)
		out.nontriv = len(r.rec.okPuts()) > 0
	case "check":
		r, err := setup(c, nil, false)
		if err != nil {
			out.err = err
			return
		}
		defer r.close()
		list, err := r.sm.CheckPastBeacons(r.ctx, c.upTo, nil)
		res := "None"
		if err == nil {
			var xs []string
			for _, x := range list {
				xs = append(xs, fmt.Sprint(x))
			}
			res = "(Some [" + strings.Join(xs, "; ") + "])"
		}
		out.line = fmt.Sprintf("CCheck %s %s %d %s", r.validTerm(), r.baseTerm(), c.upTo, res)
		// M: exactly the rounds 1..min(upTo, last) that do not read back or do not verify
		var want []uint64
		lim := c.upTo
		if l := lastRound(r.raw); l < lim {
			lim = l
		}
		for rd := uint64(1); rd <= lim; rd++ {
			b, gerr := r.raw.Get(r.ctx, rd)
			if gerr != nil || !w.valid(b) {
				want = append(want, rd)
			}
		}
		if err != nil || fmt.Sprint(want) != fmt.Sprint(list) {
			m.fail("check-not-exact", fmt.Sprintf("CheckPastBeacons(%d) returned %v (err %v), faulty rounds are %v", c.upTo, list, err, want))
		}
		out.buckets = append(out.buckets, fmt.Sprintf("check/faulty=%d", len(want)))
		out.nontriv = len(want) > 0
	case "fault":
		r, err := setup(c, c.attempts, false)
		if err != nil {
			out.err = err
			return
		}
		defer r.close()
		r.rec.mu.Lock()
		r.rec.failRound = c.lost
		r.rec.mu.Unlock()
		r.cl.setTarget(c.upTo)
		res, gotNil := "(SyncErr EFailedAll)", false
		for a := range c.attempts {
			if lastRound(r.raw) >= c.upTo {
				res = "SyncOk"
				break
			}
			r.cl.setAttempt(a)
			nodes := nodesFor(c.attempts[a])
			serr, cancelled, hung := r.blockingCall(func(ctx context.Context) error {
				return r.sm.Sync(ctx, beacon.NewRequestInfo(ctx, c.upTo, nodes))
			})
			if hung {
				m.fail("sync-hangs-after-cancel", "Sync did not return after its context was cancelled")
			}
			res = classify(serr, cancelled)
			if serr == nil {
				gotNil = true
				break
			}
		}
		obs, after := r.obsTerm(res)
		out.line = fmt.Sprintf("CFault %s %s %s %s %d %d %s %s", coqBool(w.chained), coqBackend(c.bk),
			r.validTerm(), r.baseTerm(), c.upTo, c.lost, r.attemptsTerm(), obs)
		m.checkPuts(r, true)
		// M: a Sync that reported success left the target round in the store
		var absent []uint64
		have := map[uint64]*common.Beacon{}
		for _, b := range after {
			have[b.Round] = b
		}
		for rd := uint64(1); rd <= c.upTo; rd++ {
			if b := have[rd]; b == nil || !w.valid(b) {
				absent = append(absent, rd)
			}
		}
		if gotNil && (have[c.upTo] == nil || lastRound(r.raw) != c.upTo) {
			m.fail("C10-sync-reports-success-but-target-round-absent", fmt.Sprintf("Sync(upTo=%d) returned nil after the store had failed the Put of round %d once; the store ends at round %d, rounds %v are absent", c.upTo, c.lost, lastRound(r.raw), absent))
		}
		// M: one transient failure of the store must not stop the catch-up: honest peers in every
		// attempt, so the target is reached and every round is there
		if !gotNil || len(absent) > 0 {
			what := fmt.Sprintf("the store failed the Put of round %d once (nothing written); after %d Sync attempts with honest peers only the last result is %s, the store ends at round %d (target %d), rounds %v are absent", c.lost, len(c.attempts), res, lastRound(r.raw), c.upTo, absent)
			m.fail("C10-sync-does-not-recover-from-transient-store-failure", what)
			m.fail("C05-sync-does-not-recover-from-transient-store-failure", what)
		}
		out.buckets = append(out.buckets, "fault/"+res)
		out.nontriv = true
	case "checkcorrect":
		// the check on the real SyncManager, then the correction of exactly what it listed
		r, err := setup(c, nil, false)
		if err != nil {
			out.err = err
			return
		}
		list, cerr := r.sm.CheckPastBeacons(r.ctx, c.upTo, nil)
		resT := "None"
		if cerr == nil {
			var xs []string
			for _, x := range list {
				xs = append(xs, fmt.Sprint(x))
			}
			resT = "(Some [" + strings.Join(xs, "; ") + "])"
		}
		checkLine := fmt.Sprintf("CCheck %s %s %d %s", r.validTerm(), r.baseTerm(), c.upTo, resT)
		var want []uint64
		lim := c.upTo
		if l := lastRound(r.raw); l < lim {
			lim = l
		}
		for rd := uint64(1); rd <= lim; rd++ {
			if b, gerr := r.raw.Get(r.ctx, rd); gerr != nil || !w.valid(b) {
				want = append(want, rd)
			}
		}
		r.close()
		c2 := *c
		c2.kind = "correct"
		for _, rd := range list {
			c2.jobs = append(c2.jobs, job{round: rd, attempts: [2][]*peerSpec{{w.failsOn(c.lost), w.failsOn(c.lost)}, {w.failsOn(c.lost)}}})
		}
		out = runCase(&c2)
		out.descr = c.label()
		if out.err != nil {
			return
		}
		for i := range out.fails {
			out.fails[i].Input = c.label()
		}
		out.extra2 = append(out.extra2, checkLine)
		m2 := &mon{c: c, extra: out.extra}
		// M (C02): after any check/correct history the persisted chain has no new hole and nothing
		// above the head it had before was written by the repair
		have := func(bs []*common.Beacon) (map[uint64]bool, uint64) {
			h, mx := map[uint64]bool{}, uint64(0)
			for _, b := range bs {
				h[b.Round] = true
				if b.Round > mx {
					mx = b.Round
				}
			}
			return h, mx
		}
		hb, maxB := have(out.before)
		ha, maxA := have(out.after)
		var newHoles []uint64
		for rd := uint64(0); rd <= maxA; rd++ {
			if !ha[rd] && (rd > maxB || hb[rd]) {
				newHoles = append(newHoles, rd)
			}
		}
		if maxA != maxB || len(newHoles) > 0 {
			m2.fail("C02-hole-in-persisted-chain", fmt.Sprintf("store before: %s; CheckPastBeacons(%d) listed %v; after CorrectPastBeacons of that list the raw store's last round is %d (was %d) and rounds %v are missing below it", storeSummary(w, out.before), c.upTo, list, maxA, maxB, newHoles))
		}
		if cerr != nil || fmt.Sprint(want) != fmt.Sprint(list) {
			m2.fail("check-not-exact", fmt.Sprintf("CheckPastBeacons(%d) returned %v (err %v), faulty rounds are %v", c.upTo, list, cerr, want))
		}
		out.fails = append(m2.fails, out.fails...)
		out.buckets = append(out.buckets, fmt.Sprintf("checkcorrect/listed=%d", len(list)))
		out.key = out.line + checkLine
		return
	case "correct":
		var atts [][]*peerSpec
		var rounds []uint64
		for _, j := range c.jobs {
			atts = append(atts, j.attempts[0], j.attempts[1])
			rounds = append(rounds, j.round)
		}
		r, err := setup(c, atts, false)
		if err != nil {
			out.err = err
			return
		}
		defer r.close()
		// CorrectPastBeacons takes ONE peer list for all rounds: give every attempt the same shape
		atts = padAttempts(atts)
		r.cl.attempts = atts
		r.cl.calls = make([][]*call, len(atts))
		var peerList = nodesFor(func() []*peerSpec {
			if len(atts) > 0 {
				return atts[0]
			}
			return nil
		}())
		// the progress callback tells which job is running; within a job the retry (second
		// attempt) starts once every other node of the first attempt has been called
		var jobMu sync.Mutex
		jobIdx := -1
		cb := func(cur, _ uint64) {
			jobMu.Lock()
			jobIdx = int(cur) - 1
			jobMu.Unlock()
			r.cl.setTarget(rounds[jobIdx])
			r.cl.setAttempt(2 * jobIdx)
		}
		r.cl.autoNext = true
		valid0 := map[uint64]string{}
		for _, b := range r.before {
			if b.Round > 0 && w.valid(b) {
				valid0[b.Round] = string(b.Signature)
			}
		}
		err, cancelled, hung := r.blockingCall(func(ctx context.Context) error {
			return r.sm.CorrectPastBeacons(ctx, rounds, peerList, cb)
		})
		if hung {
			m.fail("sync-hangs-after-cancel", "CorrectPastBeacons did not return after its context was cancelled")
		}
		res := "CorrOk"
		if cancelled && err != nil {
			res = "CorrBlocked"
		} else if err != nil {
			res = "CorrErr"
		}
		d, after := r.dumpTerm()
		out.before, out.after = r.before, after
		var js []string
		for i, j := range c.jobs {
			js = append(js, fmt.Sprintf("(%d, (%s, %s))", j.round, r.cl.attemptTerm(2*i), r.cl.attemptTerm(2*i+1)))
		}
		out.line = fmt.Sprintf("CCorrect %s %s %s %s %s [%s] %s %s %s", coqBool(w.chained), coqBackend(c.bk), c.sk,
			r.validTerm(), r.baseTerm(), strings.Join(js, "; "), res, r.putsTerm(), d)
		m.checkPuts(r, false)
		// M: no valid round lost its signature
		afterSig := map[uint64]*common.Beacon{}
		for _, b := range after {
			afterSig[b.Round] = b
		}
		for rd, sig := range valid0 {
			b := afterSig[rd]
			if b == nil || string(b.Signature) != sig {
				m.fail("repair-damaged-valid-round", fmt.Sprintf("round %d verified before the repair and was changed by it", rd))
			}
		}
		// M: the property's own predicate on the real store after the repair. Premise, from the
		// scripted inputs only: for every listed round an honest peer is reached through peers that
		// never fall silent, either in the first attempt, or - when every peer of the first attempt
		// fails - in the one retry ReSync makes. Then the repair reports no error and every listed
		// round verifies on read-back.
		reach := func(a []*peerSpec) (found, clean bool) { // honest peer present; nobody before it may stall
			for _, s := range a {
				if s.self {
					continue
				}
				if s.honest {
					return true, true
				}
				if s.mayStall {
					return false, false
				}
			}
			return false, true
		}
		allHonest, viaRetry := len(c.jobs) > 0, false
		for i := range c.jobs {
			f0, clean0 := reach(atts[2*i])
			f1, _ := reach(atts[2*i+1])
			switch {
			case c.jobs[i].round == 0 || c.jobs[i].round > chainLen:
				allHonest = false
			case f0:
			case clean0 && f1:
				viaRetry = true
			default:
				allHonest = false
			}
		}
		if allHonest {
			bucket := "correct/honest-reachable"
			if viaRetry {
				bucket = "correct/honest-reachable-at-retry"
			}
			out.buckets = append(out.buckets, bucket)
			var still []uint64
			memdbKept := false
			for _, j := range c.jobs {
				b, gerr := r.raw.Get(r.ctx, j.round)
				if gerr != nil || !w.valid(b) {
					still = append(still, j.round)
					// memdb keeps what it has: a verified beacon of that round WAS handed to the raw
					// store, and the round that was present (and invalid) before is still the same
					wrote := false
					for _, p := range r.rec.okPuts() {
						if p.b.Round == j.round && w.valid(p.b) {
							wrote = true
						}
					}
					for _, old := range r.before {
						if wrote && c.bk == bkMem && old.Round == j.round && gerr == nil && string(old.Signature) == string(b.Signature) {
							memdbKept = true
						}
					}
				}
			}
			if err != nil || len(still) > 0 {
				cls := "repair-incomplete"
				switch {
				case memdbKept:
					cls = "repair-noop-on-memdb-existing-round"
				case err == nil:
					cls = "C10-repair-reported-success-but-round-still-faulty"
				case viaRetry:
					cls = "C10-repair-incomplete-after-retry"
				}
				m.fail(cls, fmt.Sprintf("honest peer reachable for every listed round (retry needed: %v): CorrectPastBeacons returned %q (%s), rounds %v still do not verify on read-back; store before: %s", viaRetry, fmt.Sprint(err), res, still, storeSummary(w, r.before)))
			}
		}
		out.buckets = append(out.buckets, "correct/"+res)
		out.nontriv = len(r.rec.okPuts()) > 0
	case "run":
		r, err := setup(c, c.attempts, false)
		if err != nil {
			out.err = err
			return
		}
		defer r.close()
		res := "(SyncErr EFailedAll)"
		r.cl.setTarget(c.upTo)
		for a := range c.attempts {
			if c.upTo > 0 && lastRound(r.raw) >= c.upTo {
				res = "SyncOk"
				break
			}
			r.cl.setAttempt(a)
			started := false
			for try := 0; try < 6 && !started; try++ {
				// no progress for more than factor*period: the next request renews the sync
				r.clock.Advance(10 * w.period)
				r.sm.SendSyncRequest(r.ctx, c.upTo, nodesFor(c.attempts[a]))
				for t0 := time.Now(); time.Since(t0) < 3*time.Second && !started; time.Sleep(100 * time.Microsecond) {
					r.cl.mu.Lock()
					started = len(r.cl.calls[a]) > 0
					r.cl.mu.Unlock()
				}
			}
			if !r.waitAttempt(a, c.upTo) {
				m.fail("run-attempt-hangs", fmt.Sprintf("attempt %d neither finished nor stalled", a))
				break
			}
			if lastRound(r.raw) >= c.upTo {
				res = "SyncOk"
				break
			}
		}
		obs, _ := r.obsTerm(res)
		out.line = fmt.Sprintf("CRun %s %s %s %s %d %s %s", coqBool(w.chained), coqBackend(c.bk),
			r.validTerm(), r.baseTerm(), c.upTo, r.attemptsTerm(), obs)
		m.checkPuts(r, true)
		if lastRound(r.raw) != c.upTo {
			m.fail("no-convergence-after-renewals", fmt.Sprintf("head %d, target %d after %d renewals ending with an honest peer", lastRound(r.raw), c.upTo, len(c.attempts)))
		}
		out.buckets = append(out.buckets, fmt.Sprintf("run/attempts=%d", len(c.attempts)))
		out.nontriv = true
	case "ticks":
		r, err := setup(c, c.attempts, true)
		if err != nil {
			out.err = err
			return
		}
		defer r.close()
		r.cl.tickMode = true
		r.cl.setTarget(c.upTo)
		nodes := nodesFor(c.attempts[0])
		// the scripted inputs: how many attempts stall or fail before the one that reaches an honest
		// peer through non-silent ones
		goodAt := -1
		for a, specs := range c.attempts {
			for _, s := range specs {
				if s.self {
					continue
				}
				if s.honest {
					goodAt = a
				}
				if s.honest || s.mayStall {
					break
				}
			}
			if goodAt >= 0 {
				break
			}
		}
		const factorSlack = 2 + 1 + 1 // syncExpiryFactor periods, the tick that notices, one of slack
		stallTick, lateRenewal := -1, ""
		var stallCtx context.Context
		settle := func() bool {
			deadline := time.Now().Add(hangTimeout)
			for stable := 0; time.Now().Before(deadline); time.Sleep(time.Millisecond) {
				if lastRound(r.raw) >= c.upTo || r.cl.settled() {
					if stable++; stable >= 4 {
						return true
					}
				} else {
					stable = 0
				}
			}
			return false
		}
		for t := 1; t <= c.nticks; t++ {
			wasBlocked, calls0, lasts0 := r.cl.blocked(), r.cl.totalCalls(), r.rec.lastCalls()
			filled := lastRound(r.raw) >= c.upTo
			r.clock.Advance(w.period)
			r.sm.SendSyncRequest(r.ctx, c.upTo, nodes)
			// Run has taken the request once it has asked the store for the last beacon
			for t0 := time.Now(); r.rec.lastCalls() == lasts0 && time.Since(t0) < hangTimeout; time.Sleep(200 * time.Microsecond) {
			}
			time.Sleep(15 * time.Millisecond)
			starts := !filled && (!wasBlocked || !r.cl.blocked()) // no Sync in flight, or it was just cancelled
			if starts {
				for t0 := time.Now(); r.cl.totalCalls() == calls0 && time.Since(t0) < 5*time.Second; time.Sleep(200 * time.Microsecond) {
				}
			}
			if !settle() {
				m.fail("run-attempt-hangs", fmt.Sprintf("tick %d: the Sync neither finished nor stalled", t))
				break
			}
			switch cur := r.cl.blockedCtx(); {
			case cur == nil:
				stallTick, stallCtx = -1, nil
			case cur != stallCtx: // another stream than the one seen blocked before
				stallTick, stallCtx = t, cur
			}
			if stallTick > 0 && t-stallTick >= factorSlack && lateRenewal == "" {
				lateRenewal = fmt.Sprintf("a Sync blocked on a silent stream since tick %d is still not cancelled at tick %d, although a sync request arrived at every tick", stallTick, t)
			}
		}
		inflight := r.cl.blocked()
		res := "(SyncErr EFailedAll)"
		if lastRound(r.raw) >= c.upTo {
			res = "SyncOk"
		} else if inflight {
			res = "(SyncBlocked ECanceled)"
		}
		obs, _ := r.obsTerm(res)
		out.line = fmt.Sprintf("CTicks %s %s %s %s %d %d%%nat %s %s %s", coqBool(w.chained), coqBackend(c.bk),
			r.validTerm(), r.baseTerm(), c.upTo, c.nticks, r.attemptsTerm(), coqBool(inflight), obs)
		m.checkPuts(r, true)
		// M (C05 and C10, same observation): stuck syncs are cancelled and restarted after a few
		// periods without progress; with a healthy peer available the store reaches the target
		if goodAt >= 0 && c.nticks >= 3*goodAt+3 {
			out.buckets = append(out.buckets, fmt.Sprintf("ticks/stalled-or-failed-attempts=%d", goodAt))
			what := ""
			if lateRenewal != "" {
				what = lateRenewal
			}
			if lastRound(r.raw) != c.upTo {
				if what != "" {
					what += "; "
				}
				what += fmt.Sprintf("after %d periods with one sync request each the store is at round %d, target %d, although attempt %d of the script reaches a healthy peer", c.nticks, lastRound(r.raw), c.upTo, goodAt+1)
			}
			if what != "" {
				m.fail("C10-stuck-sync-never-restarted", what)
				m.fail("C05-stuck-sync-never-restarted", what)
			}
		}
		out.buckets = append(out.buckets, "ticks/"+res)
		out.nontriv = true
	case "follow":
		return runFollow(c)
	}
	out.fails = m.fails
	out.key = out.line
	return
}

// padAttempts gives every attempt the same number of own-address and other entries (the
// SyncManager gets one address list for all of them); missing ones are unreachable peers.
func padAttempts(in [][]*peerSpec) [][]*peerSpec {
	maxn, selfs := 0, 0
	for _, a := range in {
		if n := len(others(a)); n > maxn {
			maxn = n
		}
		if s := len(a) - len(others(a)); s > selfs {
			selfs = s
		}
	}
	out := make([][]*peerSpec, len(in))
	for i, a := range in {
		b := append([]*peerSpec{}, a...)
		for len(others(b)) < maxn {
			b = append(b, unreachableSpec())
		}
		for len(b)-len(others(b)) < selfs {
			b = append(b, selfSpec())
		}
		out[i] = b
	}
	return out
}

// waitAttempt waits until the Sync started by Run for attempt a is quiescent: target stored, a
// scripted peer stalled for good, or every other node of the attempt was consumed and released.
func (r *rig) waitAttempt(a int, upTo uint64) bool {
	deadline := time.Now().Add(hangTimeout)
	need := len(others(r.cl.attempts[a]))
	for time.Now().Before(deadline) {
		select {
		case <-r.cl.stalled:
			return true
		default:
		}
		if lastRound(r.raw) >= upTo {
			return true
		}
		r.cl.mu.Lock()
		n := len(r.cl.calls[a])
		r.cl.mu.Unlock()
		if n >= need && r.cl.idle() {
			// let Sync return and cancel its context
			time.Sleep(2 * time.Millisecond)
			if r.cl.idle() {
				return true
			}
		}
		time.Sleep(200 * time.Microsecond)
	}
	return false
}

// Run executes the engine.
func Run(outDir string, seed int64, tier string) error {
	rep := emit.NewReport("sync", seed, tier)
	g := &gen{rng: rand.New(rand.NewSource(seed))}
	for i, id := range []string{"pedersen-bls-chained", "pedersen-bls-unchained"} {
		w, err := newWorld(id, 424242+int64(i)+seed)
		if err != nil {
			return err
		}
		g.worlds = append(g.worlds, w)
	}
	if tier == "thorough" {
		w, err := newWorld("bls-unchained-g1-rfc9380", 777+seed)
		if err != nil {
			return err
		}
		g.worlds = append(g.worlds, w)
	}
	for i, id := range []string{"pedersen-bls-chained", "pedersen-bls-unchained"} {
		w, err := newWorld(id, 31337+int64(i)+seed)
		if err != nil {
			return err
		}
		w.period = time.Second
		w.info.Period, w.altInfo.Period = w.period, w.period
		g.fworlds = append(g.fworlds, w)
	}
	g.build(tier)
	outs := make([]outcome, len(g.cases))
	var wg sync.WaitGroup
	sem := make(chan struct{}, 12)
	for i, c := range g.cases {
		wg.Add(1)
		sem <- struct{}{}
		go func(i int, c *scase) {
			defer wg.Done()
			defer func() { <-sem }()
			outs[i] = runCase(c)
		}(i, c)
	}
	wg.Wait()
	var lines, descr []string
	seen := map[string]bool{}
	perClass := map[string]int{}
	for _, o := range outs {
		if o.err != nil {
			return o.err
		}
		rep.Evaluations++
		for _, b := range o.buckets {
			rep.Count(b)
		}
		for k, v := range o.extra {
			rep.Distribution[k] += v
		}
		if !seen[o.key] {
			seen[o.key] = true
			if o.nontriv {
				rep.DistinctNontrivial++
			}
		}
		for _, f := range o.fails {
			// the report keeps at most 50 failures: at most 3 per class, so that a frequent class
			// can never crowd out a new one; the full count goes to the distribution
			rep.Count("monitor/" + f.Class)
			if perClass[f.Class]++; perClass[f.Class] <= 3 {
				rep.Fail(f.Class, f.What, f.Input)
			}
		}
		lines = append(lines, o.line)
		for _, l := range o.extra2 {
			lines = append(lines, l)
			descr = append(descr, o.descr)
		}
		descr = append(descr, o.descr)
		rep.Sample(o.descr, 10)
	}
	rep.Rule = "real beacon.SyncManager over real store stacks (memdb, bolt untrimmed, bolt trimmed; participant stack and follow stack) with real BLS chains (chained + unchained), scripted peers (honest, behind, silent, closing, unreachable, own address, lying in signature/key/round/prev/beacon id, replay, gap); corpus witnesses first, every head x target with a failing peer before the honest one, all orders of 3-4 peer sets, every lie at every position, random mixes; re-sync, check and repair on planted corruption, Run renewals, StartFollowChain; distinct = distinct case term; non-trivial = something was stored or the call failed/blocked"
	if err := rep.Shard(outDir, "cases_sync", []string{"From DV Require Import Model.Sync Corr.SyncCorr."}, "scase", "mismatches", lines, descr, 400); err != nil {
		return err
	}
	return rep.Write(outDir)
}
