// Package engsync is the correspondence engine for C10: it drives the REAL beacon.SyncManager
// (Sync, ReSync, CheckPastBeacons, CorrectPastBeacons, Run) and core.BeaconProcess.StartFollowChain
// against scripted peers over real store stacks with real BLS signatures, records projected
// observables, evaluates the property monitor on them and writes Coq case files for Corr/SyncCorr.v.
package engsync

import (
	"fmt"
	"sync"
	"time"

	"github.com/drand/kyber"
	"github.com/drand/kyber/share"
	"github.com/drand/kyber/util/random"

	"github.com/drand/drand/v2/common"
	pchain "github.com/drand/drand/v2/common/chain"
	"github.com/drand/drand/v2/crypto"
)

const chainLen = 12 // rounds 1..chainLen exist on the honest chain

// world is one chain: a scheme, a group key, the honest beacons, and the lying variants of them.
type world struct {
	name     string
	sch      *crypto.Scheme
	chained  bool
	pub      kyber.Point
	altPub   kyber.Point
	info     *pchain.Info
	altInfo  *pchain.Info // same parameters, other key: a different chain (different hash)
	beaconID string
	chain    []*common.Beacon // index = round, 0 = genesis
	alt      []*common.Beacon // same messages signed by the other key
	period   time.Duration
	genesis  int64

	mu     sync.Mutex
	ids    map[string]int64 // byte string -> abstract id
	oracle map[string]bool
	oracl2 map[string]bool
}

type signer struct {
	sch *crypto.Scheme
	sh  *share.PriShare
	pp  *share.PubPoly
}

func newSigner(sch *crypto.Scheme, secret int64) *signer {
	s := sch.KeyGroup.Scalar().SetInt64(secret)
	poly := share.NewPriPoly(sch.KeyGroup, 1, s, random.New())
	return &signer{sch: sch, sh: poly.Shares(1)[0], pp: poly.Commit(sch.KeyGroup.Point().Base())}
}

// sign produces the full (recovered) group signature on msg: threshold 1, one share.
func (s *signer) sign(msg []byte) ([]byte, error) {
	part, err := s.sch.ThresholdScheme.Sign(s.sh, msg)
	if err != nil {
		return nil, err
	}
	return s.sch.ThresholdScheme.Recover(s.pp, msg, [][]byte{part}, 1, 1)
}

func newWorld(schemeID string, secret int64) (*world, error) {
	sch, err := crypto.GetSchemeByID(schemeID)
	if err != nil {
		return nil, err
	}
	w := &world{name: schemeID, sch: sch, chained: sch.Name == crypto.DefaultSchemeID,
		beaconID: "c10", period: 3 * time.Second, genesis: 1700000000,
		ids: map[string]int64{}, oracle: map[string]bool{}, oracl2: map[string]bool{}}
	sg, alt := newSigner(sch, secret), newSigner(sch, secret+7)
	w.pub, w.altPub = sg.pp.Commit(), alt.pp.Commit()
	seed := []byte("c10-genesis-seed-" + schemeID)
	w.info = &pchain.Info{PublicKey: w.pub, ID: w.beaconID, Period: w.period, Scheme: sch.Name,
		GenesisTime: w.genesis, GenesisSeed: seed}
	w.altInfo = &pchain.Info{PublicKey: w.altPub, ID: w.beaconID, Period: w.period, Scheme: sch.Name,
		GenesisTime: w.genesis, GenesisSeed: seed}
	w.chain = []*common.Beacon{{Round: 0, Signature: seed}}
	w.alt = []*common.Beacon{{Round: 0, Signature: seed}}
	for r := uint64(1); r <= chainLen; r++ {
		for k, sgn := range []*signer{sg, alt} {
			list := &w.chain
			if k == 1 {
				list = &w.alt
			}
			b := &common.Beacon{Round: r}
			if w.chained {
				b.PreviousSig = (*list)[r-1].Signature
			}
			sig, err := sgn.sign(sch.DigestBeacon(b))
			if err != nil {
				return nil, fmt.Errorf("sign round %d: %w", r, err)
			}
			b.Signature = sig
			*list = append(*list, b)
		}
	}
	// stable ids: the honest signature of round r is r (the seed is 0)
	for r, b := range w.chain {
		w.ids[string(b.Signature)] = int64(r)
	}
	for r, b := range w.alt {
		if r > 0 {
			w.ids[string(b.Signature)] = int64(100 + r)
		}
	}
	// register every lying variant now, so that ids do not depend on execution order
	for r := uint64(1); r <= chainLen; r++ {
		w.id(w.badSig(r).Signature)
		w.id(w.wrongPrev(r).PreviousSig)
	}
	return w, nil
}

// id maps a byte string to its abstract id (-1 = empty).
func (w *world) id(b []byte) int64 {
	if len(b) == 0 {
		return -1
	}
	w.mu.Lock()
	defer w.mu.Unlock()
	if v, ok := w.ids[string(b)]; ok {
		return v
	}
	v := int64(1000 + len(w.ids))
	w.ids[string(b)] = v
	return v
}

func cp(b *common.Beacon) *common.Beacon {
	return &common.Beacon{Round: b.Round, PreviousSig: append([]byte(nil), b.PreviousSig...),
		Signature: append([]byte(nil), b.Signature...)}
}

func bkey(b *common.Beacon) string {
	return fmt.Sprintf("%d|%x|%x", b.Round, b.PreviousSig, b.Signature)
}

// valid is the oracle: an independent VerifyBeacon call against the pinned key (not the code
// path under test), cached.
func (w *world) valid(b *common.Beacon) bool { return w.validUnder(b, false) }

func (w *world) validUnder(b *common.Beacon, alt bool) bool {
	k := bkey(b)
	m, key := w.oracle, w.pub
	if alt {
		m, key = w.oracl2, w.altPub
	}
	w.mu.Lock()
	v, ok := m[k]
	w.mu.Unlock()
	if ok {
		return v
	}
	v = w.sch.VerifyBeacon(cp(b), key) == nil
	w.mu.Lock()
	m[k] = v
	w.mu.Unlock()
	return v
}

// ---- lying variants of the honest beacon of round r ----

func flip(b []byte) []byte {
	c := append([]byte(nil), b...)
	c[len(c)/2] ^= 0x5a
	return c
}

func (w *world) badSig(r uint64) *common.Beacon {
	b := cp(w.chain[r])
	b.Signature = flip(b.Signature)
	return b
}

func (w *world) foreignKey(r uint64) *common.Beacon { return cp(w.alt[r]) }

// a genuine signature under a wrong round number
func (w *world) wrongRoundLabel(r, label uint64) *common.Beacon {
	b := cp(w.chain[r])
	b.Round = label
	return b
}

// previous signature replaced (chained: breaks the signed message; unchained: not signed at all)
func (w *world) wrongPrev(r uint64) *common.Beacon {
	b := cp(w.chain[r])
	b.PreviousSig = flip(w.chain[(r+3)%chainLen+1].Signature)
	return b
}

// coq term of a beacon
func (w *world) bterm(b *common.Beacon) string {
	f := func(x []byte) string {
		if i := w.id(x); i >= 0 {
			return fmt.Sprintf("[%d]", i)
		}
		return "[]"
	}
	return fmt.Sprintf("(mkB %d %s %s)", b.Round, f(b.PreviousSig), f(b.Signature))
}
