package engsync

// The StartFollowChain level: a REAL core.BeaconProcess (built through the exported
// constructors, in-memory key store, bolt database in a temporary folder) whose private gateway
// is the scripted client. Observables: how the call ended, the progress stream, the database it
// left behind.

import (
	"context"
	"errors"
	"fmt"
	"os"
	"path/filepath"
	"strings"
	"sync"
	"time"

	"google.golang.org/grpc/metadata"

	"github.com/drand/drand/v2/common"
	"github.com/drand/drand/v2/common/key"
	"github.com/drand/drand/v2/internal/chain"
	"github.com/drand/drand/v2/internal/chain/boltdb"
	"github.com/drand/drand/v2/internal/core"
	"github.com/drand/drand/v2/internal/dkg"
	"github.com/drand/drand/v2/internal/net"
	"github.com/drand/drand/v2/internal/util"
	"github.com/drand/drand/v2/protobuf/drand"
)

// answers of ChainInfo, by peer
const (
	ansUnreachable = iota
	ansBad
	ansReal    // the real chain's information            (hash id 1)
	ansForeign // same parameters, another key: another chain (hash id 2)
	ansOtherID // the real key under another beacon id     (hash id 3)
)

type followIn struct {
	opHash  int // which information the operator's chain hash names: 1,2,3; 9 = none of them
	answers []int
	upTo    uint64
	alt     bool // the streamed beacons are those of the foreign chain
	withOwn bool // the node's own address is among the requested nodes
}

// in-memory key store
type memKeys struct{ pair *key.Pair }

func (m *memKeys) SaveKeyPair(p *key.Pair) error   { m.pair = p; return nil }
func (m *memKeys) LoadKeyPair() (*key.Pair, error) { return m.pair, nil }
func (m *memKeys) SaveShare(*key.Share) error      { return nil }
func (m *memKeys) LoadShare() (*key.Share, error)  { return nil, errors.New("no share") }
func (m *memKeys) SaveGroup(*key.Group) error      { return nil }
func (m *memKeys) LoadGroup() (*key.Group, error)  { return nil, errors.New("no group") }
func (m *memKeys) Reset() error                    { return nil }
func (m *memKeys) TestWrite() error                { return nil }

// the scripted client as a gateway: ChainInfo answers by peer position
type followClient struct {
	*scriptClient
	in    *followIn
	addrs []string
}

func (w *world) infoPacket(kind int) (*drand.ChainInfoPacket, error) {
	switch kind {
	case ansReal:
		return w.info.ToProto(nil), nil
	case ansForeign:
		return w.altInfo.ToProto(nil), nil
	case ansOtherID:
		i := *w.info
		i.ID = "another-beacon"
		return i.ToProto(nil), nil
	case ansBad:
		p := w.info.ToProto(nil)
		p.SchemeID = "no-such-scheme"
		return p, nil
	}
	return nil, errUnreachable
}

func (w *world) hashOf(kind int) []byte {
	switch kind {
	case 1:
		return w.info.Hash()
	case 2:
		return w.altInfo.Hash()
	case 3:
		i := *w.info
		i.ID = "another-beacon"
		return i.Hash()
	}
	return []byte("not a chain hash of anything here")
}

func (f *followClient) ChainInfo(_ context.Context, p net.Peer, _ *drand.ChainInfoRequest) (*drand.ChainInfoPacket, error) {
	for i, a := range f.addrs {
		if a == p.Address() {
			return f.w.infoPacket(f.in.answers[i])
		}
	}
	return nil, errUnreachable
}
func (f *followClient) PublicRandStream(context.Context, net.Peer, *drand.PublicRandRequest, ...net.CallOption) (chan *drand.PublicRandResponse, error) {
	return nil, errors.New("not scripted")
}
func (f *followClient) PublicRand(context.Context, net.Peer, *drand.PublicRandRequest) (*drand.PublicRandResponse, error) {
	return nil, errors.New("not scripted")
}
func (f *followClient) ListBeaconIDs(context.Context, net.Peer) (*drand.ListBeaconIDsResponse, error) {
	return nil, errors.New("not scripted")
}

// the control stream the progress is sent on
type progressStream struct {
	ctx context.Context
	mu  sync.Mutex
	cur []uint64
}

func (s *progressStream) Send(p *drand.SyncProgress) error {
	s.mu.Lock()
	s.cur = append(s.cur, p.GetCurrent())
	s.mu.Unlock()
	return nil
}
func (s *progressStream) Context() context.Context     { return s.ctx }
func (s *progressStream) SetHeader(metadata.MD) error  { return nil }
func (s *progressStream) SendHeader(metadata.MD) error { return nil }
func (s *progressStream) SetTrailer(metadata.MD)       {}
func (s *progressStream) SendMsg(interface{}) error    { return nil }
func (s *progressStream) RecvMsg(interface{}) error    { return nil }

// peers of the foreign chain: the same behaviours over the other key's beacons
func (w *world) altView() *world {
	v := &world{name: w.name, sch: w.sch, chained: w.chained, pub: w.altPub, altPub: w.pub, info: w.altInfo,
		altInfo: w.info, beaconID: w.beaconID, chain: w.alt, alt: w.chain, period: w.period, genesis: w.genesis,
		ids: w.ids, oracle: w.oracl2, oracl2: w.oracle}
	return v
}

func (g *gen) buildFollow(tier string) {
	scale := 1
	if tier == "thorough" {
		scale = 4
	}
	for _, w := range g.fworlds {
		out := func() []*peerSpec { return []*peerSpec{unreachableSpec(), w.cut(0, eClose)} }
		add := func(f *followIn, atts [][]*peerSpec, witness, descr string) {
			g.add(&scase{kind: "follow", w: w, bk: bkBoltT, sk: skFollow, upTo: f.upTo, fol: f,
				attempts: padAttempts(atts), witness: witness, descr: descr})
		}
		good := func() []*peerSpec { return []*peerSpec{w.cut(1, eClose), w.honest()} }
		// the hash pin: another hash is refused before anything exists
		add(&followIn{opHash: 9, answers: []int{ansReal, ansReal}, upTo: 4}, [][]*peerSpec{good()}, "", "hash-mismatch")
		add(&followIn{opHash: 2, answers: []int{ansReal, ansReal}, upTo: 4}, [][]*peerSpec{good()}, "", "hash-of-another-chain")
		add(&followIn{opHash: 1, answers: []int{ansReal, ansForeign}, upTo: 4}, [][]*peerSpec{good()}, "", "last-answer-is-foreign")
		add(&followIn{opHash: 1, answers: []int{ansForeign, ansReal}, upTo: 4}, [][]*peerSpec{good()}, "", "first-answer-is-foreign")
		add(&followIn{opHash: 1, answers: []int{ansReal, ansBad}, upTo: 4}, [][]*peerSpec{good()}, "", "last-answer-unparsable")
		add(&followIn{opHash: 1, answers: []int{ansReal, ansUnreachable}, upTo: 4, withOwn: true}, [][]*peerSpec{good()}, "", "own-address-listed")
		add(&followIn{opHash: 1, answers: []int{ansUnreachable, ansUnreachable}, upTo: 4}, [][]*peerSpec{good()}, "", "no-info")
		add(&followIn{opHash: 3, answers: []int{ansOtherID, ansOtherID}, upTo: 4}, [][]*peerSpec{good()}, "", "other-beacon-id")
		// a foreign chain the operator DID name: its beacons are the ones that verify
		av := w.altView()
		add(&followIn{opHash: 2, answers: []int{ansForeign, ansForeign}, upTo: 3, alt: true},
			[][]*peerSpec{{av.liar("foreignkey", 1, eClose), av.honest()}}, "", "operator-names-the-other-chain")
		// retry after k failed attempts
		for k := 0; k <= 2; k++ {
			var atts [][]*peerSpec
			for i := 0; i < k; i++ {
				atts = append(atts, out())
			}
			atts = append(atts, good())
			add(&followIn{opHash: 1, answers: []int{ansReal, ansReal}, upTo: uint64(3 + k)}, atts, "", fmt.Sprintf("retry-after-%d-failures", k))
		}
		// failed attempts that leave a valid prefix behind
		add(&followIn{opHash: 1, answers: []int{ansReal, ansReal}, upTo: 6},
			[][]*peerSpec{{w.cut(2, eClose), w.liar("badsig", 1, eClose)}, {unreachableSpec(), w.honest()}}, "", "retry-keeps-prefix")
		// every attempt fails: still retrying when the script ends
		add(&followIn{opHash: 1, answers: []int{ansReal, ansReal}, upTo: 5}, [][]*peerSpec{out(), out()}, "", "all-attempts-fail")
		// keeps following (upTo = 0), and a silent peer first
		add(&followIn{opHash: 1, answers: []int{ansReal, ansReal}, upTo: 0}, [][]*peerSpec{{w.cut(0, eClose), w.honest()}}, "", "keeps-following")
		add(&followIn{opHash: 1, answers: []int{ansReal, ansReal}, upTo: 4}, [][]*peerSpec{{w.cut(1, eStall), w.honest()}}, "stall-before-honest", "silent-first")
		// no appendStore on this path
		add(&followIn{opHash: 1, answers: []int{ansReal, ansReal}, upTo: 5}, [][]*peerSpec{{w.only(5), w.honest()}}, "follow-stack-gap", "gap")
		add(&followIn{opHash: 1, answers: []int{ansReal, ansReal}, upTo: 5}, [][]*peerSpec{{w.liar("skip", 1, eClose), w.honest()}}, "follow-stack-gap", "skip")
		// every lie, first and second packet, before an honest peer (no failed attempt: no sleep)
		for li, k := range lieKinds {
			for pos := 0; pos < 2; pos++ {
				if tier != "thorough" && (li+pos)%2 == 1 {
					continue
				}
				add(&followIn{opHash: 1, answers: []int{ansReal, ansReal}, upTo: 5},
					[][]*peerSpec{{w.liar(k, pos, eClose), w.honest()}}, "", "lies")
			}
		}
		for i := 0; i < 4*scale; i++ {
			k := g.rng.Intn(2)
			var atts [][]*peerSpec
			for j := 0; j < k; j++ {
				atts = append(atts, []*peerSpec{g.randPeerNoStall(w), g.randPeerNoStall(w)})
			}
			atts = append(atts, []*peerSpec{g.randPeerNoStall(w), w.honest()})
			add(&followIn{opHash: 1, answers: []int{[]int{ansReal, ansUnreachable}[g.rng.Intn(2)], ansReal}, upTo: uint64(2 + g.rng.Intn(8))}, atts, "", "random")
		}
	}
}

func (g *gen) randPeerNoStall(w *world) *peerSpec {
	switch g.rng.Intn(5) {
	case 0:
		return unreachableSpec()
	case 1:
		return w.cut(g.rng.Intn(3), eClose)
	default:
		return w.liar(lieKinds[g.rng.Intn(len(lieKinds))], g.rng.Intn(3), eClose)
	}
}

func runFollow(c *scase) (out outcome) {
	out.descr = c.label() + fmt.Sprintf(" opHash=%d answers=%v", c.fol.opHash, c.fol.answers)
	out.extra = map[string]int{}
	w, f := c.w, c.fol
	m := &mon{c: c, extra: out.extra}
	dir, err := os.MkdirTemp("", "zzv-follow-")
	if err != nil {
		out.err = err
		return
	}
	defer os.RemoveAll(dir)
	pair, err := key.NewKeyPair(selfAddr, w.sch)
	if err != nil {
		out.err = err
		return
	}
	cl := newScriptClient(w, c.attempts, true)
	cl.setTarget(f.upTo)
	cl.noRecorder = true
	n := len(others(c.attempts[0]))
	fc := &followClient{scriptClient: cl, in: f}
	var nodes []string
	for i := 0; i < n; i++ {
		fc.addrs = append(fc.addrs, fmt.Sprintf("10.0.0.%d:4444", i+1))
	}
	nodes = append(nodes, fc.addrs...)
	if f.withOwn {
		nodes = append([]string{selfAddr}, nodes...)
	}
	exhausted := make(chan struct{}, 1)
	cl.onExhausted = func() {
		select {
		case exhausted <- struct{}{}:
		default:
		}
	}
	cfg := core.NewConfig(quietLog, core.WithConfigFolder(dir), core.WithDBStorageEngine(chain.BoltDB))
	ctx, cancel := context.WithCancel(context.Background())
	defer cancel()
	bp, err := core.NewBeaconProcess(ctx, quietLog, &memKeys{pair: pair}, util.NewFanOutChan[dkg.SharingOutput](),
		w.beaconID, cfg, &net.PrivateGateway{ProtocolClient: fc, PublicClient: fc})
	if err != nil {
		out.err = err
		return
	}
	stream := &progressStream{ctx: ctx}
	req := &drand.StartSyncRequest{Nodes: nodes, UpTo: f.upTo,
		Metadata: &drand.Metadata{BeaconID: w.beaconID, ChainHash: w.hashOf(f.opHash)}}
	done := make(chan error, 1)
	go func() { done <- bp.StartFollowChain(ctx, req, stream) }()

	// how it ends: by itself; blocked on a silent peer; script exhausted while still retrying; or
	// nothing happens for longer than a retry takes (the call just waits)
	res := ""
	var ferr error
	idleFor := w.period + 2500*time.Millisecond
	lastAct, lastCalls := time.Now(), -1
loop:
	for {
		select {
		case ferr = <-done:
			break loop
		case <-cl.stalled:
			res = "FoBlocked"
		case <-exhausted:
			res = "FoRetrying"
		case <-time.After(20 * time.Millisecond):
			if nc := cl.totalCalls(); nc != lastCalls {
				lastCalls, lastAct = nc, time.Now()
			}
			if time.Since(lastAct) > idleFor {
				res = "FoBlocked"
				out.extra["follow/ended-by-inactivity"]++
			}
		}
		if res != "" {
			// let the callback workers deliver the progress of what was stored
			for n, t0, stable := -1, time.Now(), time.Now(); time.Since(t0) < 2*time.Second && time.Since(stable) < 120*time.Millisecond; time.Sleep(5 * time.Millisecond) {
				stream.mu.Lock()
				k := len(stream.cur)
				stream.mu.Unlock()
				if k != n {
					n, stable = k, time.Now()
				}
			}
			cancel()
			select {
			case ferr = <-done:
			case <-time.After(hangTimeout):
				m.fail("follow-hangs-after-cancel", "StartFollowChain did not return after its context was cancelled")
			}
			break loop
		}
	}
	dbFile := filepath.Join(cfg.DBFolder(w.beaconID), boltdb.BoltFileName)
	_, statErr := os.Stat(dbFile)
	created := statErr == nil
	if res == "" {
		if ferr == nil {
			res = "FoDone"
		} else {
			res = "FoRefused" // returned an error by itself; the class of refusal is not observable
		}
	}
	// the database it left behind
	var after []*common.Beacon
	dump := "None"
	if created {
		// the call has returned: the database must be closed. bbolt would wait for the file lock
		// for ever, so open it on the side with a deadline.
		type opened struct {
			st  chain.Store
			err error
		}
		och := make(chan opened, 1)
		go func() {
			st, err := boltdb.NewBoltStore(context.Background(), quietLog, cfg.DBFolder(w.beaconID))
			och <- opened{st, err}
		}()
		select {
		case o := <-och:
			if o.err != nil {
				out.err = o.err
				return
			}
			after, _ = scan(context.Background(), o.st)
			_ = o.st.Close()
		case <-time.After(4 * time.Second):
			m.fail("follow-leaves-database-open", "StartFollowChain returned but its database file is still locked")
			go func() {
				if o := <-och; o.st != nil {
					_ = o.st.Close()
				}
			}()
		}
		var ds []string
		for _, b := range after {
			sig := "[]"
			if i := w.id(b.Signature); i >= 0 {
				sig = fmt.Sprintf("[%d]", i)
			}
			ds = append(ds, fmt.Sprintf("(%d, %s)", b.Round, sig))
		}
		dump = "(Some [" + strings.Join(ds, "; ") + "])"
	}
	stream.mu.Lock()
	prog := append([]uint64(nil), stream.cur...)
	stream.mu.Unlock()
	progT := "None"
	if f.upTo != 0 {
		var ps []string
		for _, p := range prog {
			ps = append(ps, fmt.Sprint(p))
		}
		progT = "(Some [" + strings.Join(ps, "; ") + "])"
	}
	// oracle tables: under the real key and under the foreign key
	var v1, v2 []string
	seen := map[string]bool{}
	for _, a := range cl.calls {
		for _, cc := range a {
			for _, e := range cc.stream {
				if e.kind != ePkt {
					continue
				}
				for _, b := range []*common.Beacon{e.b, {Round: e.b.Round, Signature: e.b.Signature}} {
					if !w.chained || b == e.b {
						if k := bkey(b); !seen[k] {
							seen[k] = true
							if w.validUnder(b, false) {
								v1 = append(v1, w.bterm(b))
							}
							if w.validUnder(b, true) {
								v2 = append(v2, w.bterm(b))
							}
						}
					}
				}
			}
		}
	}
	var ans []string
	for _, a := range f.answers {
		switch a {
		case ansUnreachable:
			ans = append(ans, "InfoUnreachable")
		case ansBad:
			ans = append(ans, "InfoBad")
		case ansReal:
			ans = append(ans, fmt.Sprintf("InfoIs (mkI [1] true %s)", w.bterm(w.chain[0])))
		case ansForeign:
			ans = append(ans, fmt.Sprintf("InfoIs (mkI [2] true %s)", w.bterm(w.chain[0])))
		case ansOtherID:
			ans = append(ans, fmt.Sprintf("InfoIs (mkI [3] false %s)", w.bterm(w.chain[0])))
		}
	}
	var atts []string
	for a := range cl.attempts {
		atts = append(atts, cl.attemptTerm(a))
	}
	cur := common.CurrentRound(time.Now().Unix(), w.period, w.genesis)
	out.line = fmt.Sprintf("CFollow %s BkOverwrite [%s] [%s] [%d] [%s] %d %d [%s] %s %s %s", coqBool(w.chained),
		strings.Join(v1, "; "), strings.Join(v2, "; "), f.opHash, strings.Join(ans, "; "), f.upTo, cur,
		strings.Join(atts, "; "), res, progT, dump)

	// ---- M ----
	pinnedAlt := f.opHash == 2
	for _, b := range after {
		if b.Round == 0 {
			continue
		}
		rb := cp(b)
		if w.chained { // the trimmed format keeps signatures only: the previous one is the neighbour's
			for _, p := range after {
				if p.Round+1 == b.Round {
					rb.PreviousSig = p.Signature
				}
			}
		}
		if f.opHash != 1 && f.opHash != 2 {
			m.fail("follow-stored-without-pinned-info", fmt.Sprintf("round %d stored although the operator's hash names no fetched information", b.Round))
		} else if !w.validUnder(rb, pinnedAlt) {
			m.fail("follow-stored-unverified-beacon", fmt.Sprintf("round %d in the database does not verify against the information named by the operator's hash", b.Round))
		}
	}
	last := f.answers[len(f.answers)-1]
	for i := len(f.answers) - 1; i >= 0 && last == ansUnreachable; i-- {
		last = f.answers[i]
	}
	hashMatches := (last == ansReal && f.opHash == 1) || (last == ansForeign && f.opHash == 2) || (last == ansOtherID && f.opHash == 3)
	if !hashMatches && (created || ferr == nil) {
		m.fail("follow-hash-not-pinned", fmt.Sprintf("fetched information does not have the operator's hash, yet created=%v err=%v", created, ferr))
	}
	// order of the writes as the progress stream shows them
	for i, p := range prog {
		want := uint64(i + 1)
		if p != want && f.upTo != 0 {
			cls := "follow-stack-put-out-of-order"
			if !w.chained {
				cls = "follow-stack-put-out-of-order-unchained"
			}
			m.fail(cls, fmt.Sprintf("StartFollowChain stored round %d as its write number %d on a fresh database", p, i+1))
			break
		}
	}
	// convergence: failed attempts (no silent peer, no misordering liar), then an honest peer
	if hashMatches && f.opHash == 1 && f.upTo >= 1 && len(c.attempts) > 0 {
		okPrem := true
		for a, specs := range c.attempts {
			var calls []*call
			if a < len(cl.calls) {
				calls = cl.calls[a]
			}
			hi, stallB, misB := tolerable(c, specs, calls)
			lastAtt := a == len(c.attempts)-1
			if stallB || misB || (lastAtt && hi < 0) {
				okPrem = false
			}
			if !lastAtt {
				for _, s := range specs {
					if s.honest {
						okPrem = false // an earlier attempt may already succeed: not the retry premise
					}
					for _, cc := range calls {
						for _, e := range cc.stream {
							if e.kind == eStall {
								okPrem = false
							}
						}
					}
				}
			}
		}
		if okPrem {
			out.buckets = append(out.buckets, fmt.Sprintf("follow/retry-premise/attempts=%d", len(c.attempts)))
			head := uint64(0)
			if len(after) > 0 {
				head = after[len(after)-1].Round
			}
			if res != "FoDone" || head != f.upTo {
				m.fail("follow-does-not-retry", fmt.Sprintf("%d failed attempt(s) then an honest peer: ended %s with head %d, target %d", len(c.attempts)-1, res, head, f.upTo))
			}
		}
	}
	if c.witness == "stall-before-honest" && res == "FoBlocked" {
		m.fail("sync-blocked-by-silent-peer", "StartFollowChain: a silent peer tried first blocks the follow until the operator cancels; the honest peer is never tried")
	}
	out.buckets = append(out.buckets, "follow/"+res)
	out.nontriv = true
	out.fails = m.fails
	out.key = out.line
	return
}
