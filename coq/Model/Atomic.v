(* Which calls of a function body happen while a given mutex is held (write mode): a syntactic
   walk over the event trees of Model/Locks.v. Definitions only. Used by C02: the append store's
   round check, its write to the store below and the update of its cached head are one critical
   section (the model's Put is one atomic step). *)
From Coq Require Import ZArith List Bool.
From DV Require Import Model.Locks.
Import ListNotations.
Open Scope Z_scope.

(* (every call seen so far was made with m held, m held at the end) *)
Fixpoint calls_locked (m : Z) (held : bool) (p : prog) : bool * bool :=
  match p with
  | POp (OLock x) => (true, if x =? m then true else held)
  | POp (OUnlock x) => (true, if x =? m then false else held)
  | PCall _ => (held, held)
  | PSeq a b =>
      let '(oka, ha) := calls_locked m held a in
      let '(okb, hb) := calls_locked m ha b in (oka && okb, hb)
  | PAlt a b =>
      let '(oka, ha) := calls_locked m held a in
      let '(okb, hb) := calls_locked m held b in (oka && okb, ha && hb)
  | PLoop a =>
      let '(oka, ha) := calls_locked m held a in
      let '(okb, hb) := calls_locked m (held && ha) a in (oka && okb, held && ha && hb)
  | PBlock _ a => calls_locked m held a
  | _ => (true, held)
  end.

Fixpoint count_calls (p : prog) : nat :=
  match p with
  | PCall _ => 1
  | PSeq a b | PAlt a b => count_calls a + count_calls b
  | PLoop a | PBlock _ a => count_calls a
  | _ => 0
  end.

Definition id_of (names : list (Z * list Z)) (name : list Z) : option Z :=
  match find (fun x => zlist_eqb (snd x) name) names with Some x => Some (fst x) | None => None end.

(* function [fname] exists, calls something, and makes every call under mutex [mname] *)
Definition critical_section (funs : list (Z * prog)) (fnames mnames : list (Z * list Z))
    (fname mname : list Z) : bool :=
  match id_of fnames fname, id_of mnames mname with
  | Some f, Some m =>
      match flookup funs f with
      | Some body => fst (calls_locked m false body) && Nat.ltb 0 (count_calls body)
      | None => false
      end
  | _, _ => false
  end.
