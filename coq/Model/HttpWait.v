(* The HTTP relay's "wait for the next round" logic: /repo/handler/http/server.go
   getRand (a request for latestRound+1 becomes a waiter, any other round is fetched from the
   node) and watchWithTimeout (every item of the watch stream releases all waiters; an
   unexpected round, or a failed stream, releases them without data, which the request handler
   answers as 404 "retry"; a failed stream also resets latestRound to 0).  A waiter is
   identified by the round it asked for. *)
From Coq Require Import ZArith List Bool.
Import ListNotations.
Open Scope Z_scope.

Record hstate := mkH { h_latest : Z; h_pending : list Z }.   (* pending: requested rounds, oldest first *)

Inductive hevent :=
| HReq (r : Z) (known : bool)   (* GET /public/r with r >= 1 and not in the future; known: the node has round r *)
| HWatch (r : Z)                (* the watch stream delivers the beacon of round r *)
| HFail                         (* the watch stream fails / closes *)
| HAbandon (r : Z).             (* a request for latest+1 is parked and its client goes away before the round exists *)

(* what a client receives: the beacon of some round, an empty 200 body, or 404 *)
Inductive hanswer := ABeacon (asked got : Z) | AEmpty (asked : Z) | ANotFound (asked : Z).

Definition hstep (s : hstate) (e : hevent) : hstate * list hanswer :=
  match e with
  | HReq r known =>
      if (h_latest s + 1 =? r) && negb (h_latest s =? 0)
      then (mkH (h_latest s) (h_pending s ++ [r]), [])
      else (s, [if known then ABeacon r r else ANotFound r])
  | HWatch r =>
      let bad := negb (h_latest s + 1 =? r) && negb (h_latest s =? 0) in
      (mkH r [], map (fun asked => if bad then ANotFound asked else ABeacon asked r) (h_pending s))
  | HFail => (mkH 0 [], map ANotFound (h_pending s))
  | HAbandon _ => (s, [])       (* the waiter is removed again: nothing stays behind, nobody is answered *)
  end.

Fixpoint hrun (s : hstate) (es : list hevent) : hstate * list hanswer :=
  match es with
  | [] => (s, [])
  | e :: es' => let '(s1, a) := hstep s e in let '(s2, a') := hrun s1 es' in (s2, a ++ a')
  end.

Definition hinit := mkH 0 [].
