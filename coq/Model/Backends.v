(* Model of the chain storage back-ends (C18):
     /repo/internal/chain/store.go            RoundToBytes / BytesToRound
     /repo/internal/chain/boltdb/store.go     BoltStore + boltCursor          ([bu_step])
     /repo/internal/chain/boltdb/trimmed.go   trimmedStore + trimmedBoltCursor ([bt_step])
     /repo/internal/chain/memdb/store.go      Store + memDBCursor              ([md_step])
   and of the specification they are compared with: one strictly ascending association list
   round -> value ([smap]) with the machines [sb_step] (bolt flavour: re-put replaces, cursor
   seek = first key >= r) and [sr_step] (ring flavour: re-put keeps, newest [cap] rounds,
   cursor = live index, seek exact).
   Executable definitions only (no proofs here).

   bbolt itself is not modelled below its documented contract: a bucket is a list of
   (key bytes, value) kept sorted by bytes.Compare; Get/Put/Delete by key; a cursor walks the
   sorted list ([bk_*], [cur_*]).  A read transaction (Store.Cursor callback) sees a frozen
   bucket; writing to the same bolt store from inside the callback is not something drand does
   (it can deadlock on bbolt's remap lock) and is answered [OBad] without effect.
   Closing a bolt store and opening the same file again (a daemon restart: NewBoltStore's format
   probe, then the untrimmed or trimmed store) is the identity on the bucket: the state of the
   models survives it unchanged, so a case file simply continues its operation sequence across a
   reopen (engine histories "reopen" / "reopen-contended"; stack: ERestart). *)
From Coq Require Import ZArith List Bool.
Import ListNotations.
Open Scope Z_scope.

(* ---------- data ---------- *)

Record beacon := mkB { b_round : Z; b_prev : list Z; b_sig : list Z }.

Inductive err := ENoBeacon.          (* chainerrors.ErrNoBeaconStored *)

Inductive out :=
| ODone                              (* Put / Del / Cursor open / close: nil error *)
| OBeacon (b : beacon)
| OErr (e : err)
| OLen (n : Z)
| OBad.                              (* operation not applicable in this state (see above) *)

Inductive op :=
| Put (b : beacon) | Get (r : Z) | Last | Del (r : Z) | Len
| COpen | CClose | CFirst | CNext | CSeek (r : Z) | CLast.

Fixpoint bytes_eqb (a b : list Z) : bool :=
  match a, b with
  | [], [] => true
  | x :: a', y :: b' => (x =? y) && bytes_eqb a' b'
  | _, _ => false
  end.

Definition beacon_eqb (a b : beacon) : bool :=
  (b_round a =? b_round b) && bytes_eqb (b_prev a) (b_prev b) && bytes_eqb (b_sig a) (b_sig b).

Definition out_eqb (a b : out) : bool :=
  match a, b with
  | ODone, ODone => true
  | OBeacon x, OBeacon y => beacon_eqb x y
  | OErr ENoBeacon, OErr ENoBeacon => true
  | OLen n, OLen m => n =? m
  | OBad, OBad => true
  | _, _ => false
  end.

Definition two64 : Z := 2 ^ 64.
Definition in_range (r : Z) : Prop := 0 <= r < two64.       (* uint64 *)
Definition in_rangeb (r : Z) : bool := (0 <=? r) && (r <? two64).

(* ---------- byte keys: chain.RoundToBytes / BytesToRound, bytes.Compare ---------- *)

Fixpoint be_bytes (n : nat) (r : Z) : list Z :=
  match n with
  | O => []
  | S n' => (r / 256 ^ Z.of_nat n') :: be_bytes n' (r mod 256 ^ Z.of_nat n')
  end.
Definition be64 (r : Z) : list Z := be_bytes 8 r.

Fixpoint be_val (acc : Z) (bs : list Z) : Z :=
  match bs with [] => acc | b :: bs' => be_val (acc * 256 + b) bs' end.
Definition be64_dec (bs : list Z) : Z := be_val 0 bs.

Fixpoint lex_cmp (a b : list Z) : comparison :=
  match a, b with
  | [], [] => Eq
  | [], _ :: _ => Lt
  | _ :: _, [] => Gt
  | x :: a', y :: b' => match x ?= y with Eq => lex_cmp a' b' | c => c end
  end.

(* ---------- generic list helpers ---------- *)

Definition zlen {A} (l : list A) : Z := Z.of_nat (length l).
Definition znth {A} (l : list A) (i : Z) : option A :=
  if i <? 0 then None else nth_error l (Z.to_nat i).
Definition zlast {A} (l : list A) : option A := znth l (zlen l - 1).

(* ---------- bbolt bucket: byte keys in bytes.Compare order ---------- *)

Section Bucket.
  Context {V : Type}.
  Definition bucket := list (list Z * V).

  Fixpoint bk_put (b : bucket) (k : list Z) (v : V) : bucket :=
    match b with
    | [] => [(k, v)]
    | (k', v') :: b' =>
        match lex_cmp k k' with
        | Lt => (k, v) :: (k', v') :: b'
        | Eq => (k, v) :: b'
        | Gt => (k', v') :: bk_put b' k v
        end
    end.

  Fixpoint bk_get (b : bucket) (k : list Z) : option V :=
    match b with
    | [] => None
    | (k', v') :: b' => match lex_cmp k' k with Eq => Some v' | _ => bk_get b' k end
    end.

  Fixpoint bk_del (b : bucket) (k : list Z) : bucket :=
    match b with
    | [] => []
    | (k', v') :: b' => match lex_cmp k' k with Eq => b' | _ => (k', v') :: bk_del b' k end
    end.

  (* index of the first key >= k *)
  Fixpoint bk_seek (b : bucket) (k : list Z) : Z :=
    match b with
    | [] => 0
    | (k', _) :: b' => match lex_cmp k' k with Lt => 1 + bk_seek b' k | _ => 0 end
    end.
End Bucket.

(* bbolt cursor over a frozen sorted list of length n: [None] = not positioned yet.
   Next moves only while there is a next element; at the end it stays and returns nil. *)
Definition cpos := option Z.
Definition cur_first : cpos := Some 0.
Definition cur_last (n : Z) : cpos := Some (n - 1).
Definition cur_next (n : Z) (p : cpos) : cpos * bool :=     (* new position, moved? *)
  match p with
  | None => (None, false)
  | Some i => if i + 1 <? n then (Some (i + 1), true) else (Some i, false)
  end.

Inductive cursor := NoCur | Cur (p : cpos).

(* ---------- untrimmed bolt: value = the whole (JSON) beacon ---------- *)

Record bu_state := mkBU { bu_db : bucket (V := beacon); bu_cur : cursor }.
Definition bu_init : bu_state := mkBU [] NoCur.

Definition bu_out (e : option (list Z * beacon)) : out :=
  match e with None => OErr ENoBeacon | Some (_, v) => OBeacon v end.

Definition bu_step (s : bu_state) (o : op) : bu_state * out :=
  let db := bu_db s in
  match o, bu_cur s with
  | Put b, NoCur => (mkBU (bk_put db (be64 (b_round b)) b) NoCur, ODone)
  | Del r, NoCur => (mkBU (bk_del db (be64 r)) NoCur, ODone)
  | Put _, Cur _ | Del _, Cur _ => (s, OBad)
  | Get r, _ => (s, match bk_get db (be64 r) with Some v => OBeacon v | None => OErr ENoBeacon end)
  | Last, _ => (s, bu_out (zlast db))
  | Len, _ => (s, OLen (zlen db))
  | COpen, NoCur => (mkBU db (Cur None), ODone)
  | COpen, Cur _ => (s, OBad)
  | CClose, Cur _ => (mkBU db NoCur, ODone)
  | CClose, NoCur => (s, OBad)
  | CFirst, Cur _ => (mkBU db (Cur cur_first), bu_out (znth db 0))
  | CLast, Cur _ => (mkBU db (Cur (cur_last (zlen db))), bu_out (zlast db))
  | CNext, Cur p =>
      let '(p', moved) := cur_next (zlen db) p in
      (mkBU db (Cur p'),
       if moved then match p' with Some i => bu_out (znth db i) | None => OErr ENoBeacon end
       else OErr ENoBeacon)
  | CSeek r, Cur _ =>
      let i := bk_seek db (be64 r) in (mkBU db (Cur (Some i)), bu_out (znth db i))
  | CFirst, NoCur | CLast, NoCur | CNext, NoCur | CSeek _, NoCur => (s, OBad)
  end.

(* ---------- trimmed bolt: value = signature only ---------- *)

Record bt_state := mkBT { bt_db : bucket (V := list Z); bt_cur : cursor }.
Definition bt_init : bt_state := mkBT [] NoCur.

(* trimmedStore.getBeacon(round, canFetchPrevious) *)
Definition bt_get_beacon (rp : bool) (db : bucket) (r : Z) (fetch : bool) : option beacon :=
  match bk_get db (be64 r) with
  | None => None
  | Some sig =>
      if fetch && rp && (0 <? r) then
        match bk_get db (be64 (r - 1)) with
        | None => None
        | Some p => Some (mkB r p sig)
        end
      else Some (mkB r [] sig)
  end.

(* trimmedStore.getCursorBeacon on the (key, value) the bbolt cursor returned *)
Definition bt_cursor_beacon (rp : bool) (db : bucket) (e : option (list Z * list Z)) : out :=
  match e with
  | None => OErr ENoBeacon
  | Some (k, sig) =>
      let r := be64_dec k in
      if rp && (0 <? r) then
        match bt_get_beacon rp db (r - 1) false with
        | None => OErr ENoBeacon
        | Some pb => OBeacon (mkB r (b_sig pb) sig)
        end
      else OBeacon (mkB r [] sig)
  end.

(* trimmedBoltCursor.Seek (after the fix: the label is the round of the key found) *)
Definition bt_seek_beacon (rp : bool) (db : bucket) (e : option (list Z * list Z)) : out :=
  match e with
  | None => OErr ENoBeacon
  | Some (k, v) =>
      let r := be64_dec k in
      if rp && (0 <? r) then
        match bt_get_beacon rp db (r - 1) false with
        | None => OErr ENoBeacon
        | Some pb => OBeacon (mkB r (b_sig pb) v)
        end
      else OBeacon (mkB r [] v)
  end.

Definition bt_step (rp : bool) (s : bt_state) (o : op) : bt_state * out :=
  let db := bt_db s in
  match o, bt_cur s with
  | Put b, NoCur => (mkBT (bk_put db (be64 (b_round b)) (b_sig b)) NoCur, ODone)
  | Del r, NoCur => (mkBT (bk_del db (be64 r)) NoCur, ODone)
  | Put _, Cur _ | Del _, Cur _ => (s, OBad)
  | Get r, _ => (s, match bt_get_beacon rp db r true with Some b => OBeacon b | None => OErr ENoBeacon end)
  | Last, _ => (s, bt_cursor_beacon rp db (zlast db))
  | Len, _ => (s, OLen (zlen db))
  | COpen, NoCur => (mkBT db (Cur None), ODone)
  | COpen, Cur _ => (s, OBad)
  | CClose, Cur _ => (mkBT db NoCur, ODone)
  | CClose, NoCur => (s, OBad)
  | CFirst, Cur _ => (mkBT db (Cur cur_first), bt_cursor_beacon rp db (znth db 0))
  | CLast, Cur _ => (mkBT db (Cur (cur_last (zlen db))), bt_cursor_beacon rp db (zlast db))
  | CNext, Cur p =>
      let '(p', moved) := cur_next (zlen db) p in
      (mkBT db (Cur p'),
       if moved then match p' with Some i => bt_cursor_beacon rp db (znth db i) | None => OErr ENoBeacon end
       else OErr ENoBeacon)
  | CSeek r, Cur _ =>
      let i := bk_seek db (be64 r) in (mkBT db (Cur (Some i)), bt_seek_beacon rp db (znth db i))
  | CFirst, NoCur | CLast, NoCur | CNext, NoCur | CSeek _, NoCur => (s, OBad)
  end.

(* ---------- memdb ring: a slice of beacons, cursor = index into the live slice ---------- *)

Record md_state := mkMD { md_store : list beacon; md_cur : option Z }.
Definition md_init : md_state := mkMD [] None.

Fixpoint md_find (s : list beacon) (r : Z) : option beacon :=
  match s with [] => None | x :: s' => if b_round x =? r then Some x else md_find s' r end.

Fixpoint md_index (s : list beacon) (r : Z) : option Z :=
  match s with
  | [] => None
  | x :: s' => if b_round x =? r then Some 0
               else match md_index s' r with Some i => Some (i + 1) | None => None end
  end.

Fixpoint md_remove (s : list beacon) (r : Z) : list beacon :=
  match s with [] => [] | x :: s' => if b_round x =? r then s' else x :: md_remove s' r end.

(* sort.Slice by Round (rounds are pairwise distinct when it is called) *)
Fixpoint ins_sorted (b : beacon) (s : list beacon) : list beacon :=
  match s with
  | [] => [b]
  | x :: s' => if b_round b <? b_round x then b :: x :: s' else x :: ins_sorted b s'
  end.
Definition sort_by_round (s : list beacon) : list beacon := fold_right ins_sorted [] s.

(* deferred: if len > bufferSize then store = store[len-bufferSize:] *)
Definition md_trim {A} (cap : Z) (s : list A) : list A :=
  if zlen s >? cap then skipn (Z.to_nat (zlen s - cap)) s else s.

Definition md_put (cap : Z) (s : list beacon) (b : beacon) : list beacon :=
  md_trim cap
    (match md_find s (b_round b) with
     | Some _ => s
     | None =>
         let should_sort := match zlast s with Some l => b_round b <? b_round l | None => false end in
         let s' := s ++ [b] in
         if should_sort then sort_by_round s' else s'
     end).

Definition md_out (e : option beacon) : out :=
  match e with Some b => OBeacon b | None => OErr ENoBeacon end.

Definition md_step (cap : Z) (s : md_state) (o : op) : md_state * out :=
  let st := md_store s in
  match o, md_cur s with
  | Put b, c => (mkMD (md_put cap st b) c, ODone)
  | Del r, c => (mkMD (md_remove st r) c, ODone)
  | Get r, _ => (s, md_out (md_find st r))
  | Last, _ => (s, md_out (zlast st))
  | Len, _ => (s, OLen (zlen st))
  | COpen, None => (mkMD st (Some 0), ODone)
  | COpen, Some _ => (s, OBad)
  | CClose, Some _ => (mkMD st None, ODone)
  | CClose, None => (s, OBad)
  | CFirst, Some p =>
      if zlen st =? 0 then (s, OErr ENoBeacon) else (mkMD st (Some 0), md_out (znth st 0))
  | CNext, Some p =>
      if zlen st =? 0 then (s, OErr ENoBeacon)
      else let p' := p + 1 in
           (mkMD st (Some p'), if p' >=? zlen st then OErr ENoBeacon else md_out (znth st p'))
  | CSeek r, Some p =>
      match md_index st r with
      | Some i => (mkMD st (Some i), md_out (znth st i))
      | None => (s, OErr ENoBeacon)
      end
  | CLast, Some p =>
      if zlen st =? 0 then (s, OErr ENoBeacon)
      else (mkMD st (Some (zlen st - 1)), md_out (zlast st))
  | CFirst, None | CLast, None | CNext, None | CSeek _, None => (s, OBad)
  end.

(* ---------- specification: one strictly ascending association list ---------- *)

Section SMap.
  Context {V : Type}.
  Definition smap := list (Z * V).

  Fixpoint sm_put (m : smap) (r : Z) (v : V) : smap :=
    match m with
    | [] => [(r, v)]
    | (k, x) :: m' =>
        match r ?= k with
        | Lt => (r, v) :: (k, x) :: m'
        | Eq => (r, v) :: m'
        | Gt => (k, x) :: sm_put m' r v
        end
    end.

  Fixpoint sm_get (m : smap) (r : Z) : option V :=
    match m with [] => None | (k, x) :: m' => if k =? r then Some x else sm_get m' r end.

  Fixpoint sm_del (m : smap) (r : Z) : smap :=
    match m with [] => [] | (k, x) :: m' => if k =? r then m' else (k, x) :: sm_del m' r end.

  (* index of the first key >= r *)
  Fixpoint sm_seek (m : smap) (r : Z) : Z :=
    match m with [] => 0 | (k, _) :: m' => if k <? r then 1 + sm_seek m' r else 0 end.

  (* index of key r *)
  Fixpoint sm_index (m : smap) (r : Z) : option Z :=
    match m with
    | [] => None
    | (k, _) :: m' => if k =? r then Some 0
                      else match sm_index m' r with Some i => Some (i + 1) | None => None end
    end.

  Definition sm_put_keep (m : smap) (r : Z) (v : V) : smap :=
    match sm_get m r with Some _ => m | None => sm_put m r v end.

  (* keep the newest (largest) cap rounds *)
  Definition sm_trim (cap : Z) (m : smap) : smap := md_trim cap m.

  Definition keys (m : smap) : list Z := map fst m.
End SMap.

(* bolt flavour; [val_of] says what is stored of a beacon, [view m e] what a read of entry e
   returns *)
Section SpecBolt.
  Context {V : Type}.
  Variable val_of : beacon -> V.
  Variable view : smap (V := V) -> Z * V -> out.

  Record sb_state := mkSB { sb_map : smap (V := V); sb_cur : cursor }.
  Definition sb_init : sb_state := mkSB [] NoCur.

  Definition sb_out (m : smap) (e : option (Z * V)) : out :=
    match e with None => OErr ENoBeacon | Some kv => view m kv end.

  Definition sb_step (s : sb_state) (o : op) : sb_state * out :=
    let m := sb_map s in
    match o, sb_cur s with
    | Put b, NoCur => (mkSB (sm_put m (b_round b) (val_of b)) NoCur, ODone)
    | Del r, NoCur => (mkSB (sm_del m r) NoCur, ODone)
    | Put _, Cur _ | Del _, Cur _ => (s, OBad)
    | Get r, _ => (s, match sm_get m r with Some v => view m (r, v) | None => OErr ENoBeacon end)
    | Last, _ => (s, sb_out m (zlast m))
    | Len, _ => (s, OLen (zlen m))
    | COpen, NoCur => (mkSB m (Cur None), ODone)
    | COpen, Cur _ => (s, OBad)
    | CClose, Cur _ => (mkSB m NoCur, ODone)
    | CClose, NoCur => (s, OBad)
    | CFirst, Cur _ => (mkSB m (Cur cur_first), sb_out m (znth m 0))
    | CLast, Cur _ => (mkSB m (Cur (cur_last (zlen m))), sb_out m (zlast m))
    | CNext, Cur p =>
        let '(p', moved) := cur_next (zlen m) p in
        (mkSB m (Cur p'),
         if moved then match p' with Some i => sb_out m (znth m i) | None => OErr ENoBeacon end
         else OErr ENoBeacon)
    | CSeek r, Cur _ => let i := sm_seek m r in (mkSB m (Cur (Some i)), sb_out m (znth m i))
    | CFirst, NoCur | CLast, NoCur | CNext, NoCur | CSeek _, NoCur => (s, OBad)
    end.
End SpecBolt.

Definition viewU (_ : smap (V := beacon)) (e : Z * beacon) : out := OBeacon (snd e).

(* reading entry (r, sig) of a signature-only map: previous signature = the stored signature
   of round r-1, or the read fails *)
Definition viewT (rp : bool) (m : smap (V := list Z)) (e : Z * list Z) : out :=
  let '(r, sig) := e in
  if rp && (0 <? r) then
    match sm_get m (r - 1) with
    | Some p => OBeacon (mkB r p sig)
    | None => OErr ENoBeacon
    end
  else OBeacon (mkB r [] sig).

Definition specU_step := sb_step (fun b => b) viewU.
Definition specT_step (rp : bool) := sb_step b_sig (viewT rp).

(* ring flavour *)
Record sr_state := mkSR { sr_map : smap (V := beacon); sr_cur : option Z }.
Definition sr_init : sr_state := mkSR [] None.

Definition sr_out (e : option (Z * beacon)) : out :=
  match e with Some (_, b) => OBeacon b | None => OErr ENoBeacon end.

Definition sr_step (cap : Z) (s : sr_state) (o : op) : sr_state * out :=
  let m := sr_map s in
  match o, sr_cur s with
  | Put b, c => (mkSR (sm_trim cap (sm_put_keep m (b_round b) b)) c, ODone)
  | Del r, c => (mkSR (sm_del m r) c, ODone)
  | Get r, _ => (s, match sm_get m r with Some b => OBeacon b | None => OErr ENoBeacon end)
  | Last, _ => (s, sr_out (zlast m))
  | Len, _ => (s, OLen (zlen m))
  | COpen, None => (mkSR m (Some 0), ODone)
  | COpen, Some _ => (s, OBad)
  | CClose, Some _ => (mkSR m None, ODone)
  | CClose, None => (s, OBad)
  | CFirst, Some p =>
      if zlen m =? 0 then (s, OErr ENoBeacon) else (mkSR m (Some 0), sr_out (znth m 0))
  | CNext, Some p =>
      if zlen m =? 0 then (s, OErr ENoBeacon)
      else let p' := p + 1 in
           (mkSR m (Some p'), if p' >=? zlen m then OErr ENoBeacon else sr_out (znth m p'))
  | CSeek r, Some p =>
      match sm_index m r with
      | Some i => (mkSR m (Some i), sr_out (znth m i))
      | None => (s, OErr ENoBeacon)
      end
  | CLast, Some p =>
      if zlen m =? 0 then (s, OErr ENoBeacon)
      else (mkSR m (Some (zlen m - 1)), sr_out (zlast m))
  | CFirst, None | CLast, None | CNext, None | CSeek _, None => (s, OBad)
  end.

(* ---------- running a machine ---------- *)

Section Run.
  Context {S : Type}.
  Variable step : S -> op -> S * out.
  Fixpoint exec (s : S) (ops : list op) : S :=
    match ops with [] => s | o :: ops' => exec (fst (step s o)) ops' end.
  Fixpoint run (s : S) (ops : list op) : list out :=
    match ops with [] => [] | o :: ops' => snd (step s o) :: run (fst (step s o)) ops' end.
  (* what the operations [suf] / the operation [o] return after the history [pre] *)
  Definition outs_from (init : S) (pre suf : list op) : list out := run (exec init pre) suf.
  Definition out_after (init : S) (pre : list op) (o : op) : out := snd (step (exec init pre) o).
End Run.

Definition op_wf (o : op) : Prop :=
  match o with
  | Put b => in_range (b_round b)
  | Get r | Del r | CSeek r => in_range r
  | _ => True
  end.

Definition op_wfb (o : op) : bool :=
  match o with
  | Put b => in_rangeb (b_round b)
  | Get r | Del r | CSeek r => in_rangeb r
  | _ => true
  end.

(* ---------- what a history says a round holds (bolt flavour: last put wins) ---------- *)

Definition hist_step {V} (val_of : beacon -> V) (h : Z -> option V) (o : op) : Z -> option V :=
  match o with
  | Put b => fun r => if r =? b_round b then Some (val_of b) else h r
  | Del r0 => fun r => if r =? r0 then None else h r
  | _ => h
  end.
Definition hist {V} (val_of : beacon -> V) (ops : list op) : Z -> option V :=
  fold_left (hist_step val_of) ops (fun _ => None).

Definition wf (ops : list op) : Prop := Forall op_wf ops.
