(* Closed vocabulary in which the translator (harness/extract/hashorder.go) describes what the
   Hash methods of chain.Info, key.Group, key.Node and key.DistPublic write into their hasher.
   Definitions only. *)
From Coq Require Import ZArith List String.
Import ListNotations.

Inductive endian := BE | LE.
Inductive hashfn := SHA256 | BLAKE2b256.
(* CRaw: the integer field itself (fixed-width two's complement of the given width);
   CSecs: a time.Duration field converted by uintNN(d.Seconds()) *)
Inductive iconv := CRaw | CSecs.
Inductive hguard :=
| GNotDefaultID (f : string)      (* if !common.IsDefaultBeaconID(x.f) *)
| GNonZero (f : string)           (* if x.f != 0 *)
| GNotNil (f : string).           (* if x.f != nil *)
Inductive hsort := Listing | SortedAsc (key : string).
Inductive hitem :=
| WInt (e : endian) (width : Z) (c : iconv) (f : string)  (* binary.Write(h, e, conv(x.f)) *)
| WBytes (f : string)                                     (* h.Write(x.f), x.f a []byte *)
| WString (f : string)                                    (* h.Write([]byte(x.f)) *)
| WPoint (f : string)                                     (* the point's MarshalBinary bytes *)
| WEachPoint (f : string)                                 (* for each point of x.f: its bytes *)
| WEachHash (s : hsort) (f : string) (callee : string)    (* for each element (after sorting): h.Write(e.Hash()) *)
| WSubHash (f : string) (callee : string)                 (* h.Write(x.f.Hash()) *)
| WIf (g : hguard) (it : hitem).
Record hashspec := { hs_fn : hashfn; hs_items : list hitem }.
