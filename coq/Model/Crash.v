(* Model for C13 (a crash at any point leaves a restartable, self-consistent node).
   Executable definitions only (no proofs here).

   Durable state = (chain db, dkg db {current, finished}, group file, share file).
   A run = the list of persistence operations in the order the code issues them. Each operation
   is crash-atomic: a bbolt Update is one atomic durable write (assumed of bbolt); a file Save
   (common/key/store.go: Save) writes the TOML text into a temporary file next to the target
   (create, write - with a torn middle state -, Sync, Close) and then renames it over the target:
   the target itself goes from its previous content to the complete new text in one step. (Until
   the fix of finding F8-iii, Save truncated the target in place and then wrote it: that variant
   is kept, selected by [sh_save_in_place], for the regression examples. In the code it survives as
   saveInPlace, reachable only for a target that exists and is not a regular file - a symlink, a
   device, a pipe given to the CLI's --out - which the files of the node folder never are.)
   [crash cp run] = the durable state when the process dies at crash point cp;
   [recover] = what the loaders read at restart (key.fileStore.LoadGroup/LoadShare,
   dkg.BoltStore.GetFinished/GetCurrent, boltdb cursor scan / Last, and the decision procedure of
   DrandDaemon.LoadBeaconFromStore + BeaconProcess.Load).

   The order of the persistence calls inside the anchored functions is read from the Go source by
   the translator (Gen/CrashShape.v, a value of type [shape]); [expand] builds runs from it. *)
From Coq Require Import ZArith List Bool.
Import ListNotations.
Open Scope Z_scope.

(* ---------------- data ---------------- *)

Record beacon := mkB { b_round : Z; b_sig : Z; b_prev : Z }.

Inductive dbucket := BCurrent | BFinished.      (* buckets "dkg" and "dkg_finished" of dkg.db *)

(* a DKG state record (DBState): its epoch, status (dkg.Status numbering) and the epochs the
   embedded FinalGroup / KeyShare belong to (0 = none) *)
Record drec := mkD { d_epoch : Z; d_status : Z; d_group : Z; d_share : Z }.
Definition st_complete : Z := 7.
Definition st_left : Z := 10.
Definition complete_rec (r : drec) : bool :=
  (d_status r =? st_complete) && (d_group r =? d_epoch r) && (d_share r =? d_epoch r) && (1 <=? d_epoch r).

Inductive kfile := KGroup | KShare.             (* drand_group.toml, dist_key.private *)
(* content of a key-store file: absent, empty (created/truncated, nothing written yet), a strict
   prefix of the TOML text of epoch e's object, or the complete text *)
Inductive fcontent := FAbsent | FEmpty | FTorn (e : Z) | FFull (e : Z).

Inductive pop :=
| PBeaconTx (b : beacon)                       (* boltdb Put: one Update, one bucket.Put *)
| PDkgTx (puts : list (dbucket * drec))        (* one Update on dkg.db *)
| PFileCreate (f : kfile)                      (* os.Create: create or truncate *)
| PFileWrite (f : kfile) (e : Z)               (* the encoder writes epoch e's object *)
| PFileRemove (f : kfile)                      (* os.RemoveAll *)
| PTmpCreate (f : kfile)                       (* create/truncate the temporary file next to f *)
| PTmpWrite (f : kfile) (e : Z)                (* the encoder writes epoch e's object into it, Sync, Close *)
| PFileRename (f : kfile) (e : Z).             (* os.Rename(temp, f): f atomically becomes the complete text *)

Record dstate := mkS {
  chain : list beacon;                         (* bucket "beacons", in key (round) order *)
  cur : option drec;
  fin : option drec;
  gfile : fcontent;
  sfile : fcontent
}.

Definition genesis : beacon := mkB 0 0 0.
Definition empty_state : dstate := mkS [] None None FAbsent FAbsent.

(* ---------------- applying operations ---------------- *)

(* bolt Put by key: insert in round order, overwrite an equal round *)
Fixpoint chain_put (b : beacon) (c : list beacon) : list beacon :=
  match c with
  | [] => [b]
  | x :: c' =>
      if b_round b <? b_round x then b :: x :: c'
      else if b_round b =? b_round x then b :: c'
      else x :: chain_put b c'
  end.

Definition set_file (f : kfile) (c : fcontent) (s : dstate) : dstate :=
  match f with
  | KGroup => mkS (chain s) (cur s) (fin s) c (sfile s)
  | KShare => mkS (chain s) (cur s) (fin s) (gfile s) c
  end.

Definition dkg_put (s : dstate) (p : dbucket * drec) : dstate :=
  match fst p with
  | BCurrent => mkS (chain s) (Some (snd p)) (fin s) (gfile s) (sfile s)
  | BFinished => mkS (chain s) (cur s) (Some (snd p)) (gfile s) (sfile s)
  end.

Definition apply_op (s : dstate) (o : pop) : dstate :=
  match o with
  | PBeaconTx b => mkS (chain_put b (chain s)) (cur s) (fin s) (gfile s) (sfile s)
  | PDkgTx puts => fold_left dkg_put puts s
  | PFileCreate f => set_file f FEmpty s
  | PFileWrite f e => set_file f (FFull e) s
  | PFileRemove f => set_file f FAbsent s
  (* the temporary file is never read by any loader: whatever it holds (nothing, a prefix, the
     whole text) is not part of the state a restart sees *)
  | PTmpCreate _ => s
  | PTmpWrite _ _ => s
  | PFileRename f e => set_file f (FFull e) s
  end.

Definition apply_ops (s : dstate) (ops : list pop) : dstate := fold_left apply_op ops s.

(* crash points: after the first k operations (= before operation k+1), or in the middle of
   operation number k (0-based) when that operation is a file write *)
Inductive crashpt := CAfter (k : nat) | CTorn (k : nat).

Definition crash (cp : crashpt) (run : list pop) (s0 : dstate) : dstate :=
  match cp with
  | CAfter k => apply_ops s0 (firstn k run)
  | CTorn k =>
      let s := apply_ops s0 (firstn k run) in
      match nth_error run k with
      | Some (PFileWrite f e) => set_file f (FTorn e) s
      | _ => s
      end
  end.

(* ---------------- recovery ---------------- *)

(* key.Load on a file: only a complete text decodes to the object that was written. An absent
   file, an empty file ("group file has threshold 0" / empty scalar) and a text cut inside a token
   give an error. (Other prefixes of the text are not determined by this model: the engine sweeps
   them on the real decoder and reports what it finds.) *)
Inductive fload := LErr | LOk (e : Z).
Definition load_file (c : fcontent) : fload :=
  match c with FFull e => LOk e | _ => LErr end.

(* outcome of DrandDaemon.LoadBeaconFromStore + BeaconProcess.Load for one beacon id *)
Inductive restart :=
| RFresh                    (* no DKG record, no group file: waits for a DKG *)
| RRunning (ge se : Z)      (* beacon started with the group of epoch ge and the share of epoch se *)
| RFailNoGroup              (* DKG record present, group file missing/unreadable: ErrDKGNotStarted *)
| RFailShare                (* group loaded, share file missing/unreadable *)
| RFailFreshDecode.         (* no DKG record, group file present but unreadable *)

Definition node_restart (s : dstate) : restart :=
  match fin s with
  | None =>
      match gfile s with
      | FAbsent => RFresh                       (* fs.ErrNotExist is ignored on the fresh path *)
      | FFull ge =>                             (* v1 migration path: LoadShare, Migrate, Load *)
          match load_file (sfile s) with LOk se => RRunning ge se | LErr => RFailShare end
      | _ => RFailFreshDecode
      end
  | Some _ =>
      match load_file (gfile s) with
      | LErr => RFailNoGroup
      | LOk ge => match load_file (sfile s) with LOk se => RRunning ge se | LErr => RFailShare end
      end
  end.

(* newAppendStore reads Last *)
Definition chain_last (c : list beacon) : option beacon :=
  match rev c with [] => None | x :: _ => Some x end.

Record recovered := mkR {
  r_rounds : list Z;
  r_fin : option drec;
  r_cur : option drec;
  r_group : fload;
  r_share : fload;
  r_restart : restart
}.

Definition recover (s : dstate) : recovered :=
  mkR (map b_round (chain s)) (fin s) (cur s) (load_file (gfile s)) (load_file (sfile s)) (node_restart s).

(* ---------------- the chain store behind appendStore ---------------- *)

(* appendStore.Put (beacon/store.go): only round last+1 reaches the database; [chained] adds
   schemeStore's previous-signature check *)
Definition accepts (chained : bool) (last b : beacon) : bool :=
  (b_round b =? b_round last + 1) && (negb chained || (b_prev b =? b_sig last)).

(* one process lifetime: last is read from the database at start, then a list of attempted Puts;
   returns the persistence operations issued (one transaction per accepted beacon) *)
Fixpoint attempt_ops (chained : bool) (last : beacon) (bs : list beacon) : list pop :=
  match bs with
  | [] => []
  | b :: bs' =>
      if accepts chained last b then PBeaconTx b :: attempt_ops chained b bs'
      else attempt_ops chained last bs'
  end.

Definition lifetime_ops (chained : bool) (c : list beacon) (bs : list beacon) : list pop :=
  match chain_last c with
  | Some last => attempt_ops chained last bs
  | None => []          (* NewHandler stores the genesis beacon before anything else *)
  end.

(* rounds 0,1,2,... without a hole *)
Fixpoint gapfree_from (r : Z) (c : list beacon) : bool :=
  match c with
  | [] => true
  | x :: c' => (b_round x =? r) && gapfree_from (r + 1) c'
  end.
Definition gapfree (c : list beacon) : bool :=
  match c with [] => false | _ => gapfree_from 0 c end.

Fixpoint linked (c : list beacon) : bool :=
  match c with
  | x :: ((y :: _) as c') => (b_prev y =? b_sig x) && linked c'
  | _ => true
  end.

(* several lifetimes, each cut short by a crash after [k] operations *)
Fixpoint lifetimes (chained : bool) (s : dstate) (ls : list (list beacon * nat)) : dstate :=
  match ls with
  | [] => s
  | (bs, k) :: ls' => lifetimes chained (crash (CAfter k) (lifetime_ops chained (chain s) bs) s) ls'
  end.

(* ---------------- shapes read from the source, histories ---------------- *)

(* a call on the key store inside storeDKGOutput: a Save of one file, or Reset (removes both) *)
Inductive kcall := KSave (f : kfile) | KReset.

Record shape := mkShape {
  sh_save_current : list (list dbucket);    (* BoltStore.SaveCurrent: transactions, puts in each *)
  sh_save_finished : list (list dbucket);   (* BoltStore.SaveFinished *)
  sh_store_output : list kcall;             (* BeaconProcess.storeDKGOutput: its key-store calls, in order *)
  sh_reset : list kfile;                    (* fileStore.Reset: order of the Delete calls *)
  sh_finish_db_first : bool;                (* executeAndFinishDKG: SaveFinished precedes the hand-over *)
  sh_chain_put : list (list Z);             (* boltdb Put: transactions, number of bucket.Put in each *)
  sh_save_in_place : bool;                  (* key.Save: true = create/truncate the target itself, then write;
                                               false = write a temporary file completely, then rename it over the target *)
  sh_cb_write_first : bool                  (* callbackStore.Put: the underlying Put (error => return) precedes the dispatch *)
}.

Definition expected_shape : shape :=
  mkShape [[BCurrent]] [[BFinished; BCurrent]] [KSave KGroup; KSave KShare] [KGroup; KShare] true [[1]] false true.

(* the shape of the code before the fixes of key.Save (in place) and fileStore.Reset (share first) *)
Definition pre_fix_shape : shape :=
  mkShape [[BCurrent]] [[BFinished; BCurrent]] [KSave KGroup; KSave KShare] [KShare; KGroup] true [[1]] true true.

Definition shape_eqb_bucket (a b : dbucket) : bool :=
  match a, b with BCurrent, BCurrent | BFinished, BFinished => true | _, _ => false end.
Definition kfile_eqb (a b : kfile) : bool :=
  match a, b with KGroup, KGroup | KShare, KShare => true | _, _ => false end.

(* what a node's DKG layer and beacon process persist, event by event *)
Inductive event :=
| EvStage (r : drec)          (* SaveCurrent of a staged state (proposal, accept, executing, left...) *)
| EvComplete (r : drec)       (* executeAndFinishDKG: SaveFinished, then storeDKGOutput *)
| EvLeave.                    (* leaveNetwork: key store Reset *)

Definition dkg_txs (txs : list (list dbucket)) (r : drec) : list pop :=
  map (fun tx => PDkgTx (map (fun b => (b, r)) tx)) txs.

Definition save_file (in_place : bool) (f : kfile) (e : Z) : list pop :=
  if in_place then [PFileCreate f; PFileWrite f e]
  else [PTmpCreate f; PTmpWrite f e; PFileRename f e].

Definition expand (sh : shape) (ev : event) : list pop :=
  match ev with
  | EvStage r => dkg_txs (sh_save_current sh) r
  | EvComplete r =>
      let files := flat_map (fun c => match c with
                                      | KSave f => save_file (sh_save_in_place sh) f (d_epoch r)
                                      | KReset => map PFileRemove (sh_reset sh)
                                      end) (sh_store_output sh) in
      if sh_finish_db_first sh then dkg_txs (sh_save_finished sh) r ++ files
      else files ++ dkg_txs (sh_save_finished sh) r
  | EvLeave => map PFileRemove (sh_reset sh)
  end.

Definition expand_all (sh : shape) (evs : list event) : list pop := flat_map (expand sh) evs.

(* well-formed history of one node: completed epochs are 1, 2, 3, ... each a whole record; staged
   records carry the group/share of the last completed epoch and belong to the next epoch; a node
   resets its key store only after it recorded that it left, and persists nothing afterwards.
   [e] = last completed epoch (0 = none), [lf] = the staged state says Left *)
Fixpoint wf_hist (e : Z) (lf : bool) (evs : list event) : bool :=
  match evs with
  | [] => true
  | EvStage r :: evs' =>
      (d_epoch r =? e + 1) && negb (d_status r =? st_complete) && (d_group r =? e) && (d_share r =? e)
      && wf_hist e (d_status r =? st_left) evs'
  | EvComplete r :: evs' => negb lf && complete_rec r && (d_epoch r =? e + 1) && wf_hist (e + 1) false evs'
  | EvLeave :: evs' => (1 <=? e) && lf && match evs' with [] => true | _ => false end
  end.

(* ---------------- the property's predicate on a recovered state ---------------- *)

Definition is_left (s : dstate) : bool :=
  match cur s with Some r => d_status r =? st_left | None => false end.

(* group file and share belong to one and the same epoch, namely the latest epoch the database
   records as completed, and the node restarts without repair. A node with no completed DKG has no
   files; a node that recorded that it left has no group file (and then nothing else is loaded). *)
Definition files_consistent (s : dstate) : bool :=
  match fin s with
  | None =>
      match gfile s, sfile s, node_restart s with
      | FAbsent, FAbsent, RFresh => true
      | _, _, _ => false
      end
  | Some r =>
      match gfile s, sfile s with
      | FFull ge, FFull se =>
          (ge =? d_epoch r) && (se =? d_epoch r) &&
          match node_restart s with RRunning _ _ => true | _ => false end
      (* no group file: the node left (Reset removes the group first); a share file that outlived
         a crash inside Reset is inert, nothing loads it without the group *)
      | FAbsent, _ => is_left s
      | _, _ => false
      end
  end.

(* the three (plus one) crash classes of the refutation, as recognisers on a state *)
Definition class_db_ahead (s : dstate) : bool :=          (* (i) *)
  match fin s, gfile s, sfile s with
  | Some r, FFull ge, FFull se => (ge =? se) && (ge <? d_epoch r)
  | Some r, FAbsent, FAbsent => negb (is_left s)
  | _, _, _ => false
  end.
Definition class_epoch_mismatch (s : dstate) : bool :=    (* (ii) *)
  match gfile s, sfile s with
  | FFull ge, FFull se => negb (ge =? se)
  | FFull _, FAbsent => negb (is_left s)     (* first DKG: the group is there, the share not yet *)
  | _, _ => false
  end.
Definition class_torn (s : dstate) : bool :=              (* (iii) *)
  match gfile s, sfile s with
  | FEmpty, _ | FTorn _, _ | _, FEmpty | _, FTorn _ => true
  | _, _ => false
  end.
Definition class_half_reset (s : dstate) : bool :=        (* leaving: share removed, group still there *)
  match gfile s, sfile s with
  | FFull _, FAbsent => is_left s
  | _, _ => false
  end.

(* the files of a completed epoch were removed (not merely being rewritten) although the node did
   not leave: nothing of the previous epoch is left to restart from *)
Definition file_absent (c : fcontent) : bool := match c with FAbsent => true | _ => false end.
Definition class_prev_destroyed (s : dstate) : bool :=
  match fin s with
  | Some r => (2 <=? d_epoch r) && negb (is_left s) && (file_absent (gfile s) || file_absent (sfile s))
  | None => false
  end.

(* storeDKGOutput issues no destructive key-store call (Reset) at all *)
Definition store_output_non_destructive (sh : shape) : bool :=
  forallb (fun c => match c with KReset => false | KSave _ => true end) (sh_store_output sh).

(* positions of the event boundaries in an expanded run *)
Fixpoint boundaries (sh : shape) (evs : list event) (off : nat) : list nat :=
  match evs with
  | [] => [off]
  | ev :: evs' => off :: boundaries sh evs' (off + length (expand sh ev))
  end.

(* ---------------- serving: the callback store on top of the append store ---------------- *)

(* callbackStore.Put (beacon/store.go) hands every stored beacon (round <> 0) to the callback
   workers: PublicRandStream clients, peers syncing through SyncChain, the node's own hooks. What
   a callback received has left the node. Two kinds of events are visible from outside: the
   committed write of a beacon and the hand-over of a beacon to the callbacks. [write_first] is the
   order read from the source: underlying Put (an error returns at once), then the dispatch. *)
Inductive cbev := CWrite (b : beacon) | CServe (b : beacon).

Definition cb_put_events (write_first accepted : bool) (b : beacon) : list cbev :=
  let serve := if b_round b =? 0 then [] else [CServe b] in
  if write_first then (if accepted then CWrite b :: serve else [])
  else serve ++ (if accepted then [CWrite b] else []).

(* one lifetime of callbackStore(appendStore(schemeStore(bolt))): the Puts offered, in order *)
Fixpoint cb_attempts (write_first chained : bool) (last : beacon) (bs : list beacon) : list cbev :=
  match bs with
  | [] => []
  | b :: bs' =>
      if accepts chained last b
      then cb_put_events write_first true b ++ cb_attempts write_first chained b bs'
      else cb_put_events write_first false b ++ cb_attempts write_first chained last bs'
  end.

Definition written (evs : list cbev) : list beacon :=
  flat_map (fun e => match e with CWrite b => [b] | CServe _ => [] end) evs.
Definition served (evs : list cbev) : list beacon :=
  flat_map (fun e => match e with CServe b => [b] | CWrite _ => [] end) evs.

Definition beacon_eqb (a b : beacon) : bool :=
  (b_round a =? b_round b) && (b_sig a =? b_sig b) && (b_prev a =? b_prev b).

(* the property's clause, as a predicate on the events that happened before the crash: every
   beacon handed to a callback is in the chain database a restart finds *)
Definition served_persisted (c0 : list beacon) (evs : list cbev) : bool :=
  forallb (fun b => existsb (beacon_eqb b) (c0 ++ written evs)) (served evs).
