(* Model of the hand-maintained value <-> mirror conversions of drand (C20): TOML structs,
   protobuf packets and JSON structs of groups, identities, nodes, key pairs, shares,
   distributed keys, chain infos, DKG database records and beacons. The conversions themselves
   are NOT written here: they are the generated table Gen/Mirrors.v (read from the Go sources on
   every run); this file gives the table a semantics. Definitions only.

   Values: integers (also durations in ns, instants in ns since the epoch, enums), byte strings
   (also Go strings; points and scalars are their MarshalBinary encodings, schemes their names),
   lists, records keyed by leaf path, nil, and [VUnset] for a field that is not written / a value
   that does not derive from the source (hashes, caller-supplied arguments). *)
From Coq Require Import String ZArith List Bool.
From DV Require Import Model.ByteEnc Model.HashVocab Gen.HashOrder Model.Hashes Model.CodecVocab.
Import ListNotations.
Open Scope Z_scope.
Open Scope list_scope.

Inductive val :=
| VInt (z : Z)
| VBytes (b : bytes)
| VList (l : list val)
| VRec (r : list (path * val))
| VNil
| VUnset.
Definition record := list (path * val).

Fixpoint path_eqb (a b : path) : bool :=
  match a, b with
  | [], [] => true
  | x :: a', y :: b' => String.eqb x y && path_eqb a' b'
  | _, _ => false
  end.

Fixpoint get (p : path) (r : record) : option val :=
  match r with
  | [] => None
  | (q, v) :: r' => if path_eqb q p then Some v else get p r'
  end.

Fixpoint mapM {A B} (f : A -> option B) (l : list A) : option (list B) :=
  match l with
  | [] => Some []
  | x :: l' => match f x, mapM f l' with Some y, Some ys => Some (y :: ys) | _, _ => None end
  end.

Definition mem_bytes (b : bytes) (l : list bytes) : bool := existsb (bytes_eqb b) l.

Definition wrap_u (bits z : Z) : Z := z mod 2 ^ bits.
Definition wrap_s (bits z : Z) : Z :=
  let m := z mod 2 ^ bits in if m <? 2 ^ (bits - 1) then m else m - 2 ^ bits.

Definition is_empty_val (v : val) : bool :=
  match v with VNil => true | VBytes [] => true | VList [] => true | _ => false end.

Definition vmap (f : val -> option val) (v : val) : option val :=
  match v with
  | VList l => option_map VList (mapM f l)
  | VNil => Some (VList [])
  | _ => None
  end.

Section Sem.
  (* time.Duration.String / time.ParseDuration (library functions; see Proofs/CodecProofs.v for
     the law assumed of them) *)
  Variable dur_str : Z -> bytes.
  Variable parse_dur : bytes -> option Z.
  (* conversion by another mirror of the table *)
  Variable nested : string -> record -> option record.

  Definition hexv (v : val) : option val :=
    match v with VBytes b => Some (VBytes (hex_encode b)) | _ => None end.
  Definition unhexv (v : val) : option val :=
    match v with VBytes s => option_map VBytes (hex_decode s) | _ => None end.
  Definition bytesv (v : val) : option val :=
    match v with VBytes b => Some (VBytes b) | _ => None end.
  Definition scheme_by_id (allow_empty : bool) (v : val) : option val :=
    match v with
    | VBytes [] => if allow_empty then Some (VBytes default_scheme_id) else None
    | VBytes n => if mem_bytes n scheme_names then Some (VBytes n) else None
    | _ => None
    end.
  Definition nestv (m : string) (v : val) : option val :=
    match v with VRec r => option_map VRec (nested m r) | _ => None end.

  Definition sem (p : prim) (v : val) : option val :=
    match p with
    | Copy | UTC | IfNonZero | IfNonEmpty | IfNotNil => Some v
    | Hex => match v with VNil => Some (VBytes []) | _ => hexv v end
    | UnHex => match v with VNil => Some VNil | _ => unhexv v end   (* an absent JSON member stays nil *)
    | PointStr | ScalarStr => hexv v
    | StrPoint | StrScalar => unhexv v
    | PointBytes | BytesPoint => bytesv v
    | MapPointStr => vmap hexv v
    | MapStrPoint => vmap unhexv v
    | MapPointBytes | MapBytesPoint => vmap bytesv v
    | DurStr => match v with VInt d => Some (VBytes (dur_str d)) | _ => None end
    | ParseDur => match v with VBytes s => option_map VInt (parse_dur s) | _ => None end
    | ParseDurOrZero =>
        match v with VBytes [] => Some (VInt 0) | VBytes s => option_map VInt (parse_dur s) | _ => None end
    | Secs32 => match v with VInt d => Some (VInt (wrap_u 32 (d / ns_per_s))) | _ => None end
    | Secs64 => match v with VInt d => Some (VInt (wrap_u 64 (d / ns_per_s))) | _ => None end
    | OfSecs => match v with VInt k => Some (VInt (k * ns_per_s)) | _ => None end
    | Canon => match v with VBytes id => Some (VBytes (canon_id id)) | _ => None end
    | SeedOrHash => match v with VNil => Some VUnset | _ => Some v end
    | SchemeName => bytesv v
    | SchemeByID => scheme_by_id true v
    | SchemeFromName => scheme_by_id false v
    | CastU32 => match v with VInt z => Some (VInt (wrap_u 32 z)) | _ => None end
    | CastU64 => match v with VInt z => Some (VInt (wrap_u 64 z)) | _ => None end
    | CastI64 | CastInt => match v with VInt z => Some (VInt (wrap_s 64 z)) | _ => None end
    | Field f => match v with VRec r => get [f] r | _ => None end
    | OptField f => match v with VRec r => get [f] r | VNil => Some VNil | _ => None end
    | WrapField f => Some (VRec [([f], v)])
    | WrapIfNonEmpty f => if is_empty_val v then Some VNil else Some (VRec [([f], v)])
    | Nested m => nestv m v
    | OptNested m => match v with VNil => Some VNil | _ => nestv m v end
    | MapNested m => vmap (nestv m) v
    | HashOf | HashStringOf | External _ => Some VUnset
    | Unknown _ => None
    end.

  (* guards short-circuit: the assignment is skipped and the destination keeps its zero value *)
  Definition sem_step (p : prim) (k : val -> option val) (v : val) : option val :=
    match v with
    | VUnset => Some VUnset            (* not modelled stays not modelled *)
    | _ =>
      match p with
      | IfNonEmpty => if is_empty_val v then Some VNil else k v
      | IfNotNil => match v with VNil => Some VNil | _ => k v end
      | _ => match sem p v with Some w => k w | None => None end
      end
    end.
  Fixpoint sem_seq (ops : list prim) (v : val) : option val :=
    match ops with
    | [] => Some v
    | p :: rest => sem_step p (sem_seq rest) v
    end.

  Definition find_entry (es : mirror) (leaf : path) : option entry :=
    find (fun e => path_eqb (e_dst e) leaf) es.

  Definition apply_leaf (es : mirror) (r : record) (leaf : path) : option (path * val) :=
    match find_entry es leaf with
    | None => Some (leaf, VUnset)
    | Some e =>
        match (match e_src e with [] => Some VUnset | s => get s r end) with
        | Some v => option_map (pair leaf) (sem_seq (e_ops e) v)
        | None => None
        end
    end.

  (* the destination value: one entry per destination leaf, in leaf order *)
  Definition apply (d : mirror_def) (r : record) : option record :=
    mapM (apply_leaf (m_entries d) r) (m_dst_leaves d).
End Sem.

(* denotation of the mirror called [name]; a mirror refers only to mirrors further down the table *)
Fixpoint den (dur_str : Z -> bytes) (parse_dur : bytes -> option Z) (tbl : list mirror_def)
    (name : string) (r : record) : option record :=
  match tbl with
  | [] => None
  | d :: rest =>
      if String.eqb (m_name d) name then apply dur_str parse_dur (den dur_str parse_dur rest) d r
      else den dur_str parse_dur rest name r
  end.

Fixpoint lookup (tbl : list mirror_def) (name : string) : option mirror_def :=
  match tbl with
  | [] => None
  | d :: rest => if String.eqb (m_name d) name then Some d else lookup rest name
  end.

(* ---- decode-side checks ---- *)
Definition vlen (v : val) : Z :=
  match v with VList l => Z.of_nat (length l) | VBytes b => Z.of_nat (length b) | _ => 0 end.
(* dkg.MinimumT / key.MinimumT: (n >> 1) + 1 *)
Definition minimum_t (n : Z) : Z := n / 2 + 1.

Fixpoint eval_cexpr (hs : bytes) (r : record) (e : cexpr) : option val :=
  match e with
  | CField p => get p r
  | CLen p => option_map (fun v => VInt (vlen v)) (get p r)
  | CMinT e' => match eval_cexpr hs r e' with Some (VInt n) => Some (VInt (minimum_t n)) | _ => None end
  | CConst z => Some (VInt z)
  | CHashString => Some (VBytes hs)
  | CUnknown _ => None
  end.

Definition rel_holds (rl : crel) (a b : val) : bool :=
  match rl, a, b with
  | RLt, VInt x, VInt y => x <? y
  | RGt, VInt x, VInt y => x >? y
  | REq, VInt x, VInt y => x =? y
  | RNe, VInt x, VInt y => negb (x =? y)
  | REq, VBytes x, VBytes y => bytes_eqb x y
  | RNe, VBytes x, VBytes y => negb (bytes_eqb x y)
  | _, _, _ => false
  end.

Fixpoint path_prefix (p q : path) : bool :=
  match p, q with
  | [], _ => true
  | x :: p', y :: q' => String.eqb x y && path_prefix p' q'
  | _, _ => false
  end.

Fixpoint cond_holds (r : record) (c : ccond) : bool :=
  match c with
  | CNonEmpty p => match get p r with Some v => negb (is_empty_val v) | None => false end
  | CEmpty p => match get p r with Some v => is_empty_val v | None => true end
  | CNonNil p => existsb (fun kv => path_prefix p (fst kv) && match snd kv with VNil => false | _ => true end) r
  | CNotC c' => negb (cond_holds r c')
  | CAndC a b => cond_holds r a && cond_holds r b
  | CCondUnknown _ => false
  end.

Section Checks.
  Variable hostport_ok : bytes -> bool.   (* net.SplitHostPort succeeds *)
  Variable hs : bytes.                    (* HashString() of the value being decoded *)

  (* true = the decoder returns an error *)
  Fixpoint chk_rejects (r : record) (c : chk) : bool :=
    match c with
    | ChkRejectIf rl a b =>
        match eval_cexpr hs r a, eval_cexpr hs r b with
        | Some x, Some y => rel_holds rl x y
        | _, _ => false
        end
    | ChkIfNonEmpty p c' =>
        match get p r with Some v => if is_empty_val v then false else chk_rejects r c' | None => false end
    | ChkIfLenPos p c' =>
        match get p r with Some v => if 0 <? vlen v then chk_rejects r c' else false | None => false end
    | ChkIf g c' => if cond_holds r g then chk_rejects r c' else false
    | ChkHostPort p => match get p r with Some (VBytes a) => negb (hostport_ok a) | _ => false end
    | ChkScheme how p =>
        match get p r with
        | Some v => match how with
                    | SchemeByID => match scheme_by_id true v with None => true | _ => false end
                    | SchemeFromName => match scheme_by_id false v with None => true | _ => false end
                    | _ => false
                    end
        | None => false
        end
    | ChkExternal _ => false
    end.

  Definition checks_reject (d : mirror_def) (r : record) : bool := existsb (chk_rejects r) (m_checks d).
End Checks.

(* legacy overrides of a decoder, applied in program order after the plain conversion *)
Fixpoint set_leaf (leaf : path) (v : val) (r : record) : record :=
  match r with
  | [] => []
  | (k, w) :: r' => if path_eqb k leaf then (k, v) :: r' else (k, w) :: set_leaf leaf v r'
  end.
Fixpoint apply_overrides (dur_str : Z -> bytes) (parse_dur : bytes -> option Z)
    (nested : string -> record -> option record) (ovs : list override) (src out : record) : option record :=
  match ovs with
  | [] => Some out
  | o :: rest =>
      if cond_holds src (o_cond o) then
        match get (e_src (o_entry o)) src with
        | Some v =>
            match sem_seq dur_str parse_dur nested (e_ops (o_entry o)) v with
            | Some w => apply_overrides dur_str parse_dur nested rest src (set_leaf (e_dst (o_entry o)) w out)
            | None => None
            end
        | None => None
        end
      else apply_overrides dur_str parse_dur nested rest src out
  end.

(* a decoder: its checks, then its conversion and its overrides; nested decoders run their own checks *)
Fixpoint den_chk (dur_str : Z -> bytes) (parse_dur : bytes -> option Z) (hostport_ok : bytes -> bool)
    (hs : bytes) (tbl : list mirror_def) (name : string) (r : record) : option record :=
  match tbl with
  | [] => None
  | d :: rest =>
      if String.eqb (m_name d) name then
        if checks_reject hostport_ok hs d r then None
        else
          let nst := den_chk dur_str parse_dur hostport_ok hs rest in
          match apply dur_str parse_dur nst d r with
          | Some out => apply_overrides dur_str parse_dur nst (m_overrides d) r out
          | None => None
          end
      else den_chk dur_str parse_dur hostport_ok hs rest name r
  end.
Definition decode := den_chk.

(* ---- the round-trip checker (soundness: Proofs/CodecProofs.v) ---- *)
Definition prim_eqb (a b : prim) : bool :=
  match a, b with
  | Copy, Copy | Hex, Hex | UnHex, UnHex | DurStr, DurStr | ParseDur, ParseDur
  | ParseDurOrZero, ParseDurOrZero | Secs32, Secs32 | Secs64, Secs64 | OfSecs, OfSecs | UTC, UTC
  | Canon, Canon | SeedOrHash, SeedOrHash | PointStr, PointStr | StrPoint, StrPoint
  | ScalarStr, ScalarStr | StrScalar, StrScalar | PointBytes, PointBytes | BytesPoint, BytesPoint
  | SchemeName, SchemeName | SchemeByID, SchemeByID | SchemeFromName, SchemeFromName
  | CastU32, CastU32 | CastU64, CastU64 | CastI64, CastI64 | CastInt, CastInt
  | IfNonZero, IfNonZero | IfNonEmpty, IfNonEmpty | IfNotNil, IfNotNil
  | MapPointStr, MapPointStr | MapStrPoint, MapStrPoint | MapPointBytes, MapPointBytes
  | MapBytesPoint, MapBytesPoint | HashOf, HashOf | HashStringOf, HashStringOf => true
  | Field f, Field g | OptField f, OptField g | WrapField f, WrapField g
  | WrapIfNonEmpty f, WrapIfNonEmpty g | Nested f, Nested g | OptNested f, OptNested g
  | MapNested f, MapNested g | External f, External g | Unknown f, Unknown g => String.eqb f g
  | _, _ => false
  end.
Fixpoint ops_eqb (a b : list prim) : bool :=
  match a, b with
  | [], [] => true
  | x :: a', y :: b' => prim_eqb x y && ops_eqb a' b'
  | _, _ => false
  end.

(* how a (encoder ops, decoder ops) pair restores a value *)
Inductive rtclass :=
| RAny            (* identity on every value *)
| RNotNil         (* identity on non-nil values *)
| RBytes          (* byte strings (non-nil), elements 0..255 *)
| RBytesOrNil     (* nil, or a non-empty byte string *)
| RBytesNonEmpty  (* a non-empty byte string *)
| RBytesList      (* lists of byte strings *)
| RDur            (* any duration *)
| RSecs (bits : Z)(* whole seconds, 0 <= s < 2^bits *)
| RUnsigned (bits : Z) | RSigned (bits : Z)
| RScheme         (* a known scheme name *)
| RCanonID        (* any id; restored in canonical form *)
| ROptCoeffs (f : string)       (* nil, or a record with one non-empty list of byte strings *)
| RNested (a b : string) | ROptNested (a b : string) | RMapNested (a b : string)
| RPartial (f : string)         (* only field f of the nested value is restored *)
| RExternal.                    (* not transmitted: supplied by the decoder's caller *)

(* the fixed (encoder ops, decoder ops) pairs with a proved round-trip law *)
Definition class_table : list (list prim * list prim * rtclass) := [
  ([Copy], [Copy], RAny); ([UTC], [UTC], RAny); ([IfNonZero], [IfNonZero], RAny); ([Copy], [IfNotNil], RAny);
  ([SeedOrHash], [IfNotNil], RNotNil);
  ([Hex], [UnHex], RBytes); ([PointStr], [StrPoint], RBytes); ([ScalarStr], [StrScalar], RBytes);
  ([PointBytes], [BytesPoint], RBytes); ([PointBytes; Hex], [UnHex; BytesPoint], RBytes);
  ([Hex], [IfNonEmpty; UnHex], RBytesOrNil); ([IfNonEmpty; Hex], [IfNotNil; UnHex], RBytesOrNil);
  ([SeedOrHash; Hex], [IfNonEmpty; UnHex], RBytesNonEmpty);
  ([MapPointStr], [MapStrPoint], RBytesList); ([MapPointBytes], [MapBytesPoint], RBytesList);
  ([DurStr], [ParseDur], RDur); ([DurStr], [ParseDurOrZero], RDur);
  ([Secs32], [OfSecs], RSecs 32); ([Secs64], [OfSecs], RSecs 64);
  ([CastU32], [CastInt], RUnsigned 32); ([CastU64], [CastI64], RSigned 64);
  ([SchemeName], [SchemeByID], RScheme); ([SchemeName], [SchemeFromName], RScheme);
  ([Copy], [SchemeByID; SchemeName], RScheme);
  ([Copy], [Canon], RCanonID); ([Canon], [Copy], RCanonID) ].

(* pairs that carry a field or mirror name *)
Definition classify_param (e d : list prim) : option rtclass :=
  match e with
  | [Nested a] => match d with [Nested b] => Some (RNested a b) | _ => None end
  | [OptNested a] => match d with [OptNested b] => Some (ROptNested a b) | _ => None end
  | [MapNested a] => match d with [MapNested b] => Some (RMapNested a b) | _ => None end
  | [OptField f; MapPointBytes] =>
      match d with [MapBytesPoint; WrapIfNonEmpty g] => if String.eqb f g then Some (ROptCoeffs f) else None | _ => None end
  | [Field f; SchemeName] =>
      match d with [SchemeByID; WrapField g] => if String.eqb f g then Some (RPartial f) else None | _ => None end
  | _ => None
  end.

Definition classify (e d : list prim) : option rtclass :=
  match find (fun t => ops_eqb (fst (fst t)) e && ops_eqb (snd (fst t)) d) class_table with
  | Some t => Some (snd t)
  | None => classify_param e d
  end.

Definition mem_path (p : path) (l : list path) : bool := existsb (path_eqb p) l.
Fixpoint paths_eqb (a b : list path) : bool :=
  match a, b with
  | [], [] => true
  | x :: a', y :: b' => path_eqb x y && paths_eqb a' b'
  | _, _ => false
  end.
Definition mem_pair (a b : string) (l : list (string * string)) : bool :=
  existsb (fun p => String.eqb (fst p) a && String.eqb (snd p) b) l.

(* how source leaf [leaf] is restored: the mirror-side leaf it travels through and the class *)
Definition ext_entry (e : entry) : bool :=
  match e_ops e, e_src e with [External _], [] => true | _, _ => false end.
Definition link_generic (enc : mirror_def) (leaf : path) (eb : entry) : option (path * rtclass) :=
  match find_entry (m_entries enc) (e_src eb) with
  | None => None
  | Some ea =>
      if path_eqb (e_src ea) leaf && mem_path (e_src eb) (m_dst_leaves enc)
         && negb (path_eqb leaf []) && negb (path_eqb (e_src eb) [])
      then option_map (pair (e_src eb)) (classify (e_ops ea) (e_ops eb)) else None
  end.
Definition leaf_link (enc dec : mirror_def) (leaf : path) : option (path * rtclass) :=
  match find_entry (m_entries dec) leaf with
  | None => None
  | Some eb => if ext_entry eb then Some ([], RExternal) else link_generic enc leaf eb
  end.
Definition leaf_class (enc dec : mirror_def) (leaf : path) : option rtclass :=
  option_map snd (leaf_link enc dec leaf).
Definition is_external (c : rtclass) : bool := match c with RExternal => true | _ => false end.

Definition class_nested_ok (verified : list (string * string)) (c : rtclass) : bool :=
  match c with
  | RNested a b | ROptNested a b | RMapNested a b => mem_pair a b verified
  | _ => true
  end.

(* destination leaves of the encoder that the decoder does not read must still be computable *)
Definition harmless_entry (e : entry) : bool :=
  match e_ops e, e_src e with
  | [HashOf], [] | [HashStringOf], [] | [External _], [] => true
  | _, _ => false
  end.

Definition names_of (tbl : list mirror_def) : list string := map m_name tbl.
Fixpoint nodup_names (l : list string) : bool :=
  match l with [] => true | x :: r => negb (existsb (String.eqb x) r) && nodup_names r end.

Definition nested_names (es : mirror) : list string :=
  flat_map (fun e => flat_map (fun p => match p with Nested m | OptNested m | MapNested m => [m] | _ => [] end) (e_ops e)) es.

Fixpoint rest_after (tbl : list mirror_def) (name : string) : list mirror_def :=
  match tbl with
  | [] => []
  | d :: rest => if String.eqb (m_name d) name then rest else rest_after rest name
  end.

(* an override can fire only if all these hold *)
Fixpoint conjuncts (c : ccond) : list ccond :=
  match c with CAndC a b => conjuncts a ++ conjuncts b | _ => [c] end.

Definition roundtrip_ok (tbl : list mirror_def) (verified : list (string * string))
    (a b : string) : bool :=
  match lookup tbl a, lookup tbl b with
  | Some enc, Some dec =>
      nodup_names (names_of tbl) &&
      paths_eqb (m_src_leaves enc) (m_dst_leaves dec) &&
      forallb (fun q => mem_path q (m_src_leaves dec)) (m_dst_leaves enc) &&
      (* every source leaf is restored through a known inverse pair *)
      forallb (fun leaf => match leaf_class enc dec leaf with
                           | Some c => class_nested_ok verified c
                           | None => false end) (m_src_leaves enc) &&
      (* every other written destination leaf is harmless *)
      forallb (fun q => match find_entry (m_entries enc) q with
                        | None => true
                        | Some ea =>
                            harmless_entry ea ||
                            existsb (fun leaf => match leaf_link enc dec leaf with
                                                 | Some (q', c) => path_eqb q' q && negb (is_external c)
                                                 | None => false end) (m_src_leaves enc)
                        end) (m_dst_leaves enc) &&
      (* nested mirrors live further down the table *)
      forallb (fun n => existsb (String.eqb n) (names_of (rest_after tbl a))) (nested_names (m_entries enc)) &&
      forallb (fun n => existsb (String.eqb n) (names_of (rest_after tbl b))) (nested_names (m_entries dec)) &&
      (* a legacy override must require a member the encoder's output does not have *)
      forallb (fun o => existsb (fun k => match k with
                                          | CNonEmpty p => negb (mem_path p (m_dst_leaves enc))
                                          | _ => false end) (conjuncts (o_cond o))) (m_overrides dec)
  | _, _ => false
  end.

(* destination leaves without a source (for instance DBStateTOML.TransitionTime) *)
Definition unwritten (d : mirror_def) : list path :=
  filter (fun q => match find_entry (m_entries d) q with None => true | Some _ => false end) (m_dst_leaves d).
(* source leaves the conversion never reads *)
Definition unread (d : mirror_def) : list path :=
  filter (fun l => negb (existsb (fun e => path_eqb (e_src e) l) (m_entries d))) (m_src_leaves d).

(* ---- the key store on disk (common/key/store.go fileStore): one file per kind of value.
   A save replaces the file's content, a load returns what the last save wrote, Reset deletes the
   share file and the group file (not the key pair). Values are named by the number the harness
   gave them; [None] is "no such file / load error". ---- *)
Inductive dfile := FPair | FShare | FGroup.
Inductive dop := DSave (f : dfile) (v : Z) | DLoad (f : dfile) | DReset.
Record dstate := { d_pair : option Z; d_share : option Z; d_group : option Z }.
Definition disk_init : dstate := {| d_pair := None; d_share := None; d_group := None |}.
Definition dget (f : dfile) (s : dstate) : option Z :=
  match f with FPair => d_pair s | FShare => d_share s | FGroup => d_group s end.
Definition dset (f : dfile) (x : option Z) (s : dstate) : dstate :=
  match f with
  | FPair => {| d_pair := x; d_share := d_share s; d_group := d_group s |}
  | FShare => {| d_pair := d_pair s; d_share := x; d_group := d_group s |}
  | FGroup => {| d_pair := d_pair s; d_share := d_share s; d_group := x |}
  end.
(* the output of a load is [Some result]; other operations output nothing *)
Definition disk_step (s : dstate) (o : dop) : dstate * option (option Z) :=
  match o with
  | DSave f v => (dset f (Some v) s, None)
  | DLoad f => (s, Some (dget f s))
  | DReset => (dset FGroup None (dset FShare None s), None)
  end.
Fixpoint disk_run (s : dstate) (ops : list dop) : dstate * list (option Z) :=
  match ops with
  | [] => (s, [])
  | o :: r =>
      let '(s1, out) := disk_step s o in
      let '(s2, outs) := disk_run s1 r in
      (s2, match out with Some x => x :: outs | None => outs end)
  end.
(* what the most recent operations say a file holds; [ops_rev] is the history, latest first *)
Fixpoint last_written (f : dfile) (ops_rev : list dop) : option Z :=
  match ops_rev with
  | [] => None
  | DSave g v :: r =>
      match f, g with
      | FPair, FPair | FShare, FShare | FGroup, FGroup => Some v
      | _, _ => last_written f r
      end
  | DLoad _ :: r => last_written f r
  | DReset :: r => match f with FPair => last_written f r | _ => None end
  end.
