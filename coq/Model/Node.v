(* Node-local model of the beacon protocol: /repo/internal/chain/beacon/node.go
   (ProcessPartialBeacon, run, broadcastNextPartial, TransitionNewGroup, Catchup),
   chainstore.go (runAggregator, tryAppend, shouldSync), the store stack's acceptance rule
   (store.go: appendStore / schemeStore) and sync_manager.go:tryNode as seen from one node.
   Executable definitions only.

   Byte strings (signatures, partial signatures, previous signatures) are abstract identifiers
   [Z]; cryptographic predicates are Section variables (oracles).  The correspondence driver
   instantiates them with tables computed by the real scheme, independently of the code path
   under test; the theorems hold for every instance.

   One model step = the node's reaction to one external event once its internal goroutines
   are quiescent (aggregator, run loop, callback workers, sync manager). *)
From Coq Require Import ZArith List Bool.
From DV Require Import Model.Time.
Import ListNotations.
Open Scope Z_scope.

Record beacon := mkB { b_round : Z; b_prev : Z; b_sig : Z }.

(* static chain parameters *)
Record cfg := mkCfg {
  c_chained : bool;       (* scheme signs the previous signature *)
  c_period : Z;           (* seconds *)
  c_genesis : Z;
  c_catchup : Z;          (* catch-up period, seconds *)
  c_limit : Z             (* partialCacheStoreLimit *)
}.

(* the live group as held by the vault *)
Record grp := mkG {
  g_poly : Z;             (* identifies the public polynomial / own share (epoch) *)
  g_thr : Z;
  g_members : list Z;     (* indices of the group's nodes *)
  g_me : Z                (* own index in that group *)
}.

Record centry := mkCE { ce_round : Z; ce_prev : Z; ce_sigs : list (Z * Z) }. (* (index, partial sig) *)

Record timer := mkT { t_fire : Z; t_cur : Z; t_latest : beacon }.

Record nstate := mkS {
  s_now : Z;
  s_chain : list beacon;          (* newest first *)
  s_cache : list centry;
  s_cur : Z;                      (* run loop: round of the last tick handled; 0 before the first *)
  s_timers : list timer;          (* sleeping catch-up goroutines *)
  s_grp : grp;
  s_pending : option (Z * grp);   (* TransitionNewGroup: switch when a round >= target is stored *)
  s_running : bool
}.

Inductive event :=
| EAdv (d : Z)                                   (* clock advance, then the catch-up sleepers that are due fire *)
| EClock (d : Z)                                 (* clock advance only *)
| EFire                                          (* the catch-up sleepers that are due fire *)
| ETick (rho : Z) (sync : option (list beacon))  (* tick of round rho; the chain the peers can serve if a sync request is made (None: unreachable) *)
| ETickSF (rho : Z) (sync : option (list beacon)) (* same tick, but the sync manager stores before the aggregator sees the node's own partial *)
| EPart (round prev psig : Z)                    (* ProcessPartialBeacon *)
| EStop
| ERestart (sync : option (list beacon))         (* new handler on the same store + Catchup() *)
| ETransition (target : Z) (g : grp)             (* TransitionNewGroup *)
| ESynced (upto : Z) (bs : list beacon).         (* the sync manager, asked by the aggregator (OSyncReq: a recovered beacon
                                                    that is not the head's successor), receives a peer's stream *)

Inductive out :=
| OReject                                        (* ProcessPartialBeacon returned an error *)
| OPut (b : beacon)                              (* beacon written to the base store *)
| OEmit (round prev psig now : Z)                (* partial broadcast, with the node's clock *)
| OSyncReq (upto : Z).                           (* sync requested from the group *)

Section Node.
  Variable C : cfg.
  (* oracles *)
  Variable idx_of : Z -> Z.                               (* IndexOf(partial); < 0 = error *)
  Variable vpart : Z -> Z -> Z -> Z -> bool.              (* poly round prev psig: VerifyPartial *)
  Variable recov : Z -> Z -> Z -> list Z -> Z -> option Z.  (* poly round prev psigs thr: Recover *)
  Variable vrec : Z -> Z -> Z -> bool.                    (* round prev sig: VerifyRecovered / VerifyBeacon under the group key *)
  Variable own_psig : Z -> Z -> Z -> Z.                   (* poly round prev: SignPartial with the own share *)

  Definition empty_id : Z := -1.

  Definition head (s : nstate) : beacon :=
    match s_chain s with b :: _ => b | [] => mkB 0 empty_id empty_id end.

  Definition memb (x : Z) (l : list Z) : bool := existsb (Z.eqb x) l.

  (* ---- partial cache (cache.go without the per-signer eviction, see C12) ---- *)
  Fixpoint cache_find (c : list centry) (r p : Z) : option centry :=
    match c with
    | [] => None
    | e :: c' => if (ce_round e =? r) && (ce_prev e =? p) then Some e else cache_find c' r p
    end.

  Fixpoint cache_add (c : list centry) (r p i sg : Z) : list centry :=
    match c with
    | [] => [mkCE r p [(i, sg)]]
    | e :: c' =>
        if (ce_round e =? r) && (ce_prev e =? p)
        then (if memb i (map fst (ce_sigs e)) then e else mkCE r p (ce_sigs e ++ [(i, sg)])) :: c'
        else e :: cache_add c' r p i sg
    end.

  Definition cache_flush (c : list centry) (r : Z) : list centry :=
    filter (fun e => r <? ce_round e) c.

  (* ---- store stack acceptance (appendStore + schemeStore) for round = head+1 ---- *)
  Definition stack_accepts (hd : beacon) (b : beacon) : bool :=
    (b_round b =? b_round hd + 1) && (if c_chained C then b_prev b =? b_sig hd else true).

  Definition stored_form (b : beacon) : beacon :=
    if c_chained C then b else mkB (b_round b) empty_id (b_sig b).

  (* effects of a successful Put: callbacks (transition switch, aggregator flush) *)
  Definition after_put (s : nstate) (b : beacon) : nstate :=
    let g' := match s_pending s with
              | Some (target, g) => if target <=? b_round b then (g, None) else (s_grp s, s_pending s)
              | None => (s_grp s, None)
              end in
    mkS (s_now s) (b :: s_chain s) (cache_flush (s_cache s) (b_round b)) (s_cur s) (s_timers s)
        (fst g') (snd g') (s_running s).

  (* ---- aggregator: one partial that reached NewValidPartial ---- *)
  Definition agg_partial (s : nstate) (r p sg : Z) : nstate * list out :=
    let hd := head s in
    if negb ((b_round hd <? r) && (r <=? b_round hd + c_limit C + 1)) then (s, []) else
    let i := idx_of sg in
    let c1 := cache_add (s_cache s) r p i sg in
    let s1 := mkS (s_now s) (s_chain s) c1 (s_cur s) (s_timers s) (s_grp s) (s_pending s) (s_running s) in
    match cache_find c1 r p with
    | None => (s1, [])
    | Some e =>
        if Z.of_nat (length (ce_sigs e)) <? g_thr (s_grp s) then (s1, []) else
        match recov (g_poly (s_grp s)) r p (map snd (ce_sigs e)) (g_thr (s_grp s)) with
        | None => (s1, [])
        | Some fs =>
            if negb (vrec r p fs) then (s1, []) else
            let s2 := mkS (s_now s) (s_chain s) (cache_flush c1 r) (s_cur s) (s_timers s) (s_grp s) (s_pending s) (s_running s) in
            let nb := mkB r p fs in
            if negb (b_round hd + 1 =? r)
            then (s2, if b_round hd + 1 <? r then [OSyncReq r] else [])
            else if negb (stack_accepts hd nb) then (s2, [])
            else
              let sb := stored_form nb in
              let s3 := after_put s2 sb in
              (* AppendedBeaconNoSync: behind the ticked round => sleep then sign the next one *)
              let s4 := if r <? s_cur s
                        then mkS (s_now s3) (s_chain s3) (s_cache s3) (s_cur s3)
                                 (s_timers s3 ++ [mkT (s_now s + c_catchup C) (s_cur s) sb])
                                 (s_grp s3) (s_pending s3) (s_running s3)
                        else s3 in
              (s4, [OPut sb])
        end
    end.

  (* ---- ProcessPartialBeacon ---- *)
  Definition process_partial (s : nstate) (r p sg : Z) : nstate * list out :=
    let nr := fst (next_round (s_now s) (c_period C) (c_genesis C)) in
    if nr <? r then (s, [OReject]) else
    if r <=? b_round (head s) then (s, []) else
    let i := idx_of sg in
    if i <? 0 then (s, [OReject]) else
    if negb (memb i (g_members (s_grp s))) then (s, [OReject]) else
    if i =? g_me (s_grp s) then (s, [OReject]) else
    if negb (vpart (g_poly (s_grp s)) r p sg) then (s, [OReject]) else
    agg_partial s r p sg.

  (* ---- broadcastNextPartial ---- *)
  (* the round a tick / woken sleeper would sign, and its previous signature *)
  Definition sign_target (cur : Z) (upon : beacon) : Z * Z :=
    if cur =? b_round upon then (cur, b_prev upon) else (b_round upon + 1, b_sig upon).
  (* a partial is only released for a round whose time has come on the node's own clock
     (h.ticker.CurrentRound()): neither a tick handled late nor a chain ahead of the clock makes the
     node sign early *)
  Definition may_sign (s : nstate) (r : Z) : bool :=
    r <=? current_round (s_now s) (c_period C) (c_genesis C).
  Definition emit_on (s : nstate) (cur : Z) (upon : beacon) : nstate * list out :=
    let '(r, p) := sign_target cur upon in
    if negb (may_sign s r) then (s, []) else
    let sg := own_psig (g_poly (s_grp s)) r p in
    let '(s1, o) := agg_partial s r p sg in
    (s1, OEmit r p sg (s_now s) :: o).

  (* ---- sync: one peer's stream through tryNode (from = head+1) ---- *)
  Fixpoint try_node (s : nstate) (upto : Z) (bs : list beacon) : nstate * list out :=
    match bs with
    | [] => (s, [])
    | b :: bs' =>
        if negb (vrec (b_round b) (b_prev b) (b_sig b)) then (s, []) else
        if negb (stack_accepts (head s) b) then (s, []) else
        let sb := stored_form b in
        let s1 := after_put s sb in
        if b_round b =? upto then (s1, [OPut sb]) else
        let '(s2, o) := try_node s1 upto bs' in (s2, OPut sb :: o)
    end.

  Definition do_sync (s : nstate) (upto : Z) (sync : option (list beacon)) : nstate * list out :=
    match sync with
    | None => (s, [OSyncReq upto])
    | Some bs =>
        (* the peers serve their chain from the round after the node's head (SyncRequest.FromRound) *)
        let from := b_round (head s) + 1 in
        let '(s1, o) := try_node s upto (filter (fun b => from <=? b_round b) bs) in
        (s1, OSyncReq upto :: o)
    end.

  (* ---- catch-up timers that are due ---- *)
  Fixpoint fire_timers (s : nstate) (ts : list timer) : nstate * list out :=
    match ts with
    | [] => (s, [])
    | t :: ts' =>
        let '(s1, o1) := emit_on s (t_cur t) (t_latest t) in
        let '(s2, o2) := fire_timers s1 ts' in
        (s2, o1 ++ o2)
    end.

  Definition advance_clock (s : nstate) (d : Z) : nstate :=
    mkS (s_now s + d) (s_chain s) (s_cache s) (s_cur s) (s_timers s) (s_grp s) (s_pending s) (s_running s).

  Definition fire_due (s : nstate) : nstate * list out :=
    let due := filter (fun t => t_fire t <=? s_now s) (s_timers s) in
    let rest := filter (fun t => negb (t_fire t <=? s_now s)) (s_timers s) in
    let s0 := mkS (s_now s) (s_chain s) (s_cache s) (s_cur s) rest (s_grp s) (s_pending s) (s_running s) in
    if s_running s then fire_timers s0 due else (s0, []).

  Definition step (s : nstate) (e : event) : nstate * list out :=
    match e with
    | EAdv d => fire_due (advance_clock s d)
    | EClock d => (advance_clock s d, [])
    | EFire => fire_due s
    | ETick rho sync =>
        if negb (s_running s) then (s, []) else
        let hd := head s in
        let s0 := mkS (s_now s) (s_chain s) (s_cache s) rho (s_timers s) (s_grp s) (s_pending s) (s_running s) in
        let '(s1, o1) := emit_on s0 rho hd in
        if b_round hd + 1 <? rho
        then let '(s2, o2) := do_sync s1 rho sync in (s2, o1 ++ o2)
        else (s1, o1)
    | ETickSF rho sync =>
        if negb (s_running s) then (s, []) else
        let hd := head s in
        let s0 := mkS (s_now s) (s_chain s) (s_cache s) rho (s_timers s) (s_grp s) (s_pending s) (s_running s) in
        let '(r, p) := sign_target rho hd in
        let sg := own_psig (g_poly (s_grp s0)) r p in
        let '(s1, o1) := if b_round hd + 1 <? rho then do_sync s0 rho sync else (s0, []) in
        if negb (may_sign s0 r) then (s1, o1) else
        let '(s2, o2) := agg_partial s1 r p sg in
        (s2, OEmit r p sg (s_now s) :: o1 ++ o2)
    | EPart r p sg =>
        if negb (s_running s) then (s, []) else process_partial s r p sg
    | EStop =>
        (mkS (s_now s) (s_chain s) [] 0 [] (s_grp s) (s_pending s) false, [])
    | ERestart sync =>
        (* the restarted process loads the latest group and share from disk *)
        let g := match s_pending s with Some (_, g') => g' | None => s_grp s end in
        let s0 := mkS (s_now s) (s_chain s) [] 0 [] g None true in
        let nr := fst (next_round (s_now s) (c_period C) (c_genesis C)) in
        do_sync s0 nr sync
    | ETransition target g =>
        (mkS (s_now s) (s_chain s) (s_cache s) (s_cur s) (s_timers s) (s_grp s) (Some (target, g)) (s_running s), [])
    | ESynced upto bs =>
        if negb (s_running s) then (s, []) else
        let from := b_round (head s) + 1 in
        try_node s upto (filter (fun b => from <=? b_round b) bs)
    end.

  Fixpoint run (s : nstate) (es : list event) : nstate * list (list out) :=
    match es with
    | [] => (s, [])
    | e :: es' => let '(s1, o) := step s e in let '(s2, os) := run s1 es' in (s2, o :: os)
    end.

  Definition init (now : Z) (genesis_seed : Z) (g : grp) : nstate :=
    mkS now [mkB 0 empty_id genesis_seed] [] 0 [] g None true.
End Node.
