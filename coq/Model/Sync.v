(* Model of the client side of chain sync (property C10).

   Sources modelled, line by line:
     internal/chain/beacon/sync_manager.go : SyncManager.Sync, tryNode, ReSync,
                                             CheckPastBeacons, CorrectPastBeacons, Run (renewal)
     internal/chain/beacon/store.go        : appendStore.Put, schemeStore.Put (what Put means)
     internal/core/drand_beacon_control.go : StartFollowChain (chainInfoFromPeers, hash pin, retry loop)

   Executable definitions only (no proofs here).

   Conventions
   - rounds are Z (uint64 in Go; wrap-around at 2^64-1 is outside this model);
   - byte strings are [list Z];
   - the verification predicate [vfy] ("VerifyBeacon against the PINNED chain info") is a
     parameter: cryptography is not re-implemented;
   - a peer's answer to SyncChain is a finite list of stream elements; [Stall] = the channel stays
     open and nothing more arrives (tryNode has no timeout of its own: it then waits until its
     context is cancelled), [Close] = the channel is closed; the end of the list is [Close];
   - the store is deliberately small (another file, Model/StoreStack.v, has the detailed stack):
     a raw round->beacon map [raw] plus the one cached [last] pointer shared by the
     appendStore/schemeStore wrappers. *)
From Coq Require Import ZArith List Bool.
Import ListNotations.
Open Scope Z_scope.

Definition bytes := list Z.

Fixpoint bytes_eqb (a b : bytes) : bool :=
  match a, b with
  | [], [] => true
  | x :: a', y :: b' => (x =? y) && bytes_eqb a' b'
  | _, _ => false
  end.

Record beacon := mkB { b_round : Z; b_prev : bytes; b_sig : bytes }.

Definition beacon_eqb (a b : beacon) : bool :=
  (b_round a =? b_round b) && bytes_eqb (b_prev a) (b_prev b) && bytes_eqb (b_sig a) (b_sig b).

(* ---------------------------------------------------------------------------------------- *)
(* The store, as far as sync needs it                                                        *)

(* What the raw back-end does with a Put of a round it already holds:
   bolt (trimmed/untrimmed) and postgres overwrite; memdb returns nil WITHOUT storing
   (memdb/store.go: "if sb.Round == beacon.Round { return nil }"). *)
Inductive backend := BkOverwrite | BkKeep.

(* Which wrappers sit between the SyncManager and the raw store:
   SkAppend = participant (chainstore.go newChainStore: callback(append(scheme(discrepancy(base)))));
   SkFollow = callback(scheme(base)), what StartFollowChain built before it was given the
   appendStore too; which of the two it builds now is read from its source (Gen/Follow.v). *)
Inductive stack := SkAppend | SkFollow.

(* raw store: association list, newest binding first *)
Definition raw := list beacon.

Fixpoint raw_get (base : raw) (r : Z) : option beacon :=
  match base with
  | [] => None
  | b :: t => if b_round b =? r then Some b else raw_get t r
  end.

(* Last(): the binding with the greatest round *)
Fixpoint raw_last (base : raw) : option beacon :=
  match base with
  | [] => None
  | b :: t =>
      match raw_last t with
      | None => Some b
      | Some a => if b_round a <=? b_round b then Some b else Some a
      end
  end.

Definition raw_put (bk : backend) (base : raw) (b : beacon) : raw :=
  match bk with
  | BkOverwrite => b :: base
  | BkKeep => match raw_get base (b_round b) with Some _ => base | None => b :: base end
  end.

Definition head_of (base : raw) : Z :=
  match raw_last base with Some l => b_round l | None => 0 end.

(* [s_wlast] is the [last] pointer of appendStore and schemeStore (they are updated together, on
   inner success only); it is loaded from the raw store when the stack is built. *)
Record store := mkS { s_base : raw; s_wlast : beacon }.

Definition open_store (base : raw) : option store :=
  match raw_last base with Some l => Some (mkS base l) | None => None end.

Inductive put_err := EAlready | ESamePrevDiff | ESameSigDiff | ERound | EPrev.

(* what reaches the raw store through schemeStore: unchained schemes clear PreviousSig *)
Definition store_form (chained : bool) (b : beacon) : beacon :=
  if chained then b else mkB (b_round b) [] (b_sig b).

(* appendStore.Put, the checks before the inner Put *)
Definition append_check (last b : beacon) : option put_err :=
  if b_round b =? b_round last then
    Some (if bytes_eqb (b_sig last) (b_sig b)
          then (if bytes_eqb (b_prev last) (b_prev b) then EAlready else ESamePrevDiff)
          else ESameSigDiff)
  else if b_round b =? b_round last + 1 then None
  else Some ERound.

Definition stack_put (chained : bool) (bk : backend) (sk : stack) (st : store) (b : beacon)
  : put_err + store :=
  match (match sk with SkAppend => append_check (s_wlast st) b | SkFollow => None end) with
  | Some e => inl e
  | None =>
      if chained && negb (bytes_eqb (b_sig (s_wlast st)) (b_prev b)) then inl EPrev
      else let b' := store_form chained b in
           inr (mkS (raw_put bk (s_base st) b') b')
  end.

Definition raw_del (base : raw) (r : Z) : raw :=
  filter (fun b => negb (b_round b =? r)) base.

(* the re-sync path: insecureStore.Del(round) then insecureStore.Put, straight to the raw store
   (so the verified beacon replaces what is stored on every back-end); the wrappers' [last] is
   not touched *)
Definition insecure_put (bk : backend) (st : store) (b : beacon) : store :=
  mkS (raw_put bk (raw_del (s_base st) (b_round b)) b) (s_wlast st).

(* ---------------------------------------------------------------------------------------- *)
(* Streams and peers                                                                         *)

(* metadata of a BeaconPacket relative to the pinned info.ID: absent / equal / different
   (tryNode compares the strings with !=, not with CompareBeaconIDs) *)
Inductive md := MdNone | MdSame | MdOther.

Inductive elem := Pkt (m : md) (b : beacon) | Stall | Close.

(* a peer: is it our own address; does SyncChain return a channel at all; what it streams when
   asked from a given round *)
Record peer := mkP { p_self : bool; p_reach : bool; p_stream : Z -> list elem }.

Definition dummy_peer : peer := mkP true false (fun _ => []).

(* A transient failure of the raw store: the inner Put of the first packet of round r returns an
   error (I/O error, or a context cancelled while tryNode stores the beacon). appendStore and
   schemeStore move their [last] only after the inner Put succeeded, tryNode returns false: the
   node is left exactly as if the stream had ended before that packet. (Meant for a round above
   the head: a packet that is refused anyway also ends tryNode with false.) *)
Fixpoint fail_put_of (r : Z) (l : list elem) : list elem :=
  match l with
  | [] => []
  | Pkt m b :: t => if b_round b =? r then [Close] else Pkt m b :: fail_put_of r t
  | e :: t => e :: fail_put_of r t
  end.

Definition with_put_failure (r : Z) (p : peer) : peer :=
  mkP (p_self p) (p_reach p) (fun f => fail_put_of r (p_stream p f)).

Inductive tn_res := TnOk | TnFail | TnBlocked.
Record tn_out := mkTn { tn_r : tn_res; tn_st : store; tn_ws : list beacon }.

Inductive sync_err := EFailedAll | ECanceled | EInvalid.
(* [SyncBlocked e]: the call does not return until its context is cancelled; it then returns e *)
Inductive sync_res := SyncOk | SyncErr (e : sync_err) | SyncBlocked (e : sync_err).
Record sync_out := mkSy { sy_r : sync_res; sy_st : store; sy_ws : list beacon; sy_reqs : list Z }.

Inductive corr_res := CorrOk | CorrErr | CorrBlocked.
Record corr_out := mkCo { co_r : corr_res; co_st : store; co_ws : list beacon }.

Section SYNC.
  Variable vfy : beacon -> bool.     (* VerifyBeacon(b, s.info.PublicKey) = nil *)
  Variable chained : bool.
  Variable bk : backend.
  Variable sk : stack.

  (* the receive loop of tryNode. [ws] lists the beacons handed to a successful Put, as received *)
  Fixpoint tn_loop (resync : bool) (upTo : Z) (st : store) (l : list elem) : tn_out :=
    match l with
    | [] => mkTn TnFail st []                         (* channel closed *)
    | Close :: _ => mkTn TnFail st []
    | Stall :: _ => mkTn TnBlocked st []              (* only <-cnode.Done() can end the wait *)
    | Pkt m b :: l' =>
        match m with
        | MdOther => mkTn TnFail st []                (* wrong beaconID *)
        | _ =>
          if negb (vfy b) then mkTn TnFail st []      (* invalid beacon *)
          else if resync then
            let st' := insecure_put bk st b in        (* insecureStore.Del + Put; no error case *)
            if b_round b =? upTo then mkTn TnOk st' [b]
            else let o := tn_loop resync upTo st' l' in mkTn (tn_r o) (tn_st o) (b :: tn_ws o)
          else
            match stack_put chained bk sk st b with
            | inr st' =>
                if b_round b =? upTo then mkTn TnOk st' [b]
                else let o := tn_loop resync upTo st' l' in mkTn (tn_r o) (tn_st o) (b :: tn_ws o)
            | inl EAlready => mkTn (if b_round b =? upTo then TnOk else TnFail) st []
            | inl _ => mkTn TnFail st []
            end
        end
    end.

  Record tn_out2 := mkTn2 { tn2 : tn_out; tn_req : option Z }.

  Definition try_node (from upTo : Z) (st : store) (p : peer) : tn_out2 :=
    match raw_last (s_base st) with
    | None => mkTn2 (mkTn TnFail st []) None          (* store.Last fails *)
    | Some last =>
        let resync := 0 <? from in
        let from' := if from =? 0 then b_round last + 1 else from in
        if negb (from =? 0) && (upTo <? from) then mkTn2 (mkTn TnFail st []) None
        else if negb (p_reach p) then mkTn2 (mkTn TnFail st []) (Some from')
        else mkTn2 (tn_loop resync upTo st (p_stream p from')) (Some from')
    end.

  Definition opt_list {A} (o : option A) : list A := match o with Some x => [x] | None => [] end.

  (* Sync: [ps] is the node list already in the order rand.Perm picked *)
  Fixpoint sync_loop (from upTo : Z) (st : store) (ps : list peer) : sync_out :=
    match ps with
    | [] => mkSy (SyncErr EFailedAll) st [] []
    | p :: ps' =>
        if p_self p then sync_loop from upTo st ps'
        else
          let o := try_node from upTo st p in
          let rq := opt_list (tn_req o) in
          match tn_r (tn2 o) with
          | TnOk => mkSy SyncOk (tn_st (tn2 o)) (tn_ws (tn2 o)) rq
          | TnBlocked =>
              (* once cancelled, tryNode returns false; own-address entries are skipped without
                 looking at the context, the next other node sees ctx.Done() *)
              mkSy (SyncBlocked (if existsb (fun q => negb (p_self q)) ps' then ECanceled else EFailedAll))
                   (tn_st (tn2 o)) (tn_ws (tn2 o)) rq
          | TnFail =>
              let o2 := sync_loop from upTo (tn_st (tn2 o)) ps' in
              mkSy (sy_r o2) (sy_st o2) (tn_ws (tn2 o) ++ sy_ws o2) (rq ++ sy_reqs o2)
          end
    end.

  Definition permute (order : list nat) (ps : list peer) : list peer :=
    map (fun i => nth i ps dummy_peer) order.

  Definition sync (order : list nat) (from upTo : Z) (st : store) (ps : list peer) : sync_out :=
    sync_loop from upTo st (permute order ps).

  (* ReSync: [a1], [a2] are the node lists as ordered (and as behaving) in the first and in the
     retry attempt *)
  Definition resync (from to : Z) (st : store) (a1 a2 : list peer) : sync_out :=
    if from =? 0 then mkSy (SyncErr EInvalid) st [] []
    else
      let o1 := sync_loop from to st a1 in
      match sy_r o1 with
      | SyncErr EFailedAll =>
          let o2 := sync_loop from to (sy_st o1) a2 in
          mkSy (sy_r o2) (sy_st o2) (sy_ws o1 ++ sy_ws o2) (sy_reqs o1 ++ sy_reqs o2)
      | SyncBlocked EFailedAll =>
          (* the retry runs with the cancelled context: it stops at the first other node *)
          mkSy (SyncBlocked ECanceled) (sy_st o1) (sy_ws o1) (sy_reqs o1)
      | _ => o1
      end.

  (* CheckPastBeacons: rounds i, i+1, .., i+n-1 *)
  Fixpoint check_loop (base : raw) (n : nat) (i : Z) : list Z :=
    match n with
    | O => []
    | S n' =>
        (match raw_get base i with
         | None => [i]
         | Some b => if vfy b then [] else [b_round b]
         end) ++ check_loop base n' (i + 1)
    end.

  Definition check_past (upTo : Z) (st : store) : option (list Z) :=
    match raw_last (s_base st) with
    | None => None
    | Some last =>
        let upTo' := if b_round last <? upTo then b_round last else upTo in
        Some (check_loop (s_base st) (Z.to_nat upTo') 1)
    end.

  (* CorrectPastBeacons: one ReSync(b, b) per listed round; errors are accumulated, the loop
     goes on; a blocked ReSync ends with the cancellation of the whole call *)
  Fixpoint correct_past (st : store) (jobs : list (Z * (list peer * list peer))) : corr_out :=
    match jobs with
    | [] => mkCo CorrOk st []
    | (r, (a1, a2)) :: js =>
        let o := resync r r st a1 a2 in
        match sy_r o with
        | SyncBlocked _ => mkCo CorrBlocked (sy_st o) (sy_ws o)
        | SyncOk =>
            let o2 := correct_past (sy_st o) js in
            mkCo (co_r o2) (co_st o2) (sy_ws o ++ co_ws o2)
        | SyncErr _ =>
            let o2 := correct_past (sy_st o) js in
            mkCo (match co_r o2 with CorrOk => CorrErr | x => x end) (co_st o2) (sy_ws o ++ co_ws o2)
        end
    end.

  (* Run: a request that finds the previous sync cancelled, or no progress for factor*period,
     cancels the running Sync and starts a new one (with a fresh random order). Every element of
     [attempts] is the ordered node list of one such renewal; a blocked or failed attempt is
     followed by the next one, a request is dropped when the target is already stored. *)
  Definition renew_due (ctx_done : bool) (last_progress now period factor : Z) : bool :=
    ctx_done || (last_progress + period * factor <? now).

  Fixpoint run_attempts (upTo : Z) (st : store) (attempts : list (list peer)) : sync_out :=
    match attempts with
    | [] => mkSy (SyncErr EFailedAll) st [] []
    | a :: rest =>
        if (0 <? upTo) && (upTo <=? head_of (s_base st)) then mkSy SyncOk st [] []
        else
          let o := sync_loop 0 upTo st a in
          match sy_r o with
          | SyncOk => o
          | _ => let o2 := run_attempts upTo (sy_st o) rest in
                 mkSy (sy_r o2) (sy_st o2) (sy_ws o ++ sy_ws o2) (sy_reqs o ++ sy_reqs o2)
          end
    end.

  (* Run with its clock. Time is counted in periods; while the node is behind, Handler.run sends
     one sync request per tick. What Run does with a request:
       - dropped when the target is already stored;
       - when the context of the previous Sync is done (it returned: [tk_inflight] = false) or
         [now] is after lastRoundTime + factor periods: cancel it, lastRoundTime := now, start a new
         Sync (the next element of [tk_left]);
       - otherwise NOTHING: in particular a request that finds a Sync in flight does not touch
         lastRoundTime. lastRoundTime also moves to [now] with every beacon the Sync stores.
     A blocked Sync that is cancelled returns without writing. *)
  Record tick_state := mkTk {
    tk_st : store;
    tk_inflight : bool;              (* a Sync is blocked on a silent peer, its context alive *)
    tk_last : Z;                     (* lastRoundTime, in periods *)
    tk_ws : list beacon;
    tk_reqs : list Z;
    tk_left : list (list peer)
  }.

  Definition tick_request (factor upTo now : Z) (s : tick_state) : tick_state :=
    if (0 <? upTo) && (upTo <=? head_of (s_base (tk_st s))) then s
    else if negb (tk_inflight s) || (tk_last s + factor <? now) then
      let o := sync_loop 0 upTo (tk_st s) (match tk_left s with a :: _ => a | [] => [] end) in
      mkTk (sy_st o) (match sy_r o with SyncBlocked _ => true | _ => false end) now
           (tk_ws s ++ sy_ws o) (tk_reqs s ++ sy_reqs o) (tl (tk_left s))
    else s.

  (* n ticks: the clock advances by one period, then the request of that tick arrives *)
  Fixpoint run_ticks (factor upTo : Z) (n : nat) (now : Z) (s : tick_state) : tick_state :=
    match n with
    | O => s
    | S n' => run_ticks factor upTo n' (now + 1) (tick_request factor upTo (now + 1) s)
    end.
End SYNC.

(* ---------------------------------------------------------------------------------------- *)
(* StartFollowChain                                                                          *)

(* the chain information a peer returns: its hash (Info.Hash()), whether its beacon id matches
   the process's, and the genesis beacon built from its seed *)
Record info := mkI { i_hash : bytes; i_id_ok : bool; i_genesis : beacon }.

Inductive info_ans := InfoUnreachable | InfoBad | InfoIs (i : info).

(* chainInfoFromPeers: every peer is asked; an RPC error leaves [info] as it is; otherwise
   [info, err = InfoFromProto(ci)] replaces it (by nil when the packet does not parse) *)
Definition info_from_peers (answers : list info_ans) : option info :=
  fold_left (fun acc a => match a with
                          | InfoUnreachable => acc
                          | InfoBad => None
                          | InfoIs i => Some i
                          end) answers None.

Inductive follow_err := FeBusy | FeNoInfo | FeHash | FeBeaconId.
(* FwDone: the progress callback closed [done]; FwBlocked: the call waits for done/cancellation
   (for upTo = 0 this is "keeps following"); FwRetrying: out of fuel while still retrying *)
Inductive follow_res := FwRefused (e : follow_err) | FwDone | FwBlocked | FwRetrying.
Record follow_out := mkFw { fw_r : follow_res; fw_db : option raw; fw_ws : list beacon }.

(* what the translator reads off StartFollowChain's syntax tree (Gen/Follow.v) *)
Record follow_src := mkFsrc {
  src_err_chan_is_made : bool;        (* errChan := make(chan error, ..) and not a nil var *)
  src_failed_sync_is_reported : bool; (* the goroutine sends on errChan when Sync fails *)
  src_retry_branch_continues : bool;  (* case <-errChan: ... continue *)
  src_hash_pinned_before_store : bool; (* bytes.Equal(info.Hash(), hash) precedes createDBStore/Put *)
  src_follow_has_append_store : bool  (* NewCallbackStore(NewAppendStore(NewSchemeStore(store))) *)
}.

Definition follow_stack (s : follow_src) : stack :=
  if src_follow_has_append_store s then SkAppend else SkFollow.

Definition retry_live (s : follow_src) : bool :=
  src_err_chan_is_made s && src_failed_sync_is_reported s && src_retry_branch_continues s.

(* the progress callback closes [done] at the first stored round >= targ (plainProgressCb raises
   targ to curr when curr > targ), unless the call keeps following (upTo = 0) *)
Definition done_fired (keep : bool) (targ : Z) (ws : list beacon) : bool :=
  negb keep && existsb (fun b => (targ <=? b_round b) && negb (b_round b =? 0)) ws.

Section FOLLOW.
  Variable vfy_of : info -> beacon -> bool.   (* verification against the key inside that info *)
  Variable chained : bool.
  Variable bk : backend.

  (* the retry loop; [live] = the retry branch can run (false reproduces the nil errChan: a failed
     Sync is never observed and the call just waits). One element of [attempts] per Sync call. *)
  Fixpoint follow_loop (sk : stack) (vfy : beacon -> bool) (live keep : bool) (targ upTo : Z)
           (fuel : nat) (st : store) (attempts : list (list peer)) : follow_res * store * list beacon :=
    match fuel, attempts with
    | S f, a :: rest =>
        let o := sync_loop vfy chained bk sk 0 upTo st a in
        if done_fired keep targ (sy_ws o) then (FwDone, sy_st o, sy_ws o)
        else match sy_r o with
             | SyncErr _ =>
                 if live then
                   let '(r2, st2, ws2) := follow_loop sk vfy live keep targ upTo f (sy_st o) rest in
                   (r2, st2, sy_ws o ++ ws2)
                 else (FwBlocked, sy_st o, sy_ws o)
             | _ => (FwBlocked, sy_st o, sy_ws o)   (* nil result is not reported; blocked Sync *)
             end
    | _, _ => (FwRetrying, st, [])
    end.

  (* [db]: the database already on disk (None: none yet); [cur]: current round by the clock *)
  Definition follow (src : follow_src) (busy : bool) (hash : bytes) (answers : list info_ans)
             (db : option raw) (upTo cur : Z) (fuel : nat) (attempts : list (list peer)) : follow_out :=
    if busy then mkFw (FwRefused FeBusy) db [] else
    match info_from_peers answers with
    | None => mkFw (FwRefused FeNoInfo) db []
    | Some i =>
        if src_hash_pinned_before_store src && negb (bytes_eqb (i_hash i) hash)
        then mkFw (FwRefused FeHash) db []
        else if negb (i_id_ok i) then mkFw (FwRefused FeBeaconId) db []
        else
          (* createDBStore, Put(genesis), NewSchemeStore, NewAppendStore *)
          let base := raw_put bk (match db with Some d => d | None => [] end) (i_genesis i) in
          match open_store base with
          | None => mkFw (FwRefused FeNoInfo) (Some base) []     (* unreachable: base is not empty *)
          | Some st =>
              let keep := upTo =? 0 in
              let targ := if negb (upTo =? 0) && (upTo <? cur) then upTo else cur in
              let '(r, st', ws) := follow_loop (follow_stack src) (vfy_of i) (retry_live src) keep targ upTo fuel st attempts in
              mkFw r (Some (s_base st')) ws
          end
    end.
End FOLLOW.
