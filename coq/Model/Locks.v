(* Lock-path model for C14(a): semantics of the lock events a handler performs, over
   NON-REENTRANT mutexes (sync.Mutex / sync.RWMutex), and the checker [paths_ok] that is
   evaluated by the kernel on the event trees regenerated from the Go sources
   (Gen/LockPaths.v) on every run.
   Executable definitions and the (relational) semantics only; proofs are in
   Proofs/LocksProofs.v. *)
From Coq Require Import ZArith List Bool.
Import ListNotations.
Open Scope Z_scope.

Inductive mode := W | R.
Definition mode_eqb (a b : mode) : bool :=
  match a, b with W, W | R, R => true | _, _ => false end.

(* mutexes, functions and channel-send sites are numbered by the translator *)
Inductive lockop :=
| OLock (m : Z)       (* m.Lock()    *)
| ORLock (m : Z)      (* m.RLock()   *)
| OUnlock (m : Z)     (* m.Unlock()  *)
| ORUnlock (m : Z).   (* m.RUnlock() *)

(* the event tree of one function body *)
Inductive prog :=
| PSkip
| POp (o : lockop)
| PDefer (os : list lockop)   (* defer m.Unlock() / defer m.Lock() / defer func(){ ops }() *)
| PCall (f : Z)               (* call of another extracted function *)
| PSend (c : Z)               (* blocking channel send (site c) *)
| PClose (c : Z)              (* close of a channel (site c) *)
| PPanic                      (* a dereference the request controls: execution may panic here *)
| PSeq (p q : prog)
| PAlt (p q : prog)           (* if / switch / select: either branch *)
| PLoop (p : prog)            (* for: zero or more iterations of p *)
| PBlock (l : Z) (p : prog)   (* the target of [PBrk l]: a loop (break), a loop body (continue),
                                 a switch / select (break) *)
| PBrk (l : Z)                (* break / continue, resolved to the block it leaves *)
| PRet.

Definition held := list (Z * mode).
Definition defers := list (list lockop).

Definition has_any (m : Z) (h : held) : bool := existsb (fun x => fst x =? m) h.
Definition has (m : Z) (md : mode) (h : held) : bool :=
  existsb (fun x => (fst x =? m) && mode_eqb (snd x) md) h.
Fixpoint remove1 (m : Z) (md : mode) (h : held) : option held :=
  match h with
  | [] => None
  | (m', md') :: r =>
      if (m' =? m) && mode_eqb md' md then Some r
      else match remove1 m md r with Some r' => Some ((m', md') :: r') | None => None end
  end.

(* [None]: the goroutine blocks for ever on a mutex it holds itself (sync mutexes are not
   reentrant; a read lock taken again while held can deadlock behind a waiting writer and is
   forbidden by the sync documentation), or it unlocks a mutex it does not hold (a fatal
   runtime error) *)
Definition do_op (o : lockop) (h : held) : option held :=
  match o with
  | OLock m => if has_any m h then None else Some ((m, W) :: h)
  | ORLock m => if has_any m h then None else Some ((m, R) :: h)
  | OUnlock m => remove1 m W h
  | ORUnlock m => remove1 m R h
  end.
Fixpoint do_ops (os : list lockop) (h : held) : option held :=
  match os with
  | [] => Some h
  | o :: r => match do_op o h with Some h' => do_ops r h' | None => None end
  end.
(* deferred calls run last-in first-out; the head of the list is the most recent defer *)
Fixpoint run_defers (ds : defers) (h : held) : option held :=
  match ds with
  | [] => Some h
  | os :: r => match do_ops os h with Some h' => run_defers r h' | None => None end
  end.

(* outcome of a piece of a function body: falls through / leaves block l / return / panic,
   with the locks held and the pending defers of the frame; or a violation *)
Inductive out :=
| ONorm (h : held) (ds : defers)
| OBrk (l : Z) (h : held) (ds : defers)
| ORet (h : held) (ds : defers)
| OPan (h : held) (ds : defers)
| OBad.
(* outcome of a whole call: returned / panicked (after its defers ran) with these locks
   held; or a violation *)
Inductive fout := FNorm (h : held) | FPan (h : held) | FBad.

Definition lift (fo : fout) (ds : defers) : out :=
  match fo with FNorm h => ONorm h ds | FPan h => OPan h ds | FBad => OBad end.

(* what is demanded of the locks held at a channel send / close site *)
Record policy := mkPol { p_send : Z -> held -> bool; p_close : Z -> held -> bool }.
Definition send_ok (pol : policy) (c : Z) (h : held) : bool := p_send pol c h.
Definition close_ok (pol : policy) (c : Z) (h : held) : bool := p_close pol c h.

(* the policy used by Props/C14.v:
   - a blocking send is done with no lock held, unless its site is listed in [allow];
   - a send at a site guarded by mutex m ([sguards]) is done while m is held (read or write): the
     channels of that class are closed under m's write lock, so only holding m excludes a send on
     a closed channel;
   - a close at a site guarded by m ([cguards]) is done under m's write lock *)
Fixpoint guard_of (gs : list (Z * Z)) (c : Z) : option Z :=
  match gs with
  | [] => None
  | (c', m) :: r => if c' =? c then Some m else guard_of r c
  end.
Definition std_policy (allow : list Z) (sguards cguards : list (Z * Z)) : policy :=
  mkPol
    (fun c h =>
       match guard_of sguards c with
       | Some m => has_any m h
       | None => match h with [] => true | _ => existsb (Z.eqb c) allow end
       end)
    (fun c h => match guard_of cguards c with Some m => has m W h | None => true end).

Section Sem.
Variable funs : Z -> option prog.
Variable allow : policy.       (* what channel sends / closes may be done under which locks *)

(* ---- relational semantics: every execution, any number of loop iterations, any call depth *)
Inductive exec : prog -> held -> defers -> out -> Prop :=
| E_skip : forall h ds, exec PSkip h ds (ONorm h ds)
| E_op_ok : forall o h ds h', do_op o h = Some h' -> exec (POp o) h ds (ONorm h' ds)
| E_op_bad : forall o h ds, do_op o h = None -> exec (POp o) h ds OBad
| E_defer : forall os h ds, exec (PDefer os) h ds (ONorm h (os :: ds))
| E_call : forall f body h ds fo, funs f = Some body -> fexec body h fo ->
    exec (PCall f) h ds (lift fo ds)
| E_call_unknown : forall f h ds, funs f = None -> exec (PCall f) h ds OBad
| E_send_ok : forall c h ds, send_ok allow c h = true -> exec (PSend c) h ds (ONorm h ds)
| E_send_bad : forall c h ds, send_ok allow c h = false -> exec (PSend c) h ds OBad
| E_close_ok : forall c h ds, close_ok allow c h = true -> exec (PClose c) h ds (ONorm h ds)
| E_close_bad : forall c h ds, close_ok allow c h = false -> exec (PClose c) h ds OBad
| E_panic_no : forall h ds, exec PPanic h ds (ONorm h ds)
| E_panic_yes : forall h ds, exec PPanic h ds (OPan h ds)
| E_seq_norm : forall p q h ds h1 ds1 o,
    exec p h ds (ONorm h1 ds1) -> exec q h1 ds1 o -> exec (PSeq p q) h ds o
| E_seq_other : forall p q h ds o,
    exec p h ds o -> (forall h1 ds1, o <> ONorm h1 ds1) -> exec (PSeq p q) h ds o
| E_alt_l : forall p q h ds o, exec p h ds o -> exec (PAlt p q) h ds o
| E_alt_r : forall p q h ds o, exec q h ds o -> exec (PAlt p q) h ds o
| E_loop_done : forall p h ds, exec (PLoop p) h ds (ONorm h ds)
| E_loop_iter : forall p h ds h1 ds1 o,
    exec p h ds (ONorm h1 ds1) -> exec (PLoop p) h1 ds1 o -> exec (PLoop p) h ds o
| E_loop_exit : forall p h ds o,
    exec p h ds o -> (forall h1 ds1, o <> ONorm h1 ds1) -> exec (PLoop p) h ds o
| E_block_catch : forall l p h ds h1 ds1,
    exec p h ds (OBrk l h1 ds1) -> exec (PBlock l p) h ds (ONorm h1 ds1)
| E_block_pass : forall l p h ds o,
    exec p h ds o -> (forall h1 ds1, o <> OBrk l h1 ds1) -> exec (PBlock l p) h ds o
| E_brk : forall l h ds, exec (PBrk l) h ds (OBrk l h ds)
| E_ret : forall h ds, exec PRet h ds (ORet h ds)
(* a call: run the body in a fresh frame, then its defers (also when panicking) *)
with fexec : prog -> held -> fout -> Prop :=
| F_norm : forall body h h1 ds1 h2,
    exec body h [] (ONorm h1 ds1) -> run_defers ds1 h1 = Some h2 -> fexec body h (FNorm h2)
| F_ret : forall body h h1 ds1 h2,
    exec body h [] (ORet h1 ds1) -> run_defers ds1 h1 = Some h2 -> fexec body h (FNorm h2)
| F_pan : forall body h h1 ds1 h2,
    exec body h [] (OPan h1 ds1) -> run_defers ds1 h1 = Some h2 -> fexec body h (FPan h2)
| F_norm_bad : forall body h h1 ds1,
    exec body h [] (ONorm h1 ds1) -> run_defers ds1 h1 = None -> fexec body h FBad
| F_ret_bad : forall body h h1 ds1,
    exec body h [] (ORet h1 ds1) -> run_defers ds1 h1 = None -> fexec body h FBad
| F_pan_bad : forall body h h1 ds1,
    exec body h [] (OPan h1 ds1) -> run_defers ds1 h1 = None -> fexec body h FBad
| F_bad : forall body h, exec body h [] OBad -> fexec body h FBad
| F_brk : forall body h l h1 ds1, exec body h [] (OBrk l h1 ds1) -> fexec body h FBad.

(* ---- the checker: enumerates the outcomes; a loop body must be lock-neutral ---- *)
Definition lockop_eqb (a b : lockop) : bool :=
  match a, b with
  | OLock x, OLock y | ORLock x, ORLock y | OUnlock x, OUnlock y | ORUnlock x, ORUnlock y => x =? y
  | _, _ => false
  end.
Fixpoint list_eqb {A} (eq : A -> A -> bool) (a b : list A) : bool :=
  match a, b with
  | [], [] => true
  | x :: a', y :: b' => eq x y && list_eqb eq a' b'
  | _, _ => false
  end.
Definition held_eqb : held -> held -> bool :=
  list_eqb (fun x y => (fst x =? fst y) && mode_eqb (snd x) (snd y)).
Definition defers_eqb : defers -> defers -> bool := list_eqb (list_eqb lockop_eqb).

Definition neutral (h : held) (ds : defers) (o : out) : bool :=
  match o with
  | ONorm h1 ds1 => held_eqb h1 h && defers_eqb ds1 ds
  | _ => true
  end.
Definition is_norm (o : out) : bool := match o with ONorm _ _ => true | _ => false end.

Definition out_eqb (a b : out) : bool :=
  match a, b with
  | ONorm h1 d1, ONorm h2 d2 | ORet h1 d1, ORet h2 d2 | OPan h1 d1, OPan h2 d2 =>
      held_eqb h1 h2 && defers_eqb d1 d2
  | OBrk l1 h1 d1, OBrk l2 h2 d2 => (l1 =? l2) && held_eqb h1 h2 && defers_eqb d1 d2
  | OBad, OBad => true
  | _, _ => false
  end.
(* outcome lists are kept duplicate-free so that sequences of branches do not blow up *)
Fixpoint dedup (l : list out) : list out :=
  match l with
  | [] => []
  | a :: r => let r' := dedup r in if existsb (out_eqb a) r' then r' else a :: r'
  end.

Section Outs.
Variable call : Z -> held -> list fout.   (* outcomes of a call, one level less deep *)

Fixpoint outs (p : prog) (h : held) (ds : defers) : list out :=
  match p with
  | PSkip => [ONorm h ds]
  | POp o => match do_op o h with Some h' => [ONorm h' ds] | None => [OBad] end
  | PDefer os => [ONorm h (os :: ds)]
  | PCall f => map (fun fo => lift fo ds) (call f h)
  | PSend c => if send_ok allow c h then [ONorm h ds] else [OBad]
  | PClose c => if close_ok allow c h then [ONorm h ds] else [OBad]
  | PPanic => [ONorm h ds; OPan h ds]
  | PSeq p q =>
      dedup (flat_map (fun o => match o with ONorm h1 ds1 => outs q h1 ds1 | _ => [o] end) (outs p h ds))
  | PAlt p q => dedup (outs p h ds ++ outs q h ds)
  | PLoop p =>
      let bo := outs p h ds in
      if forallb (neutral h ds) bo then ONorm h ds :: filter (fun o => negb (is_norm o)) bo else [OBad]
  | PBlock l p =>
      map (fun o => match o with
                    | OBrk l' h1 ds1 => if l' =? l then ONorm h1 ds1 else o
                    | _ => o
                    end) (outs p h ds)
  | PBrk l => [OBrk l h ds]
  | PRet => [ORet h ds]
  end.

Definition finish (o : out) : fout :=
  match o with
  | ONorm h ds | ORet h ds => match run_defers ds h with Some h' => FNorm h' | None => FBad end
  | OPan h ds => match run_defers ds h with Some h' => FPan h' | None => FBad end
  | OBad | OBrk _ _ _ => FBad
  end.
End Outs.

(* calls inlined to depth n over the generated call graph *)
Fixpoint fouts (n : nat) (f : Z) (h : held) : list fout :=
  match n with
  | O => [FBad]
  | S n' =>
      match funs f with
      | None => [FBad]
      | Some body => map finish (outs (fouts n') body h [])
      end
  end.

Definition released (fo : fout) : bool :=
  match fo with FNorm [] | FPan [] => true | _ => false end.

(* every entry point, started with no lock held: every outcome is a return or a (contained)
   panic with no lock held *)
Definition paths_ok (n : nat) (entries : list Z) : bool :=
  forallb (fun f => forallb released (fouts n f [])) entries.
End Sem.

(* helpers used by the generated file to write bodies as lists *)
Fixpoint pseq (l : list prog) : prog :=
  match l with [] => PSkip | [p] => p | p :: r => PSeq p (pseq r) end.
Fixpoint palt (l : list prog) : prog :=
  match l with [] => PSkip | [p] => p | p :: r => PAlt p (palt r) end.

Fixpoint flookup (fs : list (Z * prog)) (f : Z) : option prog :=
  match fs with
  | [] => None
  | (g, b) :: r => if g =? f then Some b else flookup r f
  end.

(* interceptor chains of a gRPC server (Gen/Interceptors.v): the recovery interceptor must be
   in both the unary and the stream chain of the peer-facing server *)
Definition str := list Z.
Fixpoint zlist_eqb (a b : list Z) : bool :=
  match a, b with
  | [], [] => true
  | x :: a', y :: b' => (x =? y) && zlist_eqb a' b'
  | _, _ => false
  end.
Definition chain_has (name : str) (chain : list str) : bool := existsb (zlist_eqb name) chain.
