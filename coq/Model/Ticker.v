(* Model of /repo/internal/chain/beacon/ticker.go: the beacon ticker.
   Executable definitions only (no proofs here).

   The ticker reads the node's clock when it wakes up at the first round boundary and takes the
   time stamp of every tick of its period ticker (a clock reading made when that tick was
   generated: it may be consumed late, after a stall of the process); it announces
   (CurrentRound(stamp), stamp) to every registered channel whose start time is not after the
   stamp.  Handler.Start registers its channel with ChannelAt(genesis), Handler.Catchup with
   ChannelAt(time of the next round): both are at or after genesis.

   The clock of the model is the node's OWN clock ([k_now]); it never goes back (a reading made
   earlier is never larger than a reading made later), but it may stall or jump forward, and the
   timers that wake the ticker are not assumed to be in step with it. *)
From Coq Require Import ZArith List Bool.
From DV Require Import Model.Time.
Import ListNotations.
Open Scope Z_scope.

Record tk := mkTk {
  k_now : Z;            (* latest reading of the node's clock *)
  k_chans : list Z      (* start time of every registered channel, in registration order *)
}.

Inductive tkev :=
| KClock (now' : Z)     (* the clock is read again: it never goes back *)
| KChan (startAt : Z)   (* Channel() / ChannelAt(startAt) *)
| KFire (stamp : Z).    (* a wake-up / tick is consumed; its stamp is a clock reading made at or
                           before this moment (a larger value is cut down to the clock: the code
                           has no other source for a stamp than the clock) *)

Record tick := mkTick { tk_chan : nat; tk_round : Z; tk_time : Z }.

Fixpoint deliveries_from (p g t : Z) (i : nat) (chans : list Z) : list tick :=
  match chans with
  | [] => []
  | a :: rest =>
      (if a <=? t then [mkTick i (current_round t p g) t] else [])
      ++ deliveries_from p g t (S i) rest
  end.

Definition kstep (p g : Z) (s : tk) (e : tkev) : tk * list tick :=
  match e with
  | KClock n => (mkTk (Z.max (k_now s) n) (k_chans s), [])
  | KChan a => (mkTk (k_now s) (k_chans s ++ [a]), [])
  | KFire stamp => (s, deliveries_from p g (Z.min stamp (k_now s)) 0 (k_chans s))
  end.

(* a run, with the clock reading at the moment of each delivery *)
Fixpoint krun (p g : Z) (s : tk) (es : list tkev) : tk * list (tick * Z) :=
  match es with
  | [] => (s, [])
  | e :: es' =>
      let '(s1, ds) := kstep p g s e in
      let '(s2, rest) := krun p g s1 es' in
      (s2, map (fun d => (d, k_now s1)) ds ++ rest)
  end.
