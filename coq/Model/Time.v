(* Model of /repo/common/time.go: TimeOfRound, NextRound, CurrentRound.
   Executable definitions only (no proofs here).
   Periods are whole seconds [p]; Go's fixed widths are written explicitly:
   uint64 arithmetic is [mod 2^64], int64(uint64) is [to_int64], int64 addition
   wraps through [wrap_int64]. *)
From Coq Require Import ZArith Bool.
Open Scope Z_scope.

Definition two64 : Z := 2 ^ 64.
Definition two63 : Z := 2 ^ 63.
Definition max_int64 : Z := two63 - 1.
Definition max_uint64 : Z := two64 - 1.

(* timeBufferBits is read from the source by the translator (Gen/Consts.v) and the
   model is parametric in it. *)
Definition max_time_buffer (bits : Z) : Z := 2 ^ bits.
Definition err_val (bits : Z) : Z := max_int64 - max_time_buffer bits.

(* int64(x) for x a uint64 value *)
Definition to_int64 (x : Z) : Z := if x <? two63 then x else x - two64.
(* int64 addition result reduced to the int64 range *)
Definition wrap_int64 (x : Z) : Z := to_int64 (x mod two64).
(* uint64(x) for x an int64 value *)
Definition to_uint64 (x : Z) : Z := x mod two64.

Definition time_of_round (bits p g r : Z) : Z :=
  if r =? 0 then g else
  if p <? 0 then err_val bits else
  let pbits := Z.log2 (p + 1) in
  if r >=? Z.shiftr max_uint64 (pbits + 2) then err_val bits else
  let delta := ((r - 1) * p) mod two64 in
  let val := wrap_int64 (g + to_int64 delta) in
  if val >? err_val bits then err_val bits else val.

(* NextRound with the division done on integers (Z floor division) *)
Definition next_round (now p g : Z) : Z * Z :=
  if now <? g then (1, g) else
  let from := now - g in
  let nr := (from / p + 1) mod two64 in
  let nt := wrap_int64 (g + to_int64 ((nr * p) mod two64)) in
  ((nr + 1) mod two64, nt).

Definition current_round (now p g : Z) : Z :=
  let nr := fst (next_round now p g) in
  if nr <=? 1 then nr else nr - 1.
