(* Serving side of a node, as far as C01 needs it: /repo/internal/core/drand_beacon_public.go
   PublicRand (round 0 = latest, otherwise the exact round from the store), the stream item and
   proxy conversions (randomness derived from the signature of the beacon that is carried). *)
From Coq Require Import ZArith List Bool.
From DV Require Import Model.Node.
Import ListNotations.
Open Scope Z_scope.

Definition get_round (ch : list beacon) (r : Z) : option beacon :=
  find (fun b => b_round b =? r) ch.

(* PublicRand: the answer for a request of round r, from a chain stored newest first *)
Definition public_rand (ch : list beacon) (r : Z) : option beacon :=
  if r =? 0 then hd_error ch else get_round ch r.

(* a response as put on the wire: round, signature, previous signature, randomness *)
Record response := mkR { rs_round : Z; rs_sig : Z; rs_prev : Z; rs_rand : Z }.

Section Rand.
  Variable h256 : Z -> Z.   (* sha256 on byte-string identifiers *)
  Definition to_response (b : beacon) : response :=
    mkR (b_round b) (b_sig b) (b_prev b) (h256 (b_sig b)).
End Rand.
