(* NextRound as the code computes it (/repo/common/time.go): the number of elapsed periods is
   uint64(math.Floor(float64(now-genesis) / period.Seconds())), an IEEE-754 binary64 division
   (Flocq's executable binary64), not an integer division.  For whole-second periods
   period.Seconds() is float64(seconds) exactly. *)
From Coq Require Import ZArith.
From Flocq Require Import Core IEEE754.BinarySingleNaN.
From DV Require Import Model.Time.
Open Scope Z_scope.

Definition prec := 53%Z.
Definition emax := 1024%Z.
Lemma Hprec : Prec_gt_0 prec. Proof. reflexivity. Qed.
Lemma Hmax : Prec_lt_emax prec emax. Proof. reflexivity. Qed.
Definition b64 := binary_float prec emax.
(* float64(z) for an integer z *)
Definition of_Z (z : Z) : b64 := binary_normalize prec emax Hprec Hmax mode_NE z 0 false.
(* uint64(math.Floor(float64(a) / float64(b))) for non-negative operands *)
Definition fdiv_floor (a b : Z) : Z := Btrunc (@Bdiv prec emax Hprec Hmax mode_NE (of_Z a) (of_Z b)).

Definition next_round_f (now p g : Z) : Z * Z :=
  if now <? g then (1, g) else
  let from := now - g in
  let nr := (fdiv_floor from p + 1) mod two64 in
  let nt := wrap_int64 (g + to_int64 ((nr * p) mod two64)) in
  ((nr + 1) mod two64, nt).

Definition current_round_f (now p g : Z) : Z :=
  let nr := fst (next_round_f now p g) in
  if nr <=? 1 then nr else nr - 1.
