(* Model of what drand adds around kyber's Pedersen DKG when a key generation or a resharing
   is executed:
     /repo/internal/util/participant_utils.go : SortedByPublicKey, ToNode, ToKeyNode, TryMapEach
     /repo/internal/dkg/execution.go          : setupDKG, initialDKGConfig, reshareDKGConfig,
                                                startDKGExecution (final node list, transition
                                                time), asGroup
     /repo/common/key/group.go                : Group, Group.Hash (write order, in-place sort by
                                                index), DKGNodes
   Executable definitions only (no proofs here).  Byte strings are [list Z]; kyber's DKG itself
   is a black box whose outputs (QUAL, commits, share) are inputs of these functions. *)
From Coq Require Import ZArith List Bool Sorting.Permutation Sorting.Sorted.
From DV Require Import Model.Time.
Import ListNotations.
Open Scope Z_scope.

Definition bytes := list Z.

(* ---- Go's string comparison [string(a) < string(b)]: lexicographic on bytes, a proper
        prefix is smaller ---- *)
Fixpoint bytes_cmp (a b : bytes) : comparison :=
  match a, b with
  | [], [] => Eq
  | [], _ :: _ => Lt
  | _ :: _, [] => Gt
  | x :: a', y :: b' =>
      match x ?= y with
      | Eq => bytes_cmp a' b'
      | c => c
      end
  end.

Definition bytes_ltb (a b : bytes) : bool :=
  match bytes_cmp a b with Lt => true | _ => false end.
Definition bytes_leb (a b : bytes) : bool :=
  match bytes_cmp a b with Gt => false | _ => true end.
Definition bytes_eqb (a b : bytes) : bool :=
  match bytes_cmp a b with Eq => true | _ => false end.
Definition bytes_le (a b : bytes) : Prop := bytes_cmp a b <> Gt.

(* ---- generic insertion sort on a key projection ---- *)
Section Sort.
  Context {A K : Type} (key : A -> K) (leb : K -> K -> bool).
  Fixpoint insert_by (x : A) (l : list A) : list A :=
    match l with
    | [] => [x]
    | y :: l' => if leb (key x) (key y) then x :: l else y :: insert_by x l'
    end.
  Fixpoint sort_by (l : list A) : list A :=
    match l with
    | [] => []
    | x :: l' => insert_by x (sort_by l')
    end.
  Fixpoint sortedb (l : list A) : bool :=
    match l with
    | [] => true
    | x :: l' =>
        match l' with
        | [] => true
        | y :: _ => leb (key x) (key y) && sortedb l'
        end
    end.
End Sort.

(* ---- participants (protobuf dkg.Participant) ---- *)
Record participant := mkP {
  p_addr : bytes;
  p_key : bytes;
  p_sig : bytes;
  p_key_ok : bool   (* oracle: the key bytes unmarshal to a point of the key group in use *)
}.

Definition participant_eqb (a b : participant) : bool :=
  bytes_eqb (p_addr a) (p_addr b) && bytes_eqb (p_key a) (p_key b) &&
  bytes_eqb (p_sig a) (p_sig b) && Bool.eqb (p_key_ok a) (p_key_ok b).

(* SortedByPublicKey: Go's sort.Slice is not stable, so in general the result is only known
   to be SOME ascending permutation of the input (a relation) ... *)
Definition key_le (a b : participant) : Prop := bytes_le (p_key a) (p_key b).
Definition sorted_by_key (input output : list participant) : Prop :=
  Permutation input output /\ StronglySorted key_le output.
(* ... and with pairwise distinct keys it is this function (proved in DKGExecProofs) *)
Definition sort_by_key (l : list participant) : list participant :=
  sort_by p_key bytes_leb l.
Definition sorted_by_keyb (l : list participant) : bool := sortedb p_key bytes_leb l.

(* multiset equality of participant lists, decided by removing elements one by one *)
Fixpoint remove_first (x : participant) (l : list participant) : option (list participant) :=
  match l with
  | [] => None
  | y :: l' => if participant_eqb x y then Some l'
               else match remove_first x l' with Some r => Some (y :: r) | None => None end
  end.
Fixpoint same_multiset (a b : list participant) : bool :=
  match a with
  | [] => match b with [] => true | _ => false end
  | x :: a' => match remove_first x b with Some b' => same_multiset a' b' | None => false end
  end.
(* executable form of the relation, used by the correspondence on inputs with repeated keys *)
Definition sorted_by_key_check (input output : list participant) : bool :=
  same_multiset input output && sorted_by_keyb output.

(* ---- the part of dkg.DBState that the execution reads ---- *)
Record node := mkN { n_index : Z; n_key : bytes; n_addr : bytes; n_sig : bytes }.

Record group := mkG {
  g_id : bytes;
  g_threshold : Z;
  g_period : Z;            (* seconds *)
  g_scheme : bytes;
  g_catchup : Z;           (* seconds *)
  g_genesis_time : Z;
  g_genesis_seed : bytes;
  g_transition_time : Z;
  g_nodes : list node;
  g_public : list bytes    (* coefficients of the distributed public polynomial *)
}.

Record dstate := mkS {
  st_beacon_id : bytes;
  st_epoch : Z;
  st_threshold : Z;
  st_scheme : bytes;
  st_scheme_ok : bool;     (* oracle: crypto.GetSchemeByID finds the scheme *)
  st_genesis_time : Z;
  st_genesis_seed : bytes;
  st_catchup : Z;
  st_period : Z;
  st_remaining : list participant;
  st_joining : list participant;
  st_final_group : option group    (* group of the previous epoch (or the joiner's group file) *)
}.

Inductive exec_err := EBadScheme | EBadKey | EIndexRange | ENoParticipants.
Inductive res (A : Type) := Ok (a : A) | Err (e : exec_err).
Arguments Ok {A}. Arguments Err {A}.

(* append(current.Remaining, current.Joining...) then SortedByPublicKey *)
Definition all_participants (st : dstate) : list participant := st_remaining st ++ st_joining st.
Definition sorted_participants (st : dstate) : list participant := sort_by_key (all_participants st).

(* util.TryMapEach(sorted, ToNode(index, p, sch)): dkg.Node{Index: position, Public: key};
   the first key that does not unmarshal aborts with ErrInvalidKeyScheme *)
Fixpoint to_dkg_nodes (i : Z) (l : list participant) : res (list (Z * bytes)) :=
  match l with
  | [] => Ok []
  | p :: l' =>
      if p_key_ok p then
        match to_dkg_nodes (i + 1) l' with
        | Ok r => Ok ((i, p_key p) :: r)
        | Err e => Err e
        end
      else Err EBadKey
  end.

(* index i |-> sorted[i] : the DKG index of every participant *)
Definition dkg_nodes (st : dstate) : res (list (Z * bytes)) := to_dkg_nodes 0 (sorted_participants st).

(* Group.DKGNodes *)
Definition group_dkg_nodes (g : group) : list (Z * bytes) :=
  map (fun n => (n_index n, n_key n)) (g_nodes g).

(* the fields of kyber's dkg.Config that drand chooses *)
Record dkg_config := mkC {
  c_new_nodes : list (Z * bytes);
  c_old_nodes : list (Z * bytes);
  c_public_coeffs : list bytes;
  c_threshold : Z;
  c_old_threshold : Z;
  c_has_share : bool
}.

(* setupDKG: lastCompleted = nil -> initialDKGConfig (a joiner of a running network carries the
   group file in current.FinalGroup), otherwise reshareDKGConfig with the finished state
   [last_completed = (final group, threshold) of the finished DBState];  newEchoBroadcast refuses
   an empty participant list *)
Definition setup_dkg (st : dstate) (last_completed : option (group * Z)) : res dkg_config :=
  match dkg_nodes st with
  | Err e => Err e
  | Ok nn =>
      let cfg :=
        match last_completed with
        | None =>
            match st_final_group st with
            | Some g => mkC nn (group_dkg_nodes g) (g_public g) (st_threshold st) (g_threshold g) false
            | None => mkC nn [] [] (st_threshold st) 0 false
            end
        | Some (g, pthr) => mkC nn (group_dkg_nodes g) (g_public g) (st_threshold st) pthr true
        end in
      match nn with [] => Err ENoParticipants | _ => Ok cfg end
  end.

(* startDKGExecution: finalGroup = [config.NewNodes[v.Index] for v in QUAL] *)
Fixpoint nth_z {A} (l : list A) (i : Z) : option A :=
  match l with
  | [] => None
  | x :: l' => if i =? 0 then Some x else if i <? 0 then None else nth_z l' (i - 1)
  end.

Fixpoint final_nodes (new_nodes : list (Z * bytes)) (qual : list Z) : res (list (Z * bytes)) :=
  match qual with
  | [] => Ok []
  | v :: q' =>
      match nth_z new_nodes v with
      | None => Err EIndexRange
      | Some nd =>
          match final_nodes new_nodes q' with
          | Ok r => Ok (nd :: r)
          | Err e => Err e
          end
      end
  end.

(* util.ToKeyNode(v.Index, allSortedParticipants[v.Index], scheme) for v in finalNodes, in order *)
Fixpoint key_nodes (sorted : list participant) (idxs : list Z) : res (list node) :=
  match idxs with
  | [] => Ok []
  | v :: q' =>
      match nth_z sorted v with
      | None => Err EIndexRange
      | Some p =>
          if p_key_ok p then
            match key_nodes sorted q' with
            | Ok r => Ok (mkN v (p_key p) (p_addr p) (p_sig p) :: r)
            | Err e => Err e
            end
          else Err EBadKey
      end
  end.

(* Group.Hash: the inputs written into the hash, in write order.  The nodes are first sorted IN
   PLACE by index (sort.Slice), which the caller's slice sees. *)
Definition sort_nodes_by_index (l : list node) : list node := sort_by n_index Z.leb l.

Record hash_input := mkH {
  h_nodes : list (Z * bytes);   (* (index, key) ascending by index *)
  h_threshold : Z;
  h_genesis_time : Z;
  h_transition_time : Z;        (* written only when non-zero *)
  h_public : list bytes;
  h_id : bytes                  (* written only when not the default id *)
}.

Definition group_hash_input (g : group) : hash_input :=
  mkH (map (fun n => (n_index n, n_key n)) (sort_nodes_by_index (g_nodes g)))
      (g_threshold g) (g_genesis_time g) (g_transition_time g) (g_public g) (g_id g).

(* asGroup.  [H] stands for BLAKE2b-256 over the serialised hash input; [defsch] is
   crypto.DefaultSchemeID (GetSchemeByID maps "" to it); [commits] = keyShare.Commits;
   [idxs] = the .Index of the final dkg nodes in QUAL order. *)
Definition as_group (H : hash_input -> bytes) (defsch : bytes) (st : dstate)
           (commits : list bytes) (idxs : list Z) (ttime : Z) : res group :=
  if negb (st_scheme_ok st) then Err EBadScheme else
  match key_nodes (sorted_participants st) idxs with
  | Err e => Err e
  | Ok nodes =>
      let sch := match st_scheme st with [] => defsch | s => s end in
      let g := mkG (st_beacon_id st) (st_threshold st) (st_period st) sch (st_catchup st)
                   (st_genesis_time st) (st_genesis_seed st) ttime nodes commits in
      match st_genesis_seed st with
      | [] =>
          (* group.GenesisSeed = group.Hash(): Hash sorts group.Nodes by index in place *)
          let nodes' := sort_nodes_by_index nodes in
          Ok (mkG (st_beacon_id st) (st_threshold st) (st_period st) sch (st_catchup st)
                  (st_genesis_time st) (H (group_hash_input g)) ttime nodes' commits)
      | _ => Ok g
      end
  end.

(* startDKGExecution: the transition time, computed from the node's own clock at the instant
   kyber reports the result.  [rut] = roundsUntilTransition (Gen/Consts.v); the addition is on
   uint64. *)
Definition transition_time (bits rut now : Z) (st : dstate) : Z :=
  if st_epoch st =? 1 then st_genesis_time st
  else
    let cr := current_round now (st_period st) (st_genesis_time st) in
    time_of_round bits (st_period st) (st_genesis_time st) ((cr + rut) mod two64).

(* the whole drand-side computation of one node once the black box has answered *)
Definition finish_dkg (H : hash_input -> bytes) (defsch : bytes) (bits rut : Z) (st : dstate)
           (commits : list bytes) (qual : list Z) (now : Z) : res group :=
  match dkg_nodes st with
  | Err e => Err e
  | Ok nn =>
      match final_nodes nn qual with
      | Err e => Err e
      | Ok fn => as_group H defsch st commits (map fst fn) (transition_time bits rut now st)
      end
  end.

(* ---- echo broadcast (internal/dkg/broadcast.go): who is sent a bundle ----
   newDispatcher makes one sender per participant of the sorted list other than the node itself;
   broadcastDirect (a node's own bundles) and broadcast (the re-send of every bundle seen for the
   first time) loop over [rand.Perm(len(d.senders))].  The shape of the three loops is read from
   the source on every run by the dkgrun engine ([DEcho] case of Corr/DKGExecCorr.v). *)
Inductive loop_range :=
| AllSenders                 (* rand.Perm(len(d.senders)) *)
| AllButLast (k : Z)         (* rand.Perm(len(d.senders) - k) *)
| UnknownRange.              (* anything else *)

Record dispatcher_shape := mkD {
  d_one_sender_per_other : bool;   (* newDispatcher: range over [to], skip exactly [node.Address == us] *)
  d_echo : loop_range;             (* dispatcher.broadcast *)
  d_direct : loop_range            (* dispatcher.broadcastDirect *)
}.

Definition dispatcher_senders (sorted : list participant) (own_addr : bytes) : list participant :=
  filter (fun p => negb (bytes_eqb (p_addr p) own_addr)) sorted.

Definition loop_targets (r : loop_range) (senders : list participant) : list participant :=
  match r with
  | AllSenders => senders
  | AllButLast k => firstn (Z.to_nat (Z.of_nat (length senders) - k)) senders
  | UnknownRange => []
  end.

Definition echo_targets (s : dispatcher_shape) (sorted : list participant) (own_addr : bytes) :=
  if d_one_sender_per_other s then loop_targets (d_echo s) (dispatcher_senders sorted own_addr) else [].
Definition direct_targets (s : dispatcher_shape) (sorted : list participant) (own_addr : bytes) :=
  if d_one_sender_per_other s then loop_targets (d_direct s) (dispatcher_senders sorted own_addr) else [].

Definition is_all_senders (r : loop_range) : bool :=
  match r with AllSenders => true | _ => false end.
Definition shape_ok (s : dispatcher_shape) : bool :=
  d_one_sender_per_other s && is_all_senders (d_echo s) && is_all_senders (d_direct s).

(* ---- the phaser of startDKGExecution (internal/dkg/execution.go) ----
   kyber's TimePhaser ends each DKG phase after a fixed duration; startDKGExecution builds it with
   [dkg.NewTimePhaser(<config field>)].  Which field is read from the source on every run by the
   dkgrun engine ([DPhaser] case of Corr/DKGExecCorr.v). *)
Inductive phaser_source :=
| PhTimeBetweenDKGPhases     (* d.config.TimeBetweenDKGPhases *)
| PhKickoffGracePeriod       (* d.config.KickoffGracePeriod *)
| PhOther.                   (* anything else *)

Record dkg_timing := mkT { t_phase : Z; t_grace : Z }.   (* the node's dkg.Config, any unit *)

Definition phaser_period (src : phaser_source) (c : dkg_timing) : Z :=
  match src with
  | PhTimeBetweenDKGPhases => t_phase c
  | PhKickoffGracePeriod => t_grace c
  | PhOther => 0
  end.

(* a bundle that reaches a holder [delay] after the holder entered the phase it belongs to is
   still processed in that phase iff the phaser has not ticked yet *)
Definition arrives_in_phase (src : phaser_source) (c : dkg_timing) (delay : Z) : bool :=
  delay <? phaser_period src c.

Definition phaser_ok (src : phaser_source) : bool :=
  match src with PhTimeBetweenDKGPhases => true | _ => false end.
