(* Model of /repo/internal/dkg/actions_signing.go: messageForSigning (field write order),
   verifyMessage (key looked up in the terms of the NEXT state by metadata.Address among
   Remaining ++ Joining), and the instantiation of the process step of Model/DKGState.v with it.
   Definitions only.  The signature scheme is an abstract [verify pk msg sig] (Section variable). *)
From Coq Require Import ZArith List Bool String Ascii.
From DV Require Import Gen.DKGTable Model.DKGState.
Import ListNotations.
Open Scope Z_scope.

Fixpoint bytes_of_string (s : string) : bytes :=
  match s with
  | EmptyString => []
  | String c s' => Z.of_N (N_of_ascii c) :: bytes_of_string s'
  end.

Definition nl : Z := 10.

(* little-endian / big-endian fixed-width encodings (two's complement for negative x) *)
Fixpoint le_bytes (n : nat) (x : Z) : bytes :=
  match n with
  | O => []
  | S n' => x mod 256 :: le_bytes n' (x / 256)
  end.
Definition be_bytes (n : nat) (x : Z) : bytes := rev (le_bytes n x).
(* binary.LittleEndian.AppendUint32 *)
Definition le32 (x : Z) : bytes := le_bytes 4 x.

(* time.Time.MarshalBinary of a UTC time (what timestamppb.AsTime() returns): version 1,
   seconds since year 1 (int64 BE), nanoseconds (int32 BE), zone offset -1 (UTC) *)
Definition unix_to_internal : Z := 62135596800.
Definition enc_time (t : Z) : bytes :=
  1 :: be_bytes 8 (unix t + unix_to_internal) ++ be_bytes 4 (t mod 1000000000) ++ [255; 255].

Definition s_beaconID := Eval compute in bytes_of_string "beaconID:".
Definition s_proposal := Eval compute in bytes_of_string "Proposal:".
Definition s_leader := Eval compute in bytes_of_string "Leader:".
Definition s_accepted := Eval compute in bytes_of_string "Accepted:".
Definition s_rejected := Eval compute in bytes_of_string "Rejected:".
Definition s_aborted := Eval compute in bytes_of_string "Aborted:".
Definition s_execute := Eval compute in bytes_of_string "Execute:".
Definition s_gossip := Eval compute in bytes_of_string "Gossip packet".
Definition s_scheme := Eval compute in bytes_of_string "Scheme: ".
Definition s_joiner := Eval compute in bytes_of_string "Joiner:".
Definition s_remainer := Eval compute in bytes_of_string "Remainer:".
Definition s_leaver := Eval compute in bytes_of_string "Leaver:".
Definition s_sig := Eval compute in bytes_of_string "Sig:".

(* "\n<Tag>:" ++ address ++ "\nSig:" ++ signature *)
Definition enc_entry (tag : bytes) (p : participant) : bytes :=
  nl :: tag ++ p_addr p ++ nl :: s_sig ++ p_sig p.
Definition enc_entries (tag : bytes) (l : list participant) : bytes :=
  List.concat (map (enc_entry tag) l).

(* the packet-type dependent prefix *)
Definition msg_header (body : pkt) : bytes :=
  match body with
  | PProposal t =>
    s_proposal ++ t_beacon t ++ [nl] ++ le32 (t_epoch t) ++ [nl] ++ s_leader
      ++ p_addr (getp (t_leader t)) ++ [nl] ++ p_sig (getp (t_leader t))
  | PAccept a => s_accepted ++ p_addr (getp a) ++ [nl]
  | PReject r => s_rejected ++ p_addr (getp r) ++ [nl]
  | PAbort reason => s_aborted ++ reason ++ [nl]
  | PExecute time => s_execute ++ enc_time time
  | PDkg => s_gossip
  | PNone => []   (* 16 random bytes in the code; unreachable: Apply fails first *)
  end.

(* the part written from the proposal terms *)
Definition msg_terms (t : terms) : bytes :=
  s_proposal ++ [nl] ++ t_beacon t ++ [nl] ++ le32 (t_epoch t) ++ [nl] ++ s_leader
    ++ p_addr (getp (t_leader t)) ++ [nl] ++ p_sig (getp (t_leader t))
    ++ le32 (t_threshold t) ++ enc_time (t_timeout t)
    ++ le32 (t_catchup t) ++ le32 (t_period t)
    ++ [nl] ++ s_scheme ++ t_scheme t ++ [nl]
    ++ enc_time (t_genesis_time t)
    ++ enc_entries s_joiner (t_joining t)
    ++ enc_entries s_remainer (t_remaining t)
    ++ enc_entries s_leaver (t_leaving t).

(* messageForSigning(beaconID, packet, proposal) *)
Definition message_for_signing (beacon : bytes) (body : pkt) (t : terms) : bytes :=
  s_beaconID ++ beacon ++ [nl] ++ msg_header body ++ msg_terms t.

Section Sign.
  (* AuthScheme.Verify(pubPoint, msg, sig) on the unmarshalled key *)
  Variable verify : bytes -> bytes -> bytes -> bool.
  Variable joiner_ok : bytes -> participant -> bool.
  Variable key_ok : bytes -> bool.

  Definition find_by_addr (l : list participant) (a : bytes) : option participant :=
    find (fun p => bytes_eqb (p_addr p) a) l.

  (* Process.verifyMessage *)
  Definition verify_message (p : gpacket) (t : terms) : option err :=
    let md := match gp_md p with Some m => m | None => mkMd [] [] [] end in
    match find_by_addr (t_remaining t ++ t_joining t) (md_addr md) with
    | None => Some ESigNoParticipant
    | Some signer =>
      if negb (key_ok (p_key signer)) then Some EInvalidKeyScheme else
      if verify (p_key signer) (message_for_signing (md_beacon md) (gp_body p) t) (md_sig md)
      then None else Some ESigInvalid
    end.

  (* the process step with the real verifyMessage plugged in *)
  Definition pstep := step joiner_ok key_ok verify_message.
  Definition prun := run joiner_ok key_ok verify_message.
  Definition ppacket_step := packet_step joiner_ok key_ok verify_message.
  Definition pcommand_step := command_step joiner_ok key_ok.
End Sign.
