(* What a node accepts as its next group (/repo/internal/core/drand_beacon_control.go:
   validateGroupTransition, called by transitionToNext and joinNetwork before the new group and
   share are stored and handed to the beacon handler) and the chain information derived from a
   group (common/chain/info.go NewChainInfo).  Identifiers and byte strings are abstract [Z];
   beacon ids are tokens with 0 = "" and 1 = "default" (canonical form: "default"). *)
From Coq Require Import ZArith List Bool.
Import ListNotations.
Open Scope Z_scope.

Record ginfo := mkGI {
  gi_genesis : Z; gi_period : Z; gi_id : Z; gi_seed : Z;
  gi_pk : Z;            (* distributed public key = commits[0] *)
  gi_scheme : Z;
  gi_transition : Z;
  gi_thr : Z; gi_nodes : list Z
}.

Definition canon_id (i : Z) : Z := if i =? 0 then 1 else i.

Inductive vt_res := VtOk | VtNilNew | VtGenesis | VtPeriod | VtID | VtSeed | VtPast.

Definition validate_transition (old new : option ginfo) (now : Z) : vt_res :=
  match old, new with
  | None, None => VtNilNew
  | None, Some _ => VtOk
  | Some _, None => VtNilNew   (* the Go code would dereference nil; callers never pass nil here *)
  | Some o, Some n =>
      if negb (gi_genesis o =? gi_genesis n) then VtGenesis else
      if negb (gi_period o =? gi_period n) then VtPeriod else
      if negb (canon_id (gi_id o) =? canon_id (gi_id n)) then VtID else
      if negb (gi_seed o =? gi_seed n) then VtSeed else
      if gi_transition n <? now then VtPast else VtOk
  end.

(* what clients pin: period, genesis time, public key, genesis seed, canonical id (the preimage
   of the chain hash, see C17), and the scheme *)
Definition chain_info (g : ginfo) : Z * Z * Z * Z * Z * Z :=
  (gi_period g, gi_genesis g, gi_pk g, gi_seed g, canon_id (gi_id g), gi_scheme g).

(* a node's group over a history of resharing outputs: an output replaces the group only if it
   passes validate_transition; a failed / aborted / timed-out resharing produces no output *)
Inductive reshare_ev := ROutput (g : ginfo) (now : Z) | RFailed.

Definition reshare_step (cur : ginfo) (e : reshare_ev) : ginfo :=
  match e with
  | ROutput g now => match validate_transition (Some cur) (Some g) now with VtOk => g | _ => cur end
  | RFailed => cur
  end.

(* ---- a node that was NOT in the previous group and is in the new one (joinNetwork) ----
   internal/core/drand_beacon.go joinNetwork: the output is stored, then the beacon is started:
   from scratch (Handler.Start, which refuses once the genesis time has passed) only after an
   INITIAL key generation (epoch 1); after any resharing the chain is already running and the
   joiner starts in catch-up mode (Handler.Catchup: sync first, never refuses) -- whether or not
   this node has ever completed a key generation before. *)
Inductive start_mode := SmStart | SmCatchup.
Definition join_mode (epoch : Z) : start_mode := if epoch =? 1 then SmStart else SmCatchup.
(* does the beacon loop run after the output of epoch [epoch] was handed over at time [now]? *)
Definition join_runs (epoch genesis now : Z) : bool :=
  match join_mode epoch with SmStart => now <=? genesis | SmCatchup => true end.

