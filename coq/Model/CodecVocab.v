(* Closed vocabulary in which the translator (harness/extract/mirrors.go) describes the
   hand-maintained conversion functions between a value and its stored / transmitted mirror
   (TOML structs, protobuf packets, JSON structs). Definitions only. *)
From Coq Require Import String ZArith List.
Import ListNotations.

Definition path := list string.

Inductive prim :=
| Copy                                  (* plain field copy / protobuf getter *)
| Hex | UnHex                           (* hex.EncodeToString / hex.DecodeString / HexBytes JSON *)
| DurStr | ParseDur | ParseDurOrZero    (* d.String() / time.ParseDuration / "" => 0 *)
| Secs32 | Secs64 | OfSecs              (* uintNN(d.Seconds()) / time.Duration(x) * time.Second *)
| UTC                                   (* t.UTC() *)
| Canon                                 (* common.GetCanonicalBeaconID *)
| SeedOrHash                            (* g.GetGenesisSeed(): the seed, or the group hash when nil *)
| PointStr | StrPoint | ScalarStr | StrScalar     (* key.PointToString ... *)
| PointBytes | BytesPoint               (* MarshalBinary / group.Point().UnmarshalBinary *)
| SchemeName | SchemeByID | SchemeFromName        (* sch.Name / crypto.GetSchemeByID / crypto.SchemeFromName *)
| CastU32 | CastU64 | CastI64 | CastInt
| IfNonZero | IfNonEmpty | IfNotNil     (* the assignment is guarded by src != 0 / != "" / != nil *)
| Field (f : string)                    (* projection out of a nested value *)
| OptField (f : string)                 (* if x != nil { ... x.f ... } *)
| WrapField (f : string)                (* dst = &T{f: v} *)
| WrapIfNonEmpty (f : string)           (* if len(l) > 0 { dst = &T{f: l} } *)
| Nested (m : string) | OptNested (m : string) | MapNested (m : string)   (* another mirror, by name *)
| MapPointStr | MapStrPoint | MapPointBytes | MapBytesPoint
| HashOf | HashStringOf                 (* x.Hash() / x.HashString() of the whole source value *)
| External (what : string)              (* does not come from the source value *)
| Unknown (src : string).               (* expression the translator does not recognise *)

Record entry := E { e_dst : path; e_ops : list prim; e_src : path }.
Definition mirror := list entry.

(* decode-side checks: `if a rel b { return error }` *)
Inductive cexpr :=
| CField (p : path) | CLen (p : path) | CMinT (e : cexpr) | CConst (z : Z)
| CHashString | CUnknown (src : string).
Inductive crel := RLt | RGt | REq | RNe.
(* conditions over source fields (a destination field is traced back to the source field it was
   copied from) *)
Inductive ccond :=
| CNonEmpty (p : path) | CEmpty (p : path)     (* x != "" / x == "" *)
| CNonNil (p : path)                           (* x != nil (a pointer to a struct: some member present) *)
| CNotC (c : ccond) | CAndC (a b : ccond)
| CCondUnknown (src : string).
Inductive chk :=
| ChkRejectIf (r : crel) (a b : cexpr)
| ChkIfNonEmpty (p : path) (c : chk)
| ChkIfLenPos (p : path) (c : chk)
| ChkIf (g : ccond) (c : chk)          (* the check is performed only under the condition g *)
| ChkHostPort (p : path)               (* net.SplitHostPort must succeed *)
| ChkScheme (how : prim) (p : path)    (* crypto.GetSchemeByID / SchemeFromName must succeed *)
| ChkExternal (src : string).          (* involves a value that is not part of the source *)

(* a legacy override of a decoder: when [o_cond] holds on the source value, the destination field
   of [o_entry] is re-assigned from another source field *)
Record override := O { o_cond : ccond; o_entry : entry }.

Record mirror_def := M {
  m_name : string;
  m_src_type : string; m_dst_type : string;
  m_src_leaves : list path; m_dst_leaves : list path;
  m_entries : mirror; m_checks : list chk; m_overrides : list override }.
