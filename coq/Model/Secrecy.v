(* Model for C15 (private keys and shares never leave the node; secret files owner-only).
   Executable definitions only (no proofs here).

   Part 1 - file modes. What decides the mode bits of a file in
   /repo/internal/fs/fs.go (CreateSecureFile), /repo/common/key/store.go (Save),
   /repo/internal/dkg/store.go (NewDKGStore: bolt.Open(path, BoltStoreOpenPerm)) and
   /repo/internal/chain/boltdb/store.go (bolt.Open(path, BoltStoreOpenPerm)):
     open(2) with O_CREAT gives a NEW file the mode [perm land (lnot umask)] and leaves the
     mode of an existing file alone; chmod(2) sets the mode regardless of the umask.
   Part 2 - exposure. Every modelled output constructor (response, packet, log record) is a list
   of fields; each field is computed from a list of source roots read off the Go source by the
   translator (Gen/Exposure.v). *)
From Coq Require Import ZArith List Bool String.
Import ListNotations.
Open Scope Z_scope.

(* ------------------------------------------------------------------------------------- *)
(* Part 1: file modes                                                                    *)

Definition go_bits : Z := 63.            (* 0o077: group and other permission bits *)
Definition os_create_perm : Z := 438.    (* 0o666: the constant os.Create passes to open(2) *)

(* one file's life: the system calls the code issues on it, in order *)
Inductive fop :=
| OCreate (perm : Z)     (* open(O_CREAT [|O_TRUNC]) with this perm: os.Create, bolt.Open *)
| OChmod (m : Z)         (* os.Chmod *)
| OOpen                  (* open without O_CREAT: never changes the mode *)
| OWrite.                (* content is written through the descriptor *)

Definition create_mode (perm umask : Z) : Z := Z.land perm (Z.lnot umask).

(* state of the file: None = absent, Some m = present with mode m *)
Definition fstep (umask : Z) (st : option Z) (o : fop) : option Z :=
  match o, st with
  | OCreate perm, None => Some (create_mode perm umask)
  | OCreate _, Some m => Some m
  | OChmod m, Some _ => Some m
  | OChmod _, None => None
  | OOpen, st => st
  | OWrite, st => st
  end.

(* the mode the file has at each moment content is written to it *)
Fixpoint modes_at_writes (umask : Z) (st : option Z) (ops : list fop) : list Z :=
  match ops with
  | [] => []
  | OWrite :: ops' =>
      match st with
      | Some m => m :: modes_at_writes umask st ops'
      | None => modes_at_writes umask st ops'
      end
  | o :: ops' => modes_at_writes umask (fstep umask st o) ops'
  end.

Fixpoint final_mode (umask : Z) (st : option Z) (ops : list fop) : option Z :=
  match ops with
  | [] => st
  | o :: ops' => final_mode umask (fstep umask st o) ops'
  end.

Definition owner_only (m : Z) : Prop := Z.land m go_bits = 0.
Definition owner_onlyb (m : Z) : bool := Z.land m go_bits =? 0.

(* fs.CreateSecureFile(file) followed by the TOML encoder writing into the returned handle:
   os.Create; Close; chmod rwFilePermission; os.OpenFile(O_RDWR, rwFilePermission); write *)
Definition secure_file_trace (rw_perm : Z) : list fop :=
  [OCreate os_create_perm; OChmod rw_perm; OOpen; OWrite].
(* key.Save(path, t, false): os.Create; write *)
Definition plain_file_trace : list fop := [OCreate os_create_perm; OWrite].
(* bolt.Open(path, perm, nil) then the first db.Update *)
Definition bolt_trace (perm : Z) : list fop := [OCreate perm; OWrite].

(* the files a node keeps, what they hold, and how the code creates them *)
Inductive nfile := FKeyPrivate | FKeyPublic | FShare | FGroup | FDkgDb | FChainDb.

(* does the file hold the long-term private key or a distributed key share?
   drand_id.private: Pair.TOML (Key); dist_key.private: Share.TOML (Share);
   dkg.db: DBState.TOML includes KeyShare for every finished epoch;
   drand.db: bucket "beacons" = (round, signature, previous signature) only: public outputs;
   drand_group.toml and drand_id.public: public data. *)
Definition file_secret (f : nfile) : bool :=
  match f with
  | FKeyPrivate | FShare | FDkgDb => true
  | FKeyPublic | FGroup | FChainDb => false
  end.

(* parameters are read from the source: the constants (Gen/Consts.v) and, for the four TOML
   files of the key store, the `secure` flag key.Save is called with (Gen/SaveFlags.v) *)
Definition file_trace (rw_perm dkg_perm chain_perm : Z) (secure : nfile -> bool) (f : nfile) : list fop :=
  match f with
  | FDkgDb => bolt_trace dkg_perm
  | FChainDb => bolt_trace chain_perm
  | _ => if secure f then secure_file_trace rw_perm else plain_file_trace
  end.

(* ------------------------------------------------------------------------------------- *)
(* Part 2: exposure                                                                      *)

Inductive cop := CSign | CPartialSign | CPkOf | CCommit | CEncDeal.

(* where a value that flows into an output field comes from *)
Inductive src :=
| SPub (path : list string)        (* public part of the node state *)
| SConst                           (* literal / constant / clock / fresh randomness *)
| SReq (path : list string)        (* the request or packet being handled, function inputs of public type *)
| SCrypto (op : cop) (args : list string)  (* result of a cryptographic operation over secrets *)
| SSec (path : list string)        (* rooted at a secret: long-term scalar, share, or a container holding one *)
| SUnknown (what : string).        (* a shape the translator did not recognise *)

Definition field : Type := (string * list src)%type.   (* field name, every root flowing into it *)
Definition ctor : Type := (string * list field)%type.   (* constructor (function.Type#n), fields *)

Definition value : Type := list Z.
Definition store : Type := list string -> value.
Record state := { pub : store; sec : store }.

(* everything the model does not fix: how crypto results, constants and the combination of a
   field's roots are computed. Theorems quantify over all of it. *)
Record sem := {
  crypto_val : cop -> list string -> state -> store -> value;
  const_val : value;
  combine : string -> string -> list value -> value
}.

Definition eval_src (S : sem) (s : state) (r : store) (x : src) : value :=
  match x with
  | SPub p => pub s p
  | SConst => const_val S
  | SReq p => r p
  | SCrypto op a => crypto_val S op a s r
  | SSec p => sec s p
  | SUnknown _ => sec s []       (* worst case: an unrecognised source may be the secret *)
  end.

Definition is_crypto (x : src) : bool := match x with SCrypto _ _ => true | _ => false end.
Definition is_crypto_field (f : field) : bool := existsb is_crypto (snd f).

Definition eval_field (S : sem) (s : state) (r : store) (c : string) (f : field) : value :=
  combine S c (fst f) (map (eval_src S s r) (snd f)).

(* what an observer sees of one constructor, with the crypto-op fields blanked *)
Definition output (S : sem) (s : state) (r : store) (c : ctor) : list (string * option value) :=
  map (fun f => (fst f, if is_crypto_field f then None else Some (eval_field S s r (fst c) f))) (snd c).

Definition src_ok (x : src) : bool :=
  match x with SSec _ | SUnknown _ => false | _ => true end.
Definition field_ok (f : field) : bool := forallb src_ok (snd f).
Definition ctor_ok (c : ctor) : bool := forallb field_ok (snd c).
Definition exposure_ok (e : list ctor) : bool := forallb ctor_ok e.

(* the offending (constructor, field) pairs, for replay files *)
Definition bad_fields (e : list ctor) : list (string * string) :=
  flat_map (fun c : ctor => map (fun f : field => (fst c, fst f)) (filter (fun f : field => negb (field_ok f)) (snd c))) e.

Definition count_fields (e : list ctor) : Z :=
  fold_right (fun c n => Z.of_nat (List.length (snd c)) + n) 0 e.
Definition count_crypto_fields (e : list ctor) : Z :=
  fold_right (fun c n => Z.of_nat (List.length (filter is_crypto_field (snd c))) + n) 0 e.
