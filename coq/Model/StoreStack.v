(* Model of the store wrapper stack of a beacon node (C02):
     /repo/internal/chain/beacon/store.go       appendStore.Put, schemeStore.Put,
                                                discrepancyStore.Put (pass-through), callbackStore.Put
     /repo/internal/chain/beacon/chainstore.go  newChainStore: callback(append(scheme(discrepancy(base)))),
                                                tryAppend
     /repo/internal/chain/beacon/sync_manager.go  tryNode's handling of ErrBeaconAlreadyStored
     /repo/internal/chain/beacon/node.go        NewHandler re-puts the genesis beacon on the raw store
   over a base store taken at the level of the C18 specification (Model/Backends.v): one
   ascending map round -> beacon with untrimmed-bolt, trimmed-bolt or ring semantics.
   Executable definitions only.

   One model step = one critical section of the implementation (a Put holds appendStore's mutex
   across the scheme store and the base store), so an event list is an arbitrary interleaving of
   the aggregation path (tryAppend), the sync path (Put) and restarts.
   Not modelled: uint64 wrap-around of last.Round+1 (rounds stay below 2^64-1). *)
From Coq Require Import ZArith List Bool.
From DV Require Import Model.Backends.
Import ListNotations.
Open Scope Z_scope.

(* ---------- the base store ---------- *)

Inductive bkind :=
| KBoltU              (* untrimmed bolt: the whole beacon is stored, re-put replaces *)
| KBoltT              (* trimmed bolt: only the signature is stored; previous signature rebuilt
                         from round-1 when the context requires it (= chained scheme) *)
| KMem (cap : Z).     (* memdb ring: re-put keeps, newest cap rounds *)

Definition bmap := smap (V := beacon).

(* what a trimmed store keeps of a beacon *)
Definition erase_prev (b : beacon) : beacon := mkB (b_round b) [] (b_sig b).

Definition base_put (k : bkind) (m : bmap) (b : beacon) : bmap :=
  match k with
  | KBoltU => sm_put m (b_round b) b
  | KBoltT => sm_put m (b_round b) (erase_prev b)
  | KMem cap => sm_trim cap (sm_put_keep m (b_round b) b)
  end.

(* reading entry e of the map; rp = requiresPrevious of the store's context *)
Definition base_view (k : bkind) (rp : bool) (m : bmap) (e : Z * beacon) : option beacon :=
  match k with
  | KBoltT =>
      let r := fst e in
      if rp && (0 <? r) then
        match sm_get m (r - 1) with
        | Some p => Some (mkB r (b_sig p) (b_sig (snd e)))
        | None => None
        end
      else Some (mkB r [] (b_sig (snd e)))
  | _ => Some (snd e)
  end.

Definition base_get (k : bkind) (rp : bool) (m : bmap) (r : Z) : option beacon :=
  match sm_get m r with Some v => base_view k rp m (r, v) | None => None end.

Definition base_last (k : bkind) (rp : bool) (m : bmap) : option beacon :=
  match zlast m with Some e => base_view k rp m e | None => None end.

(* for b, err := c.First(); err == nil; b, err = c.Next() *)
Fixpoint scan_outs (l : list (option beacon)) : list beacon :=
  match l with Some b :: l' => b :: scan_outs l' | _ => [] end.
Definition base_scan (k : bkind) (rp : bool) (m : bmap) : list beacon :=
  scan_outs (map (base_view k rp m) m).

(* does the base Put fail?  bolt returns ctx.Err() on a cancelled context, memdb ignores it *)
Definition inner_fails (k : bkind) (cancelled : bool) : bool :=
  match k with KMem _ => false | _ => cancelled end.

(* ---------- the stack ---------- *)

Inductive pres :=
| RStored
| RAlready          (* wraps ErrBeaconAlreadyStored *)
| RSamePrevDiff     (* same round and signature, different previous signature *)
| RSameSigDiff      (* same round, different signature *)
| RRound            (* neither last nor last+1 *)
| RPrev             (* chained: previous signature is not the last signature *)
| RInner.           (* the base store's Put failed *)

Record stack := mkStack {
  st_base : bmap;
  st_app_last : beacon;      (* appendStore.last *)
  st_sch_last : beacon;      (* schemeStore.last *)
  st_log : list beacon       (* ghost: beacons written to the base through the stack, in order *)
}.

Definition genesis (seed : list Z) : beacon := mkB 0 [] seed.

Section Node.
  Variable k : bkind.
  Variable chained : bool.     (* scheme is pedersen-bls-chained; the store context then requires
                                  the previous signature (core.createDBStore) *)
  Variable seed : list Z.

  (* newAppendStore(NewSchemeStore(newDiscrepancyStore(base))): both read base.Last *)
  Definition mk_stack (m : bmap) (log : list beacon) : option stack :=
    match base_last k chained m with
    | Some l => Some (mkStack m l l log)
    | None => None
    end.

  (* appendStore.Put before it calls the wrapped store *)
  Definition append_check (last b : beacon) : option pres :=
    if b_round b =? b_round last then
      if bytes_eqb (b_sig last) (b_sig b) then
        if bytes_eqb (b_prev last) (b_prev b) then Some RAlready else Some RSamePrevDiff
      else Some RSameSigDiff
    else if b_round b =? b_round last + 1 then None
    else Some RRound.

  (* schemeStore.Put before it calls the wrapped store: the beacon handed down, or the error.
     Unchained: the caller's beacon is modified in place (PreviousSig = nil); appendStore.last
     later aliases that stripped beacon. *)
  Definition scheme_check (last b : beacon) : pres + beacon :=
    if chained then
      if bytes_eqb (b_sig last) (b_prev b) then inr b else inl RPrev
    else inr (erase_prev b).

  (* callbackStore.Put -> appendStore.Put -> schemeStore.Put -> discrepancyStore.Put -> base.Put *)
  Definition stack_put (s : stack) (b : beacon) (cancelled : bool) : stack * pres :=
    match append_check (st_app_last s) b with
    | Some e => (s, e)
    | None =>
        match scheme_check (st_sch_last s) b with
        | inl e => (s, e)
        | inr b' =>
            if inner_fails k cancelled then (s, RInner)
            else (mkStack (base_put k (st_base s) b') b' b' (st_log s ++ [b']), RStored)
        end
    end.

  (* chainStore.tryAppend(last, newB): last is the aggregator's own view of the head *)
  Definition try_append (s : stack) (last b : beacon) (cancelled : bool) : stack * bool :=
    if cancelled then (s, false)
    else if b_round last + 1 =? b_round b then
      let '(s', r) := stack_put s b false in
      (s', match r with RStored | RAlready => true | _ => false end)
    else (s, false).

  (* SyncManager.tryNode after VerifyBeacon: Some true = go on with the next beacon,
     Some false / None as returned *)
  Inductive sync_res := SyncNext | SyncReturn (ok : bool).
  Definition sync_put (s : stack) (b : beacon) (up_to : Z) (cancelled : bool) : stack * sync_res :=
    let '(s', r) := stack_put s b cancelled in
    (s', match r with
         | RStored => SyncNext
         | RAlready => SyncReturn (b_round b =? up_to)
         | _ => SyncReturn false
         end).

  (* stop and start again: NewHandler puts the genesis beacon on the raw store, newChainStore
     rebuilds the wrappers from base.Last *)
  Definition restart (s : stack) : stack :=
    let m := base_put k (st_base s) (genesis seed) in
    match mk_stack m (st_log s) with Some s' => s' | None => s end.

  Definition init_stack : stack :=
    let m := base_put k [] (genesis seed) in
    match mk_stack m [] with
    | Some s => s
    | None => mkStack m (genesis seed) (genesis seed) []   (* unreachable *)
    end.

  Inductive sev :=
  | EPut (b : beacon) (cancelled : bool)                 (* any writer: Put on the stack *)
  | ETry (last b : beacon) (cancelled : bool)            (* aggregator: tryAppend *)
  | ESync (b : beacon) (up_to : Z) (cancelled : bool)    (* sync manager: tryNode's Put *)
  | ERestart.

  Inductive sres := ResPut (r : pres) | ResTry (ok : bool) | ResSync (r : sync_res) | ResDone.

  Definition sstep (s : stack) (e : sev) : stack * sres :=
    match e with
    | EPut b c => let '(s', r) := stack_put s b c in (s', ResPut r)
    | ETry l b c => let '(s', r) := try_append s l b c in (s', ResTry r)
    | ESync b u c => let '(s', r) := sync_put s b u c in (s', ResSync r)
    | ERestart => (restart s, ResDone)
    end.

  Fixpoint sexec (s : stack) (evs : list sev) : stack :=
    match evs with [] => s | e :: evs' => sexec (fst (sstep s e)) evs' end.

  (* observation after an event: result, full cursor scan, Last *)
  Definition observe (s : stack) : list beacon * option beacon :=
    (base_scan k chained (st_base s), base_last k chained (st_base s)).

  Fixpoint srun (s : stack) (evs : list sev) : list (sres * (list beacon * option beacon)) :=
    match evs with
    | [] => []
    | e :: evs' => let '(s', r) := sstep s e in (r, observe s') :: srun s' evs'
    end.

  (* the node's chain as it was written: genesis, then the log *)
  Definition chain_of (log : list beacon) (r : Z) : option beacon :=
    if r =? 0 then Some (genesis seed) else find (fun b => b_round b =? r) log.

  Definition head (s : stack) : Z := b_round (st_app_last s).

  (* the direct path of SyncManager.ReSync / CorrectPastBeacons: insecureStore.Put on the raw
     base, bypassing the stack *)
  Definition resync_put (s : stack) (b : beacon) : stack :=
    mkStack (base_put k (st_base s) b) (st_app_last s) (st_sch_last s) (st_log s).
End Node.

Fixpoint zseq (lo : Z) (n : nat) : list Z :=
  match n with O => [] | S n' => lo :: zseq (lo + 1) n' end.

Definition ev_beacon (e : sev) : option beacon :=
  match e with EPut b _ | ETry _ b _ | ESync b _ _ => Some b | ERestart => None end.
