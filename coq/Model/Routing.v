(* Model of drand's request routing (C19).
   Sources: internal/core/drand_daemon_helper.go (readBeaconID, getBeaconProcessByID,
   getBeaconProcessFromRequest), internal/core/drand_daemon.go (InstantiateBeaconProcess,
   AddBeaconHandler, RemoveBeaconHandler, RemoveBeaconProcess, LoadBeaconFromStore,
   LoadBeaconsFromDisk, the dkgCallback closure of NewDrandDaemon),
   internal/core/drand_daemon_control.go (LoadBeacon, Shutdown),
   internal/core/drand_daemon_dkg_proxy.go (beaconExists), internal/core/drand_beacon.go
   (Load, storeDKGOutput), handler/http/server.go (readChainHash, getBeaconHandler,
   RegisterNewBeaconHandler, RegisterDefaultBeaconHandler, RemoveBeaconHandler), common/beacon.go
   (IsDefaultBeaconID, CompareBeaconIDs, GetCanonicalBeaconID).
   Executable definitions only (no proofs here).

   Strings (beacon ids, hex keys, URL path segments) are [list Z] of character codes, byte
   strings (chain hashes) are [list Z] of 0..255. Go maps are association lists with unique
   keys ([aset] removes the old binding first). *)
From Coq Require Import ZArith List Bool.
Import ListNotations.
Open Scope Z_scope.

Definition str := list Z.

Fixpoint str_eqb (a b : str) : bool :=
  match a, b with
  | [], [] => true
  | x :: a', y :: b' => (x =? y) && str_eqb a' b'
  | _, _ => false
  end.

(* "default": common.DefaultBeaconID = common.DefaultChainHash *)
Definition default_str : str := [100; 101; 102; 97; 117; 108; 116].

Definition is_default (s : str) : bool := str_eqb s default_str || str_eqb s [].
Definition compare_ids (a b : str) : bool :=
  if is_default a && is_default b then true else str_eqb a b.
Definition canon (s : str) : str := if is_default s then default_str else s.

(* ---- hex rendering: fmt.Sprintf("%x", bytes) / hex.EncodeToString; hex.DecodeString ---- *)
Definition hex_digit (d : Z) : Z := if d <? 10 then 48 + d else 87 + d.
Definition hex_byte (b : Z) : str := [hex_digit (b / 16); hex_digit (b mod 16)].
Fixpoint hex (bs : list Z) : str :=
  match bs with
  | [] => []
  | b :: r => hex_byte b ++ hex r
  end.

Definition unhex_digit (c : Z) : option Z :=
  if (48 <=? c) && (c <=? 57) then Some (c - 48)
  else if (97 <=? c) && (c <=? 102) then Some (c - 87)
  else if (65 <=? c) && (c <=? 70) then Some (c - 55)
  else None.
Fixpoint unhex (s : str) : option (list Z) :=
  match s with
  | [] => Some []
  | [_] => None
  | a :: b :: r =>
      match unhex_digit a, unhex_digit b, unhex r with
      | Some x, Some y, Some t => Some (16 * x + y :: t)
      | _, _, _ => None
      end
  end.

Definition is_byte (b : Z) : bool := (0 <=? b) && (b <? 256).
Definition valid_hash (h : list Z) : bool :=
  match h with [] => false | _ => forallb is_byte h end.

(* ---- association lists keyed by strings ---- *)
Fixpoint alookup {A} (k : str) (l : list (str * A)) : option A :=
  match l with
  | [] => None
  | (k', v) :: r => if str_eqb k k' then Some v else alookup k r
  end.
Fixpoint adel {A} (k : str) (l : list (str * A)) : list (str * A) :=
  match l with
  | [] => []
  | (k', v) :: r => if str_eqb k k' then adel k r else (k', v) :: adel k r
  end.
Definition aset {A} (k : str) (v : A) (l : list (str * A)) : list (str * A) :=
  (k, v) :: adel k l.

(* ---- daemon state ---- *)
(* a BeaconProcess as far as routing sees it: its group, if any, represented by the chain
   hash (bytes) of chain.NewChainInfo(group) *)
Definition group := option (list Z).

Record daemon := mkD {
  procs : list (str * group);       (* DrandDaemon.beaconProcesses : id -> process *)
  hashes : list (str * str);        (* DrandDaemon.chainHashes : hex | "default" -> id *)
  http : list (str * str);          (* DrandHandler.beacons : hex | "default" -> handler, named
                                       by the id of the process its client proxies *)
  disk : list (str * group)         (* key stores on disk: id -> (key pair present; group file) *)
}.

Definition init_daemon (dk : list (str * group)) : daemon := mkD [] [] [] dk.

Record meta := mkM { m_id : str; m_hash : list Z }.
(* a nil *drand.Metadata reads as empty id and empty hash through the generated getters *)
Definition req_id (m : option meta) : str := match m with Some x => m_id x | None => [] end.
Definition req_hash (m : option meta) : list Z := match m with Some x => m_hash x | None => [] end.

Inductive rerr := EInvalidPair | EUnknownHash | ENotRunning | EAlreadyRunning | ENoKey.
Inductive res (A : Type) := Ok (a : A) | Err (e : rerr).
Arguments Ok {A} a.
Arguments Err {A} e.

Definition is_nil {A} (l : list A) : bool := match l with [] => true | _ => false end.

(* readBeaconID, in the order of the Go code *)
Definition read_beacon_id (d : daemon) (m : option meta) : res str :=
  let rid := req_id m in
  let ch := req_hash m in
  if negb (is_nil ch) then
    let key := hex ch in
    match alookup key (hashes d) with
    | Some by_hash =>
        if negb (is_nil rid) && negb (compare_ids rid by_hash) then Err EInvalidPair
        else Ok (canon by_hash)
    | None =>
        let rid' := canon rid in
        (* range over beaconProcesses: id == rcvBeaconID && group == nil *)
        match alookup rid' (procs d) with
        | Some None => Ok rid'
        | _ => Err EUnknownHash
        end
    end
  else Ok (canon rid).

(* the BeaconID left in the request's metadata (readBeaconID writes it on success) *)
Definition meta_id_after (d : daemon) (m : option meta) : str :=
  match m, read_beacon_id d m with
  | Some _, Ok i => i
  | _, _ => req_id m
  end.

Definition get_process_by_id (d : daemon) (i : str) : res (str * group) :=
  match alookup i (procs d) with
  | Some g => Ok (i, g)
  | None => Err ENotRunning
  end.

Definition get_process (d : daemon) (m : option meta) : res (str * group) :=
  match read_beacon_id d m with
  | Err e => Err e
  | Ok i => get_process_by_id d i
  end.

(* DKG proxy endpoints: beaconExists on the raw Metadata.BeaconID *)
Inductive dkg_route := DNoMeta | DUnknown | DServe (i : str).
Definition dkg_proxy (d : daemon) (m : option str) : dkg_route :=
  match m with
  | None => DNoMeta
  | Some i => match alookup i (procs d) with Some _ => DServe i | None => DUnknown end
  end.

(* ---- HTTP handler table ---- *)
Definition http_register (k : str) (i : str) (t : list (str * str)) := aset k i t.
Definition http_remove (k : str) (t : list (str * str)) := adel k t.

Inductive http_route_res := HBad | HNotFound | HServe (i : str).
(* readChainHash on the {chainHash} path segment ([None] for the un-prefixed routes, where
   chi.URLParam returns ""), then getBeaconHandler *)
Definition http_key (path : option str) : option str :=
  match path with
  | None => Some default_str
  | Some s =>
      if is_nil s then Some default_str else
      match unhex s with
      | None => None
      | Some bs => let k := hex bs in Some (if is_nil k then default_str else k)
      end
  end.
Definition http_route (t : list (str * str)) (path : option str) : http_route_res :=
  match http_key path with
  | None => HBad
  | Some k => match alookup k t with Some i => HServe i | None => HNotFound end
  end.

(* ---- table maintenance, as coded ---- *)
Definition set_procs d p := mkD p (hashes d) (http d) (disk d).
Definition set_hashes d h := mkD (procs d) h (http d) (disk d).
Definition set_http d t := mkD (procs d) (hashes d) t (disk d).
Definition set_disk d k := mkD (procs d) (hashes d) (http d) k.

(* InstantiateBeaconProcess: beaconProcesses[canonical id] = new process (no group) *)
Definition instantiate (d : daemon) (i : str) : daemon :=
  set_procs d (aset (canon i) None (procs d)).

(* bp.group = g  (BeaconProcess.Load / storeDKGOutput) *)
Definition set_group (d : daemon) (i : str) (h : list Z) : daemon :=
  match alookup i (procs d) with
  | Some _ => set_procs d (aset i (Some h) (procs d))
  | None => d
  end.

(* AddBeaconHandler(beaconID, bp): only ever called on a process with a group *)
Definition add_handler (d : daemon) (i : str) (g : group) : daemon :=
  match g with
  | None => d
  | Some h =>
      let k := hex h in
      let d1 := set_http d (http_register k i (http d)) in
      let d2 := set_hashes d1 (aset k i (hashes d1)) in
      if is_default i then
        let d3 := set_http d2 (http_register default_str i (http d2)) in
        set_hashes d3 (aset default_str i (hashes d3))
      else d2
  end.

(* RemoveBeaconHandler(beaconID, bp) *)
Definition remove_handler (d : daemon) (i : str) (g : group) : daemon :=
  match g with
  | None => d
  | Some h =>
      let d1 := set_http d (http_remove (hex h) (http d)) in
      if is_default i then set_http d1 (http_remove default_str (http d1)) else d1
  end.

(* RemoveBeaconProcess(beaconID, bp) *)
Definition remove_process (d : daemon) (i : str) (g : group) : daemon :=
  let i' := canon i in
  let ck := match g with None => [] | Some h => hex h end in
  let d1 := set_procs d (adel i' (procs d)) in
  let d2 := set_hashes d1 (adel ck (hashes d1)) in
  if is_default i' then set_hashes d2 (adel default_str (hashes d2)) else d2.

(* LoadBeaconFromStore(beaconID, store on disk): instantiate; a store without group file is a
   fresh install (process stays without group); otherwise Load and AddBeaconHandler *)
Definition load_from_store (d : daemon) (i : str) : daemon * res unit :=
  match alookup i (disk d) with
  | None => (d, Err ENoKey)                 (* NewBeaconProcess: no key pair *)
  | Some g =>
      let d1 := instantiate d i in
      match g with
      | None => (d1, Ok tt)
      | Some h =>
          let d2 := set_group d1 (canon i) h in
          match alookup (canon i) (procs d2) with
          | Some g' => (add_handler d2 i g', Ok tt)
          | None => (d2, Ok tt)
          end
      end
  end.

(* LoadBeacon (control) *)
Definition load_beacon (d : daemon) (m : option meta) : daemon * res unit :=
  match read_beacon_id d m with
  | Err e => (d, Err e)
  | Ok i =>
      match alookup i (procs d) with
      | Some _ => (d, Err EAlreadyRunning)
      | None => load_from_store d i
      end
  end.

(* LoadBeaconsFromDisk (start-up, all stores): unguarded loads of every id on disk *)
Fixpoint load_all (d : daemon) (ids : list str) : daemon :=
  match ids with
  | [] => d
  | i :: r => load_all (fst (load_from_store d i)) r
  end.
Definition startup (d : daemon) : daemon := load_all d (map fst (disk d)).

(* Shutdown (control): an empty beacon id stops the whole daemon (tables are left as they
   are); otherwise the named process is removed *)
Inductive shut_res := SAll | SOne (i : str) | SErr (e : rerr).
Definition shutdown (d : daemon) (m : option meta) : daemon * shut_res :=
  if is_nil (req_id m) then (d, SAll) else
  match read_beacon_id d m with
  | Err e => (d, SErr e)
  | Ok i =>
      match alookup i (procs d) with
      | None => (d, SErr ENotRunning)
      | Some g => (remove_process (remove_handler d i g) i g, SOne i)
      end
  end.

(* a DKG for beacon i completed with a group whose chain hash is h: storeDKGOutput sets the
   group, saves it to the key store, and runs the daemon's dkgCallback (group.ID = i) *)
Definition dkg_done (d : daemon) (i : str) (h : list Z) : daemon :=
  match alookup i (procs d) with
  | None => d
  | Some _ =>
      let d1 := set_group d i h in
      let d2 := set_disk d1 (aset i (Some h) (disk d1)) in
      let b := canon i in
      match alookup b (procs d2) with
      | Some g' => add_handler d2 b g'
      | None => d2
      end
  end.

Inductive event :=
| EStartup
| ELoad (m : option meta)
| EShutdown (m : option meta)
| EDkgDone (i : str) (h : list Z).

Definition step (d : daemon) (e : event) : daemon :=
  match e with
  | EStartup => startup d
  | ELoad m => fst (load_beacon d m)
  | EShutdown m => fst (shutdown d m)
  | EDkgDone i h => dkg_done d i h
  end.

Definition run (d : daemon) (evs : list event) : daemon := fold_left step evs d.

(* ---- endpoint coverage table (shape of Gen/Routes.v) ---- *)
(* what a DrandDaemon method taking a request with metadata does, in source order *)
Inductive revent :=
| RResolve        (* v := dd.getBeaconProcessFromRequest(...)  /  id := dd.readBeaconID(...) *)
| RByIdResolved   (* dd.getBeaconProcessByID(id) with id obtained from readBeaconID *)
| RByIdRaw        (* dd.getBeaconProcessByID(anything else) *)
| RExists         (* dd.beaconExists(raw metadata id) *)
| RUseProc        (* method call on a process obtained through RResolve / RByIdResolved *)
| RUseProcRaw     (* method call on a process obtained any other way *)
| RUseDkg         (* dd.dkg.<method>(...) *)
| RRawTable       (* direct access to dd.beaconProcesses / dd.chainHashes *)
| RMaint          (* dd.RemoveBeaconHandler / RemoveBeaconProcess / LoadBeaconFromDisk ... on a resolved id *)
| RStopAll.       (* dd.Stop *)

Definition revent_eqb (a b : revent) : bool :=
  match a, b with
  | RResolve, RResolve | RByIdResolved, RByIdResolved | RByIdRaw, RByIdRaw
  | RExists, RExists | RUseProc, RUseProc | RUseProcRaw, RUseProcRaw | RUseDkg, RUseDkg
  | RRawTable, RRawTable | RMaint, RMaint | RStopAll, RStopAll => true
  | _, _ => false
  end.

(* a method is correctly routed when: it never takes a process from anywhere but the
   resolver, never reads the tables itself, resolves before the first use of a process or of
   a maintenance call, and checks beaconExists before the first use of the DKG process *)
Fixpoint route_events_ok (resolved existsd : bool) (evs : list revent) : bool :=
  match evs with
  | [] => true
  | e :: r =>
      match e with
      | RResolve => route_events_ok true existsd r
      | RByIdResolved => resolved && route_events_ok resolved existsd r
      | RByIdRaw => false
      | RExists => route_events_ok resolved true r
      | RUseProc => resolved && route_events_ok resolved existsd r
      | RUseProcRaw => false
      | RUseDkg => existsd && route_events_ok resolved existsd r
      | RRawTable => false
      | RMaint => resolved && route_events_ok resolved existsd r
      | RStopAll => route_events_ok resolved existsd r
      end
  end.

Definition routes_ok (rs : list (str * list revent)) : bool :=
  forallb (fun r => route_events_ok false false (snd r)) rs.

Definition routes_cover (expected : list str) (rs : list (str * list revent)) : bool :=
  forallb (fun n => existsb (fun r => str_eqb n (fst r)) rs) expected.
