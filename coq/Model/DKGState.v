(* Model of /repo/internal/dkg/state_machine.go (DBState methods, ValidateProposal and helpers),
   /repo/internal/dkg/actions_active.go (Process.Command), actions_passive.go (Process.Packet,
   applyPacketToState), execution.go (executeDKG set-up outcome, executeAndFinishDKG) and the
   save rules of store.go.  Executable definitions only (no proofs here).

   The transition relation is NOT written here: it is Gen.DKGTable.valid_change, regenerated
   from isValidStateChange on every run; terminal_states / proposal_phase_states / known_schemes
   likewise.

   Conventions: times are nanoseconds since the Unix epoch (Z); epochs/thresholds/periods are Z
   (uint32 on the wire; the only uint32 arithmetic in the code, Epoch+1, is [u32_succ]);
   strings and byte strings are [list Z]; a nil *Participant is [None]; nil and empty slices are
   identified (they are indistinguishable after protobuf / TOML decoding).  Shapes that cannot
   be produced by protobuf decoding (nil elements inside repeated fields, a set oneof with a nil
   message) are outside the model.  The v1->v2 key-migration branch of StartProposal
   (finished epoch-1 record with nil participant signatures, only produced by
   MigrateFromGroupfile) is not modelled: the model answers EMigrationPath. *)
From Coq Require Import ZArith List Bool.
From DV Require Import Gen.DKGTable.
Import ListNotations.
Open Scope Z_scope.

Definition bytes := list Z.

Fixpoint bytes_eqb (a b : bytes) : bool :=
  match a, b with
  | [], [] => true
  | x :: a', y :: b' => (x =? y) && bytes_eqb a' b'
  | _, _ => false
  end.

Definition is_empty {A} (l : list A) : bool := match l with [] => true | _ => false end.
Definition len {A} (l : list A) : Z := Z.of_nat (length l).
Definition mem_bytes (x : bytes) (l : list bytes) : bool := existsb (bytes_eqb x) l.

(* ---------- participants (protobuf drand.Participant) ---------- *)
Record participant := mkP { p_addr : bytes; p_key : bytes; p_sig : bytes }.
Definition nilp : participant := mkP [] [] [].
(* the protobuf getters on a possibly-nil pointer *)
Definition getp (o : option participant) : participant := match o with Some p => p | None => nilp end.

(* util.EqualParticipant *)
Definition equal_participant (a b : participant) : bool :=
  bytes_eqb (p_addr a) (p_addr b) && bytes_eqb (p_key a) (p_key b) && bytes_eqb (p_sig a) (p_sig b).
(* util.Contains *)
Definition contains (hay : list participant) (n : participant) : bool :=
  existsb (fun v => equal_participant v n) hay.
Definition has_addr (hay : list participant) (a : bytes) : bool :=
  existsb (fun v => bytes_eqb (p_addr v) a) hay.
(* util.ContainsAll: by ADDRESS only (no longer used by validateReshareForRemainers) *)
Definition contains_all (hay needles : list participant) : bool :=
  forallb (fun n => has_addr hay (p_addr n)) needles.
(* containsAllByAddressAndKey (state_machine.go): every needle has a participant with the same address
   AND the same public key in the haystack *)
Definition has_addr_key (hay : list participant) (n : participant) : bool :=
  existsb (fun v => bytes_eqb (p_addr v) (p_addr n) && bytes_eqb (p_key v) (p_key n)) hay.
Definition contains_all_ak (hay needles : list participant) : bool :=
  forallb (has_addr_key hay) needles.
(* util.Without *)
Definition without (hay : list participant) (n : participant) : list participant :=
  filter (fun v => negb (equal_participant v n)) hay.
(* util.NonEmpty (for non-nil elements) *)
Definition non_empty (p : participant) : bool := negb (bytes_eqb (p_addr p) []).

(* ---------- key.Group as far as the state machine reads it ---------- *)
Record group := mkG {
  g_nodes : list participant;   (* Nodes: Address(), Key.MarshalBinary(), Signature *)
  g_threshold : Z;
  g_genesis_time : Z;           (* unix seconds *)
  g_genesis_seed : bytes        (* GetGenesisSeed(): never empty for a DKG output *)
}.

(* ---------- drand.ProposalTerms ---------- *)
Record terms := mkT {
  t_beacon : bytes; t_threshold : Z; t_epoch : Z; t_timeout : Z;
  t_leader : option participant;
  t_catchup : Z; t_period : Z; t_scheme : bytes;
  t_genesis_time : Z; t_genesis_seed : bytes;
  t_joining : list participant; t_remaining : list participant; t_leaving : list participant
}.

(* ---------- DBState ---------- *)
Record dbstate := mkS {
  st_beacon : bytes; st_epoch : Z; st_state : status; st_threshold : Z; st_timeout : Z;
  st_scheme : bytes; st_genesis_time : Z; st_genesis_seed : bytes;
  st_catchup : Z; st_period : Z;
  st_leader : option participant;
  st_remaining : list participant; st_joining : list participant; st_leaving : list participant;
  st_acceptors : list participant; st_rejectors : list participant;
  st_final_group : option group; st_key_share : option bytes
}.

(* time.Time{} (year 1) in ns since the Unix epoch: GenesisTime of NewFreshState *)
Definition zero_time : Z := -62135596800 * 1000000000.
Definition unix (t : Z) : Z := t / 1000000000.

(* NewFreshState *)
Definition fresh (b : bytes) : dbstate :=
  mkS b 0 Fresh 0 0 [] zero_time [] 0 0 None [] [] [] [] [] None None.

Definition with_state (d : dbstate) (s : status) : dbstate :=
  mkS (st_beacon d) (st_epoch d) s (st_threshold d) (st_timeout d) (st_scheme d)
      (st_genesis_time d) (st_genesis_seed d) (st_catchup d) (st_period d) (st_leader d)
      (st_remaining d) (st_joining d) (st_leaving d) (st_acceptors d) (st_rejectors d)
      (st_final_group d) (st_key_share d).
Definition with_votes (d : dbstate) (acc rej : list participant) : dbstate :=
  mkS (st_beacon d) (st_epoch d) (st_state d) (st_threshold d) (st_timeout d) (st_scheme d)
      (st_genesis_time d) (st_genesis_seed d) (st_catchup d) (st_period d) (st_leader d)
      (st_remaining d) (st_joining d) (st_leaving d) acc rej
      (st_final_group d) (st_key_share d).
Definition with_final_group (d : dbstate) (g : option group) : dbstate :=
  mkS (st_beacon d) (st_epoch d) (st_state d) (st_threshold d) (st_timeout d) (st_scheme d)
      (st_genesis_time d) (st_genesis_seed d) (st_catchup d) (st_period d) (st_leader d)
      (st_remaining d) (st_joining d) (st_leaving d) (st_acceptors d) (st_rejectors d)
      g (st_key_share d).
Definition with_complete (d : dbstate) (g : group) (sh : bytes) : dbstate :=
  mkS (st_beacon d) (st_epoch d) Complete (st_threshold d) (st_timeout d) (st_scheme d)
      (st_genesis_time d) (g_genesis_seed g) (st_catchup d) (st_period d) (st_leader d)
      (st_remaining d) (st_joining d) (st_leaving d) (st_acceptors d) (st_rejectors d)
      (Some g) (Some sh).

Definition with_remaining (d : dbstate) (r : list participant) : dbstate :=
  mkS (st_beacon d) (st_epoch d) (st_state d) (st_threshold d) (st_timeout d) (st_scheme d)
      (st_genesis_time d) (st_genesis_seed d) (st_catchup d) (st_period d) (st_leader d)
      r (st_joining d) (st_leaving d) (st_acceptors d) (st_rejectors d)
      (st_final_group d) (st_key_share d).

(* Go string comparison of the key bytes, and util.SortedByPublicKey (sort.Slice; the order of
   participants with EQUAL keys is unspecified in Go and is fixed here as insertion order) *)
Fixpoint bytes_ltb (a b : bytes) : bool :=
  match a, b with
  | _, [] => false
  | [], _ :: _ => true
  | x :: a', y :: b' => (x <? y) || ((x =? y) && bytes_ltb a' b')
  end.
Fixpoint insert_by_key (p : participant) (l : list participant) : list participant :=
  match l with
  | [] => [p]
  | q :: l' => if bytes_ltb (p_key p) (p_key q) then p :: l else q :: insert_by_key p l'
  end.
Definition sort_by_key (l : list participant) : list participant := fold_right insert_by_key [] l.

(* ---------- errors: one constructor per sentinel / ad-hoc error ---------- *)
Inductive err :=
| EMissingTerms | ETimeoutReached | EInvalidBeaconID | EInvalidScheme | EGenesisTimeNotEqual
| ENoGenesisSeedForFirstEpoch | EGenesisTimeNotConsistent | EGenesisSeedCannotChange
| ESelfMissing | ECannotJoinIfNotInJoining | EJoiningNeedsGroupFile | EInvalidEpoch
| ELeaderCantJoinAfterFirstEpoch | ELeaderNotRemaining | ELeaderNotJoining | EOnlyJoinersFirstEpoch
| ENoNodesRemaining | EMissingNodes | ECannotProposeAsNonLeader | EThresholdHigher
| ENodeCountTooLow | EThresholdTooLow | ERemainingAndLeavingMustExist
| ECannotAcceptLeaving | ECannotAcceptJoining | ECannotRejectLeaving | ECannotRejectJoining
| ECannotLeaveIfNotALeaver | EOnlyLeaderCanExecute | EOnlyLeaderCanAbort
| ECannotExecuteIfNotJoinerOrRemainer | EUnknownAcceptor | EDuplicateAcceptance | EInvalidAcceptor
| EInvalidRejector | EUnknownRejector | EDuplicateRejection | EFinalGroupEmpty | EKeyShareEmpty
| EReceivedAcceptance | EReceivedRejection | EMissingPreviousGroup
| EInvalidKeyScheme                      (* key.ErrInvalidKeyScheme *)
| EInvalidTransition (from to : status)  (* InvalidStateChange(from, to) *)
(* ad-hoc errors (errors.New without a sentinel) *)
| ENoMetadata | EShortSig | EInvalidPacket | ESigNoParticipant | ESigInvalid
| EGroupFileRequired | EGroupFileParse | EUnrecognizedCommand
| EGossip                                (* proposal command: gossip to joiners/remainers failed or had no recipient; state IS saved *)
| EExecSetup                             (* executeDKG/setupDKG failed after the Executing/Left state was saved *)
| EPanic                                 (* nil dereference *)
(* outside the model *)
| EForeign | EDkgForward | EMigrationPath.

Inductive res (A : Type) := Ok (a : A) | Err (e : err).
Arguments Ok {A} a.
Arguments Err {A} e.

Definition in_statuses (s : status) (l : list status) : bool := existsb (status_eqb s) l.
Definition is_terminal (s : status) : bool := in_statuses s terminal_states.
(* isProposalPhase *)
Definition is_proposal_phase (d : dbstate) : bool := in_statuses (st_state d) proposal_phase_states.

Definition u32_max : Z := 4294967295.
(* uint32 x+1 *)
Definition u32_succ (x : Z) : Z := if x =? u32_max then 0 else x + 1.
(* kyber dkg.MinimumT *)
Definition minimum_t (n : Z) : Z := n / 2 + 1.

(* hasTimedOut with an explicit clock *)
Definition has_timed_out (now : Z) (d : dbstate) : bool := st_timeout d <=? now.

Definition scheme_known (s : bytes) : bool := mem_bytes s known_schemes.

(* GossipMetadata *)
Record metadata := mkMd { md_beacon : bytes; md_addr : bytes; md_sig : bytes }.

Inductive pkt :=
| PProposal (t : terms)
| PAccept (a : option participant)
| PReject (r : option participant)
| PExecute (time : Z)
| PAbort (reason : bytes)
| PDkg
| PNone.

Record gpacket := mkGp { gp_md : option metadata; gp_body : pkt }.

(* used for determining the message that was signed: termsFromState *)
Definition terms_from_state (d : dbstate) : terms :=
  mkT (st_beacon d) (st_threshold d) (st_epoch d) (st_timeout d) (st_leader d)
      (st_catchup d) (st_period d) (st_scheme d) (st_genesis_time d) (st_genesis_seed d)
      (st_joining d) (st_remaining d) (st_leaving d).

Section Machine.
  (* External behaviour, supplied by the correspondence harness as oracle tables and left abstract
     in the theorems:
     joiner_ok scheme p : key.IdentityFromProto(p, scheme) succeeds and the identity's self-signature
                          is valid (validateJoinerSignatures);
     key_ok k           : k unmarshals as a point of the node's own scheme key group;
     verify_message     : Process.verifyMessage (defined in Model/DKGSign.v). *)
  Variable joiner_ok : bytes -> participant -> bool.
  Variable key_ok : bytes -> bool.
  Variable verify_message : gpacket -> terms -> option err.

  (* ---------- ValidateProposal and helpers ---------- *)
  Definition validate_epoch (d : dbstate) (t : terms) : option err :=
    if t_epoch t <? st_epoch d then Some EInvalidEpoch else
    if (t_epoch t =? st_epoch d) && negb (status_eqb (st_state d) Aborted)
         && negb (status_eqb (st_state d) TimedOut) && negb (status_eqb (st_state d) Failed)
    then Some EInvalidEpoch else
    if (u32_succ (st_epoch d) <? t_epoch t)
         && (negb (status_eqb (st_state d) Left) && negb (status_eqb (st_state d) Fresh))
    then Some EInvalidEpoch else None.

  Definition validate_for_all_dkgs (now : Z) (d : dbstate) (ot : option terms) : option err :=
    match ot with
    | None => Some EMissingTerms
    | Some t =>
      if negb (bytes_eqb (st_beacon d) (t_beacon t)) then Some EInvalidBeaconID else
      if negb (scheme_known (t_scheme t)) then Some EInvalidScheme else
      if negb (forallb (joiner_ok (t_scheme t)) (t_joining t)) then Some EInvalidKeyScheme else
      if t_timeout t <? now then Some ETimeoutReached else
      let node_count := len (t_joining t) + len (t_remaining t) in
      if node_count <? t_threshold t then Some EThresholdHigher else
      if t_threshold t <? minimum_t node_count then Some EThresholdTooLow else
      validate_epoch d t
    end.

  Definition validate_first_epoch (t : terms) : option err :=
    if negb (is_empty (t_genesis_seed t)) then Some ENoGenesisSeedForFirstEpoch else
    if negb (is_empty (t_remaining t)) || negb (is_empty (t_leaving t)) then Some EOnlyJoinersFirstEpoch else
    if negb (contains (t_joining t) (getp (t_leader t))) then Some ELeaderNotJoining else
    if len (t_joining t) <? t_threshold t then Some EThresholdHigher else None.

  Definition validate_reshare_terms (d : dbstate) (t : terms) : option err :=
    if is_empty (t_remaining t) then Some ENoNodesRemaining else
    if contains (t_joining t) (getp (t_leader t)) then Some ELeaderCantJoinAfterFirstEpoch else
    if contains (t_leaving t) (getp (t_leader t)) || negb (contains (t_remaining t) (getp (t_leader t)))
    then Some ELeaderNotRemaining else
    if len (t_remaining t) <? st_threshold d then Some ENodeCountTooLow else None.

  Definition validate_reshare_for_remainers (d : dbstate) (t : terms) : option err :=
    if negb (unix (t_genesis_time t) =? unix (st_genesis_time d)) then Some EGenesisTimeNotEqual else
    if negb (bytes_eqb (t_genesis_seed t) (st_genesis_seed d)) then Some EGenesisSeedCannotChange else
    match st_final_group d with
    | None => Some EMissingPreviousGroup   (* the explicit nil check on currentState.FinalGroup *)
    | Some g =>
      let last := g_nodes g in
      let rl := t_remaining t ++ t_leaving t in
      if negb (contains_all_ak last rl) then Some ERemainingAndLeavingMustExist else
      if negb (contains_all_ak rl last) then Some EMissingNodes else
      if len (t_remaining t) <? st_threshold d then Some ENodeCountTooLow else None
    end.

  Definition validate_proposal (now : Z) (d : dbstate) (ot : option terms) : option err :=
    match validate_for_all_dkgs now d ot with
    | Some e => Some e
    | None =>
      match ot with
      | None => Some EMissingTerms
      | Some t =>
        if t_epoch t =? 1 then validate_first_epoch t else
        match validate_reshare_terms d t with
        | Some e => Some e
        | None =>
          if negb (status_eqb (st_state d) Fresh) then validate_reshare_for_remainers d t else None
        end
      end
    end.

  Definition validate_previous_group_for_joiners (d : dbstate) (prev : option group) : option err :=
    match prev with
    | None => if st_epoch d =? 1 then None else Some EJoiningNeedsGroupFile
    | Some g =>
      if negb (g_genesis_time g =? unix (st_genesis_time d)) then Some EGenesisTimeNotConsistent else
      if negb (bytes_eqb (g_genesis_seed g) (st_genesis_seed d)) then Some EGenesisSeedCannotChange else None
    end.

  (* ---------- DBState methods, in source order ---------- *)
  Definition new_state_from (d : dbstate) (t : terms) (s : status) (seed : bytes) : dbstate :=
    mkS (st_beacon d) (t_epoch t) s (t_threshold t) (t_timeout t) (t_scheme t)
        (t_genesis_time t) seed (t_catchup t) (t_period t) (t_leader t)
        (filter non_empty (t_remaining t)) (filter non_empty (t_joining t)) (filter non_empty (t_leaving t))
        [] [] None None.

  Definition do_joined (now : Z) (me : participant) (d : dbstate) (prev : option group) : res dbstate :=
    if negb (valid_change (st_state d) Joined) then Err (EInvalidTransition (st_state d) Joined) else
    if has_timed_out now d then Err ETimeoutReached else
    if negb (contains (st_joining d) me) then Err ECannotJoinIfNotInJoining else
    match validate_previous_group_for_joiners d prev with
    | Some e => Err e
    | None => Ok (with_state (with_final_group d prev) Joined)
    end.

  (* leader_is_me: the pointer comparison terms.Leader != me (always equal through Command) *)
  Definition do_proposing (now : Z) (leader_is_me : bool) (d : dbstate) (t : terms) : res dbstate :=
    if negb (valid_change (st_state d) Proposing) then Err (EInvalidTransition (st_state d) Proposing) else
    if negb leader_is_me then Err ECannotProposeAsNonLeader else
    match validate_proposal now d (Some t) with
    | Some e => Err e
    | None =>
      if status_eqb (st_state d) Fresh && (1 <? t_epoch t) then Err EInvalidEpoch else
      Ok (new_state_from d t Proposing (st_genesis_seed d))
    end.

  Definition do_proposed (now : Z) (me : participant) (d : dbstate) (t : terms) (md : metadata) : res dbstate :=
    if negb (valid_change (st_state d) Proposed) then Err (EInvalidTransition (st_state d) Proposed) else
    match t_leader t with
    | None => Err ECannotProposeAsNonLeader   (* the explicit nil check on terms.Leader *)
    | Some l =>
      if negb (bytes_eqb (p_addr l) (md_addr md)) then Err ECannotProposeAsNonLeader else
      match validate_proposal now d (Some t) with
      | Some e => Err e
      | None =>
        if negb (contains (t_joining t) me) && negb (contains (t_remaining t) me) && negb (contains (t_leaving t) me)
        then Err ESelfMissing else
        Ok (new_state_from d t Proposed (t_genesis_seed t))
      end
    end.

  Definition do_timed_out (d : dbstate) : res dbstate :=
    if negb (valid_change (st_state d) TimedOut) then Err (EInvalidTransition (st_state d) TimedOut) else
    Ok (with_state d TimedOut).

  Definition do_start_abort (d : dbstate) : res dbstate :=
    if negb (valid_change (st_state d) Aborted) then Err (EInvalidTransition (st_state d) Aborted) else
    Ok (with_state d Aborted).

  Definition do_aborted (d : dbstate) (md : metadata) : res dbstate :=
    if negb (valid_change (st_state d) Aborted) then Err (EInvalidTransition (st_state d) Aborted) else
    match st_leader d with
    | None => Err EPanic
    | Some l =>
      if negb (bytes_eqb (p_addr l) (md_addr md)) then Err EOnlyLeaderCanAbort else
      Ok (with_state d Aborted)
    end.

  Definition do_accepted (now : Z) (me : participant) (d : dbstate) : res dbstate :=
    if negb (valid_change (st_state d) Accepted) then Err (EInvalidTransition (st_state d) Accepted) else
    if has_timed_out now d then Err ETimeoutReached else
    if contains (st_leaving d) me then Err ECannotAcceptLeaving else
    if contains (st_joining d) me then Err ECannotAcceptJoining else
    Ok (with_state (with_votes d (st_acceptors d ++ [me]) (without (st_rejectors d) me)) Accepted).

  Definition do_rejected (now : Z) (me : participant) (d : dbstate) : res dbstate :=
    if negb (valid_change (st_state d) Rejected) then Err (EInvalidTransition (st_state d) Rejected) else
    if has_timed_out now d then Err ETimeoutReached else
    if contains (st_joining d) me then Err ECannotRejectJoining else
    if contains (st_leaving d) me then Err ECannotRejectLeaving else
    Ok (with_state (with_votes d (without (st_acceptors d) me) (st_rejectors d ++ [me])) Rejected).

  Definition do_left (now : Z) (me : participant) (d : dbstate) : res dbstate :=
    if negb (valid_change (st_state d) Left) then Err (EInvalidTransition (st_state d) Left) else
    if has_timed_out now d then Err ETimeoutReached else
    if negb (contains (st_leaving d) me) && negb (contains (st_joining d) me) then Err ECannotLeaveIfNotALeaver else
    Ok (with_state d Left).

  Definition do_start_executing (now : Z) (me : participant) (d : dbstate) : res dbstate :=
    if has_timed_out now d then Err ETimeoutReached else
    if contains (st_leaving d) me then do_left now me d else
    if negb (valid_change (st_state d) Executing) then Err (EInvalidTransition (st_state d) Executing) else
    if negb (equal_participant (getp (st_leader d)) me) then Err EOnlyLeaderCanExecute else
    Ok (with_state d Executing).

  Definition do_executing (now : Z) (me : participant) (d : dbstate) (md : metadata) : res dbstate :=
    if has_timed_out now d then Err ETimeoutReached else
    if contains (st_leaving d) me && valid_change (st_state d) Left then
      (* leavers too only act on the leader's signal *)
      match st_leader d with
      | None => Err EPanic
      | Some l => if negb (bytes_eqb (md_addr md) (p_addr l)) then Err EOnlyLeaderCanExecute else do_left now me d
      end
    else
    if negb (valid_change (st_state d) Executing) then Err (EInvalidTransition (st_state d) Executing) else
    if negb (contains (st_remaining d) me) && negb (contains (st_joining d) me)
    then Err ECannotExecuteIfNotJoinerOrRemainer else
    match st_leader d with
    | None => Err EPanic
    | Some l =>
      if negb (bytes_eqb (md_addr md) (p_addr l)) then Err EOnlyLeaderCanExecute else
      Ok (with_state d Executing)
    end.

  Definition do_complete (now : Z) (d : dbstate) (g : option group) (sh : option bytes) : res dbstate :=
    if negb (valid_change (st_state d) Complete) then Err (EInvalidTransition (st_state d) Complete) else
    if has_timed_out now d then Err ETimeoutReached else
    match g with
    | None => Err EFinalGroupEmpty
    | Some g' =>
      match sh with
      | None => Err EKeyShareEmpty
      | Some sh' => Ok (with_complete d g' sh')
      end
    end.

  Definition do_received_acceptance (d : dbstate) (them : option participant) (md : metadata) : res dbstate :=
    if negb (is_proposal_phase d) then Err EReceivedAcceptance else
    if negb (contains (st_remaining d) (getp them)) then Err EUnknownAcceptor else
    if contains (st_acceptors d) (getp them) then Err EDuplicateAcceptance else
    match them with
    | None => Err EPanic
    | Some p =>
      if negb (bytes_eqb (md_addr md) (p_addr p)) then Err EInvalidAcceptor else
      Ok (with_votes d (st_acceptors d ++ [p]) (without (st_rejectors d) p))
    end.

  Definition do_received_rejection (d : dbstate) (them : option participant) (md : metadata) : res dbstate :=
    if negb (is_proposal_phase d) then Err EReceivedRejection else
    if negb (contains (st_remaining d) (getp them)) then Err EUnknownRejector else
    if contains (st_rejectors d) (getp them) then Err EDuplicateRejection else
    match them with
    | None => Err EPanic
    | Some p =>
      if negb (bytes_eqb (md_addr md) (p_addr p)) then Err EInvalidRejector else
      Ok (with_votes d (without (st_acceptors d) p) (st_rejectors d ++ [p]))
    end.

  Definition do_failed (d : dbstate) : res dbstate :=
    if negb (valid_change (st_state d) Failed) then Err (EInvalidTransition (st_state d) Failed) else
    Ok (with_state d Failed).

  (* DBState.Apply *)
  Definition apply_packet (now : Z) (me : participant) (d : dbstate) (body : pkt) (md : metadata) : res dbstate :=
    match body with
    | PProposal t => do_proposed now me d t md
    | PAccept a => do_received_acceptance d a md
    | PReject r => do_received_rejection d r md
    | PExecute _ => do_executing now me d md
    | PAbort _ => do_aborted d md
    | PDkg => Err EInvalidPacket
    | PNone => Err EInvalidPacket
    end.

  (* ---------- the store (bolt buckets "dkg" and "dkg_finished" for one beacon id) and the
     process-level set of seen packet signatures ---------- *)
  Record store := mkStore { current : option dbstate; finished : option dbstate; seen : list bytes }.
  Definition init_store : store := mkStore None None [].

  (* GetCurrent *)
  Definition get_current (B : bytes) (s : store) : dbstate :=
    match current s with Some c => c | None => fresh B end.
  (* the terminal-state fallback of Command / applyPacketToState *)
  Definition effective (B : bytes) (s : store) : dbstate :=
    let c := get_current B s in
    if is_terminal (st_state c) then
      match finished s with Some f => f | None => fresh B end
    else c.
  Definition save_current (s : store) (d : dbstate) : store := mkStore (Some d) (finished s) (seen s).
  (* SaveFinished: both buckets in one transaction *)
  Definition save_finished (s : store) (d : dbstate) : store := mkStore (Some d) (Some d) (seen s).
  Definition mark_seen (s : store) (sig : bytes) : store := mkStore (current s) (finished s) (sig :: seen s).

  Inductive outcome := OK | Rej (e : err).

  (* gossip recipients after the filters of Process.gossip *)
  Definition recipients (me : participant) (l : list participant) : list participant :=
    without (filter non_empty l) me.

  (* executeDKG -> setupDKG on the just-saved current state *)
  Definition exec_setup (B : bytes) (s : store) : bool :=
    let c := get_current B s in
    let parts := st_remaining c ++ st_joining c in
    forallb (fun p => key_ok (p_key p)) parts && negb (is_empty parts).

  (* ---------- Process.Packet ---------- *)
  (* applyPacketToState followed by executeDKG for Execute packets *)
  Definition packet_apply (me : participant) (B : bytes) (now : Z) (s : store) (p : gpacket) (md : metadata)
    : store * outcome :=
    if negb (bytes_eqb (md_beacon md) B) then (s, Rej EForeign) else
    match apply_packet now me (effective B s) (gp_body p) md with
    | Err e => (s, Rej e)
    | Ok next =>
      match verify_message p (terms_from_state next) with
      | Some e => (s, Rej e)
      | None =>
        let s1 := save_current s next in
        let s2 := if is_empty (recipients me (st_joining next ++ st_remaining next ++ st_leaving next))
                  then s1 else mark_seen s1 (md_sig md) in
        match gp_body p with
        | PExecute _ => if exec_setup B s2 then (s2, OK) else (s2, Rej EExecSetup)
        | _ => (s2, OK)
        end
      end
    end.

  Definition packet_step (me : participant) (B : bytes) (now : Z) (s : store) (p : gpacket) : store * outcome :=
    match gp_md p with
    | None => (s, Rej ENoMetadata)
    | Some md =>
      if len (md_sig md) <? 4 then (s, Rej EShortSig) else
      if mem_bytes (md_sig md) (seen s) then (s, OK) else
      match gp_body p with
      | PDkg => (s, Rej EDkgForward)
      | _ => packet_apply me B now s p md
      end
    end.

  (* ---------- Process.Command ---------- *)
  Record first_opts := mkFo {
    fo_timeout : Z; fo_threshold : Z; fo_period : Z; fo_scheme : bytes; fo_catchup : Z;
    fo_genesis_time : option Z; fo_joining : list participant }.
  Record prop_opts := mkPo {
    po_timeout : Z; po_threshold : Z; po_catchup : Z;
    po_joining : list participant; po_leaving : list participant; po_remaining : list participant }.
  Inductive join_file := JNone | JBad | JGroup (g : group).
  Inductive cmd :=
  | CInitial (o : first_opts) | CResharing (o : prop_opts) | CJoin (f : join_file)
  | CAccept | CReject | CExecute | CAbort | CNone.
  (* c_sig: the signature signMessage produced over the gossiped packet (an input here: the model
     has no signing function; the scheme's BLS signatures are deterministic in key and message);
     c_gossip_fail: some send to a joiner/remainer failed after all retries *)
  Record command := mkCmd { c_md : option bytes; c_body : cmd; c_sig : bytes; c_gossip_fail : bool }.

  Definition migration_branch (d : dbstate) (o : prop_opts) : bool :=
    (st_epoch d =? 1) && status_eqb (st_state d) Complete
    && existsb (fun j => negb (has_addr (po_leaving o) (p_addr j)) && is_empty (p_sig j)) (st_joining d).

  (* the Start* functions: new store, and the after-state with "a packet is gossiped" *)
  Definition start_cmd (me : participant) (B : bytes) (now : Z) (s : store) (cur : dbstate) (c : cmd)
    : store * res (dbstate * bool) :=
    let saved (r : res dbstate) (g : bool) :=
      match r with Err e => (s, Err e) | Ok d => (save_current s d, Ok (d, g)) end in
    match c with
    | CInitial o =>
      let t := mkT B (fo_threshold o) 1 (fo_timeout o) (Some me) (fo_catchup o) (fo_period o) (fo_scheme o)
                   (match fo_genesis_time o with Some g => g | None => now end) []
                   (filter non_empty (fo_joining o)) [] [] in
      saved (do_proposing now true cur t) true
    | CResharing o =>
      if migration_branch cur o then (s, Err EMigrationPath) else
      let t := mkT B (po_threshold o) (u32_succ (st_epoch cur)) (po_timeout o) (Some me) (po_catchup o)
                   (st_period cur) (st_scheme cur) (st_genesis_time cur) (st_genesis_seed cur)
                   (po_joining o) (po_remaining o) (po_leaving o) in
      saved (do_proposing now true cur t) true
    | CJoin f =>
      if 1 <? st_epoch cur then
        match f with
        | JNone => (s, Err EGroupFileRequired)
        | JBad => (s, Err EGroupFileParse)
        | JGroup g => saved (do_joined now me cur (Some g)) false
        end
      else saved (do_joined now me cur None) false
    | CAccept => saved (do_accepted now me cur) true
    | CReject => saved (do_rejected now me cur) true
    | CExecute =>
      match do_start_executing now me cur with
      | Err e => (s, Err e)
      | Ok d =>
        let s1 := save_current s d in
        if exec_setup B s1 then (s1, Ok (d, true)) else (s1, Err EExecSetup)
      end
    | CAbort => saved (do_start_abort cur) true
    | CNone => (s, Err EUnrecognizedCommand)
    end.

  Definition is_proposal_cmd (c : cmd) : bool :=
    match c with CInitial _ | CResharing _ => true | _ => false end.

  Definition command_step (me : participant) (B : bytes) (now : Z) (s : store) (c : command) : store * outcome :=
    match c_md c with
    | None => (s, Rej ENoMetadata)
    | Some bid =>
      if negb (bytes_eqb bid B) then (s, Rej EForeign) else
      match start_cmd me B now s (effective B s) (c_body c) with
      | (s1, Err e) => (s1, Rej e)
      | (s1, Ok (after, false)) => (s1, OK)
      | (s1, Ok (after, true)) =>
        let r1 := recipients me (st_joining after ++ st_remaining after) in
        let r2 := recipients me (st_leaving after) in
        let s2 := if is_empty r1 && is_empty r2 then s1 else mark_seen s1 (c_sig c) in
        if is_proposal_cmd (c_body c) && (is_empty r1 || c_gossip_fail c) then (s2, Rej EGossip) else (s2, OK)
      end
    end.

  (* ---------- executeAndFinishDKG: the kyber run is one event ---------- *)
  Definition finish_step (B : bytes) (now : Z) (s : store) (out : option (group * bytes)) : store * outcome :=
    let cur := get_current B s in
    match out with
    | Some (g, sh) =>
      (* asGroup sorts append(Remaining, Joining...) IN PLACE: with no joiners the append aliases
         Remaining, so the state that is completed and saved has Remaining sorted by key *)
      let cur := if is_empty (st_joining cur) then with_remaining cur (sort_by_key (st_remaining cur)) else cur in
      match do_complete now cur (Some g) (Some sh) with
      | Err e => (s, Rej e)
      | Ok d => (save_finished s d, OK)
      end
    | None =>
      match do_failed cur with
      | Err e => (s, Rej e)
      | Ok d => (save_current s d, OK)
      end
    end.

  Inductive event :=
  | EvCommand (c : command)
  | EvPacket (p : gpacket)
  | EvFinish (out : option (group * bytes)).

  Definition step (me : participant) (B : bytes) (s : store) (nev : Z * event) : store * outcome :=
    match snd nev with
    | EvCommand c => command_step me B (fst nev) s c
    | EvPacket p => packet_step me B (fst nev) s p
    | EvFinish out => finish_step B (fst nev) s out
    end.

  (* run a history, collecting the stores *)
  Fixpoint run (me : participant) (B : bytes) (s : store) (h : list (Z * event)) : store :=
    match h with
    | [] => s
    | e :: h' => run me B (fst (step me B s e)) h'
    end.
End Machine.
