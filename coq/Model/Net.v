(* System model: several honest nodes, each running the node-local protocol of Model/Node.v
   (the very [step] function that is compared with the real beacon.Handler), a wire that holds
   every partial ever sent, the set of full beacons that exist anywhere (honest stores and the
   adversary's hands), and an adversary that owns the network: it decides which partial on the wire
   reaches which node and when, replays, drops, injects partials of its own making, serves sync
   streams and assembles beacons.
   Executable definitions only; what the adversary is able to fabricate (symbolic unforgeability of
   threshold BLS) is the admissibility predicate of Proofs/NetProofs.v, not part of the functions.

   The honest clocks are accurate: real time advances every honest clock at once (GClock); a node
   with a wrong clock is not one of the honest nodes of this model (it is left to the adversary). *)
From Coq Require Import ZArith List Bool.
From DV Require Import Model.Time Model.Node.
Import ListNotations.
Open Scope Z_scope.

Definition wire := (Z * Z * Z)%type.   (* round, previous signature, partial signature *)

Record sys := mkSys {
  y_time : Z;                 (* real time = every honest clock *)
  y_nodes : list nstate;      (* the honest nodes *)
  y_pool : list wire;         (* every partial that was ever sent by anyone *)
  y_known : list beacon       (* every beacon that exists: stored by an honest node or assembled by the adversary *)
}.

Inductive gevent :=
| GClock (d : Z)                 (* real time passes *)
| GNode (j : nat) (e : event)    (* node j reacts to a local event: tick, woken sleepers, stop, restart *)
| GDeliver (j : nat) (w : wire)  (* the network hands a partial to node j *)
| GAdvPartial (w : wire)         (* the adversary puts a partial on the wire *)
| GAdvBeacon (b : beacon).       (* the adversary assembles a beacon *)

Fixpoint emits_of (o : list out) : list wire :=
  match o with
  | [] => []
  | OEmit r p sg _ :: o' => (r, p, sg) :: emits_of o'
  | _ :: o' => emits_of o'
  end.

Fixpoint puts_of (o : list out) : list beacon :=
  match o with [] => [] | OPut b :: o' => b :: puts_of o' | _ :: o' => puts_of o' end.

Fixpoint upd {A} (l : list A) (j : nat) (x : A) : list A :=
  match l, j with
  | [], _ => []
  | _ :: l', O => x :: l'
  | a :: l', S j' => a :: upd l' j' x
  end.

(* the initial state: every node holds the genesis beacon only, nothing is on the wire *)
Definition init_sys (gen : beacon) (now : Z) (gs : list grp) : sys :=
  mkSys now (map (fun g => mkS now [gen] [] 0 [] g None true) gs) [] [].

Definition wire_eqb (a b : wire) : bool :=
  let '(a1, a2, a3) := a in let '(b1, b2, b3) := b in (a1 =? b1) && (a2 =? b2) && (a3 =? b3).

Section Net.
  Variable C : cfg.
  Variable idx_of : Z -> Z.
  Variable vpart : Z -> Z -> Z -> Z -> bool.
  Variable recov : Z -> Z -> Z -> list Z -> Z -> option Z.
  Variable vrec : Z -> Z -> Z -> bool.
  Variable own_of : Z -> Z -> Z -> Z -> Z.   (* member index, poly, round, prev: that member's partial *)

  (* every node signs with its own share *)
  Definition nreact (s : nstate) (e : event) : nstate * list out :=
    Node.step C idx_of vpart recov vrec (own_of (g_me (s_grp s))) s e.

  (* node j takes one step of the node-local protocol: what it broadcasts goes onto the wire, what
     it stores exists from then on *)
  Definition node_step (y : sys) (j : nat) (e : event) : sys :=
    match nth_error (y_nodes y) j with
    | None => y
    | Some s =>
        let '(s', o) := nreact s e in
        mkSys (y_time y) (upd (y_nodes y) j s') (y_pool y ++ emits_of o) (y_known y ++ puts_of o)
    end.

  Definition gstep (y : sys) (g : gevent) : sys :=
    match g with
    | GClock d => mkSys (y_time y + d) (map (fun s => advance_clock s d) (y_nodes y)) (y_pool y) (y_known y)
    | GNode j e => node_step y j e
    | GDeliver j (r, p, sg) => node_step y j (EPart r p sg)
    | GAdvPartial w => mkSys (y_time y) (y_nodes y) (y_pool y ++ [w]) (y_known y)
    | GAdvBeacon b => mkSys (y_time y) (y_nodes y) (y_pool y) (y_known y ++ [b])
    end.

  Definition grun (y : sys) (gs : list gevent) : sys := fold_left gstep gs y.

  (* executable admissibility of an event (sound for [gadm] of Proofs/NetProofs.v; it does not
     cover adversary-assembled beacons, which the system engine does not use).
     thr_of / F_of: threshold and adversarial share indices per sharing; polys: the sharings that exist. *)
  Definition now_dom_b (g now : Z) : bool := (now <? g) || ((g <=? now) && (now - g <=? 2 ^ 50)).
  Definition gadm_b (thr_of : Z -> Z) (F_of : Z -> list Z) (polys : list Z) (y : sys) (g : gevent) : bool :=
    match g with
    | GClock d => (0 <=? d) && now_dom_b (c_genesis C) (y_time y + d)
    | GNode j e =>
        (* a served stream: every beacon in it that verifies is of a round of which a beacon exists *)
        let served sy := match sy with
                         | None => true
                         | Some bs => forallb (fun b => negb (vrec (b_round b) (b_prev b) (b_sig b))
                                                        || existsb (fun b' => b_round b' =? b_round b) (y_known y)) bs
                         end in
        match e with
        | EFire | EStop => true
        | ETick _ sy | ETickSF _ sy => served sy
        | ERestart sy => served sy
        | ETransition _ g' => g_thr g' =? thr_of (g_poly g')
        | ESynced _ bs => served (Some bs)
        | _ => false
        end
    | GDeliver j w => existsb (wire_eqb w) (y_pool y)
    | GAdvPartial (r, p, sg) =>
        forallb (fun P => negb (vpart P r p sg && negb (existsb (Z.eqb (idx_of sg)) (F_of P)))) polys
        || existsb (wire_eqb (r, p, sg)) (y_pool y)
    | GAdvBeacon _ => false
    end.

  (* the observable trace of a run: after every event, the head round of every node *)
  Fixpoint gtrace (y : sys) (gs : list gevent) : list (list Z) :=
    match gs with
    | [] => []
    | g :: gs' => let y' := gstep y g in
                  map (fun s => b_round (head s)) (y_nodes y') :: gtrace y' gs'
    end.
End Net.
