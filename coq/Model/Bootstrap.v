(* Bootstrap of the in-memory store from the peers: /repo/internal/core/drand_beacon.go
   storeCurrentFromPeerNetwork + loadBeaconFromPeers.  The node asks every peer for the current
   round; the first answer that is not an error is taken (whatever round it carries); if no peer
   has that round it asks for the latest one; a round-0 answer stores the genesis beacon derived
   from the node's own group; anything else is verified against the group key before it is put. *)
From Coq Require Import ZArith List Bool.
From DV Require Import Model.Node.
Import ListNotations.
Open Scope Z_scope.

Inductive boot_res := BNothing | BErr | BPut (b : beacon).

(* first non-error answer, in arrival order *)
Fixpoint first_answer (answers : list (option beacon)) : option beacon :=
  match answers with
  | [] => None
  | Some b :: _ => Some b
  | None :: rest => first_answer rest
  end.

Section Bootstrap.
  Variable vrec : Z -> Z -> Z -> bool.
  Variable genesis : beacon.

  (* target: current round of the clock; ans_target / ans_latest: the peers' answers to the request
     for the target round and for round 0, in arrival order *)
  Definition bootstrap (target : Z) (ans_target ans_latest : list (option beacon)) : boot_res :=
    if target <? 2 then BNothing else
    let pick := match first_answer ans_target with
                | Some b => Some b
                | None => first_answer ans_latest
                end in
    match pick with
    | None => BErr
    | Some b =>
        if b_round b =? 0 then BPut genesis else
        if vrec (b_round b) (b_prev b) (b_sig b) then BPut b else BErr
    end.
End Bootstrap.
