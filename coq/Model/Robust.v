(* Request-level decision model for C14(b): what the peer-facing and public endpoints do with a
   request, as far as "answered / rejected / panics" goes, written from the Go code in check
   order. A request is represented by its *shape*: which nested messages are nil, which oneof
   variant is set, byte lengths, and oracle bits for deep validation the model does not
   re-implement (signature checks, full proposal validation).
   [EPanic s] marks a nil dereference of something the request controls, at site [s].
   Sources: internal/core/drand_daemon_dkg_proxy.go, internal/dkg/actions_passive.go (Packet,
   applyPacketToState, BroadcastDKG), internal/dkg/state_machine.go (Apply, Proposed, Aborted,
   ValidateProposal ... validateReshareForRemainers), internal/dkg/broadcast.go
   (echoBroadcast.BroadcastDKG, protoToDKGPacket, protoToDeal/Resp/Justif),
   internal/core/drand_beacon_public.go (PartialBeacon ...), internal/chain/beacon/node.go
   (ProcessPartialBeacon), handler/http/server.go (readRound, readChainHash).
   Executable definitions only. *)
From Coq Require Import ZArith List Bool.
From DV Require Import Model.Routing Gen.DKGTable.
Import ListNotations.
Open Scope Z_scope.

Inductive psite :=
| PS_bcast_nil_inner       (* Process.BroadcastDKG reached through Process.Packet: packet.Dkg.Metadata.BeaconID
                              with Dkg == nil or Dkg.Metadata == nil *)
| PS_bundle_nil_inner      (* protoToDeal / protoToResp / protoToJustif on a oneof wrapper whose message is nil *)
| PS_bundle_nil_element    (* protoToDeal: nil element of Deals (likewise Responses / Justifications) *)
| PS_variant_nil_inner     (* DBState.Apply: p.Accept.Acceptor / p.Reject.Rejector with a nil wrapper message *)
| PS_proposal_nil_terms    (* DBState.Proposed: terms.Leader with terms == nil (a nil message inside the oneof wrapper).
                              A proposal whose Leader is absent is refused since fix 1b94cdfe *)
| PS_abort_nil_leader      (* DBState.Aborted: d.Leader.Address on a state without leader *)
| PS_execute_nil_leader.   (* DBState.Executing: d.Leader.Address on a state without leader (leaver shortcut since
                              fix 8daaa2ef, or the ordinary path) *)
(* The former site "reshare proposal on a state without final group" (F13b,
   validateReshareForRemainers) is gone: since fix 4d77f863 the proposal is refused with
   ErrMissingPreviousGroup. *)

Inductive decision := Answer | Reject | EPanic (s : psite).

(* ---------- DKG gossip (DKGPublic.Packet) and DKG broadcast (DKGPublic.BroadcastDKG) ---------- *)

(* proposal terms, by how far they get in DBState.Proposed / ValidateProposal *)
Inductive terms_shape :=
| TNil                 (* GossipPacket_Proposal{Proposal: nil}: only constructible in process *)
| TNilLeader           (* terms.Leader absent: refused (ErrCannotProposeAsNonLeader) *)
| TSenderMismatch      (* terms.Leader.Address <> metadata.Address *)
| TInvalidEarly        (* fails validateForAllDKGs / validateFirstEpoch / validateReshareTerms, or the
                          genesis time / seed comparison of validateReshareForRemainers *)
| TReachesFinalGroup.  (* epoch > 1 and passes everything up to the use of currentState.FinalGroup *)

(* kyber DKG bundle inside a DKGPacket *)
Inductive bundle :=
| BNone
| BDeal (inner_nil commits_ok nil_elem : bool)
| BResp (inner_nil nil_elem : bool)
| BJust (inner_nil nil_elem shares_ok : bool).

(* *drand.DKGPacket *)
Inductive dkg_shape :=
| DOuterNil                          (* the *DKGPacket itself is nil: GetDkg() == nil *)
| DInnerNil                          (* DKGPacket{Dkg: nil} *)
| DMetaNil (b : bundle)              (* Dkg present, Dkg.Metadata absent *)
| DFull (id : str) (b : bundle).     (* Dkg.Metadata.BeaconID = id *)

Inductive variant :=
| VNone
| VProposal (t : terms_shape)
| VAccept (inner_nil : bool)
| VReject (inner_nil : bool)
| VAbort
| VExecute
| VDkg (d : dkg_shape).

Record gmeta := mkGM { gm_id : str; gm_sig_len : Z }.
Record gossip := mkG {
  g_nil : bool;                 (* the *GossipPacket is nil (in-process callers only) *)
  g_meta : option gmeta;
  g_seen : bool;                (* oracle: hex(signature) is in SeenPackets *)
  g_var : variant;
  g_deep_ok : bool              (* oracle: every remaining validation, including the signature, passes *)
}.

(* what the node knows about the beacon id a DKG request names *)
Record nstate := mkN {
  n_exists : bool;              (* DrandDaemon.beaconExists / KeypairFor succeeds *)
  n_exec : bool;                (* Process.Executions has a broadcaster for the id *)
  n_status : status;            (* effective DKG state: the current one, or, when that is terminal, the last finished / fresh *)
  n_leader_set : bool;          (* that state has a Leader *)
  n_fg_set : bool;              (* that state has a FinalGroup *)
  n_timed_out : bool;           (* hasTimedOut: its Timeout is not in the future *)
  n_me_leaving : bool;          (* this node is in its Leaving list *)
  n_me_member : bool            (* this node is in its Remaining or Joining list *)
}.

Definition is_fresh (s : status) : bool := status_eqb s Fresh.

(* protoToDKGPacket + the rest of echoBroadcast.BroadcastDKG *)
Definition decide_echo (b : bundle) (deep_ok : bool) : decision :=
  match b with
  | BNone => Reject                                      (* "unknown packet" *)
  | BDeal inner_nil commits_ok nil_elem =>
      if inner_nil then EPanic PS_bundle_nil_inner
      else if negb commits_ok then Reject                (* invalid public coeff *)
      else if nil_elem then EPanic PS_bundle_nil_element
      else if deep_ok then Answer else Reject
  | BResp inner_nil nil_elem =>
      if inner_nil then EPanic PS_bundle_nil_inner
      else if nil_elem then EPanic PS_bundle_nil_element
      else if deep_ok then Answer else Reject
  | BJust inner_nil nil_elem shares_ok =>
      if inner_nil then EPanic PS_bundle_nil_inner
      else if nil_elem then EPanic PS_bundle_nil_element
      else if negb shares_ok then Reject
      else if deep_ok then Answer else Reject
  end.

(* dkg.Process.BroadcastDKG (no nil checks of its own) *)
Definition decide_bcast_process (d : dkg_shape) (exec : str -> bool) (deep_ok : bool) : decision :=
  match d with
  | DOuterNil | DInnerNil | DMetaNil _ => EPanic PS_bcast_nil_inner
  | DFull id b => if exec id then decide_echo b deep_ok else Reject
  end.

(* DrandDaemon.BroadcastDKG: the daemon's nil checks, then the process *)
Definition decide_bcast_daemon (d : dkg_shape) (exists_ exec : str -> bool) (deep_ok : bool) : decision :=
  match d with
  | DOuterNil | DInnerNil => Reject                      (* "DKG was missing from packet" *)
  | DMetaNil _ => Reject                                 (* "could not find packet metadata" *)
  | DFull id b => if exists_ id then decide_bcast_process d exec deep_ok else Reject
  end.

(* DBState.Apply and what follows in applyPacketToState *)
Definition decide_apply (v : variant) (ns : nstate) (deep_ok : bool) : decision :=
  let fin := if deep_ok then Answer else Reject in
  match v with
  | VNone => Reject
  | VDkg _ => Reject                                     (* "gossip packets should be handled above" *)
  | VProposal t =>
      if negb (valid_change (n_status ns) Proposed) then Reject else
      match t with
      | TNil => EPanic PS_proposal_nil_terms
      | TNilLeader => Reject                             (* ErrCannotProposeAsNonLeader *)
      | TSenderMismatch | TInvalidEarly => Reject
      | TReachesFinalGroup =>
          if is_fresh (n_status ns) then fin
          else if negb (n_fg_set ns) then Reject         (* ErrMissingPreviousGroup *)
          else fin
      end
  | VAccept inner_nil | VReject inner_nil =>
      if inner_nil then EPanic PS_variant_nil_inner else fin
  | VAbort =>
      if negb (valid_change (n_status ns) Aborted) then Reject
      else if negb (n_leader_set ns) then EPanic PS_abort_nil_leader
      else fin
  | VExecute =>
      if n_timed_out ns then Reject
      else if n_me_leaving ns && valid_change (n_status ns) Left then
        (if negb (n_leader_set ns) then EPanic PS_execute_nil_leader else fin)
      else if negb (valid_change (n_status ns) Executing) then Reject
      else if negb (n_me_member ns) then Reject
      else if negb (n_leader_set ns) then EPanic PS_execute_nil_leader
      else fin
  end.

(* dkg.Process.Packet *)
Definition decide_packet_process (g : gossip) (ns : nstate) (exec : str -> bool) : decision :=
  if g_nil g then Reject else
  match g_meta g with
  | None => Reject
  | Some m =>
      if 2 * gm_sig_len m <? 8 then Reject               (* hex signature shorter than ShortSigLength *)
      else if g_seen g then Answer                       (* duplicate: ignored *)
      else
        match g_var g with
        | VDkg DOuterNil => if n_exists ns then decide_apply (g_var g) ns (g_deep_ok g) else Reject
        | VDkg d => decide_bcast_process d exec (g_deep_ok g)
        | v => if n_exists ns then decide_apply v ns (g_deep_ok g) else Reject
        end
  end.

(* DrandDaemon.Packet *)
Definition decide_packet_daemon (g : gossip) (ns : nstate) (exec : str -> bool) : decision :=
  match g_meta g with
  | None => Reject
  | Some _ => if n_exists ns then decide_packet_process g ns exec else Reject
  end.

(* only the Answer outcome may change DKG state (SeenPackets, the stored current state) *)
Definition packet_effect (g : gossip) (ns : nstate) (exec : str -> bool) : bool :=
  match decide_packet_daemon g ns exec with
  | Answer => negb (g_seen g)
  | _ => false
  end.

(* shapes a remote party can actually put on the wire: decoding never produces a nil message
   inside a set oneof or a nil element of a repeated field *)
Definition bundle_wire (b : bundle) : bool :=
  match b with
  | BNone => true
  | BDeal i _ e => negb i && negb e
  | BResp i e => negb i && negb e
  | BJust i e _ => negb i && negb e
  end.
Definition dkg_wire (d : dkg_shape) : bool :=
  match d with
  | DOuterNil => false
  | DInnerNil => true
  | DMetaNil b | DFull _ b => bundle_wire b
  end.
Definition gossip_wire (g : gossip) : bool :=
  negb (g_nil g) &&
  match g_var g with
  | VProposal TNil => false
  | VAccept i | VReject i => negb i
  | VDkg d => dkg_wire d
  | _ => true
  end.

(* ---------- partial beacons (Protocol.PartialBeacon) ---------- *)
Record partial := mkP {
  p_round : Z;
  p_sig_len : Z;
  p_index_in_group : bool;      (* the 16-bit index names a node of the group *)
  p_index_self_addr : bool;     (* that node has our address *)
  p_index_own : bool;           (* the index is our own share index *)
  p_verify_ok : bool            (* oracle: the partial verifies *)
}.
Record bstate := mkB {
  b_started : bool;             (* bp.beacon != nil and chain hash set *)
  b_next_round : Z;
  b_last_stored : Z;
  b_sig_len : Z                 (* length of a partial signature of the scheme: point length + 2 *)
}.
Definition decide_partial (p : partial) (b : bstate) : decision :=
  if negb (b_started b) then Reject                      (* "DKG not finished yet" *)
  else if p_round p >? b_next_round b then Reject        (* future partial *)
  else if p_round p <=? b_last_stored b then Answer      (* past partial: ignored *)
  else if negb (p_sig_len p =? b_sig_len b) then Reject  (* invalid partial signature length *)
  else if negb (p_index_in_group p) then Reject
  else if p_index_self_addr p then Reject
  else if negb (p_verify_ok p) then Reject
  else Answer.

(* ---------- routed endpoints: readBeaconID on any metadata, incl. nil ---------- *)
Definition decide_routed (d : daemon) (m : option meta) (serves : str -> bool) : decision :=
  match get_process d m with
  | Err _ => Reject
  | Ok (i, _) => if serves i then Answer else Reject
  end.

(* ---------- HTTP parameter parsing ---------- *)
Fixpoint digits_value (s : str) (acc : Z) : option Z :=
  match s with
  | [] => Some acc
  | c :: r => if (48 <=? c) && (c <=? 57) then digits_value r (10 * acc + (c - 48)) else None
  end.
(* strconv.ParseUint(s, 10, 64) *)
Definition parse_uint64 (s : str) : option Z :=
  match s with
  | [] => None
  | _ => match digits_value s 0 with
         | Some v => if v <? 2 ^ 64 then Some v else None
         | None => None
         end
  end.
Inductive http_decision := H400 | H404 | HRouted (i : str) (round : Z).
(* DrandHandler.PublicRand: round first, then the chain hash, then the handler table *)
Definition decide_http_rand (t : list (str * str)) (seg : option str) (round : str) : http_decision :=
  match parse_uint64 round with
  | None => H400
  | Some r =>
      match http_route t seg with
      | HBad => H400
      | HNotFound => H404
      | HServe i => HRouted i r
      end
  end.

(* ---------- where each panic site sits ---------- *)
(* the handler whose frame contains the site (a name of Gen/LockPaths.v) and the gRPC service
   through which a remote party reaches it *)
Definition site_entry (s : psite) : str :=
  (* "dkg.Process.Packet" for everything reached through gossip; broadcast sites are also reached
     through "dkg.Process.BroadcastDKG" *)
  [100;107;103;46;80;114;111;99;101;115;115;46;80;97;99;107;101;116].
Definition site_entry_bcast : str :=
  [100;107;103;46;80;114;111;99;101;115;115;46;66;114;111;97;100;99;97;115;116;68;75;71].
Definition site_service : str := [68;75;71;80;117;98;108;105;99].  (* "DKGPublic" *)
