(* Model of the server side of a beacon stream: beacon.SyncChain
   (/repo/internal/chain/beacon/sync_manager.go) over a callback store
   (/repo/internal/chain/beacon/store.go) on the two kinds of cursor that exist:
   bolt (boltdb/store.go, boltdb/trimmed.go: Cursor runs inside db.View, a read transaction, so the
   scan sees the store as it was when Cursor() was called) and memdb (memdb/store.go:
   memDBCursor keeps an index into the live slice, so the scan sees later appends).
   PublicRandStream (internal/core/drand_beacon_public.go) calls the same routine.
   Executable definitions only (no proofs here).

   SyncChain, line by line:
     last := store.Last(); if last.Round < fromRound  -> return ErrNoBeaconStored
     if fromRound != 0 { store.Cursor: bb := Seek(fromRound); for bb != nil { send(bb); bb = Next() } }
     sendMu.Lock()
     store.AddCallback(id, cb)      cb: closed -> ErrCallbackReplaced; under sendMu: drop b if b.Round <= lastSent,
                                    else send(b) (fails -> RemoveCallback(id)), lastSent = b.Round
     send the stored rounds lastSent+1..Last().Round (what was stored since the scan); sendMu.Unlock()
     wait for the error
   (lastSent = fromRound-1, advanced by every send; = Last().Round when fromRound = 0.) The mutex is
   held from before AddCallback until the catch-up is over, so callback beacons come after it, and
   rounds <= lastSent are dropped: which of the two sends a given round is not observable, a stream
   is one FIFO of beacons.
   Events (the schedule is the quantified variable; the harness gates Send and AddCallback so that it
   chooses the schedule on the real code):
     SPutCtx d pre the same Put made with a context that is cancelled (see ss_step)
     SPut d        a beacon with content token d is appended to the store (round = next round) and
                   handed to every registered callback, FIFO per callback
     SStart c f    a client with connection id c calls SyncChain from round f: Last check, Cursor,
                   Seek, and the first Send is entered
     SAck k ok     the Send in progress of stream k returns (ok or error); the stream goes on to the
                   next read / next queued beacon
     SRegister k   stream k executes AddCallback
   The store holds rounds 0..n-1 at indices 0..n-1 (the stack under the callback store is append
   only, C02). Queues are unbounded here; blocking on full queues is the subject of Model/CbStore.v.

   s_missed = the beacons appended while the stream was between its snapshot / last scan read and
   its AddCallback; they are sent right after AddCallback. Ghost fields (they do not influence
   behaviour): s_exp = the beacons the stream is committed to deliver; s_reg. *)
From Coq Require Import ZArith List Bool.
Import ListNotations.
Open Scope Z_scope.

Inductive backend := Bolt | Mem.
Definition beacon := (Z * Z)%type.            (* round, content token (stands for the signature bytes) *)

Inductive sjob := SJ (b : beacon) | SJClose.
Inductive serr := SErrNoBeacon | SErrSend | SErrReplaced | SErrCanceled.

Inductive phase :=
| PScan (snap : list beacon) (pos : nat)   (* inside the cursor loop, Send of the beacon at [pos] in progress;
                                              snap = the store when Cursor() was called (used on Bolt) *)
| PWaitReg                                  (* the scan is over (or was skipped), AddCallback not yet executed *)
| PLive (q : list sjob) (busy : bool)       (* callback installed; busy = a Send is in progress *)
| PDone (e : serr).

Record stream := mkS {
  s_cid : Z;
  s_from : Z;
  s_phase : phase;
  s_sent : list beacon;        (* beacons passed to Send and not refused by it, in order *)
  s_base : nat;                (* index in the store of the first beacon the request asks for *)
  s_exp : list beacon;         (* ghost *)
  s_missed : list beacon;      (* appended since the snapshot / last scan read, not yet sent *)
  s_reg : option (nat * nat)   (* ghost: length of the store and of s_sent when AddCallback ran *)
}.

Record sst := mkSS {
  store : list beacon;
  streams : list stream;
  reg : list (Z * nat)         (* callbacks: connection id -> stream *)
}.

Definition ss_init (genesis : Z) : sst := mkSS [(0, genesis)] [] [].

Fixpoint rget (c : Z) (l : list (Z * nat)) : option nat :=
  match l with [] => None | (i, k) :: t => if c =? i then Some k else rget c t end.
Fixpoint rdel (c : Z) (l : list (Z * nat)) : list (Z * nat) :=
  match l with [] => [] | (i, k) :: t => if c =? i then rdel c t else (i, k) :: rdel c t end.
Definition registered (r : list (Z * nat)) (k : nat) : bool := existsb (fun e => Nat.eqb (snd e) k) r.

Fixpoint supd (n : nat) (x : stream) (l : list stream) : list stream :=
  match l, n with
  | [], _ => []
  | _ :: t, O => x :: t
  | h :: t, S m => h :: supd m x t
  end.

Definition set_phase (s : stream) (p : phase) : stream :=
  mkS (s_cid s) (s_from s) p (s_sent s) (s_base s) (s_exp s) (s_missed s) (s_reg s).
Definition push_sent (s : stream) (b : beacon) (p : phase) : stream :=
  mkS (s_cid s) (s_from s) p (s_sent s ++ [b]) (s_base s) (s_exp s) (s_missed s) (s_reg s).

(* what a Put does to one stream (k is its index) *)
Definition on_put (bk : backend) (r : list (Z * nat)) (b : beacon) (k : nat) (s : stream) : stream :=
  match s_phase s with
  | PScan snap pos =>
      match bk with
      | Bolt => mkS (s_cid s) (s_from s) (s_phase s) (s_sent s) (s_base s) (s_exp s) (s_missed s ++ [b]) (s_reg s)
      | Mem => mkS (s_cid s) (s_from s) (s_phase s) (s_sent s) (s_base s) (s_exp s ++ [b]) (s_missed s) (s_reg s)
      end
  | PWaitReg => mkS (s_cid s) (s_from s) PWaitReg (s_sent s) (s_base s) (s_exp s) (s_missed s ++ [b]) (s_reg s)
  | PLive q busy =>
      if registered r k then
        if busy then mkS (s_cid s) (s_from s) (PLive (q ++ [SJ b]) true) (s_sent s) (s_base s) (s_exp s ++ [b]) (s_missed s) (s_reg s)
        else mkS (s_cid s) (s_from s) (PLive q true) (s_sent s ++ [b]) (s_base s) (s_exp s ++ [b]) (s_missed s) (s_reg s)
      else s
  | PDone _ => s
  end.

Fixpoint map_idx {A B} (f : nat -> A -> B) (n : nat) (l : list A) : list B :=
  match l with [] => [] | x :: t => f n x :: map_idx f (S n) t end.

(* the close job reaches a stream that is being replaced *)
Definition on_close (s : stream) : stream :=
  match s_phase s with
  | PLive q true => set_phase s (PLive (q ++ [SJClose]) true)
  | PLive q false => set_phase s (PDone SErrReplaced)
  | _ => s
  end.

Inductive sev :=
| SPut (d : Z)
| SPutCtx (d : Z) (pre : bool)   (* a Put whose context is cancelled: before the call ([pre]) or between
                                   the commit of the wrapped store and the dispatch *)
| SStart (cid from : Z)
| SAck (k : Z) (ok : bool)
| SRegister (k : Z)
| SRegisterCancel (k : Z).      (* AddCallback, then the stream context is cancelled (the client is gone)
                                   before the catch-up: store.Last / store.Get (bolt) or send return the
                                   context's error, or the final select sees ctx.Done(): in every case
                                   SyncChain calls RemoveCallback(id) and returns that error; nothing is sent *)

(* callbackStore.Put: the wrapped store commits the beacon, then it is handed to every registered
   callback. The dispatch does not look at the context: a beacon that is in the store has been
   handed to every callback registered at that time. *)
Definition put_step (bk : backend) (st : sst) (d : Z) : sst :=
  let b := (Z.of_nat (length (store st)), d) in
  mkSS (store st ++ [b]) (map_idx (on_put bk (reg st) b) 0 (streams st)) (reg st).

Definition is_bolt (bk : backend) : bool := match bk with Bolt => true | Mem => false end.

Definition ss_step (bk : backend) (st : sst) (e : sev) : sst :=
  match e with
  | SPut d => put_step bk st d
  | SPutCtx d pre =>
      (* a context that is already done makes bolt's Put return ctx.Err() without writing (and the
         callback store then returns before the dispatch); memdb's Put ignores the context. A context
         that becomes done after the commit changes nothing. *)
      if pre && is_bolt bk then st else put_step bk st d
  | SStart cid from =>
      let n := length (store st) in
      let news :=
        if Z.of_nat n - 1 <? from then mkS cid from (PDone SErrNoBeacon) [] n [] [] None
        else if from =? 0 then mkS cid from PWaitReg [] n [] [] None
        else let i := Z.to_nat from in
             match nth_error (store st) i with
             | Some b => mkS cid from (PScan (store st) i) [b] i (skipn i (store st)) [] None
             | None => mkS cid from PWaitReg [] n [] [] None
             end in
      mkSS (store st) (streams st ++ [news]) (reg st)
  | SAck kz ok =>
      let k := Z.to_nat kz in
      match nth_error (streams st) k with
      | None => st
      | Some s =>
          match s_phase s with
          | PScan snap pos =>
              if ok then
                let src := match bk with Bolt => snap | Mem => store st end in
                match nth_error src (S pos) with
                | Some b => mkSS (store st) (supd k (push_sent s b (PScan snap (S pos))) (streams st)) (reg st)
                | None => mkSS (store st) (supd k (set_phase s PWaitReg) (streams st)) (reg st)
                end
              else mkSS (store st)
                        (supd k (mkS (s_cid s) (s_from s) (PDone SErrSend) (removelast (s_sent s)) (s_base s) (s_exp s) (s_missed s) (s_reg s)) (streams st))
                        (reg st)
          | PLive q true =>
              if ok then
                match q with
                | [] => mkSS (store st) (supd k (set_phase s (PLive [] false)) (streams st)) (reg st)
                | SJ b :: q' => mkSS (store st) (supd k (push_sent s b (PLive q' true)) (streams st)) (reg st)
                | SJClose :: q' => mkSS (store st) (supd k (set_phase s (PDone SErrReplaced)) (streams st)) (reg st)
                end
              else
                (* send failed: store.RemoveCallback(id) removes whatever is registered under this id *)
                mkSS (store st)
                     (supd k (mkS (s_cid s) (s_from s) (PDone SErrSend) (removelast (s_sent s)) (s_base s) (s_exp s) (s_missed s) (s_reg s)) (streams st))
                     (rdel (s_cid s) (reg st))
          | _ => st
          end
      end
  | SRegister kz =>
      let k := Z.to_nat kz in
      match nth_error (streams st) k with
      | None => st
      | Some s =>
          match s_phase s with
          | PWaitReg =>
              let strs := match rget (s_cid s) (reg st) with
                          | Some j => match nth_error (streams st) j with
                                      | Some o => supd j (on_close o) (streams st)
                                      | None => streams st end
                          | None => streams st end in
              (* the catch-up after AddCallback: the beacons stored since the snapshot / last scan read
                 (rounds lastSent+1 .. Last().Round) are read from the store and sent first, under the
                 mutex the callback needs; beacons appended later queue up behind them *)
              let rg := Some ((length (store st) - length (s_missed s))%nat, length (s_sent s)) in
              let s' := match s_missed s with
                        | [] => mkS (s_cid s) (s_from s) (PLive [] false) (s_sent s) (s_base s) (s_exp s) [] rg
                        | m :: ms => mkS (s_cid s) (s_from s) (PLive (map SJ ms) true) (s_sent s ++ [m]) (s_base s)
                                         (s_exp s ++ m :: ms) [] rg
                        end in
              mkSS (store st) (supd k s' strs) (rdel (s_cid s) (reg st) ++ [(s_cid s, k)])
          | _ => st
          end
      end
  | SRegisterCancel kz =>
      let k := Z.to_nat kz in
      match nth_error (streams st) k with
      | None => st
      | Some s =>
          match s_phase s with
          | PWaitReg =>
              (* AddCallback still replaces a callback registered under the same id *)
              let strs := match rget (s_cid s) (reg st) with
                          | Some j => match nth_error (streams st) j with
                                      | Some o => supd j (on_close o) (streams st)
                                      | None => streams st end
                          | None => streams st end in
              mkSS (store st) (supd k (set_phase s (PDone SErrCanceled)) strs) (rdel (s_cid s) (reg st))
          | _ => st
          end
      end
  end.

Fixpoint ss_run (bk : backend) (st : sst) (es : list sev) : sst :=
  match es with [] => st | e :: t => ss_run bk (ss_step bk st e) t end.

(* error class a stream ended with, if it ended *)
Definition s_error (s : stream) : option serr :=
  match s_phase s with PDone e => Some e | _ => None end.

(* the previous-signature field of the stored form of a beacon, as a content token (-1 = empty): on
   the chained scheme the signature of the previous round; on unchained schemes (and when the
   beacons are put without one) empty: schemeStore.Put clears the field on the beacon it is handed
   before the write, and the callback store hands that same object to the callbacks. A stream sends
   beacons in their stored form. *)
Definition stored_prev (chained : bool) (sto : list beacon) (b : beacon) : Z :=
  if chained && (0 <? fst b) then
    match nth_error sto (Z.to_nat (fst b - 1)) with Some p => snd p | None => -1 end
  else -1.

Fixpoint is_prefix (a b : list beacon) : bool :=
  match a, b with
  | [], _ => true
  | x :: a', y :: b' => (fst x =? fst y) && (snd x =? snd y) && is_prefix a' b'
  | _ :: _, [] => false
  end.
