(* Model of callbackStore in /repo/internal/chain/beacon/store.go (NewCallbackStore, Put,
   AddCallback, RemoveCallback, runWorker). Executable definitions only (no proofs here).

   Go                                         model
   c.callbacks / c.newJob (same key set)      cbs : callback id -> consumer instance
   chan cbPair of capacity CallbackWorkerQueue ch_q (FIFO, at most Q jobs) of the instance
   one goroutine runWorker per channel         ch_w: the worker takes a job as soon as it is idle
                                               (so Q+1 jobs are absorbed: one in the callback, Q queued)
   c.RWMutex                                   cur (a call that blocks while HOLDING the lock: Put on a
                                               full channel under RLock, AddCallback sending the close
                                               job to a full old channel under Lock) and waitq (calls
                                               waiting for the lock behind it, served in arrival order)
   the callback fn                             a consumer instance; [auto] = returns at once (keeps
                                               reading); otherwise it stays inside the callback until
                                               the schedule releases it (slow / stalled); a release may
                                               make it call RemoveCallback(its id) first, as the
                                               SyncChain callback does when Send fails

   A model step is one harness-visible event; everything that can proceed without a further event
   does so inside the step (the worker dequeues eagerly, a freed lock is handed on).
   One producer: a new Put is not issued while another Put is blocked (runAggregator is a single
   goroutine); if the schedule does so anyway the model queues it behind the blocked one.
   The dispatch of Put does not look at the context: a Put whose context is cancelled (before the call
   - memdb stores regardless - or between the commit and the dispatch) is the same event EPut.
   Go iterates over the callbacks map in random order; the model uses registration order, and the
   correspondence compares only what does not depend on that order. *)
From Coq Require Import ZArith List Bool.
Import ListNotations.
Open Scope Z_scope.

Inductive job := JBeacon (r : Z) | JClose.
Inductive wstate := WIdle | WInCb | WInRemove.

Record chan := mkCh {
  ch_cid : Z;            (* id the instance was registered under *)
  ch_auto : bool;
  ch_q : list job;       (* buffered jobs, oldest first *)
  ch_w : wstate;         (* worker idle / inside a gated callback / blocked in RemoveCallback *)
  ch_closed : bool;      (* close(jobChan) happened *)
  ch_log : list job      (* callback invocations started so far, oldest first *)
}.

Inductive call :=
| KPut (r : Z)
| KAdd (cid : Z) (k : nat)      (* AddCallback(cid, fn of instance k) *)
| KRemove (cid : Z)
| KWRemove (k : nat).           (* RemoveCallback called by the callback of instance k *)

Inductive held :=
| HPut (r : Z) (rest : list Z)            (* Put under RLock, blocked sending to the channel of hd rest *)
| HAdd (cid : Z) (k : nat) (old : nat).   (* AddCallback under Lock, blocked sending the close job to old *)

Record cbst := mkSt {
  inner : list Z;                 (* rounds put into the wrapped store, oldest first *)
  cbs : list (Z * nat);
  chans : list chan;
  cur : option (nat * held);      (* event number of the blocked call *)
  waitq : list (nat * call);
  ret : list nat                  (* event numbers whose call (or released callback) returned *)
}.
Definition cb_init : cbst := mkSt [] [] [] None [] [].

Fixpoint cget (id : Z) (l : list (Z * nat)) : option nat :=
  match l with [] => None | (i, k) :: t => if id =? i then Some k else cget id t end.
Fixpoint cdel (id : Z) (l : list (Z * nat)) : list (Z * nat) :=
  match l with [] => [] | (i, k) :: t => if id =? i then cdel id t else (i, k) :: cdel id t end.
Definition cset (id : Z) (k : nat) (l : list (Z * nat)) : list (Z * nat) := cdel id l ++ [(id, k)].

Fixpoint upd {A} (n : nat) (x : A) (l : list A) : list A :=
  match l, n with
  | [], _ => []
  | _ :: t, O => x :: t
  | h :: t, S m => h :: upd m x t
  end.

(* j <- cbPair on the channel of an instance; None = the channel is full (the send blocks) *)
Definition send_job (Q : Z) (ch : chan) (j : job) : option chan :=
  if ch_auto ch then Some (mkCh (ch_cid ch) true (ch_q ch) (ch_w ch) (ch_closed ch) (ch_log ch ++ [j]))
  else match ch_w ch with
       | WIdle => Some (mkCh (ch_cid ch) false (ch_q ch) WInCb (ch_closed ch) (ch_log ch ++ [j]))
       | _ => if Z.of_nat (length (ch_q ch)) <? Q
              then Some (mkCh (ch_cid ch) false (ch_q ch ++ [j]) (ch_w ch) (ch_closed ch) (ch_log ch))
              else None
       end.

(* the callback of a gated instance returned: the worker takes the next buffered job, if any *)
Definition finish (ch : chan) : chan :=
  match ch_q ch with
  | [] => mkCh (ch_cid ch) (ch_auto ch) [] WIdle (ch_closed ch) (ch_log ch)
  | j :: q => mkCh (ch_cid ch) (ch_auto ch) q WInCb (ch_closed ch) (ch_log ch ++ [j])
  end.

Definition close_ch (ch : chan) : chan :=
  mkCh (ch_cid ch) (ch_auto ch) (ch_q ch) (ch_w ch) true (ch_log ch).

(* the loop of Put over the callbacks: returns the channels and the ids still to serve
   ([] = the loop finished; otherwise the send to the head id blocks) *)
Fixpoint dispatch (Q : Z) (chs : list chan) (cb : list (Z * nat)) (r : Z) (ids : list Z)
  : list chan * list Z :=
  match ids with
  | [] => (chs, [])
  | id :: rest =>
      match cget id cb with
      | None => dispatch Q chs cb r rest
      | Some k =>
          match nth_error chs k with
          | None => dispatch Q chs cb r rest
          | Some ch =>
              match send_job Q ch (JBeacon r) with
              | Some ch' => dispatch Q (upd k ch' chs) cb r rest
              | None => (chs, ids)
              end
          end
      end
  end.

Definition set_chans (s : cbst) (c : list chan) : cbst :=
  mkSt (inner s) (cbs s) c (cur s) (waitq s) (ret s).
Definition add_ret (s : cbst) (n : nat) : cbst :=
  mkSt (inner s) (cbs s) (chans s) (cur s) (waitq s) (ret s ++ [n]).
Definition set_cur (s : cbst) (c : option (nat * held)) : cbst :=
  mkSt (inner s) (cbs s) (chans s) c (waitq s) (ret s).

Definition do_remove (s : cbst) (cid : Z) : cbst :=
  match cget cid (cbs s) with
  | None => s
  | Some k =>
      let chs := match nth_error (chans s) k with
                 | Some ch => upd k (close_ch ch) (chans s) | None => chans s end in
      mkSt (inner s) (cdel cid (cbs s)) chs (cur s) (waitq s) (ret s)
  end.

(* second half of AddCallback: callbacks[id] = fn; newJob[id] = fresh channel *)
Definition finish_add (s : cbst) (n : nat) (cid : Z) (k : nat) : cbst :=
  mkSt (inner s) (cset cid k (cbs s)) (chans s) None (waitq s) (ret s ++ [n]).

(* the dispatch part of Put (after c.Store.Put succeeded), from the ids still to serve *)
Definition put_from (Q : Z) (s : cbst) (n : nat) (r : Z) (ids : list Z) : cbst :=
  let '(chs, rem) := dispatch Q (chans s) (cbs s) r ids in
  match rem with
  | [] => mkSt (inner s) (cbs s) chs None (waitq s) (ret s ++ [n])
  | _ => mkSt (inner s) (cbs s) chs (Some (n, HPut r rem)) (waitq s) (ret s)
  end.

(* AddCallback from the point where the close job is sent to the old channel *)
Definition add_from (Q : Z) (s : cbst) (n : nat) (cid : Z) (k old : nat) : cbst :=
  match nth_error (chans s) old with
  | None => finish_add s n cid k
  | Some ch =>
      match send_job Q ch JClose with
      | None => set_cur s (Some (n, HAdd cid k old))
      | Some ch' => finish_add (set_chans s (upd old (close_ch ch') (chans s))) n cid k
      end
  end.

(* run a call with the lock available; the call either returns or becomes [cur] *)
Definition exec (Q : Z) (s : cbst) (n : nat) (c : call) : cbst :=
  match c with
  | KPut r => put_from Q s n r (map fst (cbs s))
  | KAdd cid k =>
      match cget cid (cbs s) with
      | Some old => add_from Q s n cid k old
      | None => finish_add s n cid k
      end
  | KRemove cid => add_ret (do_remove s cid) n
  | KWRemove k =>
      match nth_error (chans s) k with
      | None => s
      | Some ch =>
          let s1 := do_remove s (ch_cid ch) in
          match nth_error (chans s1) k with
          | None => s1
          | Some ch1 => add_ret (set_chans s1 (upd k (finish ch1) (chans s1))) n
          end
      end
  end.

(* hand the lock to the calls waiting for it, in arrival order, until one blocks while holding it *)
Fixpoint drain (Q : Z) (s : cbst) (wq : list (nat * call)) : cbst :=
  match wq with
  | [] => mkSt (inner s) (cbs s) (chans s) (cur s) [] (ret s)
  | (n, c) :: rest =>
      let s1 := exec Q (mkSt (inner s) (cbs s) (chans s) None [] (ret s)) n c in
      match cur s1 with
      | Some _ => mkSt (inner s1) (cbs s1) (chans s1) (cur s1) rest (ret s1)
      | None => drain Q s1 rest
      end
  end.

(* something changed (a worker took a job, a callback returned): retry the call that holds the lock *)
Definition resume (Q : Z) (s : cbst) : cbst :=
  match cur s with
  | None => drain Q s (waitq s)
  | Some (n, HPut r rem) =>
      let s1 := put_from Q s n r rem in
      match cur s1 with Some _ => s1 | None => drain Q s1 (waitq s1) end
  | Some (n, HAdd cid k old) =>
      let s1 := add_from Q s n cid k old in
      match cur s1 with Some _ => s1 | None => drain Q s1 (waitq s1) end
  end.

Definition lock_free (s : cbst) : bool :=
  match cur s, waitq s with None, [] => true | _, _ => false end.

Definition submit (Q : Z) (s : cbst) (n : nat) (c : call) : cbst :=
  if lock_free s then exec Q s n c
  else mkSt (inner s) (cbs s) (chans s) (cur s) (waitq s ++ [(n, c)]) (ret s).

Inductive ev :=
| EPut (r : Z)
| EAdd (cid : Z) (auto : bool)
| ERemove (cid : Z)
| ERelease (k : Z) (rm : bool).

Definition cb_step (Q : Z) (s : cbst) (n : nat) (e : ev) : cbst :=
  match e with
  | EPut r =>
      (* c.Store.Put first, outside the lock; round 0 is stored but not dispatched *)
      let s0 := mkSt (inner s ++ [r]) (cbs s) (chans s) (cur s) (waitq s) (ret s) in
      if r =? 0 then add_ret s0 n else submit Q s0 n (KPut r)
  | EAdd cid auto =>
      let k := length (chans s) in
      submit Q (set_chans s (chans s ++ [mkCh cid auto [] WIdle false []])) n (KAdd cid k)
  | ERemove cid => submit Q s n (KRemove cid)
  | ERelease kz rm =>
      let k := Z.to_nat kz in
      match nth_error (chans s) k with
      | None => s
      | Some ch =>
          match ch_w ch with
          | WInCb =>
              if rm then
                if lock_free s then resume Q (exec Q s n (KWRemove k))
                else mkSt (inner s) (cbs s)
                          (upd k (mkCh (ch_cid ch) (ch_auto ch) (ch_q ch) WInRemove (ch_closed ch) (ch_log ch)) (chans s))
                          (cur s) (waitq s ++ [(n, KWRemove k)]) (ret s)
              else resume Q (add_ret (set_chans s (upd k (finish ch) (chans s))) n)
          | _ => s      (* the instance is not inside a callback: nothing to release *)
          end
      end
  end.

Fixpoint cb_run_from (Q : Z) (s : cbst) (n : nat) (es : list ev) : cbst :=
  match es with
  | [] => s
  | e :: t => cb_run_from Q (cb_step Q s n e) (S n) t
  end.
Definition cb_run (Q : Z) (es : list ev) : cbst := cb_run_from Q cb_init 0 es.

(* event numbers whose call returned within its own step *)
Fixpoint cb_immediate (Q : Z) (s : cbst) (n : nat) (es : list ev) : list nat :=
  match es with
  | [] => []
  | e :: t =>
      let s1 := cb_step Q s n e in
      (if existsb (Nat.eqb n) (ret s1) then [n] else []) ++ cb_immediate Q s1 (S n) t
  end.

(* all jobs an instance was handed so far, in order: started callbacks then the buffer *)
Definition ch_jobs (ch : chan) : list job := ch_log ch ++ ch_q ch.
