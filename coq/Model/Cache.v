(* Model of /repo/internal/chain/beacon/cache.go (partialCache, roundCache) and of the store
   window of runAggregator in chainstore.go. Executable definitions only (no proofs here).

   Go                                   model
   roundID(round, prev) (string)        cid = (round, prev): the 8 fixed bytes of the round followed
                                        by prev, so the string is injective on the pair
   c.rounds : map[string]*roundCache    rounds : association list cid -> signer indices (the keys of
                                        roundCache.sigs in insertion order; round/prev of the cache
                                        are those of its id, as newRoundCache(id, p) sets them)
   c.rcvd   : map[int][]string          rcvd : association list index -> list cid (slice order kept)
   MaxPartialsPerNode                   cap (parameter; instantiated with Gen.Consts)

   The signature bytes kept in roundCache.sigs are not modelled (C12 is about sizes and presence). *)
From Coq Require Import ZArith List Bool.
Import ListNotations.
Open Scope Z_scope.

(* ---- byte strings and cache ids ---- *)
Fixpoint bytes_eqb (a b : list Z) : bool :=
  match a, b with
  | [], [] => true
  | x :: a', y :: b' => (x =? y) && bytes_eqb a' b'
  | _, _ => false
  end.

Definition cid := (Z * list Z)%type.
Definition cid_eqb (a b : cid) : bool := (fst a =? fst b) && bytes_eqb (snd a) (snd b).

(* ---- association lists (Go maps; iteration order is never observed by the code modelled) ---- *)
Section AList.
  Context {K V : Type} (eqb : K -> K -> bool).
  Fixpoint aget (k : K) (l : list (K * V)) : option V :=
    match l with
    | [] => None
    | (k', v) :: t => if eqb k k' then Some v else aget k t
    end.
  Fixpoint aset (k : K) (v : V) (l : list (K * V)) : list (K * V) :=
    match l with
    | [] => [(k, v)]
    | (k', v') :: t => if eqb k k' then (k, v) :: t else (k', v') :: aset k v t
    end.
  Fixpoint adel (k : K) (l : list (K * V)) : list (K * V) :=
    match l with
    | [] => []
    | (k', v') :: t => if eqb k k' then adel k t else (k', v') :: adel k t
    end.
End AList.

Fixpoint zmem (x : Z) (l : list Z) : bool :=
  match l with [] => false | y :: t => (x =? y) || zmem x t end.
Fixpoint zremove (x : Z) (l : list Z) : list Z :=
  match l with [] => [] | y :: t => if x =? y then zremove x t else y :: zremove x t end.
Definition is_nil {A} (l : list A) : bool := match l with [] => true | _ => false end.

Record pcache := mkPC {
  rounds : list (cid * list Z);
  rcvd : list (Z * list cid)
}.
Definition pc_init : pcache := mkPC [] [].

Definition sigs_of (c : pcache) (id : cid) : option (list Z) := aget cid_eqb id (rounds c).
Definition rcvd_of (c : pcache) (idx : Z) : list cid :=
  match aget Z.eqb idx (rcvd c) with Some l => l | None => [] end.

(* error classes of partialCache.Append *)
Inductive cerr := COk | CErrIndex | CErrEvictMissing | CPanicEmpty.

Definition has_entry (c : pcache) (idx : Z) (id : cid) : bool :=
  match sigs_of c id with Some s => zmem idx s | None => false end.

(* the cap check of getCache: when the signer already has cap entries its oldest id rcvd[idx][0]
   is dropped: flushIndex(idx) on that round cache (error when it no longer exists), the round cache
   is deleted when it became empty, rcvd[idx] = rcvd[idx][1:]. Result: the round caches and the
   signer's remaining ids. *)
Inductive evres := EvOk (rs : list (cid * list Z)) (L : list cid) | EvErr (e : cerr).
Definition pc_evict (cap : Z) (c : pcache) (idx : Z) : evres :=
  let L := rcvd_of c idx in
  if cap <=? Z.of_nat (length L) then
    match L with
    | [] => EvErr CPanicEmpty          (* rcvd[idx][0] on an empty slice: only if cap <= 0 *)
    | h :: t =>
        match sigs_of c h with
        | None => EvErr CErrEvictMissing
        | Some hs =>
            let hs' := zremove idx hs in
            EvOk (if is_nil hs' then adel cid_eqb h (rounds c) else aset cid_eqb h hs' (rounds c)) t
        end
    end
  else EvOk (rounds c) L.

(* partialCache.Append(p) for a partial whose IndexOf is [idx] and whose id is [id], getCache
   inlined: when the round cache exists and already holds idx nothing changes (round.append returns
   false); otherwise the signer is about to get a new entry, in a new round cache or in one created
   by another signer: the cap check above, then the round cache is created if needed,
   round.append(p) stores the partial and id is appended (once) to rcvd[idx]. *)
Definition pc_append (cap : Z) (c : pcache) (idx : Z) (id : cid) : pcache * cerr :=
  if has_entry c idx id then (c, COk)
  else match pc_evict cap c idx with
       | EvErr e => (c, e)
       | EvOk rs L =>
           let old := match aget cid_eqb id rs with Some s => s | None => [] end in
           (mkPC (aset cid_eqb id (old ++ [idx]) rs) (aset Z.eqb idx (L ++ [id]) (rcvd c)), COk)
       end.

(* partialCache.FlushRounds(r): every round cache with cache.round <= r is deleted and its id is
   filtered out of rcvd[idx] for every idx in cache.sigs (only those); an emptied rcvd[idx] is
   deleted. The loop over the map is written as one pass: [flushed c r id idx] says that the loop
   meets a deleted cache with this id holding idx. *)
Definition flushed (c : pcache) (r : Z) (id : cid) (idx : Z) : bool :=
  existsb (fun e => cid_eqb id (fst e) && (fst (fst e) <=? r) && zmem idx (snd e)) (rounds c).

Definition pc_flush (c : pcache) (r : Z) : pcache :=
  mkPC (filter (fun e => negb (fst (fst e) <=? r)) (rounds c))
       (filter (fun e => negb (is_nil (snd e)))
          (map (fun e => (fst e, filter (fun x => negb (flushed c r x (fst e))) (snd e))) (rcvd c))).

(* ---- operations on the cache alone ---- *)
Inductive cop :=
| CAppend (idx : Z) (id : cid)      (* well-formed partial *)
| CAppendBad (id : cid)             (* IndexOf fails on the partial bytes *)
| CFlush (r : Z).

Definition pc_step (cap : Z) (c : pcache) (o : cop) : pcache * cerr :=
  match o with
  | CAppend idx id => pc_append cap c idx id
  | CAppendBad _ => (c, CErrIndex)
  | CFlush r => (pc_flush c r, COk)
  end.

Fixpoint pc_run (cap : Z) (c : pcache) (ops : list cop) : pcache :=
  match ops with
  | [] => c
  | o :: t => pc_run cap (fst (pc_step cap c o)) t
  end.

(* run with the error class of every operation *)
Fixpoint pc_trace (cap : Z) (c : pcache) (ops : list cop) : list cerr * pcache :=
  match ops with
  | [] => ([], c)
  | o :: t => let '(c1, e) := pc_step cap c o in
              let '(es, c2) := pc_trace cap c1 t in (e :: es, c2)
  end.

(* ---- observables ---- *)
(* number of round caches that hold a partial of idx *)
Definition live_count (c : pcache) (idx : Z) : nat :=
  length (filter (fun e => zmem idx (snd e)) (rounds c)).

(* ---- the aggregator's view: store window and flush on every stored beacon ----
   runAggregator: lastBeacon is replaced by every beacon read from beaconStoredAgg, followed by
   cache.FlushRounds(lastBeacon.Round); a partial is appended only when
   lastBeacon.Round < pRound <= lastBeacon.Round + partialCacheStoreLimit + 1. *)
Definition should_store (limit extra head r : Z) : bool :=
  (head <? r) && (r <=? head + limit + extra).

Inductive aev :=
| AStored (r : Z)                   (* a beacon of round r was stored (callback "chainstore") *)
| APartial (idx : Z) (id : cid)     (* a verified partial reaches the aggregator *)
| AAggregated (r : Z) (put_ok : bool).
    (* the round cache of the partial just appended reached the threshold and a beacon of round r
       was recovered: cache.FlushRounds(r), then tryAppend(lastBeacon, newBeacon), which refuses
       unless r = lastBeacon.Round+1 and otherwise calls Put ([put_ok] = stored or already stored);
       on success lastBeacon = newBeacon *)

Record agg := mkAgg { a_head : Z; a_cache : pcache }.

Definition agg_step (cap limit extra : Z) (a : agg) (e : aev) : agg :=
  match e with
  | AStored r => mkAgg r (pc_flush (a_cache a) r)
  | APartial idx id =>
      if should_store limit extra (a_head a) (fst id)
      then mkAgg (a_head a) (fst (pc_append cap (a_cache a) idx id))
      else a
  | AAggregated r put_ok =>
      mkAgg (if (a_head a + 1 =? r) && put_ok then r else a_head a) (pc_flush (a_cache a) r)
  end.

Fixpoint agg_run (cap limit extra : Z) (a : agg) (es : list aev) : agg :=
  match es with [] => a | e :: t => agg_run cap limit extra (agg_step cap limit extra a e) t end.

(* stored rounds never decrease (appendStore only accepts last+1) *)
Fixpoint heads_mono (h : Z) (es : list aev) : Prop :=
  match es with
  | [] => True
  | AStored r :: t => h <= r /\ heads_mono r t
  | APartial _ _ :: t => heads_mono h t
  | AAggregated r ok :: t => heads_mono (if (h + 1 =? r) && ok then r else h) t
  end.

(* ---- who can cause an append: validity of a partial packet ----
   ProcessPartialBeacon verifies the partial signature against DigestBeacon(round, prev) before
   handing the packet to the aggregator. On the chained scheme the digest covers prev; on the
   unchained schemes it covers the round only. A partial signature is represented symbolically by
   its signer and the message it was made for. *)
Inductive scheme_kind := Chained | Unchained.
Record psig := mkPS { ps_signer : Z; ps_round : Z; ps_prev : option (list Z) }.
Record packet := mkPkt { pk_round : Z; pk_prev : list Z; pk_sig : psig }.

Definition opt_bytes_eqb (a b : option (list Z)) : bool :=
  match a, b with
  | None, None => true
  | Some x, Some y => bytes_eqb x y
  | _, _ => false
  end.
(* the message a partial for (round, prev) must be signed on *)
Definition msg_prev (k : scheme_kind) (prev : list Z) : option (list Z) :=
  match k with Chained => Some prev | Unchained => None end.
Definition pkt_valid (k : scheme_kind) (p : packet) : bool :=
  (ps_round (pk_sig p) =? pk_round p) && opt_bytes_eqb (ps_prev (pk_sig p)) (msg_prev k (pk_prev p)).
(* what an honest signer of scheme k produces for (round, prev) *)
Definition honest_sig (k : scheme_kind) (i r : Z) (prev : list Z) : psig := mkPS i r (msg_prev k prev).

Inductive nev :=
| NPacket (p : packet)              (* a partial packet arrives from the network *)
| NFlush (r : Z).

Definition cop_of (k : scheme_kind) (e : nev) : list cop :=
  match e with
  | NPacket p => if pkt_valid k p then [CAppend (ps_signer (pk_sig p)) (pk_round p, pk_prev p)] else []
  | NFlush r => [CFlush r]
  end.
Definition cops_of (k : scheme_kind) (es : list nev) : list cop := flat_map (cop_of k) es.

(* ---- the aggregator's input channel while the aggregator is stalled ----
   chainStore.NewValidPartial is a blocking send on newPartials (capacity defaultPartialChanBuffer).
   While the aggregator takes nothing out of the channel (it is held in a Put), a caller that hands
   over one verified partial after the other gets through until the channel is full and is held in
   the next call: the partials pending in the node on behalf of that caller are min(sent, capacity). *)
Fixpoint np_run (cap pending : Z) (sent : nat) : Z :=
  match sent with
  | O => pending
  | S k => if pending <? cap then np_run cap (pending + 1) k else pending   (* held: no further call *)
  end.
