(* Byte-level encodings shared by the hash model (C17) and the codec model (C20): fixed-width
   integers, byte-string equality, hexadecimal text. Byte strings are [list Z] with elements
   in 0..255; Go strings are byte strings too. Definitions only. *)
From Coq Require Import String Ascii ZArith List Bool.
Import ListNotations.
Open Scope Z_scope.

Definition bytes := list Z.

(* the n low-order bytes of z, least significant first; for negative z this is the two's
   complement representation, as written by encoding/binary for intNN values *)
Fixpoint le_bytes (n : nat) (z : Z) : bytes :=
  match n with O => [] | S k => (z mod 256) :: le_bytes k (z / 256) end.
Definition be_bytes (n : nat) (z : Z) : bytes := rev (le_bytes n z).

Definition be32 := be_bytes 4.
Definition be64 := be_bytes 8.
Definition le32 := le_bytes 4.
Definition le64 := le_bytes 8.

Fixpoint bytes_eqb (a b : bytes) : bool :=
  match a, b with
  | [], [] => true
  | x :: a', y :: b' => (x =? y) && bytes_eqb a' b'
  | _, _ => false
  end.

Definition is_byte (x : Z) : bool := (0 <=? x) && (x <? 256).
Definition all_bytes (b : bytes) : bool := forallb is_byte b.

(* encoding/hex: lower-case digits *)
Definition hex_digit (n : Z) : Z := if n <? 10 then 48 + n else 87 + n.
Fixpoint hex_encode (b : bytes) : bytes :=
  match b with [] => [] | x :: r => hex_digit (x / 16) :: hex_digit (x mod 16) :: hex_encode r end.

(* hex.DecodeString accepts both cases and rejects odd length / other characters *)
Definition hex_val (c : Z) : option Z :=
  if (48 <=? c) && (c <=? 57) then Some (c - 48)
  else if (97 <=? c) && (c <=? 102) then Some (c - 87)
  else if (65 <=? c) && (c <=? 70) then Some (c - 55)
  else None.
Fixpoint hex_decode (s : bytes) : option bytes :=
  match s with
  | [] => Some []
  | [_] => None
  | h :: l :: r =>
      match hex_val h, hex_val l, hex_decode r with
      | Some a, Some b, Some t => Some (a * 16 + b :: t)
      | _, _, _ => None
      end
  end.

Definition ns_per_s : Z := 1000000000.

(* compact notation for byte strings in generated case files: hx "0aff" = [10; 255] *)
Definition hexchar_val (c : ascii) : Z :=
  let n := Z.of_nat (nat_of_ascii c) in
  if n <? 58 then n - 48 else n - 87.
Fixpoint hx (s : string) : bytes :=
  match s with
  | String a (String b r) => (hexchar_val a * 16 + hexchar_val b) :: hx r
  | _ => []
  end.
