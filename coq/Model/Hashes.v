(* Model of the hash preimages of /repo/common/chain/info.go (Info.Hash),
   /repo/common/key/group.go (Group.Hash), node.go (Node.Hash), keys.go (DistPublic.Hash).
   The sequence of writes is NOT written here: it is the generated Gen/HashOrder.v (read from
   the Go sources on every run) and the preimages are folds over it ([eval_items]).
   Points are their MarshalBinary encodings (opaque byte strings); the hash functions are
   section variables. Definitions only. *)
From Coq Require Import ZArith List Bool String.
From DV Require Import Model.ByteEnc Model.HashVocab Gen.HashOrder.
Import ListNotations.
Open Scope Z_scope.
Open Scope list_scope.

(* ---- beacon ids (common/beacon.go) ---- *)
Definition is_default_id (id : bytes) : bool := bytes_eqb id default_beacon_id || bytes_eqb id [].
Definition canon_id (id : bytes) : bytes := if is_default_id id then default_beacon_id else id.
(* CompareBeaconIDs *)
Definition id_equiv (a b : bytes) : bool := (is_default_id a && is_default_id b) || bytes_eqb a b.
(* what the hashes write for an id *)
Definition id_bytes (id : bytes) : bytes := if is_default_id id then [] else id.

(* ---- evaluation of a generated write order ---- *)
Inductive hval :=
| HInt (z : Z)
| HBytes (b : bytes)
| HPoints (ps : list bytes)
| HElems (key : string) (l : list (Z * bytes))   (* elements in listing order: (sort key, digest) *)
| HSub (o : option bytes).                       (* digest of a pointed-to value; None = nil *)

Definition enc_int (e : endian) (w : Z) (z : Z) : bytes :=
  match e with LE => le_bytes (Z.to_nat w) z | BE => be_bytes (Z.to_nat w) z end.
Definition apply_conv (c : iconv) (z : Z) : Z := match c with CRaw => z | CSecs => z / ns_per_s end.

(* stable insertion sort on the key; for pairwise distinct keys every correct sort (Go's
   sort.Slice included) returns this list (Proofs/HashesProofs.v, [sorted_perm_unique]) *)
Fixpoint insert_k {A} (x : Z * A) (l : list (Z * A)) : list (Z * A) :=
  match l with
  | [] => [x]
  | y :: r => if fst x <=? fst y then x :: y :: r else y :: insert_k x r
  end.
Fixpoint isort_k {A} (l : list (Z * A)) : list (Z * A) :=
  match l with [] => [] | x :: r => insert_k x (isort_k r) end.

Fixpoint eval_item (env : string -> option hval) (it : hitem) : option bytes :=
  match it with
  | WInt e w c f => match env f with Some (HInt z) => Some (enc_int e w (apply_conv c z)) | _ => None end
  | WBytes f | WString f | WPoint f => match env f with Some (HBytes b) => Some b | _ => None end
  | WEachPoint f => match env f with Some (HPoints ps) => Some (List.concat ps) | _ => None end
  | WEachHash s f _ =>
      match env f with
      | Some (HElems k l) =>
          match s with
          | Listing => Some (List.concat (map snd l))
          | SortedAsc k' => if String.eqb k k' then Some (List.concat (map snd (isort_k l))) else None
          end
      | _ => None
      end
  | WSubHash f _ => match env f with Some (HSub (Some d)) => Some d | _ => None end
  | WIf g it' =>
      match g with
      | GNotDefaultID f =>
          match env f with Some (HBytes id) => if is_default_id id then Some [] else eval_item env it' | _ => None end
      | GNonZero f =>
          match env f with Some (HInt z) => if z =? 0 then Some [] else eval_item env it' | _ => None end
      | GNotNil f =>
          match env f with Some (HSub None) => Some [] | Some (HSub (Some _)) => eval_item env it' | _ => None end
      end
  end.
Fixpoint eval_items (env : string -> option hval) (its : list hitem) : option bytes :=
  match its with
  | [] => Some []
  | it :: r => match eval_item env it, eval_items env r with Some a, Some b => Some (a ++ b) | _, _ => None end
  end.
(* a write the evaluator cannot perform corresponds to a Go panic / compile error; the
   lemmas [*_pre_eq] show it does not happen for the generated orders *)
Definition run_spec (sp : hashspec) (env : string -> option hval) : bytes :=
  match eval_items env (hs_items sp) with Some b => b | None => [] end.

(* ---- the values being hashed ---- *)
Record mnode := { n_idx : Z; n_key : bytes; n_addr : bytes; n_sig : bytes }.
Record mgroup := {
  g_thr : Z; g_period : Z (* ns *); g_catchup : Z (* ns *); g_scheme : bytes; g_id : bytes;
  g_nodes : list mnode; g_genesis : Z; g_seed : option bytes (* None = nil *);
  g_ttime : Z; g_pk : option (list bytes) (* None = nil *) }.
Record minfo := {
  i_pk : bytes; i_id : bytes; i_period : Z (* ns *); i_scheme : bytes; i_genesis : Z; i_seed : bytes }.

Definition feq (a b : string) : bool := String.eqb a b.

Section Hash.
  Variables H256 Hb : bytes -> bytes.      (* SHA-256, BLAKE2b-256 *)
  Definition hash_of (fn : hashfn) : bytes -> bytes := match fn with SHA256 => H256 | BLAKE2b256 => Hb end.

  Definition node_env (n : mnode) (f : string) : option hval :=
    if feq f "Index" then Some (HInt (n_idx n)) else
    if feq f "Key" then Some (HBytes (n_key n)) else None.
  Definition node_pre (n : mnode) : bytes := run_spec node_hash_spec (node_env n).
  Definition node_hash (n : mnode) : bytes := hash_of (hs_fn node_hash_spec) (node_pre n).

  Definition dist_env (cs : list bytes) (f : string) : option hval :=
    if feq f "Coefficients" then Some (HPoints cs) else None.
  Definition dist_pre (cs : list bytes) : bytes := run_spec distpublic_hash_spec (dist_env cs).
  Definition dist_hash (cs : list bytes) : bytes := hash_of (hs_fn distpublic_hash_spec) (dist_pre cs).

  Definition node_elem (n : mnode) : Z * bytes := (n_idx n, node_hash n).
  Definition group_env (g : mgroup) (f : string) : option hval :=
    if feq f "Nodes" then Some (HElems "Index" (map node_elem (g_nodes g))) else
    if feq f "Threshold" then Some (HInt (g_thr g)) else
    if feq f "GenesisTime" then Some (HInt (g_genesis g)) else
    if feq f "TransitionTime" then Some (HInt (g_ttime g)) else
    if feq f "PublicKey" then Some (HSub (option_map dist_hash (g_pk g))) else
    if feq f "ID" then Some (HBytes (g_id g)) else None.
  Definition group_pre (g : mgroup) : bytes := run_spec group_hash_spec (group_env g).
  Definition group_hash (g : mgroup) : bytes := hash_of (hs_fn group_hash_spec) (group_pre g).

  (* Group.GetGenesisSeed *)
  Definition genesis_seed (g : mgroup) : bytes :=
    match g_seed g with Some s => s | None => group_hash g end.

  Definition info_env (i : minfo) (f : string) : option hval :=
    if feq f "Period" then Some (HInt (i_period i)) else
    if feq f "GenesisTime" then Some (HInt (i_genesis i)) else
    if feq f "PublicKey" then Some (HBytes (i_pk i)) else
    if feq f "GenesisSeed" then Some (HBytes (i_seed i)) else
    if feq f "ID" then Some (HBytes (i_id i)) else None.
  Definition chain_pre (i : minfo) : bytes := run_spec info_hash_spec (info_env i).
  Definition chain_hash (i : minfo) : bytes := hash_of (hs_fn info_hash_spec) (chain_pre i).

  (* chain.NewChainInfo; None where the Go code would dereference nil / index an empty slice *)
  Definition info_of_group (g : mgroup) : option minfo :=
    match g_pk g with
    | Some (c :: _) =>
        Some {| i_pk := c; i_id := g_id g; i_period := g_period g; i_scheme := g_scheme g;
                i_genesis := g_genesis g; i_seed := genesis_seed g |}
    | _ => None
    end.
End Hash.
