(* Proofs about Model/CbStore.v (property C12, callback store): runs in which no queue can fill
   never block and serve every registered consumer; a Put that found a full queue stays blocked
   as long as that consumer does not return from its callback, and for ever once that consumer is
   itself stuck in RemoveCallback. *)
From Coq Require Import ZArith List Bool Lia.
From DV Require Import Model.CbStore.
Import ListNotations.
Open Scope Z_scope.


(* ---- lists ---- *)
Lemma length_upd {A} n (x : A) l : length (upd n x l) = length l.
Proof. revert n; induction l as [|h t IH]; destruct n; simpl; auto. Qed.
Lemma nth_upd_same {A} n (x : A) l : (n < length l)%nat -> nth_error (upd n x l) n = Some x.
Proof. revert n; induction l as [|h t IH]; destruct n; simpl; intros; try lia; auto. apply IH; lia. Qed.
Lemma nth_upd_other {A} n m (x : A) l : n <> m -> nth_error (upd n x l) m = nth_error l m.
Proof.
  revert n m; induction l as [|h t IH]; destruct n, m; simpl; intros; auto; try congruence.
Qed.
Lemma nth_some_lt {A} (l : list A) n x : nth_error l n = Some x -> (n < length l)%nat.
Proof. intro H. apply nth_error_Some. congruence. Qed.

(* ---- the callbacks map ---- *)
Lemma cget_In id k l : cget id l = Some k -> In (id, k) l.
Proof.
  induction l as [|[i k'] t IH]; simpl; [discriminate|].
  destruct (id =? i) eqn:E; [apply Z.eqb_eq in E; subst; intro H; inversion H; auto | auto].
Qed.
Lemma In_cget id k l : NoDup (map fst l) -> In (id, k) l -> cget id l = Some k.
Proof.
  induction l as [|[i k'] t IH]; simpl; [tauto|]. intros ND [H|H].
  - inversion H; subst. rewrite Z.eqb_refl; auto.
  - inversion ND; subst. destruct (id =? i) eqn:E; auto.
    apply Z.eqb_eq in E; subst. exfalso. apply H2. change i with (fst (i, k)). apply in_map; auto.
Qed.
Lemma In_cdel id l e : In e (cdel id l) <-> In e l /\ fst e <> id.
Proof.
  induction l as [|[i k] t IH]; simpl; [tauto|].
  destruct (id =? i) eqn:E.
  - apply Z.eqb_eq in E; subst. rewrite IH. split; [tauto|]. intros [[H|H] N]; auto. subst; simpl in N; congruence.
  - apply Z.eqb_neq in E. simpl. rewrite IH. split; [intros [H|H]; [subst; simpl; auto | tauto] | tauto].
Qed.
Lemma nodup_cdel_fst id l : NoDup (map fst l) -> NoDup (map fst (cdel id l)).
Proof.
  induction l as [|[i k] t IH]; simpl; intro ND; [constructor|]. inversion ND; subst.
  destruct (id =? i); auto. simpl. constructor; auto. intro H. apply H1.
  apply in_map_iff in H as [e [E H]]. apply In_cdel in H as [H _]. subst. apply in_map; auto.
Qed.
Lemma nodup_cdel_snd id l : NoDup (map snd l) -> NoDup (map snd (cdel id l)).
Proof.
  induction l as [|[i k] t IH]; simpl; intro ND; [constructor|]. inversion ND; subst.
  destruct (id =? i); auto. simpl. constructor; auto. intro H. apply H1.
  apply in_map_iff in H as [e [E H]]. apply In_cdel in H as [H _]. subst. apply in_map; auto.
Qed.

(* ---- channel invariant: with p beacons dispatched so far an instance has been handed at most
        p jobs (one more once its channel is closed), and the first of them went to the worker ---- *)
Definition chinv (p : Z) (ch : chan) : Prop :=
  (ch_w ch = WIdle -> ch_q ch = []) /\
  (ch_w ch <> WIdle -> ch_log ch <> []) /\
  Z.of_nat (length (ch_log ch) + length (ch_q ch)) <= p + (if ch_closed ch then 1 else 0) /\
  (ch_auto ch = true -> ch_w ch = WIdle).

Lemma chinv_mono p p' ch : p <= p' -> chinv p ch -> chinv p' ch.
Proof. intros L [A [B [C D]]]. repeat split; auto. lia. Qed.

Lemma app_not_nil {A} (l : list A) x : l ++ [x] <> [].
Proof. destruct l; discriminate. Qed.

Lemma send_beacon_ok Q p ch r : chinv p ch -> ch_closed ch = false -> p + 1 <= Q ->
  exists ch', send_job Q ch (JBeacon r) = Some ch' /\ chinv (p + 1) ch' /\ ch_closed ch' = false /\
              ch_cid ch' = ch_cid ch /\ (exists pre, ch_jobs ch' = pre ++ [JBeacon r]).
Proof.
  intros [A [B [C D]]] Op L. unfold send_job. destruct ch as [cid au q w cl lg]; simpl in *. subst cl.
  destruct au.
  - specialize (D eq_refl). subst w. specialize (A eq_refl). subst q.
    eexists; split; [reflexivity|]. unfold chinv, ch_jobs; simpl. repeat split; auto; try congruence.
    + rewrite app_length; simpl. lia.
    + exists lg. rewrite app_nil_r; auto.
  - destruct w.
    + specialize (A eq_refl). subst q. eexists; split; [reflexivity|]. unfold chinv, ch_jobs; simpl.
      repeat split; auto; try congruence; try discriminate.
      * intros _. apply app_not_nil.
      * rewrite app_length; simpl. lia.
      * exists lg. rewrite app_nil_r; auto.
    + assert (lg <> []) by (apply B; discriminate). assert (1 <= length lg)%nat by (destruct lg; simpl; [congruence|lia]).
      assert (Hlt : (Z.of_nat (length q) <? Q) = true) by (apply Z.ltb_lt; lia). rewrite Hlt.
      eexists; split; [reflexivity|]. unfold chinv, ch_jobs; simpl. repeat split; auto; try discriminate.
      * rewrite app_length; simpl. lia.
      * exists (lg ++ q). rewrite app_assoc; auto.
    + assert (lg <> []) by (apply B; discriminate). assert (1 <= length lg)%nat by (destruct lg; simpl; [congruence|lia]).
      assert (Hlt : (Z.of_nat (length q) <? Q) = true) by (apply Z.ltb_lt; lia). rewrite Hlt.
      eexists; split; [reflexivity|]. unfold chinv, ch_jobs; simpl. repeat split; auto; try discriminate.
      * rewrite app_length; simpl. lia.
      * exists (lg ++ q). rewrite app_assoc; auto.
Qed.

Lemma send_close_ok Q p ch : chinv p ch -> ch_closed ch = false -> p <= Q ->
  exists ch', send_job Q ch JClose = Some ch' /\ chinv p (close_ch ch').
Proof.
  intros [A [B [C D]]] Op L. unfold send_job. destruct ch as [cid au q w cl lg]; simpl in *. subst cl.
  destruct au.
  - specialize (D eq_refl). subst w. specialize (A eq_refl). subst q.
    eexists; split; [reflexivity|]. unfold chinv, close_ch; simpl. repeat split; auto; try congruence.
    rewrite app_length; simpl. lia.
  - destruct w.
    + specialize (A eq_refl). subst q. eexists; split; [reflexivity|]. unfold chinv, close_ch; simpl.
      repeat split; auto; try congruence; try discriminate.
      * intros _. apply app_not_nil.
      * rewrite app_length; simpl. lia.
    + assert (lg <> []) by (apply B; discriminate). assert (1 <= length lg)%nat by (destruct lg; simpl; [congruence|lia]).
      assert (Hlt : (Z.of_nat (length q) <? Q) = true) by (apply Z.ltb_lt; lia). rewrite Hlt.
      eexists; split; [reflexivity|]. unfold chinv, close_ch; simpl. repeat split; auto; try discriminate.
      rewrite app_length; simpl. lia.
    + assert (lg <> []) by (apply B; discriminate). assert (1 <= length lg)%nat by (destruct lg; simpl; [congruence|lia]).
      assert (Hlt : (Z.of_nat (length q) <? Q) = true) by (apply Z.ltb_lt; lia). rewrite Hlt.
      eexists; split; [reflexivity|]. unfold chinv, close_ch; simpl. repeat split; auto; try discriminate.
      rewrite app_length; simpl. lia.
Qed.

Lemma chinv_finish p ch : chinv p ch -> ch_w ch = WInCb -> chinv p (finish ch).
Proof.
  intros [A [B [C D]]] W. unfold finish. destruct ch as [cid au q w cl lg]; simpl in *. subst w.
  destruct q as [|j q]; unfold chinv; simpl; repeat split; auto; try congruence; try discriminate;
    try (intros _; apply app_not_nil); try (rewrite app_length; simpl in *; lia);
    try (intro E; specialize (D E); discriminate).
Qed.
Lemma chinv_close p ch : chinv p ch -> chinv p (close_ch ch).
Proof.
  intros [A [B [C D]]]. unfold chinv, close_ch; simpl. repeat split; auto. destruct (ch_closed ch); lia.
Qed.


Definition insts (cb : list (Z * nat)) (ids : list Z) : list nat :=
  flat_map (fun id => match cget id cb with Some k => [k] | None => [] end) ids.

Lemma insts_keys cb : NoDup (map fst cb) -> insts cb (map fst cb) = map snd cb.
Proof.
  intro ND. unfold insts.
  assert (H : forall l, (forall e, In e l -> In e cb) ->
     flat_map (fun id => match cget id cb with Some k => [k] | None => [] end) (map fst l) = map snd l).
  { induction l as [|[i k] t IH]; simpl; intro Hin; auto.
    rewrite (In_cget i k cb ND); [|apply Hin; left; auto]. simpl. f_equal. apply IH. intros; apply Hin; right; auto. }
  apply H; auto.
Qed.

Lemma dispatch_ok Q p cb r : p + 1 <= Q -> forall ids chs,
  NoDup (insts cb ids) ->
  (forall k, In k (insts cb ids) -> exists ch, nth_error chs k = Some ch /\ ch_closed ch = false /\ chinv p ch) ->
  (forall k ch, nth_error chs k = Some ch -> chinv (p + 1) ch) ->
  exists chs', dispatch Q chs cb r ids = (chs', []) /\ length chs' = length chs /\
    (forall k ch, nth_error chs' k = Some ch -> chinv (p + 1) ch) /\
    (forall k ch', nth_error chs' k = Some ch' ->
       exists ch, nth_error chs k = Some ch /\ ch_closed ch' = ch_closed ch /\ ch_cid ch' = ch_cid ch /\
                  (~ In k (insts cb ids) -> ch' = ch)) /\
    (forall k, In k (insts cb ids) -> exists ch' pre, nth_error chs' k = Some ch' /\ ch_jobs ch' = pre ++ [JBeacon r]).
Proof.
  intro L. induction ids as [|id rest IH]; intros chs ND Hreg Hall.
  - exists chs. simpl. split; [reflexivity|]. split; [reflexivity|]. split; [exact Hall|]. split.
    + intros k0 ch' H0. exists ch'. auto.
    + intros k0 [].
  - simpl. unfold insts in *. simpl in ND, Hreg.
    destruct (cget id cb) as [k|] eqn:G.
    2:{ simpl in *. destruct (IH chs ND Hreg Hall) as [chs' [E [Len [A [B C]]]]]. exists chs'. split; [exact E|]. split; [exact Len|]. split; [exact A|]. split; [exact B|exact C]. }
    simpl in ND, Hreg. inversion ND as [|x l Hnk ND']; subst.
    destruct (Hreg k (or_introl eq_refl)) as [ch [Hn [Op Ci]]]. rewrite Hn.
    destruct (send_beacon_ok Q p ch r Ci Op L) as [ch1 [Hs [Ci1 [Op1 [Cid1 [pre Hj]]]]]]. rewrite Hs.
    pose proof (nth_some_lt _ _ _ Hn) as Lt.
    destruct (IH (upd k ch1 chs) ND') as [chs' [E [Len [A [B C]]]]].
    + intros k' Hk'. assert (k <> k') by (intro; subst; contradiction).
      rewrite nth_upd_other by auto. apply Hreg. right; auto.
    + intros k' ch' Hk'. destruct (Nat.eq_dec k k') as [->|N].
      * rewrite nth_upd_same in Hk'; auto. inversion Hk'; subst; auto.
      * rewrite nth_upd_other in Hk'; auto. apply (Hall _ _ Hk').
    + exists chs'. rewrite length_upd in Len. split; [exact E|]. split; [exact Len|]. split; [exact A|]. split.
      * intros k' ch' Hk'. destruct (B _ _ Hk') as [c0 [H0 [Hc [Hi Hu]]]].
        destruct (Nat.eq_dec k k') as [->|N].
        -- rewrite nth_upd_same in H0; auto. inversion H0; subst c0. exists ch. repeat split; auto; try congruence.
           intro Q0. exfalso. apply Q0. left; auto.
        -- rewrite nth_upd_other in H0; auto. exists c0. repeat split; auto.
           intro Q0. apply Hu. intro Q1. apply Q0. right; auto.
      * intros k' [->|Hk'].
        -- assert (Hn1 : nth_error (upd k' ch1 chs) k' = Some ch1) by (apply nth_upd_same; auto).
           assert (exists c2, nth_error chs' k' = Some c2) as [c2 Hc2].
           { destruct (nth_error chs' k') eqn:Q0; [eexists; eauto|]. apply nth_error_None in Q0. lia. }
           destruct (B _ _ Hc2) as [c0 [H0 [_ [_ Hu]]]]. rewrite Hn1 in H0. inversion H0; subst c0.
           rewrite (Hu Hnk) in Hc2. exists ch1, pre. auto.
        -- apply C; auto.
Qed.

Lemma NoDup_map_inv_snd (l : list (Z * nat)) : NoDup (map snd l) ->
  forall a b k, In (a, k) l -> In (b, k) l -> a = b.
Proof.
  induction l as [|[i k0] t IH]; simpl; intros ND a b k Ha Hb; [tauto|]. inversion ND; subst.
  destruct Ha as [Ha|Ha], Hb as [Hb|Hb].
  - congruence.
  - inversion Ha; subst. exfalso. apply H1. change k with (snd (b, k)). apply in_map; auto.
  - inversion Hb; subst. exfalso. apply H1. change k with (snd (a, k)). apply in_map; auto.
  - eapply IH; eauto.
Qed.

(* ---- the invariant of runs in which no queue can fill ---- *)
Definition cbs_ok (s : cbst) : Prop :=
  NoDup (map fst (cbs s)) /\ NoDup (map snd (cbs s)) /\
  forall cid k, In (cid, k) (cbs s) -> exists ch, nth_error (chans s) k = Some ch /\ ch_closed ch = false.

Record cinv (p : Z) (s : cbst) : Prop := {
  ci_cur : cur s = None;
  ci_wq : waitq s = [];
  ci_cbs : cbs_ok s;
  ci_ch : forall k ch, nth_error (chans s) k = Some ch -> chinv p ch
}.

Lemma cinv_init : cinv 0 cb_init.
Proof.
  split; simpl; auto.
  - repeat split; simpl; try constructor. intros cid k [].
  - intros k ch H. destruct k; discriminate.
Qed.

Lemma cinv_mono p p' s : p <= p' -> cinv p s -> cinv p' s.
Proof. intros L [A B C D]. split; auto. intros k ch H. eapply chinv_mono; eauto. Qed.

Definition is_put (e : ev) : bool := match e with EPut r => negb (r =? 0) | _ => false end.
Definition is_call (e : ev) : bool := match e with ERelease _ _ => false | _ => true end.
Definition registered_has (s : cbst) (r : Z) : Prop :=
  forall cid k, In (cid, k) (cbs s) -> exists ch pre, nth_error (chans s) k = Some ch /\ ch_jobs ch = pre ++ [JBeacon r].

Lemma lock_free_cinv p s : cinv p s -> lock_free s = true.
Proof. intros [A B _ _]. unfold lock_free. rewrite A, B. auto. Qed.

Lemma do_remove_cinv p s cid : cinv p s -> cinv p (do_remove s cid).
Proof.
  intros [A B [C1 [C2 C3]] D]. unfold do_remove. destruct (cget cid (cbs s)) as [k|] eqn:G; [|split; auto; repeat split; auto].
  pose proof (cget_In _ _ _ G) as Hin. destruct (C3 _ _ Hin) as [ch [Hn Op]]. rewrite Hn.
  pose proof (nth_some_lt _ _ _ Hn) as Lt.
  split; simpl; auto.
  - repeat split; simpl.
    + apply nodup_cdel_fst; auto.
    + apply nodup_cdel_snd; auto.
    + intros cid' k' H. apply In_cdel in H as [H N]. simpl in N. destruct (C3 _ _ H) as [c' [Hn' Op']].
      assert (k <> k').
      { intro; subst k'. apply N. apply (NoDup_map_inv_snd (cbs s) C2 _ _ _ H Hin). }
      exists c'. rewrite nth_upd_other; auto.
  - intros k' c' H. destruct (Nat.eq_dec k k') as [->|N].
    + rewrite nth_upd_same in H; auto. inversion H; subst. apply chinv_close. apply (D _ _ Hn).
    + rewrite nth_upd_other in H; auto. apply (D _ _ H).
Qed.


Lemma nodup_snoc {A B} (f : A -> B) (l : list A) (e : A) :
  NoDup (map f l) -> ~ In (f e) (map f l) -> NoDup (map f (l ++ [e])).
Proof.
  intros ND N. rewrite map_app. simpl. induction (map f l) as [|x t IH]; simpl.
  - constructor; [intros []|constructor].
  - inversion ND; subst. constructor.
    + intro H. apply in_app_or in H as [H|[H|[]]]; auto. subst. apply N. left; auto.
    + apply IH; auto. intro H. apply N. right; auto.
Qed.

Lemma cinv_add_ret p s n : cinv p s -> cinv p (add_ret s n).
Proof. intros [A B C D]. split; auto. Qed.

Lemma cinv_drain_nil p Q s : cinv p s -> cinv p (drain Q s []).
Proof. intros [A B C D]. split; auto. Qed.

Lemma resume_free p Q s : cinv p s -> resume Q s = drain Q s [].
Proof. intros [A B C D]. unfold resume. rewrite A, B. reflexivity. Qed.

Lemma do_remove_chan s cid k ch : nth_error (chans s) k = Some ch ->
  exists ch1, nth_error (chans (do_remove s cid)) k = Some ch1 /\ ch_w ch1 = ch_w ch.
Proof.
  intro H. unfold do_remove. destruct (cget cid (cbs s)) as [k0|]; [|exists ch; auto].
  destruct (nth_error (chans s) k0) as [c0|] eqn:H0; simpl; [|exists ch; auto].
  destruct (Nat.eq_dec k0 k) as [->|N].
  - rewrite H in H0. inversion H0; subst. exists (close_ch c0). split; auto.
    apply nth_upd_same. apply (nth_some_lt _ _ _ H).
  - exists ch. rewrite nth_upd_other; auto.
Qed.
Lemma do_remove_ret s cid : ret (do_remove s cid) = ret s.
Proof. unfold do_remove. destruct (cget cid (cbs s)); auto. Qed.

Lemma cinv_upd_finish p s k ch : cinv p s -> nth_error (chans s) k = Some ch -> ch_w ch = WInCb ->
  cinv p (set_chans s (upd k (finish ch) (chans s))).
Proof.
  intros [A B [C1 [C2 C3]] D] Hn W. pose proof (nth_some_lt _ _ _ Hn) as Lt.
  split; simpl; auto.
  - repeat split; simpl; auto. intros cid k' Hin. destruct (C3 _ _ Hin) as [c' [Hn' Op']].
    destruct (Nat.eq_dec k k') as [->|N].
    + rewrite Hn in Hn'. inversion Hn'; subst c'. exists (finish ch). split; [apply nth_upd_same; auto|].
      unfold finish. destruct (ch_q ch); simpl; auto.
    + exists c'. rewrite nth_upd_other; auto.
  - intros k' c' H. destruct (Nat.eq_dec k k') as [->|N].
    + rewrite nth_upd_same in H; auto. inversion H; subst. apply chinv_finish; auto. apply (D _ _ Hn).
    + rewrite nth_upd_other in H; auto. apply (D _ _ H).
Qed.

Lemma registered_lt s : cbs_ok s -> forall k, In k (map snd (cbs s)) -> (k < length (chans s))%nat.
Proof.
  intros [_ [_ C3]] k H. apply in_map_iff in H as [[cid k'] [E H]]. simpl in E; subst.
  destruct (C3 _ _ H) as [ch [Hn _]]. apply (nth_some_lt _ _ _ Hn).
Qed.

Lemma cinv_finish_add p s n cid k newch :
  0 <= p ->
  cbs_ok (mkSt (inner s) (cdel cid (cbs s)) (chans s) None [] (ret s)) ->
  (forall k' ch, nth_error (chans s) k' = Some ch -> chinv p ch) ->
  nth_error (chans s) k = Some newch -> ch_closed newch = false ->
  ~ In k (map snd (cdel cid (cbs s))) ->
  waitq s = [] ->
  cinv p (finish_add s n cid k).
Proof.
  intros P [C1 [C2 C3]] D Hn Op Fresh Wq. simpl in *. unfold finish_add, cset. split; simpl; auto.
  repeat split; simpl.
  - apply nodup_snoc; auto. simpl. intro H. apply in_map_iff in H as [e [E H]]. apply In_cdel in H as [_ H]. congruence.
  - apply nodup_snoc; auto.
  - intros cid' k' H. apply in_app_or in H as [H|[H|[]]]; [apply (C3 cid' k'); auto|]. inversion H; subst. exists newch; auto.
Qed.

Theorem cinv_step Q p s n e : 0 < Q -> 0 <= p -> cinv p s ->
  p + (if is_put e then 1 else 0) <= Q ->
  let s' := cb_step Q s n e in
  cinv (p + (if is_put e then 1 else 0)) s' /\
  (is_call e = true -> In n (ret s')) /\
  (forall r, e = EPut r -> r <> 0 -> registered_has s' r) /\
  (forall m, In m (ret s) -> In m (ret s')).
Proof.
  intros HQ HP I HL. pose proof (lock_free_cinv _ _ I) as LF. destruct e as [r | cid auto | cid | kz rm]; simpl in *.
  - (* Put *)
    destruct (r =? 0) eqn:R0; simpl in *.
    + rewrite Z.add_0_r. split; [|split; [|split]].
      * destruct I as [A B C D]. split; auto.
      * intros _. apply in_or_app; right; left; auto.
      * intros r' E N. inversion E; subst. apply Z.eqb_eq in R0. contradiction.
      * intros m H. apply in_or_app; auto.
    + unfold submit. replace (lock_free _) with true by (symmetry; destruct I as [A B _ _]; unfold lock_free; simpl; rewrite A, B; auto).
      unfold exec, put_from. simpl.
      destruct I as [A B [C1 [C2 C3]] D].
      destruct (dispatch_ok Q p (cbs s) r HL (map fst (cbs s)) (chans s)) as [chs' [E [Len [A' [B' C']]]]].
      * rewrite insts_keys; auto.
      * rewrite insts_keys; auto. intros k H. apply in_map_iff in H as [[cid k'] [Ek H]]. simpl in Ek; subst.
        destruct (C3 _ _ H) as [ch [Hn Op]]. exists ch. split; [auto|split; [auto|apply (D _ _ Hn)]].
      * intros k ch H. apply (chinv_mono p); [lia | apply (D _ _ H)].
      * rewrite E. simpl. split; [|split; [|split]].
        -- split; simpl; auto. repeat split; simpl; auto. intros cid k H. destruct (C3 _ _ H) as [ch [Hn Op]].
           assert (exists c2, nth_error chs' k = Some c2) as [c2 Hc2].
           { destruct (nth_error chs' k) eqn:Q0; [eexists; eauto|]. apply nth_error_None in Q0. pose proof (nth_some_lt _ _ _ Hn). lia. }
           exists c2. split; auto. destruct (B' _ _ Hc2) as [c0 [H0 [Hc _]]]. congruence.
        -- intros _. apply in_or_app; right; left; auto.
        -- intros r' Er N. inversion Er; subst r'. intros cid k H. simpl in *.
           apply C'. rewrite insts_keys; auto. change k with (snd (cid, k)). apply in_map; auto.
        -- intros m H. apply in_or_app; auto.
  - (* AddCallback *)
    rewrite Z.add_0_r in *. unfold submit.
    set (newch := mkCh cid auto [] WIdle false []).
    set (s1 := set_chans s (chans s ++ [newch])).
    assert (LF1 : lock_free s1 = true) by (destruct I as [A B _ _]; unfold lock_free; simpl; rewrite A, B; auto).
    rewrite LF1. destruct I as [A B [C1 [C2 C3]] D].
    assert (Hnew : nth_error (chans s1) (length (chans s)) = Some newch).
    { simpl. rewrite nth_error_app2; auto. rewrite Nat.sub_diag. auto. }
    assert (D1 : forall k ch, nth_error (chans s1) k = Some ch -> chinv p ch).
    { simpl. intros k ch H. destruct (Nat.lt_ge_cases k (length (chans s))) as [Lt|Ge].
      - rewrite nth_error_app1 in H; auto. apply (D _ _ H).
      - rewrite nth_error_app2 in H; auto. destruct (k - length (chans s))%nat as [|m]; simpl in H; [|destruct m; discriminate].
        inversion H; subst. unfold chinv, newch; simpl. repeat split; auto; try congruence. lia. }
    assert (C31 : forall cid' k', In (cid', k') (cbs s) -> exists ch, nth_error (chans s1) k' = Some ch /\ ch_closed ch = false).
    { intros cid' k' H. destruct (C3 _ _ H) as [ch [Hn Op]]. exists ch. split; auto. simpl.
      rewrite nth_error_app1; auto. apply (nth_some_lt _ _ _ Hn). }
    assert (Fresh : ~ In (length (chans s)) (map snd (cdel cid (cbs s)))).
    { intro H. apply in_map_iff in H as [[c k] [E H]]. simpl in E; subst. apply In_cdel in H as [H _].
      destruct (C3 _ _ H) as [ch [Hn _]]. pose proof (nth_some_lt _ _ _ Hn). lia. }
    unfold exec. change (cbs s1) with (cbs s).
    destruct (cget cid (cbs s)) as [old|] eqn:G.
    + pose proof (cget_In _ _ _ G) as Hin. destruct (C31 _ _ Hin) as [ch [Hn Op]].
      unfold add_from. rewrite Hn.
      destruct (send_close_ok Q p ch (D1 _ _ Hn) Op HL) as [ch' [Hs Ci']]. rewrite Hs.
      assert (Lt : (old < length (chans s1))%nat) by apply (nth_some_lt _ _ _ Hn).
      assert (Ne : old <> length (chans s)).
      { destruct (C3 _ _ Hin) as [c0 [Hn0 _]]. pose proof (nth_some_lt _ _ _ Hn0). lia. }
      split; [|split; [|split]].
      * apply (cinv_finish_add p _ n cid (length (chans s)) newch); simpl; auto.
        -- repeat split; simpl; [apply nodup_cdel_fst; auto | apply nodup_cdel_snd; auto|].
           intros cid' k' H. apply In_cdel in H as [H N]. simpl in N. destruct (C31 _ _ H) as [c' [Hn' Op']].
           assert (old <> k'). { intro; subst k'. apply N. apply (NoDup_map_inv_snd (cbs s) C2 _ _ _ H Hin). }
           exists c'. simpl in *. rewrite nth_upd_other; auto.
        -- intros k' c' H. destruct (Nat.eq_dec old k') as [->|N].
           ++ rewrite nth_upd_same in H; auto. inversion H; subst. auto.
           ++ rewrite nth_upd_other in H; auto. apply (D1 _ _ H).
        -- rewrite nth_upd_other; auto.
      * intros _. simpl. apply in_or_app; right; left; auto.
      * intros r E. discriminate.
      * intros m H. simpl. apply in_or_app; auto.
    + split; [|split; [|split]].
      * apply (cinv_finish_add p _ n cid (length (chans s)) newch); simpl; auto.
        repeat split; simpl; [apply nodup_cdel_fst; auto | apply nodup_cdel_snd; auto|].
        intros cid' k' H. apply In_cdel in H as [H N]. apply (C31 cid' k'); auto.
      * intros _. simpl. apply in_or_app; right; left; auto.
      * intros r E. discriminate.
      * intros m H. simpl. apply in_or_app; auto.
  - (* RemoveCallback *)
    rewrite Z.add_0_r in *. unfold submit. rewrite LF. simpl. split; [|split; [|split]].
    + apply cinv_add_ret. apply do_remove_cinv; auto.
    + intros _. simpl. apply in_or_app; right; left; auto.
    + intros r E. discriminate.
    + intros m H. simpl. rewrite do_remove_ret. apply in_or_app; auto.
  - (* release *)
    rewrite Z.add_0_r in *.
    destruct (nth_error (chans s) (Z.to_nat kz)) as [ch|] eqn:Hn.
    2:{ split; [auto|split; [discriminate|split; [intros r E; discriminate|auto]]]. }
    destruct (ch_w ch) eqn:W.
    1,3: split; [auto|split; [discriminate|split; [intros r E; discriminate|auto]]].
    destruct rm.
    + rewrite LF. unfold exec. try rewrite Hn.
      destruct (do_remove_chan s (ch_cid ch) _ _ Hn) as [ch1 [Hn1 W1]]. rewrite Hn1.
      pose proof (do_remove_cinv p s (ch_cid ch) I) as I1.
      assert (I2 : cinv p (add_ret (set_chans (do_remove s (ch_cid ch)) (upd (Z.to_nat kz) (finish ch1) (chans (do_remove s (ch_cid ch))))) n)).
      { apply cinv_add_ret. apply cinv_upd_finish; auto. congruence. }
      rewrite (resume_free p); auto. split; [|split; [|split]].
      * apply cinv_drain_nil; auto.
      * discriminate.
      * intros r E. discriminate.
      * intros m H. simpl. rewrite do_remove_ret. apply in_or_app; auto.
    + assert (I2 : cinv p (add_ret (set_chans s (upd (Z.to_nat kz) (finish ch) (chans s))) n)).
      { apply cinv_add_ret. apply cinv_upd_finish; auto. }
      rewrite (resume_free p); auto. split; [|split; [|split]].
      * apply cinv_drain_nil; auto.
      * discriminate.
      * intros r E. discriminate.
      * intros m H. simpl. apply in_or_app; auto.
Qed.


Definition count_puts (es : list ev) : nat := length (filter is_put es).

Lemma cb_run_from_app Q es1 es2 : forall s n,
  cb_run_from Q s n (es1 ++ es2) = cb_run_from Q (cb_run_from Q s n es1) (n + length es1) es2.
Proof.
  induction es1 as [|e t IH]; simpl; intros s n; [rewrite Nat.add_0_r; auto|].
  rewrite IH. f_equal. lia.
Qed.

(* runs with at most Q dispatched beacons: no call ever blocks *)
Lemma cinv_run Q : 0 < Q -> forall es p s n, 0 <= p -> cinv p s ->
  p + Z.of_nat (count_puts es) <= Q ->
  let s' := cb_run_from Q s n es in
  cinv (p + Z.of_nat (count_puts es)) s' /\
  (forall m, In m (ret s) -> In m (ret s')) /\
  (forall i e, nth_error es i = Some e -> is_call e = true -> In (n + i)%nat (ret s')).
Proof.
  intro HQ. induction es as [|e t IH]; intros p s n HP I HL; simpl.
  - unfold count_puts; simpl. rewrite Z.add_0_r. split; auto. split; auto. intros i e H. destruct i; discriminate.
  - unfold count_puts in *.
    assert (E : Z.of_nat (length (filter is_put (e :: t))) = (if is_put e then 1 else 0) + Z.of_nat (length (filter is_put t))).
    { simpl. destruct (is_put e); [cbn [length]; rewrite Nat2Z.inj_succ|]; lia. }
    rewrite E in *.
    destruct (cinv_step Q p s n e HQ HP I) as [I1 [R1 [_ M1]]]; [destruct (is_put e); lia|].
    destruct (IH (p + (if is_put e then 1 else 0)) (cb_step Q s n e) (S n)) as [I2 [M2 R2]]; auto.
    { destruct (is_put e); lia. } { lia. }
    split; [|split].
    + replace (p + ((if is_put e then 1 else 0) + Z.of_nat (length (filter is_put t))))
        with (p + (if is_put e then 1 else 0) + Z.of_nat (length (filter is_put t))) by lia. exact I2.
    + intros m H. apply M2. apply M1. auto.
    + intros i e' H C. destruct i as [|i]; simpl in H.
      * inversion H; subst e'. rewrite Nat.add_0_r. apply M2. apply R1. auto.
      * replace (n + S i)%nat with (S n + i)%nat by lia. apply (R2 i e'); auto.
Qed.

Theorem put_partial Q es : 0 < Q -> Z.of_nat (count_puts es) <= Q ->
  let s := cb_run Q es in
  cur s = None /\ waitq s = [] /\
  (forall i e, nth_error es i = Some e -> is_call e = true -> In i (ret s)).
Proof.
  intros HQ HL. destruct (cinv_run Q HQ es 0 cb_init 0%nat (Z.le_refl 0) cinv_init) as [I [_ R]]; [lia|].
  split; [apply (ci_cur _ _ I)|]. split; [apply (ci_wq _ _ I)|]. intros i e H C. apply (R i e H C).
Qed.

Theorem put_served Q es r : 0 < Q -> Z.of_nat (count_puts (es ++ [EPut r])) <= Q -> r <> 0 ->
  registered_has (cb_run Q (es ++ [EPut r])) r.
Proof.
  intros HQ HL N. unfold cb_run. rewrite cb_run_from_app. simpl.
  assert (E : count_puts (es ++ [EPut r]) = (count_puts es + 1)%nat).
  { unfold count_puts. rewrite filter_app, app_length. simpl. apply Z.eqb_neq in N. rewrite N. simpl. lia. }
  rewrite E in HL.
  destruct (cinv_run Q HQ es 0 cb_init 0%nat (Z.le_refl 0) cinv_init) as [I _]; [lia|].
  assert (HP : 0 <= 0 + Z.of_nat (count_puts es)) by lia.
  assert (HL' : 0 + Z.of_nat (count_puts es) + (if is_put (EPut r) then 1 else 0) <= Q).
  { simpl. pose proof N as N'. apply Z.eqb_neq in N'. rewrite N'. simpl. lia. }
  pose proof (cinv_step Q _ _ (0 + length es)%nat (EPut r) HQ HP I HL') as [_ [_ [S _]]].
  apply (S r eq_refl N).
Qed.

(* ---- a Put that found a full channel ---- *)
Definition full (Q : Z) (ch : chan) : Prop :=
  ch_auto ch = false /\ ch_w ch <> WIdle /\ Q <= Z.of_nat (length (ch_q ch)).
Lemma send_full Q ch j : full Q ch -> send_job Q ch j = None.
Proof.
  intros [A [W L]]. unfold send_job. rewrite A. destruct (ch_w ch); [congruence| |];
  (destruct (Z.of_nat (length (ch_q ch)) <? Q) eqn:E; auto; apply Z.ltb_lt in E; lia).
Qed.

Definition wedged (Q : Z) (s : cbst) (nb kb : nat) : Prop :=
  exists r id rest ch, cur s = Some (nb, HPut r (id :: rest)) /\ cget id (cbs s) = Some kb /\
    nth_error (chans s) kb = Some ch /\ full Q ch.
(* ... and the consumer it waits for is itself stuck in RemoveCallback (it disconnected too late) *)
Definition dead (Q : Z) (s : cbst) (nb kb : nat) : Prop :=
  exists r id rest ch, cur s = Some (nb, HPut r (id :: rest)) /\ cget id (cbs s) = Some kb /\
    nth_error (chans s) kb = Some ch /\ full Q ch /\ ch_w ch = WInRemove.

Lemma dead_wedged Q s nb kb : dead Q s nb kb -> wedged Q s nb kb.
Proof. intros [r [id [rest [ch [A [B [C [D _]]]]]]]]. exists r, id, rest, ch. auto. Qed.

Definition not_release_of (kb : nat) (e : ev) : Prop :=
  forall kz rm, e = ERelease kz rm -> Z.to_nat kz <> kb.

Lemma retry_wedged Q s nb r id rest kb ch :
  cur s = Some (nb, HPut r (id :: rest)) -> cget id (cbs s) = Some kb ->
  nth_error (chans s) kb = Some ch -> full Q ch ->
  resume Q s = s.
Proof.
  intros A B C D. unfold resume. rewrite A. unfold put_from. simpl. rewrite B, C, (send_full Q ch _ D).
  simpl. destruct s; simpl in *. subst. reflexivity.
Qed.

Definition wedged_at (Q : Z) (s : cbst) (nb kb : nat) (ch : chan) : Prop :=
  exists r id rest, cur s = Some (nb, HPut r (id :: rest)) /\ cget id (cbs s) = Some kb /\
    nth_error (chans s) kb = Some ch /\ full Q ch.

Definition ret_grows (s s' : cbst) (n : nat) (e : ev) : Prop :=
  ret s' = ret s \/ (ret s' = ret s ++ [n] /\ (e = EPut 0 \/ exists kz, e = ERelease kz false)).

Lemma wedged_step Q s nb kb ch n e : wedged_at Q s nb kb ch ->
  (forall kz rm, e = ERelease kz rm -> Z.to_nat kz = kb -> ch_w ch <> WInCb) ->
  let s' := cb_step Q s n e in
  wedged_at Q s' nb kb ch /\ ret_grows s s' n e.
Proof.
  intros [r [id [rest [A [B [C D]]]]]] NR. unfold ret_grows.
  assert (LF : lock_free s = false) by (unfold lock_free; rewrite A; auto).
  destruct e as [r' | cid auto | cid | kz rm]; simpl.
  - destruct (r' =? 0) eqn:R0.
    + split; [exists r, id, rest; auto|]. right. simpl. split; auto. left. apply Z.eqb_eq in R0. subst; auto.
    + unfold submit. replace (lock_free _) with false by (unfold lock_free; simpl; rewrite A; auto). simpl.
      split; [exists r, id, rest; auto|]. left; auto.
  - unfold submit. replace (lock_free _) with false by (unfold lock_free; simpl; rewrite A; auto). simpl.
    split; [|left; auto]. exists r, id, rest. simpl. split; [exact A|]. split; [exact B|]. split; [|exact D].
    rewrite nth_error_app1; auto. apply (nth_some_lt _ _ _ C).
  - unfold submit. rewrite LF. simpl. split; [exists r, id, rest; auto | left; auto].
  - destruct (nth_error (chans s) (Z.to_nat kz)) as [chk|] eqn:Hk; [|split; [exists r, id, rest; auto | left; auto]].
    destruct (ch_w chk) eqn:Wk; [split; [exists r, id, rest; auto | left; auto] | | split; [exists r, id, rest; auto | left; auto]].
    assert (Nk : Z.to_nat kz <> kb).
    { intro E. rewrite E in Hk. rewrite C in Hk. inversion Hk; subst chk. apply (NR kz rm eq_refl E). auto. }
    destruct rm.
    + rewrite LF. simpl. split; [|left; auto]. exists r, id, rest. simpl. split; [exact A|]. split; [exact B|]. split; [|exact D].
      rewrite nth_upd_other; auto.
    + set (s2 := add_ret (set_chans s (upd (Z.to_nat kz) (finish chk) (chans s))) n).
      assert (C2 : nth_error (chans s2) kb = Some ch) by (simpl; rewrite nth_upd_other; auto).
      rewrite (retry_wedged Q s2 nb r id rest kb ch); auto.
      split; [exists r, id, rest; auto|]. right. simpl. split; auto. right. exists kz; auto.
Qed.

Lemma wedged_run Q nb kb ch : forall es s n, wedged_at Q s nb kb ch ->
  (ch_w ch = WInCb -> Forall (not_release_of kb) es) ->
  let s' := cb_run_from Q s n es in
  wedged_at Q s' nb kb ch /\
  (forall m, In m (ret s') -> In m (ret s) \/
     exists i e, m = (n + i)%nat /\ nth_error es i = Some e /\ (e = EPut 0 \/ exists kz, e = ERelease kz false)).
Proof.
  induction es as [|e t IH]; intros s n W NR; simpl.
  - split; auto.
  - destruct (wedged_step Q s nb kb ch n e W) as [W1 G].
    { intros kz rm E Ek Wc. specialize (NR Wc). inversion NR as [|x l H1 H2]. apply (H1 kz rm E Ek). }
    destruct (IH (cb_step Q s n e) (S n) W1) as [W2 R2].
    { intro Wc. specialize (NR Wc). inversion NR; auto. }
    split; auto. intros m Hm. destruct (R2 m Hm) as [H|[i [e' [Em [Hn He]]]]].
    + destruct G as [G|[G G2]]; rewrite G in H; auto.
      apply in_app_or in H as [H|[H|[]]]; auto. subst m. right. exists 0%nat, e. rewrite Nat.add_0_r. auto.
    + right. exists (S i), e'. split; [lia|]. auto.
Qed.

(* membership in the list of returned calls, decided by computation *)
Lemma In_existsb_nat n l : In n l -> existsb (Nat.eqb n) l = true.
Proof. intro H. apply existsb_exists. exists n. split; auto. apply Nat.eqb_refl. Qed.
Lemma forallb_ltb l b : forallb (fun m => Nat.ltb m b) l = true -> forall m, In m l -> (m < b)%nat.
Proof. intros H m Hm. rewrite forallb_forall in H. apply Nat.ltb_lt. apply H; auto. Qed.
