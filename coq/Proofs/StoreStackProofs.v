(* Proofs about Model/StoreStack.v (C02): the invariant of a node's store wrapper stack over
   every event list (puts by any writer, tryAppend, sync puts, injected base failures,
   restarts), what it implies (gap-free, written once, linked, never rewritten), and the
   agreement of all-verified chains under signature uniqueness. *)
From Coq Require Import ZArith List Bool Lia Sorted.
From DV Require Import Model.Backends Model.StoreStack Proofs.BackendsProofs.
Import ListNotations.
Open Scope Z_scope.

(* ---------- helpers ---------- *)

Lemma bytes_eqb_eq a b : bytes_eqb a b = true <-> a = b.
Proof.
  revert b. induction a as [|x a IH]; intros [|y b]; simpl; split; try discriminate; auto.
  - intros H. apply andb_true_iff in H as [H1 H2]. apply Z.eqb_eq in H1. apply IH in H2. now subst.
  - intros [= -> ->]. rewrite Z.eqb_refl. now apply IH.
Qed.

Lemma zseq_length lo n : length (zseq lo n) = n.
Proof. revert lo. induction n; intros lo; simpl; auto. Qed.

Lemma zseq_In lo n r : In r (zseq lo n) <-> lo <= r < lo + Z.of_nat n.
Proof.
  revert lo. induction n; intros lo.
  - simpl. lia.
  - cbn [zseq In]. rewrite IHn. lia.
Qed.

Lemma zseq_snoc lo n : zseq lo (S n) = zseq lo n ++ [lo + Z.of_nat n].
Proof.
  revert lo. induction n; intros lo.
  - simpl. f_equal. lia.
  - change (zseq lo (S (S n))) with (lo :: zseq (lo + 1) (S n)). rewrite IHn.
    cbn [zseq app]. do 3 f_equal. lia.
Qed.

Lemma zseq_asc lo n : StronglySorted Z.lt (zseq lo n).
Proof.
  revert lo. induction n; intros lo; simpl; constructor; auto.
  apply Forall_forall. intros r Hr. apply zseq_In in Hr. lia.
Qed.

Section SMapMore.
  Context {V : Type}.
  Implicit Type m : @smap V.

  Lemma sm_get_snoc m r v r' :
    sm_get (m ++ [(r, v)]) r' =
    match sm_get m r' with Some x => Some x | None => if r =? r' then Some v else None end.
  Proof.
    induction m as [|[k x] m IH]; simpl; [reflexivity|]. destruct (k =? r'); auto.
  Qed.

  Lemma keys_app m1 m2 : keys (m1 ++ m2) = keys m1 ++ keys m2.
  Proof. unfold keys. apply map_app. Qed.

  Lemma sm_put_same m r v : asc m -> sm_get m r = Some v -> sm_put m r v = m.
  Proof.
    induction m as [|[k x] m IH]; intros Ha Hg; simpl in *; [discriminate|].
    apply asc_cons in Ha as [Ha Hlt]. destruct (Z.eqb_spec k r).
    - subst. injection Hg as ->. now rewrite Z.compare_refl.
    - destruct (Z.compare_spec r k); [lia| |now rewrite IH].
      exfalso. apply sm_get_Some_In in Hg. apply (in_map fst) in Hg. simpl in Hg.
      rewrite Forall_forall in Hlt. apply Hlt in Hg. lia.
  Qed.

  Lemma zlast_snoc {A} (l : list A) x : zlast (l ++ [x]) = Some x.
  Proof.
    unfold zlast. rewrite zlen_app. replace (zlen l + zlen [x] - 1) with (zlen l) by (unfold zlen; simpl; lia).
    apply znth_app_mid.
  Qed.

  Lemma asc_snoc m r v : asc m -> Forall (fun k => k < r) (keys m) -> asc (m ++ [(r, v)]).
  Proof. intros Ha Hf. rewrite <- (sm_put_above m r v Hf). now apply asc_put. Qed.
End SMapMore.

Lemma find_app {A} (f : A -> bool) l1 l2 :
  find f (l1 ++ l2) = match find f l1 with Some x => Some x | None => find f l2 end.
Proof. induction l1 as [|x l1 IH]; simpl; [reflexivity|]. destruct (f x); auto. Qed.

Lemma find_none_iff {A} (f : A -> bool) l : find f l = None <-> forall x, In x l -> f x = false.
Proof.
  split; [apply find_none|]. induction l as [|x l IH]; intros H; simpl; [reflexivity|].
  rewrite (H x (or_introl eq_refl)). apply IH. intros y Hy. apply H. now right.
Qed.

Lemma beacon_eta b : mkB (b_round b) (b_prev b) (b_sig b) = b.
Proof. now destruct b. Qed.

Definition kind_ok (k : bkind) : Prop := match k with KMem cap => 1 <= cap | _ => True end.
Definition stored (k : bkind) (b : beacon) : beacon := match k with KBoltT => erase_prev b | _ => b end.
Definition trimk (k : bkind) (m : bmap) : bmap := match k with KMem cap => sm_trim cap m | _ => m end.
Definition window (k : bkind) (lo len : Z) : Prop :=
  match k with KMem cap => len <= cap /\ (lo = 0 \/ len = cap) | _ => lo = 0 end.

Section NodeProofs.
  Variable chained : bool.
  Variable seed : list Z.

  Notation chain := (chain_of seed).
  Notation bget k := (base_get k chained).

  (* ----- the chain written so far ----- *)
  Section Chain.
    Variable log : list beacon.
    Variable h : Z.
    Hypothesis Hh : 0 <= h.
    Hypothesis Hlog : map b_round log = zseq 1 (Z.to_nat h).

    Lemma log_round b : In b log -> 1 <= b_round b <= h.
    Proof.
      intros Hin. apply (in_map b_round) in Hin. rewrite Hlog in Hin. apply zseq_In in Hin. lia.
    Qed.

    Lemma chain_round r b : chain log r = Some b -> b_round b = r.
    Proof.
      unfold chain_of. destruct (Z.eqb_spec r 0); [intros [= <-]; subst; reflexivity|].
      intros Hf. apply find_some in Hf as [_ Hf]. now apply Z.eqb_eq in Hf.
    Qed.

    Lemma chain_in r b : r <> 0 -> chain log r = Some b -> In b log.
    Proof.
      unfold chain_of. destruct (Z.eqb_spec r 0); [lia|]. intros _ Hf. now apply find_some in Hf.
    Qed.

    Lemma chain_dom r : 0 <= r <= h -> exists b, chain log r = Some b.
    Proof.
      intros Hr. unfold chain_of. destruct (Z.eqb_spec r 0); [eauto|].
      destruct (find (fun b => b_round b =? r) log) eqn:E; [eauto|]. exfalso.
      assert (Hin : In r (map b_round log)) by (rewrite Hlog; apply zseq_In; lia).
      apply in_map_iff in Hin as (b & Hb & Hin). rewrite find_none_iff in E.
      specialize (E b Hin). simpl in E. rewrite Hb, Z.eqb_refl in E. discriminate.
    Qed.

    Lemma chain_out r : ~ 0 <= r <= h -> chain log r = None.
    Proof.
      intros Hr. unfold chain_of. destruct (Z.eqb_spec r 0); [lia|].
      apply find_none_iff. intros b Hin. apply log_round in Hin. apply Z.eqb_neq. lia.
    Qed.

    Lemma chain_snoc b' r : b_round b' = h + 1 ->
      chain (log ++ [b']) r =
      if (0 <=? r) && (r <=? h) then chain log r else if r =? h + 1 then Some b' else None.
    Proof.
      intros Hb. destruct ((0 <=? r) && (r <=? h)) eqn:E.
      - apply andb_true_iff in E as [E1 E2]. apply Z.leb_le in E1, E2.
        destruct (chain_dom r (conj E1 E2)) as [b Hc]. rewrite Hc.
        unfold chain_of in *. destruct (r =? 0); [assumption|]. now rewrite find_app, Hc.
      - assert (Hr : ~ 0 <= r <= h).
        { intros [H1 H2]. apply Z.leb_le in H1, H2. rewrite H1, H2 in E. discriminate. }
        pose proof (chain_out r Hr) as Hn. unfold chain_of in *.
        destruct (Z.eqb_spec r 0); [lia|]. rewrite find_app, Hn. simpl. now rewrite Hb, Z.eqb_sym.
    Qed.
  End Chain.

  (* ----- the invariant of a node's store stack ----- *)
  Definition Inv (k : bkind) (s : stack) : Prop :=
    let m := st_base s in
    let log := st_log s in
    let h := head s in
    exists lo, 0 <= lo <= h /\
      keys m = zseq lo (Z.to_nat (h - lo + 1)) /\
      window k lo (h - lo + 1) /\
      asc m /\
      (forall r, lo <= r <= h -> sm_get m r = option_map (stored k) (chain log r)) /\
      map b_round log = zseq 1 (Z.to_nat h) /\
      chain log h = Some (st_app_last s) /\
      st_sch_last s = st_app_last s /\
      (chained = true -> forall r b b', 1 <= r -> chain log r = Some b ->
         chain log (r - 1) = Some b' -> b_prev b = b_sig b') /\
      (chained = false -> forall b, In b log -> b_prev b = []).

  Lemma zlen_keys_seq (m : bmap) lo n : keys m = zseq lo n -> zlen m = Z.of_nat n.
  Proof. intros H. rewrite <- zlen_keys, H. unfold zlen. now rewrite zseq_length. Qed.

  Lemma get_outside (m : bmap) lo n r : keys m = zseq lo n -> ~ lo <= r < lo + Z.of_nat n -> sm_get m r = None.
  Proof. intros H Hr. apply sm_get_None. rewrite H, zseq_In. exact Hr. Qed.

  (* reading through the back-end's view gives back the chain *)
  Lemma bget_window k s : Inv k s -> forall r,
    bget k (st_base s) r = if (0 <=? r) && (r <=? head s) then
                           (if r <? (head s - zlen (st_base s) + 1) then None else chain (st_log s) r)
                         else None.
  Proof.
    intros (lo & Hlo & Hkeys & Hwin & Ha & Hget & Hlog & Hhd & Hsch & Hlink & Hstrip) r.
    set (m := st_base s) in *. set (log := st_log s) in *. set (h := head s) in *.
    assert (Hh : 0 <= h) by lia.
    assert (Hzl : zlen m = h - lo + 1) by (rewrite (zlen_keys_seq m lo _ Hkeys); lia).
    rewrite Hzl. replace (h - (h - lo + 1) + 1) with lo by lia.
    assert (Hout : ~ lo <= r <= h -> bget k m r = None).
    { intros Hr. unfold base_get. rewrite (get_outside m lo _ r Hkeys); [reflexivity|]. lia. }
    destruct ((0 <=? r) && (r <=? h)) eqn:E.
    2:{ apply Hout. intros [H1 H2]. assert (0 <= r) by lia. apply Z.leb_le in H, H2. rewrite H, H2 in E. discriminate. }
    apply andb_true_iff in E as [E1 E2]. apply Z.leb_le in E1, E2.
    destruct (Z.ltb_spec r lo); [apply Hout; lia|].
    destruct (chain_dom log h Hlog r (conj E1 E2)) as [c Hc].
    pose proof (chain_round log r c Hc) as Hrc.
    unfold base_get. rewrite Hget by lia. rewrite Hc. cbn [option_map].
    unfold base_view, stored. destruct k; try reflexivity.
    (* trimmed bolt: the view rebuilds the previous signature *)
    simpl in Hwin. subst lo. cbn [fst snd erase_prev b_sig].
    destruct (chained && (0 <? r)) eqn:Ec.
    - apply andb_true_iff in Ec as [Ech Er]. apply Z.ltb_lt in Er.
      rewrite Hget by lia. destruct (chain_dom log h Hlog (r - 1) ltac:(lia)) as [c' Hc'].
      rewrite Hc'. cbn [option_map stored erase_prev b_sig]. f_equal.
      rewrite <- (Hlink Ech r c c' ltac:(lia) Hc Hc'). rewrite <- Hrc. apply beacon_eta.
    - f_equal.
      assert (Hp : b_prev c = []).
      { apply andb_false_iff in Ec as [Ec|Ec].
        - destruct (Z.eq_dec r 0) as [->|Hr0].
          + unfold chain_of in Hc. simpl in Hc. injection Hc as Hc. now rewrite <- Hc.
          + apply (Hstrip Ec). eapply chain_in; eauto.
        - apply Z.ltb_ge in Ec. assert (Hr0 : r = 0) by lia. rewrite Hr0 in Hc.
          unfold chain_of in Hc. simpl in Hc. injection Hc as Hc. now rewrite <- Hc. }
      destruct c as [cr cp cs]. simpl in *. now subst.
  Qed.

  (* ----- writing round head+1 ----- *)
  Lemma base_put_snoc k (m : bmap) b : Forall (fun x => x < b_round b) (keys m) ->
    base_put k m b = trimk k (m ++ [(b_round b, stored k b)]).
  Proof.
    intros Hf. destruct k; unfold base_put, trimk, stored; try now rewrite sm_put_above.
    unfold sm_put_keep.
    assert (Hn : sm_get m (b_round b) = None).
    { apply sm_get_None. intros Hin. rewrite Forall_forall in Hf. apply Hf in Hin. lia. }
    rewrite Hn. now rewrite sm_put_above.
  Qed.

  Lemma trimk_window k (m1 : bmap) lo h' : kind_ok k -> asc m1 -> 0 <= lo < h' ->
    keys m1 = zseq lo (Z.to_nat (h' - lo + 1)) -> window k lo (h' - lo) ->
    exists lo', lo <= lo' <= h' /\ 0 <= lo' /\
      keys (trimk k m1) = zseq lo' (Z.to_nat (h' - lo' + 1)) /\
      window k lo' (h' - lo' + 1) /\ asc (trimk k m1) /\
      forall r, lo' <= r -> sm_get (trimk k m1) r = sm_get m1 r.
  Proof.
    intros Hk Ha Hlo Hkeys Hwin.
    assert (Hbolt : trimk k m1 = m1 -> lo = 0 -> window k lo (h' - lo + 1) ->
      exists lo', lo <= lo' <= h' /\ 0 <= lo' /\
      keys (trimk k m1) = zseq lo' (Z.to_nat (h' - lo' + 1)) /\
      window k lo' (h' - lo' + 1) /\ asc (trimk k m1) /\
      forall r, lo' <= r -> sm_get (trimk k m1) r = sm_get m1 r).
    { intros -> H0 Hw. exists lo. repeat split; auto; lia. }
    destruct k as [| |cap]; try (apply Hbolt; simpl in *; auto; fail).
    simpl in Hk, Hwin. destruct Hwin as [Hle Hor].
    assert (Hzl : zlen m1 = h' - lo + 1) by (rewrite (zlen_keys_seq m1 lo _ Hkeys); lia).
    destruct (Z_le_gt_dec (h' - lo + 1) cap) as [Hfit|Hfull].
    - apply Hbolt; [cbn [trimk]; unfold sm_trim; apply trim_id; lia|lia|].
      simpl. split; [lia|left; lia].
    - assert (Hcap : h' - lo = cap) by lia.
      exists (lo + 1). cbn [trimk]. unfold sm_trim, md_trim. rewrite Hzl.
      destruct (Z.gtb_spec (h' - lo + 1) cap); [|lia].
      replace (Z.to_nat (h' - lo + 1 - cap)) with 1%nat by lia.
      replace (Z.to_nat (h' - lo + 1)) with (S (Z.to_nat (h' - (lo + 1) + 1))) in Hkeys by lia.
      destruct m1 as [|[k0 x0] rest]; [discriminate|].
      cbn [keys map fst zseq] in Hkeys. injection Hkeys as Hk0 Hrest. subst k0.
      apply asc_cons in Ha as [Ha Hlt]. cbn [skipn].
      repeat split; try lia; try assumption.
      intros r Hr. simpl. destruct (Z.eqb_spec lo r); [lia|reflexivity].
  Qed.

  Lemma put_preserves k s b' : kind_ok k -> Inv k s -> b_round b' = head s + 1 ->
    (chained = true -> b_prev b' = b_sig (st_app_last s)) ->
    (chained = false -> b_prev b' = []) ->
    Inv k (mkStack (base_put k (st_base s) b') b' b' (st_log s ++ [b'])).
  Proof.
    intros Hk (lo & Hlo & Hkeys & Hwin & Ha & Hget & Hlog & Hhd & Hsch & Hlink & Hstrip) Hr Hp Hs.
    set (m := st_base s) in *. set (log := st_log s) in *. set (h := head s) in *.
    assert (Hh : 0 <= h) by lia.
    assert (Hbelow : Forall (fun x => x < b_round b') (keys m)).
    { rewrite Hkeys. apply Forall_forall. intros x Hx. apply zseq_In in Hx. lia. }
    rewrite (base_put_snoc k m b' Hbelow). rewrite Hr.
    set (m1 := m ++ [(h + 1, stored k b')]).
    assert (Ha1 : asc m1) by (apply asc_snoc; [assumption|now rewrite <- Hr]).
    assert (Hk1 : keys m1 = zseq lo (Z.to_nat (h + 1 - lo + 1))).
    { unfold m1. rewrite keys_app, Hkeys. cbn [keys map fst].
      replace (Z.to_nat (h + 1 - lo + 1)) with (S (Z.to_nat (h - lo + 1))) by lia.
      rewrite zseq_snoc. do 2 f_equal. lia. }
    assert (Hg1 : forall r, lo <= r <= h + 1 -> sm_get m1 r = option_map (stored k) (chain (log ++ [b']) r)).
    { intros r Hrr. unfold m1. rewrite sm_get_snoc. rewrite (chain_snoc log h Hh Hlog b' r Hr).
      destruct (Z.eq_dec r (h + 1)) as [->|Hne].
      - rewrite (get_outside m lo _ _ Hkeys) by lia. rewrite Z.eqb_refl.
        destruct (Z.leb_spec (h + 1) h); [lia|]. rewrite andb_false_r. reflexivity.
      - destruct (Z.leb_spec 0 r); [|lia]. destruct (Z.leb_spec r h); [|lia]. cbn [andb].
        rewrite Hget by lia. destruct (chain_dom log h Hlog r ltac:(lia)) as [c ->]. reflexivity. }
    destruct (trimk_window k m1 lo (h + 1) Hk Ha1 ltac:(lia) Hk1) as (lo' & Hlo' & Hlo0 & Hk' & Hw' & Ha' & Hg').
    { now replace (h + 1 - lo) with (h - lo + 1) by lia. }
    exists lo'. unfold head. cbn [st_base st_log st_app_last st_sch_last]. rewrite Hr. fold h.
    repeat split; try assumption; try lia.
    - intros r Hrr. rewrite Hg' by lia. apply Hg1. lia.
    - rewrite map_app, Hlog. cbn [map]. rewrite Hr.
      replace (Z.to_nat (h + 1)) with (S (Z.to_nat h)) by lia. rewrite zseq_snoc. do 2 f_equal. lia.
    - rewrite (chain_snoc log h Hh Hlog b' (h + 1) Hr).
      destruct (Z.leb_spec (h + 1) h); [lia|]. rewrite andb_false_r, Z.eqb_refl. reflexivity.
    - intros Hch r b c Hr1. rewrite !(chain_snoc log h Hh Hlog b' _ Hr).
      destruct (Z.leb_spec 0 r); [|lia]. cbn [andb].
      destruct (Z.leb_spec r h).
      + destruct (Z.leb_spec 0 (r - 1)); [|lia]. destruct (Z.leb_spec (r - 1) h); [|lia]. cbn [andb].
        now apply Hlink.
      + destruct (Z.eqb_spec r (h + 1)) as [->|]; [|discriminate].
        intros [= <-]. replace (h + 1 - 1) with h by lia.
        destruct (Z.leb_spec 0 h); [|lia]. destruct (Z.leb_spec h h); [|lia]. cbn [andb].
        rewrite Hhd. intros [= <-]. now apply Hp.
    - intros Hch b Hin. apply in_app_or in Hin as [Hin|[<-|[]]]; auto.
  Qed.

  (* ----- restarting changes nothing ----- *)
  Lemma chain_zero log : chain log 0 = Some (genesis seed).
  Proof. reflexivity. Qed.

  Lemma stored_genesis k : stored k (genesis seed) = genesis seed.
  Proof. destruct k; reflexivity. Qed.

  Lemma base_put_genesis k s : kind_ok k -> Inv k s -> base_put k (st_base s) (genesis seed) = st_base s.
  Proof.
    intros Hk (lo & Hlo & Hkeys & Hwin & Ha & Hget & Hlog & Hhd & Hsch & Hlink & Hstrip).
    set (m := st_base s) in *. set (h := head s) in *.
    assert (H0 : lo = 0 -> sm_get m 0 = Some (genesis seed)).
    { intros ->. rewrite Hget by lia. rewrite chain_zero. cbn [option_map]. now rewrite stored_genesis. }
    assert (Hzl : zlen m = h - lo + 1) by (rewrite (zlen_keys_seq m lo _ Hkeys); lia).
    destruct k as [| |cap]; cbn [base_put genesis b_round].
    - simpl in Hwin. apply sm_put_same; auto.
    - simpl in Hwin. change (erase_prev (genesis seed)) with (genesis seed). apply sm_put_same; auto.
    - simpl in Hwin, Hk. destruct Hwin as [Hle Hor]. unfold sm_put_keep, sm_trim.
      destruct (Z.eq_dec lo 0) as [Hz|Hnz].
      + rewrite (H0 Hz). apply trim_id. lia.
      + assert (Hfull : h - lo + 1 = cap) by (destruct Hor; [contradiction|assumption]).
        rewrite (get_outside m lo _ 0 Hkeys) by lia.
        rewrite sm_put_below.
        2:{ rewrite Hkeys. apply Forall_forall. intros x Hx. apply zseq_In in Hx. lia. }
        unfold md_trim. rewrite zlen_cons, Hzl. destruct (Z.gtb_spec (1 + (h - lo + 1)) cap); [|lia].
        replace (Z.to_nat (1 + (h - lo + 1) - cap)) with 1%nat by lia. reflexivity.
  Qed.

  Lemma base_last_head k s : Inv k s -> base_last k chained (st_base s) = Some (st_app_last s).
  Proof.
    intros HI. pose proof (bget_window k s HI (head s)) as Hb.
    destruct HI as (lo & Hlo & Hkeys & Hwin & Ha & Hget & Hlog & Hhd & Hsch & Hlink & Hstrip).
    set (m := st_base s) in *. set (h := head s) in *.
    assert (Hzl : zlen m = h - lo + 1) by (rewrite (zlen_keys_seq m lo _ Hkeys); lia).
    destruct (Z.leb_spec 0 h); [|lia]. destruct (Z.leb_spec h h); [|lia]. cbn [andb] in Hb.
    destruct (Z.ltb_spec h (h - zlen m + 1)); [lia|]. rewrite Hhd in Hb. rewrite <- Hb.
    (* the last entry has key h *)
    assert (Hlast : exists v, zlast m = Some (h, v) /\ sm_get m h = Some v).
    { replace (Z.to_nat (h - lo + 1)) with (S (Z.to_nat (h - lo))) in Hkeys by lia.
      rewrite zseq_snoc in Hkeys. replace (lo + Z.of_nat (Z.to_nat (h - lo))) with h in Hkeys by lia.
      destruct (zlast m) as [[kl vl]|] eqn:El.
      - assert (kl = h).
        { pose proof (f_equal zlast Hkeys) as Hz. unfold keys in Hz. rewrite zlast_map, El, zlast_snoc in Hz.
          simpl in Hz. now injection Hz. }
        subst kl. exists vl. split; [reflexivity|]. apply sm_get_In; [assumption|]. now apply zlast_In.
      - exfalso. destruct m; [destruct (zseq lo (Z.to_nat (h - lo))); discriminate|].
        revert El. clear. revert p. induction m as [|y m IH]; intros p; [discriminate|].
        rewrite zlast_cons2. apply IH. }
    destruct Hlast as (v & Hl & Hg). unfold base_last, base_get. now rewrite Hl, Hg.
  Qed.

  Lemma restart_id k s : kind_ok k -> Inv k s -> restart k chained seed s = s.
  Proof.
    intros Hk HI. unfold restart, mk_stack. rewrite (base_put_genesis k s Hk HI).
    rewrite (base_last_head k s HI).
    destruct HI as (lo & _ & _ & _ & _ & _ & _ & _ & Hsch & _).
    destruct s as [m al sl log]. simpl in *. now subst.
  Qed.

  (* ----- every event preserves the invariant ----- *)
  Lemma init_eq k : kind_ok k ->
    init_stack k chained seed = mkStack [(0, genesis seed)] (genesis seed) (genesis seed) [].
  Proof.
    intros Hk. unfold init_stack, mk_stack.
    assert (Hb : base_put k [] (genesis seed) = [(0, genesis seed)]).
    { destruct k as [| |cap]; try reflexivity. simpl in Hk. cbn [base_put]. unfold sm_put_keep, sm_trim. simpl.
      apply trim_id. unfold zlen. simpl. lia. }
    rewrite Hb. unfold base_last. rewrite zlast_single. destruct k; cbn; try reflexivity.
    now rewrite andb_false_r.
  Qed.

  Lemma init_inv k : kind_ok k -> Inv k (init_stack k chained seed).
  Proof.
    intros Hk. rewrite (init_eq k Hk). exists 0. unfold head. cbn [st_base st_log st_app_last st_sch_last genesis b_round].
    repeat split; try reflexivity; try lia.
    - destruct k; simpl in *; auto; try (split; [lia|now left]).
    - apply asc_cons. split; [apply asc_nil|constructor].
    - intros r Hr. assert (r = 0) by lia. subst r. simpl. now rewrite stored_genesis.
    - intros _ r b b' Hr Hc. unfold chain_of in Hc. destruct (Z.eqb_spec r 0); [lia|discriminate].
    - intros _ b [].
  Qed.

  Definition extends (s s' : stack) : Prop :=
    head s <= head s' /\ exists suf, st_log s' = st_log s ++ suf.

  Lemma extends_refl s : extends s s.
  Proof. split; [lia|]. exists []. now rewrite app_nil_r. Qed.

  Lemma extends_trans s1 s2 s3 : extends s1 s2 -> extends s2 s3 -> extends s1 s3.
  Proof.
    intros [H1 [a Ha]] [H2 [b Hb]]. split; [lia|]. exists (a ++ b). now rewrite Hb, Ha, app_assoc.
  Qed.

  Lemma stack_put_inv k s b c : kind_ok k -> Inv k s ->
    Inv k (fst (stack_put k chained s b c)) /\ extends s (fst (stack_put k chained s b c)) /\
    (snd (stack_put k chained s b c) = RStored ->
       head (fst (stack_put k chained s b c)) = head s + 1 /\ b_round b = head s + 1 /\
       st_log (fst (stack_put k chained s b c)) = st_log s ++ [if chained then b else erase_prev b]) /\
    (snd (stack_put k chained s b c) <> RStored -> fst (stack_put k chained s b c) = s).
  Proof.
    intros Hk HI. unfold stack_put.
    assert (Hsame : Inv k s /\ extends s s) by (split; [assumption|apply extends_refl]).
    unfold append_check.
    destruct (Z.eqb_spec (b_round b) (b_round (st_app_last s))).
    { destruct (bytes_eqb (b_sig (st_app_last s)) (b_sig b));
        [destruct (bytes_eqb (b_prev (st_app_last s)) (b_prev b))|]; cbn [fst snd];
        (split; [tauto|split; [tauto|split; [discriminate|reflexivity]]]). }
    destruct (Z.eqb_spec (b_round b) (b_round (st_app_last s) + 1)) as [Hnext|];
      [|cbn [fst snd]; split; [tauto|split; [tauto|split; [discriminate|reflexivity]]]].
    assert (Hsch : st_sch_last s = st_app_last s) by (destruct HI as (lo & _ & _ & _ & _ & _ & _ & _ & H & _); exact H).
    unfold scheme_check. rewrite Hsch.
    assert (Hgo : forall b', b_round b' = head s + 1 -> b' = (if chained then b else erase_prev b) ->
              (chained = true -> b_prev b' = b_sig (st_app_last s)) -> (chained = false -> b_prev b' = []) ->
              let r := (if inner_fails k c then (s, RInner)
                        else (mkStack (base_put k (st_base s) b') b' b' (st_log s ++ [b']), RStored)) in
              Inv k (fst r) /\ extends s (fst r) /\
              (snd r = RStored -> head (fst r) = head s + 1 /\ b_round b = head s + 1 /\
                 st_log (fst r) = st_log s ++ [if chained then b else erase_prev b]) /\
              (snd r <> RStored -> fst r = s)).
    { intros b' Hr Hsig Hp Hs. cbv zeta. destruct (inner_fails k c); cbn [fst snd].
      - split; [tauto|split; [tauto|split; [discriminate|reflexivity]]].
      - split; [now apply put_preserves|]. split.
        + split; [unfold head at 2; cbn [st_app_last]; lia|]. exists [b']. reflexivity.
        + split; [|congruence]. intros _. split; [unfold head at 1; cbn [st_app_last]; lia|].
          split; [exact Hnext|]. now rewrite <- Hsig. }
    destruct chained eqn:Ech.
    - destruct (bytes_eqb (b_sig (st_app_last s)) (b_prev b)) eqn:Ep.
      + apply bytes_eqb_eq in Ep. apply Hgo; rewrite ?Ech; auto; try discriminate; try (intros _; now symmetry).
      + cbn [fst snd]. split; [tauto|split; [tauto|split; [discriminate|reflexivity]]].
    - apply Hgo; rewrite ?Ech; auto; discriminate.
  Qed.

  Lemma sstep_inv k s e : kind_ok k -> Inv k s ->
    Inv k (fst (sstep k chained seed s e)) /\ extends s (fst (sstep k chained seed s e)).
  Proof.
    intros Hk HI. destruct e as [b c|l b c|b u c|]; unfold sstep.
    - destruct (stack_put k chained s b c) as [s' r] eqn:E.
      pose proof (stack_put_inv k s b c Hk HI) as H. rewrite E in H. cbn [fst snd] in *. tauto.
    - unfold try_append. destruct c; [cbn [fst]; split; [assumption|apply extends_refl]|].
      destruct (b_round l + 1 =? b_round b); [|cbn [fst]; split; [assumption|apply extends_refl]].
      destruct (stack_put k chained s b false) as [s' r] eqn:E.
      pose proof (stack_put_inv k s b false Hk HI) as H. rewrite E in H. cbn [fst snd] in *. tauto.
    - unfold sync_put. destruct (stack_put k chained s b c) as [s' r] eqn:E.
      pose proof (stack_put_inv k s b c Hk HI) as H. rewrite E in H. cbn [fst snd] in *. tauto.
    - cbn [fst]. rewrite (restart_id k s Hk HI). split; [assumption|apply extends_refl].
  Qed.

  Lemma sexec_app k s a b :
    sexec k chained seed s (a ++ b) = sexec k chained seed (sexec k chained seed s a) b.
  Proof. revert s. induction a; intros s; simpl; auto. Qed.

  Lemma sexec_inv k s evs : kind_ok k -> Inv k s ->
    Inv k (sexec k chained seed s evs) /\ extends s (sexec k chained seed s evs).
  Proof.
    intros Hk. revert s. induction evs as [|e evs IH]; intros s HI; simpl.
    - split; [assumption|apply extends_refl].
    - destruct (sstep_inv k s e Hk HI) as [H1 H2]. destruct (IH _ H1) as [H3 H4].
      split; [assumption|eapply extends_trans; eauto].
  Qed.

  Notation reach k evs := (sexec k chained seed (init_stack k chained seed) evs).

  Theorem reach_inv k evs : kind_ok k -> Inv k (reach k evs).
  Proof. intros Hk. apply sexec_inv; [assumption|now apply init_inv]. Qed.

  (* ----- C02: gap-free, written once, linked ----- *)
  Theorem gapfree k evs : kind_ok k ->
    let s := reach k evs in let h := head s in
    exists lo, 0 <= lo <= h /\
      match k with KMem cap => lo = Z.max 0 (h - cap + 1) | _ => lo = 0 end /\
      keys (st_base s) = zseq lo (Z.to_nat (h - lo + 1)) /\
      (forall r, base_get k chained (st_base s) r <> None <-> lo <= r <= h) /\
      (forall r b, base_get k chained (st_base s) r = Some b ->
                   chain (st_log s) r = Some b /\ b_round b = r) /\
      map b_round (st_log s) = zseq 1 (Z.to_nat h) /\
      (chained = true -> forall r b b', 1 <= r ->
         base_get k chained (st_base s) r = Some b ->
         base_get k chained (st_base s) (r - 1) = Some b' -> b_prev b = b_sig b') /\
      (chained = false -> forall r b, 1 <= r ->
         base_get k chained (st_base s) r = Some b -> b_prev b = []).
  Proof.
    intros Hk s h. pose proof (reach_inv k evs Hk) as HI. fold s in HI.
    pose proof (bget_window k s HI) as Hb.
    destruct HI as (lo & Hlo & Hkeys & Hwin & Ha & Hget & Hlog & Hhd & Hsch & Hlink & Hstrip).
    fold h in Hlo, Hkeys, Hwin, Hget, Hlog, Hhd, Hb.
    assert (Hzl : zlen (st_base s) = h - lo + 1) by (rewrite (zlen_keys_seq _ lo _ Hkeys); lia).
    rewrite Hzl in Hb. replace (h - (h - lo + 1) + 1) with lo in Hb by lia.
    assert (Hh : 0 <= h) by lia.
    assert (Hin : forall r, lo <= r <= h -> base_get k chained (st_base s) r = chain (st_log s) r).
    { intros r Hr. rewrite Hb. destruct (Z.leb_spec 0 r); [|lia]. destruct (Z.leb_spec r h); [|lia].
      cbn [andb]. destruct (Z.ltb_spec r lo); [lia|reflexivity]. }
    assert (Hout : forall r, ~ lo <= r <= h -> base_get k chained (st_base s) r = None).
    { intros r Hr. rewrite Hb. destruct (Z.leb_spec 0 r); [|reflexivity]. destruct (Z.leb_spec r h); [|reflexivity].
      cbn [andb]. destruct (Z.ltb_spec r lo); [reflexivity|lia]. }
    assert (Hsome : forall r b, base_get k chained (st_base s) r = Some b -> lo <= r <= h /\ chain (st_log s) r = Some b).
    { intros r b Hg. destruct (Z_le_dec lo r); [destruct (Z_le_dec r h)|].
      - split; [lia|]. now rewrite <- Hin by lia.
      - rewrite Hout in Hg by lia. discriminate.
      - rewrite Hout in Hg by lia. discriminate. }
    exists lo. repeat split; try assumption; try lia.
    - destruct k as [| |cap]; simpl in Hwin; try assumption. simpl in Hk. lia.
    - destruct (Z_le_dec lo r); [lia|]. exfalso. apply H. apply Hout. lia.
    - destruct (Z_le_dec r h); [lia|]. exfalso. apply H. apply Hout. lia.
    - intros [H1 H2]. rewrite Hin by lia. destruct (chain_dom _ h Hlog r ltac:(lia)) as [c ->]. discriminate.
    - now apply Hsome.
    - eapply chain_round. now apply Hsome.
    - intros Hch r b b' Hr Hg Hg'. apply Hsome in Hg as [_ Hg]. apply Hsome in Hg' as [_ Hg']. eauto.
    - intros Hch r b Hr Hg. apply Hsome in Hg as [_ Hg]. apply (Hstrip Hch). eapply chain_in; eauto. lia.
  Qed.

  Theorem head_monotone k evs evs' : kind_ok k ->
    head (reach k evs) <= head (reach k (evs ++ evs')) /\
    exists suf, st_log (reach k (evs ++ evs')) = st_log (reach k evs) ++ suf.
  Proof.
    intros Hk. rewrite sexec_app. apply sexec_inv; [assumption|now apply reach_inv].
  Qed.

  Lemma chain_app_stable log suf r b : chain log r = Some b -> chain (log ++ suf) r = Some b.
  Proof. unfold chain_of. destruct (r =? 0); [auto|]. intros H. now rewrite find_app, H. Qed.

  (* ----- C02: a stored round is never replaced by a different value ----- *)
  Theorem no_rewrite k evs evs' r b : kind_ok k ->
    base_get k chained (st_base (reach k evs)) r = Some b ->
    base_get k chained (st_base (reach k (evs ++ evs'))) r = Some b \/
    (base_get k chained (st_base (reach k (evs ++ evs'))) r = None /\
     exists cap, k = KMem cap /\ r < head (reach k (evs ++ evs')) - cap + 1).
  Proof.
    intros Hk Hg.
    destruct (gapfree k evs Hk) as (lo & Hlo & _ & _ & Hdom & Hch & _).
    destruct (gapfree k (evs ++ evs') Hk) as (lo' & Hlo' & Hklo & _ & Hdom' & Hch' & _).
    destruct (head_monotone k evs evs' Hk) as [Hmono [suf Hsuf]].
    destruct (Hch r b Hg) as [Hc _].
    assert (Hr : lo <= r <= head (reach k evs)) by (apply Hdom; congruence).
    destruct (base_get k chained (st_base (reach k (evs ++ evs'))) r) as [b2|] eqn:E.
    - left. destruct (Hch' r b2 E) as [Hc2 _]. rewrite Hsuf in Hc2.
      rewrite (chain_app_stable _ suf r b Hc) in Hc2. congruence.
    - right. split; [reflexivity|].
      assert (Hnot : ~ lo' <= r <= head (reach k (evs ++ evs'))) by (intros H; apply Hdom' in H; congruence).
      destruct k as [| |cap]; try lia. exists cap. split; [reflexivity|]. lia.
  Qed.
  (* ----- where the written beacons come from ----- *)
  Definition norm (b : beacon) : beacon := if chained then b else erase_prev b.

  Lemma sstep_log k s e : kind_ok k -> Inv k s ->
    st_log (fst (sstep k chained seed s e)) = st_log s \/
    exists b, ev_beacon e = Some b /\ st_log (fst (sstep k chained seed s e)) = st_log s ++ [norm b].
  Proof.
    intros Hk HI.
    assert (Hput : forall b c, st_log (fst (stack_put k chained s b c)) = st_log s \/
                    st_log (fst (stack_put k chained s b c)) = st_log s ++ [norm b]).
    { intros b c. destruct (stack_put_inv k s b c Hk HI) as (_ & _ & Hst & Hno).
      destruct (snd (stack_put k chained s b c)) eqn:E;
        try (left; rewrite Hno by discriminate; reflexivity).
      right. now apply Hst. }
    destruct e as [b c|l b c|b u c|]; unfold sstep.
    - destruct (stack_put k chained s b c) as [s' r] eqn:E. cbn [fst ev_beacon].
      destruct (Hput b c) as [H|H]; rewrite E in H; cbn [fst] in H; eauto.
    - unfold try_append. destruct c; [now left|]. destruct (b_round l + 1 =? b_round b); [|now left].
      destruct (stack_put k chained s b false) as [s' r] eqn:E. cbn [fst ev_beacon].
      destruct (Hput b false) as [H|H]; rewrite E in H; cbn [fst] in H; eauto.
    - unfold sync_put. destruct (stack_put k chained s b c) as [s' r] eqn:E. cbn [fst ev_beacon].
      destruct (Hput b c) as [H|H]; rewrite E in H; cbn [fst] in H; eauto.
    - cbn [fst]. rewrite (restart_id k s Hk HI). now left.
  Qed.

  Lemma log_from_events k evs : kind_ok k ->
    forall b', In b' (st_log (reach k evs)) ->
    exists e b, In e evs /\ ev_beacon e = Some b /\ b' = norm b.
  Proof.
    intros Hk. induction evs as [|e evs IH] using rev_ind; intros b' Hin.
    - rewrite (init_eq k Hk) in Hin. destruct Hin.
    - rewrite sexec_app in Hin. cbn [sexec] in Hin.
      destruct (sstep_log k (reach k evs) e Hk (reach_inv k evs Hk)) as [H|(b & He & H)]; rewrite H in Hin.
      + destruct (IH b' Hin) as (e0 & b0 & Hi & He0 & Hb). exists e0, b0. split; [apply in_or_app; now left|auto].
      + apply in_app_or in Hin as [Hin|[<-|[]]].
        * destruct (IH b' Hin) as (e0 & b0 & Hi & He0 & Hb). exists e0, b0. split; [apply in_or_app; now left|auto].
        * exists e, b. split; [apply in_or_app; right; now left|auto].
  Qed.

  (* tryAppend reports success exactly when the round is in the store with that signature
     afterwards (stored now, or lost the race against an identical beacon) *)
  Theorem try_append_true k evs l b c : kind_ok k ->
    let s := reach k evs in
    snd (try_append k chained s l b c) = true ->
    exists b', base_get k chained (st_base (fst (try_append k chained s l b c))) (b_round b) = Some b' /\
               b_sig b' = b_sig b.
  Proof.
    intros Hk s. pose proof (reach_inv k evs Hk) as HI. fold s in HI.
    unfold try_append. destruct c; [discriminate|]. destruct (b_round l + 1 =? b_round b); [|discriminate].
    destruct (stack_put k chained s b false) as [s' r] eqn:E. cbn [fst snd].
    pose proof (stack_put_inv k s b false Hk HI) as (HI' & _ & Hst & Hno). rewrite E in *. cbn [fst snd] in *.
    assert (Hhead : forall s0, Inv k s0 -> base_get k chained (st_base s0) (head s0) = Some (st_app_last s0)).
    { intros s0 H0. pose proof (bget_window k s0 H0 (head s0)) as Hb.
      destruct H0 as (lo & Hlo & Hkeys & _ & _ & _ & _ & Hhd & _).
      assert (Hzl : zlen (st_base s0) = head s0 - lo + 1) by (rewrite (zlen_keys_seq _ lo _ Hkeys); lia).
      destruct (Z.leb_spec 0 (head s0)); [|lia]. destruct (Z.leb_spec (head s0) (head s0)); [|lia].
      cbn [andb] in Hb. destruct (Z.ltb_spec (head s0) (head s0 - zlen (st_base s0) + 1)); [lia|]. congruence. }
    destruct r; try discriminate; intros _.
    - destruct (Hst eq_refl) as (Hh & Hr & Hl). exists (st_app_last s').
      split; [rewrite Hr, <- Hh; now apply Hhead|].
      destruct HI' as (lo & _ & _ & _ & _ & _ & Hlog & Hhd & _).
      rewrite Hl in Hhd. rewrite Hh in Hhd.
      destruct HI as (lo0 & Hlo0 & _ & _ & _ & _ & Hlog0 & _).
      rewrite (chain_snoc (st_log s) (head s) ltac:(lia) Hlog0 _ _) in Hhd.
      2:{ unfold norm. destruct chained; [assumption|exact Hr]. }
      destruct (Z.leb_spec (head s + 1) (head s)); [lia|]. rewrite andb_false_r, Z.eqb_refl in Hhd.
      injection Hhd as <-. destruct chained; reflexivity.
    - rewrite (Hno ltac:(discriminate)). clear Hno Hst HI'.
      unfold stack_put, append_check in E. revert E.
      destruct (Z.eqb_spec (b_round b) (b_round (st_app_last s))) as [Hr|].
      + destruct (bytes_eqb (b_sig (st_app_last s)) (b_sig b)) eqn:Es;
          [destruct (bytes_eqb (b_prev (st_app_last s)) (b_prev b))|]; try (intros E0; discriminate E0).
        intros _. apply bytes_eqb_eq in Es. exists (st_app_last s). split; [|assumption].
        rewrite Hr. now apply Hhead.
      + destruct (b_round b =? b_round (st_app_last s) + 1); [|intros E0; discriminate E0].
        unfold scheme_check. destruct chained; [destruct (bytes_eqb (b_sig (st_sch_last s)) (b_prev b))|];
          try (intros E0; discriminate E0); destruct k; cbn [inner_fails]; intros E0; discriminate E0.
  Qed.

  (* ----- the ReSync path writes to the base directly (DESIGN section 6, F14) ----- *)
  Theorem resync_harmless k evs r b b' : kind_ok k -> k <> KBoltU ->
    let s := reach k evs in
    base_get k chained (st_base s) r = Some b -> b_round b' = r -> b_sig b' = b_sig b ->
    st_base (resync_put k s b') = st_base s.
  Proof.
    intros Hk Hnu s Hg Hr Hs. pose proof (reach_inv k evs Hk) as HI. fold s in HI.
    pose proof (gapfree k evs Hk) as (lo' & _ & _ & _ & Hdom & Hch & _). fold s in Hdom, Hch.
    destruct (Hch r b Hg) as [Hc Hrb].
    destruct HI as (lo & Hlo & Hkeys & Hwin & Ha & Hget & _).
    assert (Hzl : zlen (st_base s) = head s - lo + 1) by (rewrite (zlen_keys_seq _ lo _ Hkeys); lia).
    assert (Hin : lo <= r <= head s).
    { destruct (Z_le_dec lo r); [destruct (Z_le_dec r (head s)); [lia|]|]; exfalso;
        unfold base_get in Hg; rewrite (get_outside _ lo _ r Hkeys) in Hg by lia; discriminate. }
    specialize (Hget r Hin). rewrite Hc in Hget. cbn [option_map] in Hget.
    unfold resync_put. cbn [st_base]. destruct k as [| |cap]; [contradiction| |]; cbn [base_put].
    - rewrite Hr. apply sm_put_same; [assumption|]. rewrite Hget. unfold stored, erase_prev. now rewrite Hr, Hs, Hrb.
    - rewrite Hr. unfold sm_put_keep, sm_trim. rewrite Hget. apply trim_id. simpl in Hwin. lia.
  Qed.
End NodeProofs.

(* ----- C02: two all-verified linked chains with the same genesis agree bytewise ----- *)
Section Agree.
  Variable vfy : Z * list Z -> list Z -> bool.     (* message (round, previous signature or
                                                      nothing), signature *)
  Hypothesis vfy_unique : forall m s1 s2, vfy m s1 = true -> vfy m s2 = true -> s1 = s2.
  Variable chained : bool.

  Definition msg_of (b : beacon) : Z * list Z := (b_round b, if chained then b_prev b else []).
  Definition verified (b : beacon) : Prop := vfy (msg_of b) (b_sig b) = true.

  Definition good_chain (g : beacon) (c : Z -> option beacon) : Prop :=
    c 0 = Some g /\
    (forall r b, c r = Some b -> b_round b = r /\ 0 <= r) /\
    (forall r b, 1 <= r -> c r = Some b -> c (r - 1) <> None) /\
    (forall r b, 1 <= r -> c r = Some b -> verified b) /\
    (chained = true -> forall r b b', 1 <= r -> c r = Some b -> c (r - 1) = Some b' -> b_prev b = b_sig b') /\
    (chained = false -> forall r b, 1 <= r -> c r = Some b -> b_prev b = []).

  Theorem chains_agree g c1 c2 : good_chain g c1 -> good_chain g c2 ->
    forall r b1 b2, c1 r = Some b1 -> c2 r = Some b2 -> b1 = b2.
  Proof.
    intros (G1 & R1 & D1 & V1 & L1 & S1) (G2 & R2 & D2 & V2 & L2 & S2) r b1 b2 H1.
    assert (Hr : 0 <= r) by (apply (R1 r b1 H1)).
    revert b1 b2 H1. pattern r. apply natlike_ind; [| |exact Hr].
    - intros b1 b2 H1 H2. congruence.
    - clear r Hr. intros x Hx IH b1 b2 H1 H2.
      assert (Hs : 1 <= Z.succ x) by lia.
      destruct (c1 (Z.succ x - 1)) as [p1|] eqn:P1; [|exfalso; exact (D1 _ _ Hs H1 P1)].
      destruct (c2 (Z.succ x - 1)) as [p2|] eqn:P2; [|exfalso; exact (D2 _ _ Hs H2 P2)].
      replace (Z.succ x - 1) with x in P1, P2 by lia.
      assert (p1 = p2) by (apply IH; assumption). subst p2.
      destruct (R1 _ _ H1) as [Hr1 _]. destruct (R2 _ _ H2) as [Hr2 _].
      assert (Hp : b_prev b1 = b_prev b2).
      { destruct chained eqn:Ech.
        - replace x with (Z.succ x - 1) in P1, P2 by lia.
          rewrite (L1 eq_refl _ _ _ Hs H1 P1), (L2 eq_refl _ _ _ Hs H2 P2). reflexivity.
        - rewrite (S1 eq_refl _ _ Hs H1), (S2 eq_refl _ _ Hs H2). reflexivity. }
      assert (Hsig : b_sig b1 = b_sig b2).
      { apply (vfy_unique (msg_of b1)); [exact (V1 _ _ Hs H1)|].
        replace (msg_of b1) with (msg_of b2); [exact (V2 _ _ Hs H2)|].
        unfold msg_of. now rewrite Hr1, Hr2, Hp. }
      destruct b1, b2. simpl in *. congruence.
  Qed.

  (* a node whose writers only hand verified beacons to the stack holds a good chain *)
  Variable seed : list Z.

  Theorem node_chain_good k evs : kind_ok k ->
    (forall e b, In e evs -> ev_beacon e = Some b -> verified b) ->
    good_chain (genesis seed)
      (chain_of seed (st_log (sexec k chained seed (init_stack k chained seed) evs))).
  Proof.
    intros Hk Hv. set (s := sexec k chained seed (init_stack k chained seed) evs).
    pose proof (reach_inv chained seed k evs Hk) as HI. fold s in HI.
    destruct HI as (lo & Hlo & _ & _ & _ & _ & Hlog & _ & _ & Hlink & Hstrip).
    assert (Hh : 0 <= head s) by lia.
    assert (Hdom : forall r b, chain_of seed (st_log s) r = Some b -> 0 <= r <= head s).
    { intros r b Hc. destruct (Z_le_dec 0 r); [destruct (Z_le_dec r (head s)); [lia|]|];
        rewrite (chain_out seed _ _ Hh Hlog r) in Hc by lia; discriminate. }
    repeat split.
    - eapply chain_round; eauto.
    - apply (Hdom r b H).
    - intros r b Hr Hc Hn. destruct (chain_dom seed _ _ Hlog (r - 1)) as [c Hc']; [|congruence].
      specialize (Hdom r b Hc). lia.
    - intros r b Hr Hc. assert (Hin : In b (st_log s)) by (eapply chain_in; eauto; lia).
      destruct (log_from_events chained seed k evs Hk b Hin) as (e & b0 & Hi & He & ->).
      specialize (Hv e b0 Hi He). unfold verified, msg_of, norm in *. destruct chained; [assumption|exact Hv].
    - exact Hlink.
    - intros Hch r b Hr Hc. apply (Hstrip Hch). eapply chain_in; eauto. lia.
  Qed.

  (* any two nodes of the same chain (whatever their back-ends and histories) hold identical
     beacons for every round they both have *)
  Theorem nodes_agree k1 evs1 k2 evs2 r b1 b2 : kind_ok k1 -> kind_ok k2 ->
    (forall e b, In e evs1 -> ev_beacon e = Some b -> verified b) ->
    (forall e b, In e evs2 -> ev_beacon e = Some b -> verified b) ->
    base_get k1 chained (st_base (sexec k1 chained seed (init_stack k1 chained seed) evs1)) r = Some b1 ->
    base_get k2 chained (st_base (sexec k2 chained seed (init_stack k2 chained seed) evs2)) r = Some b2 ->
    b1 = b2.
  Proof.
    intros Hk1 Hk2 Hv1 Hv2 H1 H2.
    destruct (gapfree chained seed k1 evs1 Hk1) as (_ & _ & _ & _ & _ & Hc1 & _).
    destruct (gapfree chained seed k2 evs2 Hk2) as (_ & _ & _ & _ & _ & Hc2 & _).
    apply (chains_agree _ _ _ (node_chain_good k1 evs1 Hk1 Hv1) (node_chain_good k2 evs2 Hk2 Hv2) r);
      [apply (Hc1 r b1 H1)|apply (Hc2 r b2 H2)].
  Qed.
End Agree.

