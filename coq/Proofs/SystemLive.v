(* C05, system level: n honest nodes (each an instance of Model/Node.v with its own share
   oracle), all holding the same head, a threshold of them exchanging partials: after one
   synchronous exchange every node has appended the SAME verified beacon of the next round, and
   k exchanges append k rounds, one after the other with none skipped. *)
From Coq Require Import ZArith List Bool Lia.
From DV Require Import Model.Time Model.Node Proofs.NodeProofs Proofs.NodeLive.
Import ListNotations.
Open Scope Z_scope.

Lemma filter_all_id {A} (g : A -> bool) (l : list A) : (forall z, In z l -> g z = true) -> filter g l = l.
Proof.
  induction l as [|y l IH]; intros H; simpl; [reflexivity|].
  rewrite (H y (or_introl eq_refl)). f_equal. apply IH. intros; apply H; right; assumption.
Qed.

Lemma NoDup_filter_map {A} (f : A -> Z) (g : A -> bool) (l : list A) : NoDup (map f l) -> NoDup (map f (filter g l)).
Proof.
  induction l as [|y l IH]; intros H; simpl; [constructor|].
  simpl in H. inversion H as [|? ? Hn H']; subst. destruct (g y); simpl; [|auto].
  constructor; [|auto]. intros Hin. apply Hn. apply in_map_iff in Hin as [z [E Hz]].
  apply filter_In in Hz as [Hz _]. rewrite <- E. apply in_map. exact Hz.
Qed.

Lemma filter_one_out {A} (f : A -> Z) (l : list A) (x : A) :
  NoDup (map f l) -> In x l ->
  length (filter (fun y => negb (f y =? f x)) l) = (length l - 1)%nat.
Proof.
  induction l as [|y l IH]; intros Hn Hin; [destruct Hin|].
  simpl in Hn. inversion Hn as [|? ? Hnotin Hn']; subst. simpl.
  destruct Hin as [->|Hin].
  - rewrite Z.eqb_refl. simpl. rewrite Nat.sub_0_r.
    assert (E : filter (fun y => negb (f y =? f x)) l = l).
    { apply filter_all_id. intros z Hz.
      destruct (Z.eqb_spec (f z) (f x)) as [E|]; [|reflexivity].
      exfalso. apply Hnotin. rewrite <- E. apply in_map. exact Hz. }
    rewrite E. reflexivity.
  - destruct (Z.eqb_spec (f y) (f x)) as [E|].
    + exfalso. apply Hnotin. rewrite E. apply in_map. exact Hin.
    + simpl. rewrite (IH Hn' Hin). destruct l; [destruct Hin|]. simpl. lia.
Qed.

Section SystemLive.
  Variable C : cfg.
  Variable idx_of : Z -> Z.
  Variable vpart : Z -> Z -> Z -> Z -> bool.
  Variable recov : Z -> Z -> Z -> list Z -> Z -> option Z.
  Variable vrec : Z -> Z -> Z -> bool.

  Hypothesis recov_complete : forall P r p sigs t,
    NoDup (map idx_of sigs) -> t <= Z.of_nat (length sigs) ->
    (forall x, In x sigs -> vpart P r p x = true) ->
    exists s, recov P r p sigs t = Some s /\ vrec r p s = true.
  Hypothesis limit_nonneg : 0 <= c_limit C.
  Hypothesis vrec_unchained : c_chained C = false -> forall r p p' s, vrec r p s = vrec r p' s.
  Hypothesis vrec_unique : forall r p s1 s2, vrec r p s1 = true -> vrec r p s2 = true -> s1 = s2.

  (* a node and the oracle of its own share *)
  Definition node := (nstate * (Z -> Z -> Z -> Z))%type.
  Definition nd_me (n : node) : Z := g_me (s_grp (fst n)).
  (* the partial a node signs on top of its head *)
  Definition nd_partial (n : node) : Z :=
    snd n (g_poly (s_grp (fst n))) (b_round (head (fst n)) + 1) (b_sig (head (fst n))).

  (* one synchronous exchange: every node handles a tick (it signs the round after its head),
     then receives the partials of all the others *)
  Definition round_node (all : list node) (n : node) : node :=
    let hb := head (fst n) in
    let ps := filter (fun p => negb (idx_of p =? idx_of (nd_partial n))) (map nd_partial all) in
    (deliver C idx_of vpart recov vrec (snd n)
       (fst (step C idx_of vpart recov vrec (snd n) (fst n) (ETick (b_round hb + 1) None))) hb ps, snd n).
  Definition round_all (all : list node) : list node := map (round_node all) all.

  Record sys_ok (G : grp) (nodes : list node) (hb : beacon) (rmax : Z) : Prop := {
    so_ready : forall n, In n nodes -> ready (fst n) /\ head (fst n) = hb;
    so_grp : forall n, In n nodes -> g_poly (s_grp (fst n)) = g_poly G /\ g_thr (s_grp (fst n)) = g_thr G /\
                                     g_members (s_grp (fst n)) = g_members G;
    so_me_nodup : NoDup (map nd_me nodes);
    so_me : forall n, In n nodes -> 0 <= nd_me n /\ memb (nd_me n) (g_members G) = true;
    so_own : forall n, In n nodes -> forall r p,
               idx_of (snd n (g_poly G) r p) = nd_me n /\ vpart (g_poly G) r p (snd n (g_poly G) r p) = true;
    so_clock : forall n, In n nodes -> rmax <= current_round (s_now (fst n)) (c_period C) (c_genesis C);
    so_thr : 1 <= g_thr G <= Z.of_nat (length nodes)
  }.

  Lemma partial_idx G nodes hb rmax n : sys_ok G nodes hb rmax -> In n nodes -> idx_of (nd_partial n) = nd_me n.
  Proof.
    intros H Hin. unfold nd_partial. destruct (so_grp _ _ _ _ H n Hin) as [-> _].
    apply (so_own _ _ _ _ H n Hin).
  Qed.

  Lemma node_round G nodes hb rmax n :
    sys_ok G nodes hb rmax -> b_round hb + 1 <= rmax -> In n nodes ->
    produced C vrec (fst n) (fst (round_node nodes n)) hb.
  Proof.
    intros H Hr Hin.
    destruct (so_ready _ _ _ _ H n Hin) as [Hrd Hhd].
    destruct (so_grp _ _ _ _ H n Hin) as [Gp [Gt Gm]].
    unfold round_node. cbn [fst]. rewrite Hhd.
    assert (Hall : forall m, In m nodes -> nd_partial m = snd m (g_poly G) (b_round hb + 1) (b_sig hb)).
    { intros m Hm. unfold nd_partial. destruct (so_ready _ _ _ _ H m Hm) as [_ ->].
      destruct (so_grp _ _ _ _ H m Hm) as [-> _]. reflexivity. }
    set (ps := filter (fun p => negb (idx_of p =? idx_of (nd_partial n))) (map nd_partial nodes)).
    apply (node_round_completes C idx_of vpart recov vrec (snd n) recov_complete limit_nonneg vrec_unchained
             (fst n) hb (b_round hb + 1) ps Hrd Hhd ltac:(lia)
             ltac:(pose proof (so_clock _ _ _ _ H n Hin); lia)).
    - rewrite Gp. apply (so_own _ _ _ _ H n Hin).
    - intros sg Hsg. unfold ps in Hsg. apply filter_In in Hsg as [Hsg Hne].
      apply in_map_iff in Hsg as [m [<- Hm]].
      rewrite (Hall m Hm) in *. rewrite (Hall n Hin) in Hne.
      destruct (so_own _ _ _ _ H m Hm (b_round hb + 1) (b_sig hb)) as [Om Ov].
      destruct (so_own _ _ _ _ H n Hin (b_round hb + 1) (b_sig hb)) as [On _].
      destruct (so_me _ _ _ _ H m Hm) as [M1 M2].
      unfold good_partial. rewrite Gp, Gm, Om. repeat split; try assumption.
      + rewrite On in Hne. rewrite Om in Hne. fold (nd_me n). destruct (Z.eqb_spec (nd_me m) (nd_me n)); [discriminate|assumption].
      + pose proof (so_clock _ _ _ _ H n Hin) as Hck. unfold current_round in Hck.
        destruct (fst (next_round (s_now (fst n)) (c_period C) (c_genesis C)) <=? 1) eqn:En1; [apply Z.leb_le in En1|apply Z.leb_gt in En1]; lia.
    - unfold ps. apply NoDup_filter_map.
      assert (E : map idx_of (map nd_partial nodes) = map nd_me nodes).
      { rewrite map_map. apply map_ext_in. intros m Hm. apply (partial_idx G nodes hb rmax m H Hm). }
      rewrite E. apply (so_me_nodup _ _ _ _ H).
    - intros sg Hsg. unfold ps in Hsg. apply filter_In in Hsg as [_ Hne].
      destruct (Z.eqb_spec (idx_of sg) (idx_of (nd_partial n))) as [|Hd]; [discriminate|].
      unfold nd_partial in Hd. rewrite Hhd in Hd. exact Hd.
    - unfold ps.
      assert (L : length (filter (fun p => negb (idx_of p =? idx_of (nd_partial n))) (map nd_partial nodes))
                  = (length nodes - 1)%nat).
      { rewrite <- (map_length nd_partial nodes). apply (filter_one_out idx_of (map nd_partial nodes) (nd_partial n)).
        - assert (E : map idx_of (map nd_partial nodes) = map nd_me nodes).
          { rewrite map_map. apply map_ext_in. intros m Hm. apply (partial_idx G nodes hb rmax m H Hm). }
          rewrite E. apply (so_me_nodup _ _ _ _ H).
        - apply in_map. exact Hin. }
      rewrite L, Gt. destruct (so_thr _ _ _ _ H). assert (1 <= length nodes)%nat by lia. lia.
  Qed.

  Definition verified_b (b : beacon) : Prop := vrec (b_round b) (b_prev b) (b_sig b) = true.

  Lemma round_node_facts G nodes hb rmax n fs0 :
    sys_ok G nodes hb rmax -> b_round hb + 1 <= rmax -> In n nodes ->
    vrec (b_round hb + 1) (b_sig hb) fs0 = true ->
    let n' := round_node nodes n in
    s_chain (fst n') = next_beacon C hb fs0 :: s_chain (fst n) /\ snd n' = snd n /\
    ready (fst n') /\ s_grp (fst n') = s_grp (fst n) /\ s_now (fst n') = s_now (fst n).
  Proof.
    intros H Hr Hin Hv0 n'.
    destruct (node_round G nodes hb rmax n H Hr Hin) as [[Bg [Bn [Bp Br]]] [Hca [fs [Hv Hch]]]].
    assert (fs = fs0) by (eapply vrec_unique; eassumption). subst fs.
    repeat split; try assumption.
  Qed.

  Theorem one_round G nodes hb rmax :
    sys_ok G nodes hb rmax -> b_round hb + 1 <= rmax ->
    exists hb', b_round hb' = b_round hb + 1 /\ verified_b hb' /\
      (c_chained C = true -> b_prev hb' = b_sig hb) /\
      sys_ok G (round_all nodes) hb' rmax /\
      forall n, In n nodes -> s_chain (fst (round_node nodes n)) = hb' :: s_chain (fst n).
  Proof.
    intros H Hr.
    destruct nodes as [|n0 rest] eqn:En.
    { destruct (so_thr _ _ _ _ H). simpl in *. lia. }
    rewrite <- En in *.
    assert (Hin0 : In n0 nodes) by (rewrite En; left; reflexivity).
    destruct (node_round G nodes hb rmax n0 H Hr Hin0) as [_ [_ [fs0 [Hv0 _]]]].
    destruct (next_beacon_ok C vrec vrec_unchained hb fs0 Hv0) as [Nr [Nv Ns]].
    exists (next_beacon C hb fs0). split; [exact Nr|]. split; [exact Nv|]. split.
    { intros Hc. unfold next_beacon, stored_form. rewrite Hc. reflexivity. }
    split.
    - constructor.
      + intros n' Hn'. apply in_map_iff in Hn' as [n [<- Hn]].
        destruct (round_node_facts G nodes hb rmax n fs0 H Hr Hn Hv0) as [Hc [_ [Hrd _]]].
        split; [exact Hrd|]. unfold head. rewrite Hc. reflexivity.
      + intros n' Hn'. apply in_map_iff in Hn' as [n [<- Hn]].
        destruct (round_node_facts G nodes hb rmax n fs0 H Hr Hn Hv0) as [_ [_ [_ [Hg _]]]].
        rewrite Hg. apply (so_grp _ _ _ _ H n Hn).
      + assert (E : map nd_me (round_all nodes) = map nd_me nodes).
        { unfold round_all. rewrite map_map. apply map_ext_in. intros n Hn. unfold nd_me.
          destruct (round_node_facts G nodes hb rmax n fs0 H Hr Hn Hv0) as [_ [_ [_ [Hg _]]]]. rewrite Hg. reflexivity. }
        rewrite E. apply (so_me_nodup _ _ _ _ H).
      + intros n' Hn'. apply in_map_iff in Hn' as [n [<- Hn]]. unfold nd_me.
        destruct (round_node_facts G nodes hb rmax n fs0 H Hr Hn Hv0) as [_ [_ [_ [Hg _]]]].
        rewrite Hg. apply (so_me _ _ _ _ H n Hn).
      + intros n' Hn'. apply in_map_iff in Hn' as [n [<- Hn]]. unfold nd_me.
        destruct (round_node_facts G nodes hb rmax n fs0 H Hr Hn Hv0) as [_ [Hs [_ [Hg _]]]].
        rewrite Hg, Hs. apply (so_own _ _ _ _ H n Hn).
      + intros n' Hn'. apply in_map_iff in Hn' as [n [<- Hn]].
        destruct (round_node_facts G nodes hb rmax n fs0 H Hr Hn Hv0) as [_ [_ [_ [_ Hnow]]]].
        rewrite Hnow. apply (so_clock _ _ _ _ H n Hn).
      + unfold round_all. rewrite map_length. apply (so_thr _ _ _ _ H).
    - intros n Hn. apply (round_node_facts G nodes hb rmax n fs0 H Hr Hn Hv0).
  Qed.

  (* k synchronous exchanges *)
  Fixpoint rounds (k : nat) (nodes : list node) : list node :=
    match k with O => nodes | S k' => rounds k' (round_all nodes) end.

  (* the node at position i keeps its identity: chain growth is stated position-wise *)
  Lemma rounds_length k : forall nodes, length (rounds k nodes) = length nodes.
  Proof. induction k as [|k IH]; intros nodes; simpl; [reflexivity|]. rewrite IH. unfold round_all. apply map_length. Qed.

  (* C05: from an aligned state, k exchanges make every node append the same k verified beacons,
     rounds hb+1 .. hb+k in order (newest first in [added]), none skipped *)
  Theorem k_rounds k : forall G nodes hb rmax,
    sys_ok G nodes hb rmax -> b_round hb + Z.of_nat k <= rmax ->
    exists added hbk,
      length added = k /\ Forall verified_b added /\
      b_round hbk = b_round hb + Z.of_nat k /\
      sys_ok G (rounds k nodes) hbk rmax /\
      (forall i d, (i < length nodes)%nat ->
         s_chain (fst (nth i (rounds k nodes) d)) = added ++ s_chain (fst (nth i nodes d))) /\
      (forall j b, nth_error (rev added) j = Some b -> b_round b = b_round hb + Z.of_nat j + 1).
  Proof.
    induction k as [|k IH]; intros G nodes hb rmax H Hr.
    - exists [], hb. split; [reflexivity|]. split; [constructor|]. split; [simpl; lia|].
      split; [exact H|]. split; [intros; reflexivity|]. intros j b Hj. destruct j; discriminate.
    - destruct (one_round G nodes hb rmax H ltac:(lia)) as [hb1 [R1 [V1 [_ [H1 C1]]]]].
      destruct (IH G (round_all nodes) hb1 rmax H1 ltac:(lia)) as [added [hbk [L [Fv [Rk [Hk [Ck Rj]]]]]]].
      exists (added ++ [hb1]), hbk. simpl rounds.
      split; [rewrite app_length; simpl; lia|].
      split; [apply Forall_app; split; [exact Fv|constructor; [exact V1|constructor]]|].
      split; [lia|]. split; [exact Hk|]. split.
      + intros i d Hi. rewrite (Ck i d) by (unfold round_all; rewrite map_length; exact Hi).
        rewrite <- app_assoc. simpl. f_equal.
        unfold round_all. rewrite (nth_indep _ d (round_node nodes d)) by (rewrite map_length; exact Hi).
        rewrite map_nth. apply C1. apply nth_In. exact Hi.
      + intros j b Hj. rewrite rev_app_distr in Hj. simpl in Hj.
        destruct j as [|j]; simpl in Hj.
        * inversion Hj; subst. lia.
        * rewrite (Rj j b Hj). lia.
  Qed.
End SystemLive.
