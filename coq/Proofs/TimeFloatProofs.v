(* Floor of the rounded binary64 quotient of two integers below 2^53 is the integer quotient
   (C16): real-number core, then the bridge to Flocq's executable binary64. *)
From Coq Require Import ZArith Reals Lia Lra Psatz.
From Flocq Require Import Core.
From Flocq.Prop Require Import Relative.
Open Scope R_scope.

Definition fexp := FLT_exp (-1074) 53.
Definition rnd := round radix2 fexp ZnearestE.

Lemma int_format (q : Z) : (0 <= q < 2^53)%Z -> generic_format radix2 fexp (IZR q).
Proof.
  intros Hq. apply generic_format_FLT.
  exists (Float radix2 q 0); simpl.
  - unfold F2R; simpl. ring.
  - simpl. rewrite Z.abs_eq by lia. lia.
  - lia.
Qed.

Lemma floor_rnd_div (a b : Z) : (0 <= a < 2^53)%Z -> (0 < b < 2^53)%Z ->
  Zfloor (rnd (IZR a / IZR b)) = (a / b)%Z.
Proof.
  intros Ha Hb.
  set (q := (a / b)%Z).
  assert (Hq0 : (0 <= q)%Z) by (apply Z.div_pos; lia).
  assert (Hqa : (q <= a)%Z) by (apply Z.div_le_upper_bound; nia).
  assert (Hdm : (a = b * q + a mod b)%Z) by (apply Z.div_mod; lia).
  assert (Hm : (0 <= a mod b < b)%Z) by (apply Z.mod_pos_bound; lia).
  assert (HbR : 0 < IZR b) by (apply IZR_lt; lia).
  set (x := IZR a / IZR b).
  assert (Hxb : x * IZR b = IZR a) by (unfold x; field; lra).
  assert (Hqb : IZR q * IZR b <= IZR a) by (rewrite <- mult_IZR; apply IZR_le; nia).
  assert (Hqb2 : IZR a <= (IZR q + 1) * IZR b - 1).
  { replace ((IZR q + 1) * IZR b - 1) with (IZR ((q + 1) * b - 1)).
    apply IZR_le; nia. rewrite minus_IZR, mult_IZR, plus_IZR. simpl. ring. }
  assert (Hxlo : IZR q <= x) by nra.
  assert (Hib : / IZR b * IZR b = 1) by (field; lra).
  assert (Hibpos : 0 < / IZR b) by (apply Rinv_0_lt_compat; lra).
  assert (Hxhi : x <= IZR q + 1 - / IZR b) by nra.
  apply Zfloor_imp. split.
  - (* q <= rnd x *)
    replace (IZR q) with (rnd (IZR q)).
    + apply round_le; [apply FLT_exp_valid; reflexivity | apply valid_rnd_N | exact Hxlo].
    + apply round_generic; [typeclasses eauto|]. apply int_format. lia.
  - (* rnd x < q+1 *)
    rewrite plus_IZR. simpl (IZR 1).
    destruct (Z.eq_dec a 0) as [Ha0|Ha0].
    { subst a. unfold x. replace (0 / IZR b) with 0 by (unfold Rdiv; ring).
      unfold rnd. rewrite round_0; [|typeclasses eauto].
      assert (0 <= IZR q) by (apply IZR_le; lia). lra. }
    assert (Hxpos : 0 < x).
    { unfold x. apply Rdiv_lt_0_compat; [apply IZR_lt; lia | lra]. }
    assert (Hxge : / IZR b <= x).
    { unfold x. unfold Rdiv. rewrite <- (Rmult_1_l (/ IZR b)) at 1.
      apply Rmult_le_compat_r. left; apply Rinv_0_lt_compat; lra. apply IZR_le. lia. }
    assert (Herr := relative_error_N_FLT radix2 (-1074) 53 eq_refl (fun z => negb (Z.even z)) x).
    assert (Hbp : / 2 * bpow radix2 (- (53) + 1) = / IZR (2 ^ 53)).
    { simpl. change (Z.pow_pos 2 53) with (2 * Z.pow_pos 2 52)%Z. rewrite mult_IZR.
      assert (0 < IZR (Z.pow_pos 2 52)) by (apply IZR_lt; reflexivity). field. lra. }
    assert (Hmin : bpow radix2 (-1074 + 53 - 1) <= Rabs x).
    { rewrite Rabs_pos_eq by lra.
      apply Rle_trans with (/ IZR b); [|exact Hxge].
      apply Rle_trans with (bpow radix2 (-53)); [apply bpow_le; lia|].
      change (bpow radix2 (-53)) with (/ IZR (Z.pow_pos 2 53)).
      apply Rinv_le_contravar; [lra|]. apply IZR_le. change (Z.pow_pos 2 53) with (2^53)%Z. lia. }
    specialize (Herr Hmin). rewrite Hbp in Herr. rewrite (Rabs_pos_eq x) in Herr by lra.
    apply Rabs_le_inv in Herr.
    assert (Ha53 : IZR a < IZR (2^53)) by (apply IZR_lt; lia).
    assert (H53 : 0 < IZR (2^53)) by (apply IZR_lt; lia).
    assert (Hi53 : / IZR (2^53) * IZR (2^53) = 1) by (field; lra).
    assert (Hi53p : 0 < / IZR (2^53)) by (apply Rinv_0_lt_compat; lra).
    (* x * /2^53 < /b  because x*b = a < 2^53 *)
    assert (Hk : / IZR (2^53) * x < / IZR b).
    { apply Rmult_lt_reg_r with (IZR b * IZR (2^53)). nra.
      replace (/ IZR (2 ^ 53) * x * (IZR b * IZR (2 ^ 53))) with ((x * IZR b) * (/ IZR (2^53) * IZR (2^53))) by ring.
      replace (/ IZR b * (IZR b * IZR (2 ^ 53))) with ((/ IZR b * IZR b) * IZR (2^53)) by ring.
      rewrite Hi53, Hib, Hxb. lra. }
    unfold rnd, fexp. lra.
Qed.


(* ---- bridge to the executable binary64 model (Model/TimeFloat.v) ---- *)
From Flocq Require Import IEEE754.BinarySingleNaN.
From DV Require Import Model.Time Model.TimeFloat.
Open Scope Z_scope.

Lemma fexp_is_FLT : forall e, SpecFloat.fexp prec emax e = fexp e.
Proof. intros e. reflexivity. Qed.

Lemma round_ext_fexp x : round radix2 (SpecFloat.fexp prec emax) ZnearestE x = rnd x.
Proof. unfold rnd. apply round_ext_fexp_eq || reflexivity. Qed.

Lemma bpow53 : bpow radix2 53 = IZR (2 ^ 53).
Proof. simpl. reflexivity. Qed.

Lemma lt_bpow_emax (r : R) : (Rabs r <= IZR (2 ^ 53))%R -> (Rabs r < bpow radix2 emax)%R.
Proof.
  intros H. apply Rle_lt_trans with (bpow radix2 53); [rewrite bpow53; exact H|].
  apply bpow_lt. unfold emax. lia.
Qed.

Lemma B2R_of_Z a : 0 <= a < 2 ^ 53 -> B2R (of_Z a) = IZR a /\ is_finite (of_Z a) = true.
Proof.
  intros Ha. unfold of_Z.
  pose proof (binary_normalize_correct prec emax Hprec Hmax mode_NE a 0 false) as H. cbv zeta in H.
  assert (Hx : F2R (Float radix2 a 0) = IZR a) by (unfold F2R; simpl; ring).
  rewrite Hx in H. cbn [round_mode] in H.
  assert (Hr : round radix2 (SpecFloat.fexp prec emax) ZnearestE (IZR a) = IZR a).
  { apply round_generic; [typeclasses eauto|]. apply int_format. exact Ha. }
  rewrite Hr in H. rewrite Rlt_bool_true in H.
  - destruct H as [H1 [H2 _]]. split; assumption.
  - apply lt_bpow_emax. rewrite Rabs_pos_eq by (apply IZR_le; lia). apply IZR_le. lia.
Qed.

Lemma round_FIX0_trunc x : round radix2 (FIX_exp 0) Ztrunc x = IZR (Ztrunc x).
Proof.
  unfold round, F2R, scaled_mantissa, cexp, FIX_exp. simpl. rewrite !Rmult_1_r. reflexivity.
Qed.

Theorem fdiv_floor_exact a b : 0 <= a < 2 ^ 53 -> 0 < b < 2 ^ 53 -> fdiv_floor a b = a / b.
Proof.
  intros Ha Hb. unfold fdiv_floor.
  destruct (B2R_of_Z a Ha) as [Ra Fa]. destruct (B2R_of_Z b ltac:(lia)) as [Rb Fb].
  assert (HbR : (0 < IZR b)%R) by (apply IZR_lt; lia).
  pose proof (@Bdiv_correct prec emax Hprec Hmax mode_NE (of_Z a) (of_Z b)) as H.
  rewrite Ra, Rb in H. specialize (H ltac:(lra)). cbn [round_mode] in H.
  change (round radix2 (SpecFloat.fexp prec emax) ZnearestE (IZR a / IZR b)) with (rnd (IZR a / IZR b)) in H.
  pose proof (floor_rnd_div a b Ha Hb) as Hfl.
  assert (Hq0 : (0 <= a / b)%Z) by (apply Z.div_pos; lia).
  assert (Hqa : (a / b <= a)%Z) by (apply Z.div_le_upper_bound; nia).
  (* bounds on the rounded quotient from its floor *)
  assert (Hlo : (IZR (a / b) <= rnd (IZR a / IZR b))%R) by (rewrite <- Hfl; apply Zfloor_lb).
  assert (Hhi : (rnd (IZR a / IZR b) < IZR (a / b) + 1)%R) by (rewrite <- Hfl; apply Zfloor_ub).
  rewrite Rlt_bool_true in H.
  - destruct H as [Hq _].
    apply eq_IZR. rewrite (@Btrunc_correct prec emax Hmax), round_FIX0_trunc, Hq.
    rewrite Ztrunc_floor; [rewrite Hfl; reflexivity|].
    apply Rle_trans with (IZR (a / b)); [apply IZR_le; lia|exact Hlo].
  - apply lt_bpow_emax. rewrite Rabs_pos_eq.
    + apply Rle_trans with (IZR (a / b) + 1)%R; [lra|]. rewrite <- plus_IZR. apply IZR_le. lia.
    + apply Rle_trans with (IZR (a / b)); [apply IZR_le; lia|exact Hlo].
Qed.

(* NextRound / CurrentRound computed with the float division agree with the integer model as long
   as the elapsed time and the period are below 2^53 (the property asks 2^50 and 2^32) *)
Theorem next_round_f_eq now p g : 0 < p < 2 ^ 53 -> now - g < 2 ^ 53 ->
  next_round_f now p g = next_round now p g.
Proof.
  intros Hp Hn. unfold next_round_f, next_round.
  destruct (Z.ltb_spec now g); [reflexivity|].
  rewrite fdiv_floor_exact by lia. reflexivity.
Qed.

Theorem current_round_f_eq now p g : 0 < p < 2 ^ 53 -> now - g < 2 ^ 53 ->
  current_round_f now p g = current_round now p g.
Proof. intros Hp Hn. unfold current_round_f, current_round. rewrite next_round_f_eq by assumption. reflexivity. Qed.

