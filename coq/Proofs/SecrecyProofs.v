(* Lemmas for C15: file-mode bit lemmas (for all umasks, by bit reasoning) and soundness /
   tightness of the exposure checker. *)
From Coq Require Import ZArith List Bool String Lia.
From DV Require Import Model.Secrecy.
Import ListNotations.
Open Scope Z_scope.

(* ---------------- file modes ---------------- *)

(* the bit-level core: masking with any umask never adds group/other bits *)
Lemma create_mode_owner_only : forall perm umask,
  owner_only perm -> owner_only (create_mode perm umask).
Proof.
  unfold owner_only, create_mode; intros perm umask H.
  rewrite <- Z.land_assoc, (Z.land_comm (Z.lnot umask) go_bits), Z.land_assoc, H.
  apply Z.land_0_l.
Qed.

(* and it never removes a bit that the umask does not name: with umask 0 the mode is perm *)
Lemma create_mode_umask0 : forall perm, create_mode perm 0 = perm.
Proof. intros; unfold create_mode. change (Z.lnot 0) with (-1). apply Z.land_m1_r. Qed.

(* bit i of the created mode is bit i of perm unless the umask names it *)
Lemma create_mode_testbit : forall perm umask i, 0 <= i ->
  Z.testbit (create_mode perm umask) i = Z.testbit perm i && negb (Z.testbit umask i).
Proof.
  intros; unfold create_mode. rewrite Z.land_spec, Z.lnot_spec by assumption. reflexivity.
Qed.

Lemma secure_trace_owner_only : forall rw umask st,
  owner_only rw -> Forall owner_only (modes_at_writes umask st (secure_file_trace rw)).
Proof.
  intros rw umask st H. destruct st; simpl; repeat constructor; exact H.
Qed.

Lemma secure_trace_final : forall rw umask st,
  final_mode umask st (secure_file_trace rw) = Some rw.
Proof. intros; destruct st; reflexivity. Qed.

Lemma bolt_trace_fresh_owner_only : forall perm umask,
  owner_only perm -> Forall owner_only (modes_at_writes umask None (bolt_trace perm)).
Proof.
  intros perm umask H; simpl. repeat constructor. apply create_mode_owner_only, H.
Qed.

Lemma bolt_trace_fresh_mode : forall perm umask,
  modes_at_writes umask None (bolt_trace perm) = [create_mode perm umask].
Proof. reflexivity. Qed.

(* tightness: an open perm with a group/other bit does give a group/other-accessible file *)
Lemma bolt_trace_perm_needed : forall perm,
  ~ owner_only perm -> ~ Forall owner_only (modes_at_writes 0 None (bolt_trace perm)).
Proof.
  intros perm H F. simpl in F. inversion F as [|x l Hx _]; subst.
  rewrite create_mode_umask0 in Hx. exact (H Hx).
Qed.

(* an existing file keeps its mode through bolt.Open / os.Create: only chmod repairs it *)
Lemma bolt_trace_existing_keeps_mode : forall perm umask m,
  modes_at_writes umask (Some m) (bolt_trace perm) = [m].
Proof. reflexivity. Qed.

(* every secret-holding file, for every umask, given the two side conditions on the constants *)
Lemma secret_files_owner_only : forall rw dkgp chainp secure,
  owner_only rw -> owner_only dkgp ->
  secure FKeyPrivate = true -> secure FShare = true ->
  forall f umask, file_secret f = true ->
  Forall owner_only (modes_at_writes umask None (file_trace rw dkgp chainp secure f)).
Proof.
  intros rw dkgp chainp secure Hrw Hd Hk Hsh f umask Hs. destruct f; simpl in Hs; try discriminate.
  - unfold file_trace. rewrite Hk. apply secure_trace_owner_only, Hrw.
  - unfold file_trace. rewrite Hsh. apply secure_trace_owner_only, Hrw.
  - apply bolt_trace_fresh_owner_only, Hd.
Qed.

(* tightness: a secret TOML file saved without the secure flag is group/other readable under umask 0 *)
Lemma plain_trace_not_owner_only :
  ~ Forall owner_only (modes_at_writes 0 None plain_file_trace).
Proof.
  intro F. simpl in F. inversion F as [|x l Hx _]; subst. vm_compute in Hx. discriminate.
Qed.

(* ---------------- exposure ---------------- *)

Lemma eval_src_pub_equal : forall S s1 s2 r x,
  (forall p, pub s1 p = pub s2 p) -> src_ok x = true -> is_crypto x = false ->
  eval_src S s1 r x = eval_src S s2 r x.
Proof.
  intros S s1 s2 r x Hp Hok Hc. destruct x; simpl in *; try discriminate; auto.
Qed.

Lemma eval_field_pub_equal : forall S s1 s2 r c f,
  (forall p, pub s1 p = pub s2 p) -> field_ok f = true -> is_crypto_field f = false ->
  eval_field S s1 r c f = eval_field S s2 r c f.
Proof.
  intros S s1 s2 r c [n xs] Hp Hok Hc. unfold eval_field, field_ok, is_crypto_field in *; simpl in *.
  f_equal. induction xs as [|x xs IH]; simpl in *; [reflexivity|].
  apply andb_true_iff in Hok as [Hx Hxs]. apply orb_false_iff in Hc as [Cx Cxs].
  f_equal; [apply eval_src_pub_equal; assumption | apply IH; assumption].
Qed.

Lemma output_pub_equal : forall S s1 s2 r c,
  (forall p, pub s1 p = pub s2 p) -> ctor_ok c = true ->
  output S s1 r c = output S s2 r c.
Proof.
  intros S s1 s2 r [cn fs] Hp Hok. unfold output, ctor_ok in *; simpl in *.
  induction fs as [|f fs IH]; simpl in *; [reflexivity|].
  apply andb_true_iff in Hok as [Hf Hfs]. f_equal; [|apply IH; assumption].
  destruct (is_crypto_field f) eqn:E; [reflexivity|].
  do 2 f_equal. apply eval_field_pub_equal; assumption.
Qed.

(* soundness of the checker: the per-run obligation implies noninterference for every ctor *)
Theorem exposure_sound : forall e, exposure_ok e = true ->
  forall S s1 s2 r, (forall p, pub s1 p = pub s2 p) ->
  forall c, In c e -> output S s1 r c = output S s2 r c.
Proof.
  intros e H S s1 s2 r Hp c Hin. apply output_pub_equal; [assumption|].
  unfold exposure_ok in H. rewrite forallb_forall in H. apply H, Hin.
Qed.

(* tightness: a field the checker rejects, if not a crypto field, does leak in the model:
   there are two states with the same public part whose outputs differ *)
Definition leak_sem : sem :=
  {| crypto_val := fun _ _ _ _ => []; const_val := [];
     combine := fun _ _ vs => List.concat vs |}.
Definition st_with_sec (v : value) : state := {| pub := fun _ => []; sec := fun _ => v |}.

Lemma concat_eval_sec : forall xs v r, forallb (fun x => negb (is_crypto x)) xs = true ->
  List.concat (map (eval_src leak_sem (st_with_sec v) r) xs) =
  List.concat (map (fun x => if src_ok x then (match x with SReq p => r p | _ => [] end) else v) xs).
Proof.
  induction xs as [|x xs IH]; intros v r H; simpl in *; [reflexivity|].
  apply andb_true_iff in H as [Hx Hxs]. rewrite IH by assumption. f_equal.
  destruct x; simpl in *; try reflexivity; discriminate.
Qed.

Lemma len_concat_bad : forall xs (v : value),
  forallb src_ok xs = false ->
  (List.length (List.concat (map (fun x => if src_ok x then @nil Z else v) xs)) >= List.length v)%nat.
Proof.
  induction xs as [|x xs IH]; intros v H; simpl in *; [discriminate|].
  rewrite app_length. destruct (src_ok x); simpl in *.
  - apply IH, H.
  - lia.
Qed.

Theorem rejected_field_leaks : forall c f,
  field_ok f = false -> is_crypto_field f = false ->
  exists S s1 s2 r, (forall p, pub s1 p = pub s2 p) /\
    eval_field S s1 r c f <> eval_field S s2 r c f.
Proof.
  intros c [n xs] Hbad Hc. exists leak_sem, (st_with_sec []), (st_with_sec [1]), (fun _ => []).
  split; [reflexivity|]. unfold eval_field, field_ok, is_crypto_field in *; simpl in *.
  assert (Hn : forallb (fun x => negb (is_crypto x)) xs = true).
  { clear Hbad. induction xs as [|x xs IH]; simpl in *; [reflexivity|].
    apply orb_false_iff in Hc as [A B]. rewrite A; simpl. apply IH, B. }
  rewrite !concat_eval_sec by assumption.
  assert (E1 : List.concat (map (fun x => if src_ok x then match x with SReq p => (fun _ : list string => @nil Z) p | _ => [] end else []) xs) = []).
  { clear. induction xs as [|x xs IH]; simpl; [reflexivity|]. rewrite IH.
    destruct x; reflexivity. }
  rewrite E1. intro E. symmetry in E.
  assert (L := len_concat_bad xs [1] Hbad).
  assert (E2 : List.concat (map (fun x => if src_ok x then match x with SReq p => (fun _ : list string => @nil Z) p | _ => [] end else [1]) xs)
             = List.concat (map (fun x => if src_ok x then [] else [1]) xs)).
  { clear. induction xs as [|x xs IH]; simpl; [reflexivity|]. rewrite IH. destruct x; reflexivity. }
  rewrite E2 in E. rewrite E in L. simpl in L. lia.
Qed.
