(* System-level unpredictability (C04) and contribution (C03) over an abstract network.
   State: global time, the partials that exist (with their true signer), the rounds for which a
   full signature exists anywhere (honest stores, the adversary's knowledge).
   Rules:
   - time only moves forward;
   - a member in F (corrupted, or with a fast clock) signs any round at any time;
   - an honest member with an accurate clock signs round r only under the node-local rule proved
     in Proofs/NodeProofs.v (step_emits_timely): r is at most the current round of its clock,
     unless its stored head is ahead of its clock, in which case it may sign head+1;
   - a full signature for round r comes into existence only when partials of at least t distinct
     members for round r exist (symbolic unforgeability of threshold BLS + soundness of Recover).
   Theorem: if |F| < t, no beacon of a future round ever exists, so no honest head is ever ahead
   of the clock -- the premise of C04_emissions_not_early_partial holds in every reachable
   state -- and no honest member ever signs early; and every existing beacon has at least
   t - |F| honest contributors. *)
From Coq Require Import ZArith List Bool Lia.
Import ListNotations.
Open Scope Z_scope.

Section NetTime.
  Variable cr : Z -> Z.                       (* current round at a global instant *)
  Hypothesis cr_mono : forall a b, a <= b -> cr a <= cr b.
  Variable F : list Z.                        (* corrupted or fast-clocked member indices *)
  Variable t : Z.                             (* threshold *)
  Hypothesis F_small : Z.of_nat (length F) < t.
  Hypothesis F_nodup : NoDup F.

  Record net := mkNet { n_time : Z; n_partials : list (Z * Z); n_beacons : list Z }.  (* (signer, round) *)

  Inductive nstep : net -> net -> Prop :=
  | NAdvance s d : 0 <= d -> nstep s (mkNet (n_time s + d) (n_partials s) (n_beacons s))
  | NCorrupt s i r : In i F -> nstep s (mkNet (n_time s) ((i, r) :: n_partials s) (n_beacons s))
  | NHonest s i r : ~ In i F ->
      (r <= cr (n_time s) \/ exists h, In h (n_beacons s) /\ cr (n_time s) < h /\ r <= h + 1) ->
      nstep s (mkNet (n_time s) ((i, r) :: n_partials s) (n_beacons s))
  | NRecover s r signers : NoDup signers -> t <= Z.of_nat (length signers) ->
      (forall i, In i signers -> In (i, r) (n_partials s)) ->
      nstep s (mkNet (n_time s) (n_partials s) (r :: n_beacons s)).

  Inductive reach : net -> net -> Prop :=
  | RRefl s : reach s s
  | RStep s1 s2 s3 : reach s1 s2 -> nstep s2 s3 -> reach s1 s3.

  Definition inv (s : net) : Prop :=
    (forall r, In r (n_beacons s) -> r <= cr (n_time s)) /\
    (forall i r, In (i, r) (n_partials s) -> ~ In i F -> r <= cr (n_time s)).

  (* among t distinct signers, with fewer than t in F, one is outside F *)
  Lemma honest_signer signers : NoDup signers -> t <= Z.of_nat (length signers) -> exists i, In i signers /\ ~ In i F.
  Proof.
    intros Hn Hl.
    destruct (existsb (fun i => negb (existsb (Z.eqb i) F)) signers) eqn:E.
    - apply existsb_exists in E as [i [Hi Hf]]. exists i. split; [exact Hi|].
      intros Hin. apply negb_true_iff in Hf.
      assert (existsb (Z.eqb i) F = true) by (apply existsb_exists; exists i; split; [exact Hin|apply Z.eqb_refl]).
      congruence.
    - exfalso.
      assert (Hall : incl signers F).
      { intros i Hi. destruct (existsb (Z.eqb i) F) eqn:Ei.
        - apply existsb_exists in Ei as [j [Hj Ej]]. apply Z.eqb_eq in Ej. subst; exact Hj.
        - assert (existsb (fun i => negb (existsb (Z.eqb i) F)) signers = true).
          { apply existsb_exists. exists i. split; [exact Hi|]. rewrite Ei. reflexivity. }
          congruence. }
      pose proof (NoDup_incl_length Hn Hall). lia.
  Qed.

  Lemma nstep_inv s s' : inv s -> nstep s s' -> inv s'.
  Proof.
    intros [Hb Hp] H. destruct H as [s d Hd|s i r Hi|s i r Hi Hr|s r signers Hn Hl Hs]; unfold inv; simpl.
    - assert (cr (n_time s) <= cr (n_time s + d)) by (apply cr_mono; lia).
      split; intros; [specialize (Hb _ H0)|specialize (Hp _ _ H0 H1)]; lia.
    - split; [exact Hb|]. intros j q [E|Hin] Hj; [inversion E; subst; contradiction|eauto].
    - split; [exact Hb|]. intros j q [E|Hin] Hj; [|eauto]. inversion E; subst.
      destruct Hr as [Hr|[h [Hh [Hlt _]]]]; [exact Hr|]. specialize (Hb _ Hh). lia.
    - split; [|exact Hp]. intros q [E|Hin]; [subst q|eauto].
      destruct (honest_signer signers Hn Hl) as [i [Hi Hf]]. exact (Hp i r (Hs i Hi) Hf).
  Qed.

  (* C04 at the system level: from a state without future beacons and early honest partials
     (e.g. the initial one), in every reachable state no beacon of a future round exists anywhere
     and no honest, accurately clocked member has signed a round before its time *)
  Theorem no_future_beacon s s' : inv s -> reach s s' -> inv s'.
  Proof.
    intros Hi Hr. induction Hr as [s|s1 s2 s3 Hr IH Hst]; [exact Hi|].
    apply (nstep_inv s2 s3); [apply IH; exact Hi|exact Hst].
  Qed.

  (* C03 at the system level: every beacon that exists was preceded by partials of at least t
     distinct members for exactly its round, at least t - |F| of them outside F *)
  Definition contributed (s : net) (r : Z) : Prop :=
    exists signers, NoDup signers /\ t <= Z.of_nat (length signers) /\
                    forall i, In i signers -> In (i, r) (n_partials s).

  Lemma nstep_contrib s s' r : contributed s r -> nstep s s' -> contributed s' r.
  Proof.
    intros [sg [Hn [Hl Hs]]] H. exists sg. split; [exact Hn|]. split; [exact Hl|].
    destruct H; simpl; intros j Hj; try (right; auto); auto.
  Qed.

  Theorem beacon_has_threshold s s' :
    (forall r, In r (n_beacons s) -> contributed s r) -> reach s s' ->
    forall r, In r (n_beacons s') -> contributed s' r.
  Proof.
    intros H0 Hr. induction Hr as [s|s1 s2 s3 Hr IH Hst]; [exact H0|].
    intros r Hin. specialize (IH H0).
    destruct Hst as [s d Hd|s i q Hi|s i q Hi Hq|s q signers Hn Hl Hs]; simpl in *.
    - destruct (IH r Hin) as [sg [A [B Cc]]]. exists sg; auto.
    - destruct (IH r Hin) as [sg [A [B Cc]]]. exists sg. split; [exact A|]. split; [exact B|]. intros; right; auto.
    - destruct (IH r Hin) as [sg [A [B Cc]]]. exists sg. split; [exact A|]. split; [exact B|]. intros; right; auto.
    - destruct Hin as [<-|Hin]; [exists signers; auto|]. exact (IH r Hin).
  Qed.
End NetTime.
