(* Liveness in the composed system Model/Net.v, and the projection lemma that connects system
   runs with node-local runs:
   - [grun_proj]: the state of node j after ANY system run is the node-local run of the events of
     that run that concern node j (its own events, the partials delivered to it, the passing of
     real time) -- the system adds nothing to a node's behaviour but the routing of messages;
   - [round_schedule_completes]: from an aligned state (every honest node running with the same
     head hb, a threshold of them) the fair schedule "everybody handles the tick, then everybody's
     partial is delivered to everybody else" is a run of the system model after which every node
     has appended the SAME verified beacon of round hb+1 (reduction to Proofs/SystemLive.v). *)
From Coq Require Import ZArith List Bool Lia Arith.
From DV Require Import Model.Time Model.Node Model.Net Proofs.NodeProofs Proofs.NodeLive Proofs.SystemLive.
Import ListNotations.
Open Scope Z_scope.

Lemma nth_upd_same {A} (l : list A) j x : (j < length l)%nat -> nth_error (upd l j x) j = Some x.
Proof.
  revert j; induction l as [|a l IH]; intros j H; simpl in H; [lia|].
  destruct j; simpl; [reflexivity|]. apply IH. lia.
Qed.

Lemma nth_upd_other {A} (l : list A) i j x : i <> j -> nth_error (upd l i x) j = nth_error l j.
Proof.
  revert i j; induction l as [|a l IH]; intros i j H; destruct i, j; simpl; try reflexivity; try congruence.
  apply IH. congruence.
Qed.

Lemma upd_length {A} (l : list A) j x : length (upd l j x) = length l.
Proof. revert j; induction l as [|a l IH]; intros j; destruct j; simpl; auto. Qed.

Section NetLive.
  Variable C : cfg.
  Variable idx_of : Z -> Z.
  Variable vpart : Z -> Z -> Z -> Z -> bool.
  Variable recov : Z -> Z -> Z -> list Z -> Z -> option Z.
  Variable vrec : Z -> Z -> Z -> bool.
  Variable own_of : Z -> Z -> Z -> Z -> Z.

  Notation nreact := (nreact C idx_of vpart recov vrec own_of).
  Notation gstep := (gstep C idx_of vpart recov vrec own_of).
  Notation grun := (grun C idx_of vpart recov vrec own_of).
  Notation node_step := (node_step C idx_of vpart recov vrec own_of).

  (* the events of a system event that concern node j *)
  Definition proj (j : nat) (g : gevent) : list event :=
    match g with
    | GClock d => [EClock d]
    | GNode i e => if Nat.eqb i j then [e] else []
    | GDeliver i (r, p, sg) => if Nat.eqb i j then [EPart r p sg] else []
    | _ => []
    end.

  (* a node-local run *)
  Definition lrun (s : nstate) (es : list event) : nstate := fold_left (fun s e => fst (nreact s e)) es s.

  Lemma lrun_app s a b : lrun s (a ++ b) = lrun (lrun s a) b.
  Proof. unfold lrun. apply fold_left_app. Qed.

  Lemma node_step_nth y i e j s : nth_error (y_nodes y) j = Some s ->
    nth_error (y_nodes (node_step y i e)) j = Some (if Nat.eqb i j then fst (nreact s e) else s).
  Proof.
    intros Hj. unfold Net.node_step.
    destruct (Nat.eqb_spec i j) as [->|Hne].
    - rewrite Hj. destruct (nreact s e) as [s' o] eqn:E. cbn [y_nodes fst].
      apply nth_upd_same. apply nth_error_Some. congruence.
    - destruct (nth_error (y_nodes y) i) as [si|]; [|exact Hj].
      destruct (nreact si e) as [s' o]. cbn [y_nodes]. rewrite nth_upd_other; assumption.
  Qed.

  Lemma gstep_proj y g j s : nth_error (y_nodes y) j = Some s ->
    nth_error (y_nodes (gstep y g)) j = Some (lrun s (proj j g)).
  Proof.
    intros Hj. destruct g as [d|i e|i [[r p] sg]|w|b]; cbn [Net.gstep proj].
    - cbn [y_nodes]. rewrite nth_error_map, Hj. reflexivity.
    - rewrite (node_step_nth y i e j s Hj). destruct (Nat.eqb i j); reflexivity.
    - rewrite (node_step_nth y i (EPart r p sg) j s Hj). destruct (Nat.eqb i j); reflexivity.
    - exact Hj.
    - exact Hj.
  Qed.

  (* the system adds nothing to a node's behaviour but the routing of messages *)
  Theorem grun_proj gs : forall y j s, nth_error (y_nodes y) j = Some s ->
    nth_error (y_nodes (grun y gs)) j = Some (lrun s (flat_map (proj j) gs)).
  Proof.
    induction gs as [|g gs IH]; intros y j s Hj; [exact Hj|].
    unfold Net.grun. cbn [fold_left flat_map]. rewrite lrun_app.
    apply (IH (gstep y g) j). apply gstep_proj. exact Hj.
  Qed.

  Lemma grun_length gs : forall y, length (y_nodes (grun y gs)) = length (y_nodes y).
  Proof.
    induction gs as [|g gs IH]; intros y; [reflexivity|]. unfold Net.grun. cbn [fold_left].
    fold (grun (gstep y g) gs). rewrite IH.
    destruct g as [d|i e|i [[r p] sg]|w|b]; cbn [Net.gstep y_nodes]; try reflexivity.
    - apply map_length.
    - unfold Net.node_step. destruct (nth_error (y_nodes y) i); [|reflexivity].
      destruct (nreact n e). cbn [y_nodes]. apply upd_length.
    - unfold Net.node_step. destruct (nth_error (y_nodes y) i); [|reflexivity].
      destruct (nreact n (EPart r p sg)). cbn [y_nodes]. apply upd_length.
  Qed.

  (* ---------- the fair schedule of one round ---------- *)
  Hypothesis recov_complete : forall P r p sigs t,
    NoDup (map idx_of sigs) -> t <= Z.of_nat (length sigs) ->
    (forall x, In x sigs -> vpart P r p x = true) ->
    exists s, recov P r p sigs t = Some s /\ vrec r p s = true.
  Hypothesis limit_nonneg : 0 <= c_limit C.
  Hypothesis vrec_unchained : c_chained C = false -> forall r p p' s, vrec r p s = vrec r p' s.
  Hypothesis vrec_unique : forall r p s1 s2, vrec r p s1 = true -> vrec r p s2 = true -> s1 = s2.

  Definition node_of (s : nstate) : node := (s, own_of (g_me (s_grp s))).

  (* what node s receives in the round: the partials of all the others *)
  Definition inbox (nodes : list nstate) (s : nstate) : list Z :=
    filter (fun p => negb (idx_of p =? idx_of (nd_partial (node_of s)))) (map nd_partial (map node_of nodes)).

  Definition round_events (nodes : list nstate) (hb : beacon) (s : nstate) : list event :=
    ETick (b_round hb + 1) None :: map (fun sg => EPart (b_round hb + 1) (b_sig hb) sg) (inbox nodes s).

  (* every node's events, node after node: ticks and deliveries of different nodes commute, so this
     order stands for every interleaving that delivers after the ticks *)
  Fixpoint sched_from (j : nat) (nodes all : list nstate) (hb : beacon) : list gevent :=
    match nodes with
    | [] => []
    | s :: rest =>
        (GNode j (ETick (b_round hb + 1) None)
         :: map (fun sg => GDeliver j (b_round hb + 1, b_sig hb, sg)) (inbox all s))
        ++ sched_from (S j) rest all hb
    end.
  Definition round_schedule (nodes : list nstate) (hb : beacon) : list gevent := sched_from 0 nodes nodes hb.

  Lemma proj_block_same j all hb s :
    flat_map (proj j) (GNode j (ETick (b_round hb + 1) None)
                        :: map (fun sg => GDeliver j (b_round hb + 1, b_sig hb, sg)) (inbox all s))
    = round_events all hb s.
  Proof.
    unfold round_events. cbn [flat_map proj]. rewrite Nat.eqb_refl. cbn [app]. f_equal.
    induction (inbox all s) as [|sg l IH]; [reflexivity|]. cbn [map flat_map proj]. rewrite Nat.eqb_refl.
    cbn [app]. f_equal. exact IH.
  Qed.

  Lemma proj_block_other i j all hb s : i <> j ->
    flat_map (proj j) (GNode i (ETick (b_round hb + 1) None)
                        :: map (fun sg => GDeliver i (b_round hb + 1, b_sig hb, sg)) (inbox all s)) = [].
  Proof.
    intros Hne. cbn [flat_map proj]. destruct (Nat.eqb_spec i j) as [|_]; [contradiction|]. cbn [app].
    induction (inbox all s) as [|sg l IH]; [reflexivity|]. cbn [map flat_map proj].
    destruct (Nat.eqb_spec i j) as [|_]; [contradiction|]. exact IH.
  Qed.

  Lemma sched_proj nodes : forall base all hb j s,
    nth_error nodes j = Some s ->
    flat_map (proj (base + j)) (sched_from base nodes all hb) = round_events all hb s.
  Proof.
    induction nodes as [|s0 rest IH]; intros base all hb j s Hj; [destruct j; discriminate|].
    cbn [sched_from]. rewrite flat_map_app. destruct j as [|j].
    - cbn [nth_error] in Hj. inversion Hj; subst s0. rewrite Nat.add_0_r. rewrite proj_block_same.
      assert (E : forall k nodes', flat_map (proj base) (sched_from (S (base + k)) nodes' all hb) = []).
      { intros k nodes'. revert k. induction nodes' as [|s1 r1 IH1]; intros k; [reflexivity|].
        cbn [sched_from]. rewrite flat_map_app. rewrite proj_block_other by lia.
        replace (S (S (base + k))) with (S (base + S k)) by lia. apply IH1. }
      specialize (E 0%nat rest). rewrite Nat.add_0_r in E. rewrite E. apply app_nil_r.
    - cbn [nth_error] in Hj. rewrite proj_block_other by lia. cbn [app].
      replace (base + S j)%nat with (S base + j)%nat by lia. apply IH. exact Hj.
  Qed.

  (* the local run of a node's round events is what Proofs/SystemLive.v calls [round_node]:
     while a round is collected the node's group does not change, so the node keeps signing and
     accepting with the same share oracle *)
  Definition plain (e : event) : Prop := (forall sy, e <> ERestart sy) /\ (forall t g, e <> ETransition t g).

  Lemma settle_none' g puts : settle g None puts = (g, None).
  Proof. induction puts as [|b puts IH]; simpl; auto. Qed.

  Lemma lrun_fixed_own es : forall s own0,
    own0 = own_of (g_me (s_grp s)) -> s_pending s = None -> (forall e, In e es -> plain e) ->
    lrun s es = fold_left (fun s e => fst (Node.step C idx_of vpart recov vrec own0 s e)) es s.
  Proof.
    induction es as [|e es IH]; intros s own0 Hown Hp Hpl; [reflexivity|].
    unfold lrun. cbn [fold_left]. fold (lrun (fst (nreact s e)) es).
    unfold Net.nreact at 1. rewrite <- Hown.
    destruct (Node.step C idx_of vpart recov vrec own0 s e) as [s1 o] eqn:E. cbn [fst].
    destruct (Hpl e (or_introl eq_refl)) as [Hr Ht].
    pose proof (step_tracks C idx_of vpart recov vrec own0 s e s1 o Ht Hr E) as T.
    unfold tracks, gp in T. rewrite Hp, settle_none' in T. injection T as G1 G2.
    apply IH; [rewrite G1; exact Hown|exact G2|intros e' He'; apply Hpl; right; exact He'].
  Qed.

  Lemma fold_deliver own0 hb ps : forall s,
    fold_left (fun s e => fst (Node.step C idx_of vpart recov vrec own0 s e))
              (map (fun sg => EPart (b_round hb + 1) (b_sig hb) sg) ps) s
    = deliver C idx_of vpart recov vrec own0 s hb ps.
  Proof. induction ps as [|sg ps IH]; intros s; [reflexivity|]. cbn [map fold_left deliver]. apply IH. Qed.

  Lemma lrun_round all hb s : s_pending s = None -> head s = hb ->
    lrun s (round_events all hb s) = fst (round_node C idx_of vpart recov vrec (map node_of all) (node_of s)).
  Proof.
    intros Hp Hh. rewrite (lrun_fixed_own _ s (own_of (g_me (s_grp s))) eq_refl Hp).
    - unfold round_events, round_node, node_of. cbn [fst snd fold_left]. rewrite Hh.
      rewrite fold_deliver. reflexivity.
    - intros e He. unfold round_events in He. destruct He as [<-|He]; [split; discriminate|].
      apply in_map_iff in He as [sg [<- _]]. split; discriminate.
  Qed.

  Lemma list_eq_nth {A} : forall (l1 l2 : list A), (forall j, nth_error l1 j = nth_error l2 j) -> l1 = l2.
  Proof.
    induction l1 as [|a l1 IH]; intros l2 H.
    - destruct l2 as [|b l2]; [reflexivity|]. specialize (H 0%nat). discriminate.
    - destruct l2 as [|b l2]; [specialize (H 0%nat); discriminate|].
      pose proof (H 0%nat) as H0. cbn in H0. inversion H0; subst. f_equal. apply IH. intros j. exact (H (S j)).
  Qed.

  (* the fair schedule is a run of the system model whose result is the synchronous exchange of
     Proofs/SystemLive.v *)
  Theorem round_schedule_is_exchange y G hb rmax :
    sys_ok C idx_of vpart G (map node_of (y_nodes y)) hb rmax ->
    y_nodes (grun y (round_schedule (y_nodes y) hb))
    = map fst (round_all C idx_of vpart recov vrec (map node_of (y_nodes y))).
  Proof.
    intros Hok. apply list_eq_nth. intros j.
    destruct (nth_error (y_nodes y) j) as [s|] eqn:Hj.
    - rewrite (grun_proj _ y j s Hj). unfold round_schedule.
      pose proof (sched_proj (y_nodes y) 0 (y_nodes y) hb j s Hj) as Esched. rewrite Nat.add_0_l in Esched. rewrite Esched.
      assert (Hin : In (node_of s) (map node_of (y_nodes y))) by (apply in_map; eapply nth_error_In; exact Hj).
      destruct (so_ready _ _ _ _ _ _ _ Hok _ Hin) as [[_ [_ Hpend]] Hhead]. cbn [fst node_of] in Hpend, Hhead.
      rewrite (lrun_round (y_nodes y) hb s Hpend Hhead).
      unfold round_all. rewrite map_map. rewrite nth_error_map, nth_error_map, Hj. reflexivity.
    - assert (Hlen : (length (y_nodes y) <= j)%nat) by (apply nth_error_None; exact Hj).
      transitivity (@None nstate).
      + apply nth_error_None. rewrite grun_length. exact Hlen.
      + symmetry. apply nth_error_None. unfold round_all. rewrite !map_length. exact Hlen.
  Qed.

  (* C05 in the composed system: from an aligned state the fair schedule makes every honest node
     append the same verified beacon of the next round, and leaves the system aligned again *)
  Theorem round_schedule_completes y G hb rmax :
    sys_ok C idx_of vpart G (map node_of (y_nodes y)) hb rmax -> b_round hb + 1 <= rmax ->
    let y' := grun y (round_schedule (y_nodes y) hb) in
    exists hb', b_round hb' = b_round hb + 1 /\ vrec (b_round hb') (b_prev hb') (b_sig hb') = true /\
      sys_ok C idx_of vpart G (map node_of (y_nodes y')) hb' rmax /\
      forall j s, nth_error (y_nodes y) j = Some s ->
        exists s', nth_error (y_nodes y') j = Some s' /\ s_chain s' = hb' :: s_chain s.
  Proof.
    intros Hok Hr y'.
    destruct (one_round C idx_of vpart recov vrec recov_complete limit_nonneg vrec_unchained vrec_unique
                G (map node_of (y_nodes y)) hb rmax Hok Hr) as [hb' [R1 [V1 [_ [Hok' Hch]]]]].
    pose proof (round_schedule_is_exchange y G hb rmax Hok) as Heq. fold y' in Heq.
    assert (Hnodes : map node_of (y_nodes y') = round_all C idx_of vpart recov vrec (map node_of (y_nodes y))).
    { rewrite Heq. unfold round_all. rewrite !map_map. apply map_ext_in. intros s Hs.
      assert (Hin : In (node_of s) (map node_of (y_nodes y))) by (apply in_map; exact Hs).
      destruct (node_round C idx_of vpart recov vrec recov_complete limit_nonneg vrec_unchained
                  G (map node_of (y_nodes y)) hb rmax (node_of s) Hok Hr Hin) as [[Bg _] _].
      cbn [fst node_of] in Bg. unfold node_of at 1. rewrite Bg.
      unfold round_node, node_of. cbn [fst snd]. reflexivity. }
    exists hb'. split; [exact R1|]. split; [exact V1|]. split; [rewrite Hnodes; exact Hok'|].
    intros j s Hj. rewrite Heq. unfold round_all. rewrite map_map, nth_error_map, nth_error_map, Hj. cbn [option_map].
    eexists. split; [reflexivity|]. apply Hch. apply in_map. eapply nth_error_In; exact Hj.
  Qed.

  (* k rounds, one fair schedule after the other *)
  Definition head_of (y : sys) : beacon :=
    match y_nodes y with s :: _ => head s | [] => mkB 0 empty_id empty_id end.
  Fixpoint run_rounds (k : nat) (y : sys) : sys :=
    match k with
    | O => y
    | S k' => run_rounds k' (grun y (round_schedule (y_nodes y) (head_of y)))
    end.

  Lemma head_of_ok y G hb rmax : sys_ok C idx_of vpart G (map node_of (y_nodes y)) hb rmax -> head_of y = hb.
  Proof.
    intros Hok. unfold head_of. destruct (y_nodes y) as [|s rest] eqn:E.
    - destruct (so_thr _ _ _ _ _ _ _ Hok). simpl in *. lia.
    - destruct (so_ready _ _ _ _ _ _ _ Hok (node_of s) (or_introl eq_refl)) as [_ Hh]. exact Hh.
  Qed.

  Theorem rounds_complete k : forall y G hb rmax,
    sys_ok C idx_of vpart G (map node_of (y_nodes y)) hb rmax -> b_round hb + Z.of_nat k <= rmax ->
    exists hbk, b_round hbk = b_round hb + Z.of_nat k /\
      sys_ok C idx_of vpart G (map node_of (y_nodes (run_rounds k y))) hbk rmax /\
      forall j s, nth_error (y_nodes y) j = Some s ->
        exists s' added, nth_error (y_nodes (run_rounds k y)) j = Some s' /\
          s_chain s' = added ++ s_chain s /\ length added = k /\
          Forall (fun b => vrec (b_round b) (b_prev b) (b_sig b) = true) added.
  Proof.
    induction k as [|k IH]; intros y G hb rmax Hok Hr.
    - exists hb. split; [simpl; lia|]. split; [exact Hok|]. intros j s Hj. exists s, []. auto.
    - cbn [run_rounds]. rewrite (head_of_ok y G hb rmax Hok).
      destruct (round_schedule_completes y G hb rmax Hok ltac:(lia)) as [hb1 [R1 [V1 [Hok1 Hch1]]]].
      destruct (IH _ G hb1 rmax Hok1 ltac:(lia)) as [hbk [Rk [Hokk Hchk]]].
      exists hbk. split; [lia|]. split; [exact Hokk|]. intros j s Hj.
      destruct (Hch1 j s Hj) as [s1 [Hj1 C1]]. destruct (Hchk j s1 Hj1) as [s' [added [Hj' [Ck [Lk Fk]]]]].
      exists s', (added ++ [hb1]). split; [exact Hj'|]. split; [rewrite Ck, C1, <- app_assoc; reflexivity|].
      split; [rewrite app_length; simpl; lia|]. apply Forall_app. split; [exact Fk|constructor; [exact V1|constructor]].
  Qed.
End NetLive.
