(* Lemmas and invariants about Model/DKGState.v (C08).  The facts about the transition table are
   proved by computation over the GENERATED Gen/DKGTable.v, so they are re-checked against what
   isValidStateChange / terminalStates / isProposalPhase say in the source on every run. *)
From Coq Require Import ZArith List Bool Lia.
From DV Require Import Gen.DKGTable Model.DKGState.
Import ListNotations.
Open Scope Z_scope.

(* ---------- the generated tables ---------- *)
Lemma status_eqb_eq : forall a b, status_eqb a b = true <-> a = b.
Proof. intros a b; split; [destruct a, b; vm_compute; congruence | intros ->; destruct b; reflexivity]. Qed.

Lemma status_eqb_refl : forall a, status_eqb a a = true.
Proof. destruct a; reflexivity. Qed.

Lemma status_eqb_neq : forall a b, status_eqb a b = false <-> a <> b.
Proof.
  intros a b; split.
  - intros H E; subst; rewrite status_eqb_refl in H; discriminate.
  - intros H; destruct (status_eqb a b) eqn:E; auto. apply status_eqb_eq in E; contradiction.
Qed.

Lemma vc_to_fresh : forall a, valid_change a Fresh = false.
Proof. destruct a; reflexivity. Qed.

Lemma vc_to_complete : forall a, valid_change a Complete = true -> a = Executing.
Proof. destruct a; vm_compute; congruence. Qed.

Lemma vc_to_failed : forall a, valid_change a Failed = true -> a = Executing.
Proof. destruct a; vm_compute; congruence. Qed.

Lemma vc_from_complete : forall b, valid_change Complete b = true -> b = Proposing \/ b = Proposed.
Proof. destruct b; vm_compute; auto; congruence. Qed.

Lemma vc_from_fresh : forall b, valid_change Fresh b = true -> b = Proposing \/ b = Proposed.
Proof. destruct b; vm_compute; auto; congruence. Qed.

(* the terminal-state list of the fallback and the literal test of validateEpoch name the same states *)
Lemma is_terminal_iff : forall a, is_terminal a = true <-> (a = Aborted \/ a = TimedOut \/ a = Failed).
Proof.
  intros a; split.
  - destruct a; vm_compute; auto; congruence.
  - intros [-> | [-> | ->]]; reflexivity.
Qed.

Lemma is_terminal_complete : is_terminal Complete = false.
Proof. reflexivity. Qed.
Lemma is_terminal_fresh : is_terminal Fresh = false.
Proof. reflexivity. Qed.
Lemma is_terminal_executing : is_terminal Executing = false.
Proof. reflexivity. Qed.

Lemma phase_not_complete_fresh : forall a,
  in_statuses a proposal_phase_states = true -> a <> Complete /\ a <> Fresh.
Proof. destruct a; vm_compute; split; congruence. Qed.

(* no edge leaves a terminal state except to a new proposal, Left or Aborted; in particular every
   accepted event in a terminal state goes through the fallback *)
Lemma terminal_not_phase : forall a, is_terminal a = true -> in_statuses a proposal_phase_states = false.
Proof. intros a H; apply is_terminal_iff in H; destruct H as [-> | [-> | ->]]; reflexivity. Qed.

Ltac brk H :=
  repeat match type of H with
  | (if ?c then _ else _) = _ => let E := fresh "E" in destruct c eqn:E; try discriminate H
  | match ?c with _ => _ end = _ => let E := fresh "E" in destruct c eqn:E; try discriminate H
  end.

Section Methods.
  Variable joiner_ok : bytes -> participant -> bool.

  (* ---------- epoch rule ---------- *)
  Lemma validate_epoch_ge : forall d t, validate_epoch d t = None -> st_epoch d <= t_epoch t.
  Proof. unfold validate_epoch; intros d t H. destruct (t_epoch t <? st_epoch d) eqn:E; [discriminate|]. apply Z.ltb_ge in E; lia. Qed.

  Lemma validate_epoch_strict : forall d t,
    validate_epoch d t = None -> is_terminal (st_state d) = false -> st_epoch d < t_epoch t.
  Proof.
    unfold validate_epoch; intros d t H T.
    destruct (t_epoch t <? st_epoch d) eqn:E; [discriminate|]. apply Z.ltb_ge in E.
    destruct (t_epoch t =? st_epoch d) eqn:E2; [|apply Z.eqb_neq in E2; lia].
    exfalso. destruct (st_state d); try discriminate T; simpl in H; discriminate H.
  Qed.

  (* a jump of more than one epoch is accepted only from Fresh or Left *)
  Lemma validate_epoch_next : forall d t,
    validate_epoch d t = None -> st_state d <> Left -> st_state d <> Fresh ->
    t_epoch t <= u32_succ (st_epoch d).
  Proof.
    unfold validate_epoch; intros d t H L F.
    destruct (t_epoch t <? st_epoch d); [discriminate|].
    destruct ((t_epoch t =? st_epoch d) && _ && _ && _); [discriminate|].
    destruct (u32_succ (st_epoch d) <? t_epoch t) eqn:E; [|apply Z.ltb_ge in E; lia].
    exfalso. apply status_eqb_neq in L, F. rewrite L, F in H. simpl in H. discriminate.
  Qed.

  Lemma validate_proposal_epoch : forall now d t,
    validate_proposal joiner_ok now d (Some t) = None -> validate_epoch d t = None.
  Proof.
    unfold validate_proposal, validate_for_all_dkgs; intros now d t H.
    destruct (negb (bytes_eqb (st_beacon d) (t_beacon t))); [discriminate|].
    destruct (negb (scheme_known (t_scheme t))); [discriminate|].
    destruct (negb (forallb (joiner_ok (t_scheme t)) (t_joining t))); [discriminate|].
    destruct (t_timeout t <? now); [discriminate|].
    destruct (_ <? t_threshold t); [discriminate|].
    destruct (t_threshold t <? _); [discriminate|].
    destruct (validate_epoch d t); [discriminate|reflexivity].
  Qed.

  (* ---------- what a successful DBState method does to State and Epoch ---------- *)
  (* the result of a method applied to base state b (commands and packets) *)
  Definition msum (b d' : dbstate) : Prop :=
    st_state d' <> Fresh /\ st_state d' <> Complete /\
    ( (st_state d' = st_state b /\ st_epoch d' = st_epoch b /\ is_proposal_phase b = true)
      \/ (valid_change (st_state b) (st_state d') = true /\ st_epoch d' = st_epoch b
          /\ st_state d' <> Proposing /\ st_state d' <> Proposed)
      \/ (valid_change (st_state b) (st_state d') = true
          /\ (is_terminal (st_state b) = false -> st_epoch b < st_epoch d')
          /\ (st_state b <> Left -> st_state b <> Fresh -> st_epoch d' <= u32_succ (st_epoch b))
          /\ (st_state d' = Proposing \/ st_state d' = Proposed)) ).

  Ltac simple_method H :=
    brk H; inversion H; subst; clear H;
    split; [simpl; discriminate|]; split; [simpl; discriminate|];
    right; left; simpl; repeat split; try discriminate; auto.

  Lemma negb_false : forall b, negb b = false -> b = true.
  Proof. destruct b; auto. Qed.

  Lemma do_left_sum : forall now me d d', do_left now me d = Ok d' -> msum d d'.
  Proof. unfold do_left; intros now me d d' H. simple_method H; apply negb_false; assumption. Qed.

  Lemma do_joined_sum : forall now me d prev d', do_joined now me d prev = Ok d' -> msum d d'.
  Proof. unfold do_joined; intros now me d prev d' H. simple_method H; apply negb_false; assumption. Qed.

  Lemma do_start_abort_sum : forall d d', do_start_abort d = Ok d' -> msum d d'.
  Proof. unfold do_start_abort; intros d d' H. simple_method H; apply negb_false; assumption. Qed.

  Lemma do_aborted_sum : forall d md d', do_aborted d md = Ok d' -> msum d d'.
  Proof. unfold do_aborted; intros d md d' H. simple_method H; apply negb_false; assumption. Qed.

  Lemma do_accepted_sum : forall now me d d', do_accepted now me d = Ok d' -> msum d d'.
  Proof. unfold do_accepted; intros now me d d' H. simple_method H; apply negb_false; assumption. Qed.

  Lemma do_rejected_sum : forall now me d d', do_rejected now me d = Ok d' -> msum d d'.
  Proof. unfold do_rejected; intros now me d d' H. simple_method H; apply negb_false; assumption. Qed.

  Lemma do_start_executing_sum : forall now me d d', do_start_executing now me d = Ok d' -> msum d d'.
  Proof.
    unfold do_start_executing; intros now me d d' H.
    destruct (has_timed_out now d); [discriminate|].
    destruct (contains (st_leaving d) me); [eapply do_left_sum; eassumption|].
    simple_method H; apply negb_false; assumption.
  Qed.

  Lemma do_executing_sum : forall now me d md d', do_executing now me d md = Ok d' -> msum d d'.
  Proof.
    unfold do_executing; intros now me d md d' H.
    destruct (has_timed_out now d); [discriminate|].
    destruct (contains (st_leaving d) me && valid_change (st_state d) Left).
    { destruct (st_leader d); [|discriminate]. destruct (negb (bytes_eqb _ _)); [discriminate|].
      eapply do_left_sum; eassumption. }
    simple_method H; apply negb_false; assumption.
  Qed.

  Lemma do_received_acceptance_sum : forall d them md d', do_received_acceptance d them md = Ok d' -> msum d d'.
  Proof.
    unfold do_received_acceptance; intros d them md d' H. brk H. inversion H; subst; clear H.
    apply negb_false in E. pose proof (phase_not_complete_fresh _ E) as [P1 P2].
    split; [simpl; auto|]. split; [simpl; auto|]. left; simpl; auto.
  Qed.

  Lemma do_received_rejection_sum : forall d them md d', do_received_rejection d them md = Ok d' -> msum d d'.
  Proof.
    unfold do_received_rejection; intros d them md d' H. brk H. inversion H; subst; clear H.
    apply negb_false in E. pose proof (phase_not_complete_fresh _ E) as [P1 P2].
    split; [simpl; auto|]. split; [simpl; auto|]. left; simpl; auto.
  Qed.

  Lemma do_proposed_sum : forall now me d t md d', do_proposed joiner_ok now me d t md = Ok d' -> msum d d'.
  Proof.
    unfold do_proposed; intros now me d t md d' H. brk H. inversion H; subst; clear H.
    apply negb_false in E. pose proof (validate_proposal_epoch _ _ _ E2) as VE.
    split; [simpl; discriminate|]. split; [simpl; discriminate|].
    right; right; simpl. split; [assumption|]. split; [apply validate_epoch_strict; assumption|].
    split; [apply validate_epoch_next; assumption|]. auto.
  Qed.

  Lemma do_proposing_sum : forall now lm d t d', do_proposing joiner_ok now lm d t = Ok d' -> msum d d'.
  Proof.
    unfold do_proposing; intros now lm d t d' H. brk H. inversion H; subst; clear H.
    apply negb_false in E. pose proof (validate_proposal_epoch _ _ _ E1) as VE.
    split; [simpl; discriminate|]. split; [simpl; discriminate|].
    right; right; simpl. split; [assumption|]. split; [apply validate_epoch_strict; assumption|].
    split; [apply validate_epoch_next; assumption|]. auto.
  Qed.

  Lemma apply_packet_sum : forall now me d body md d',
    apply_packet joiner_ok now me d body md = Ok d' -> msum d d'.
  Proof.
    intros now me d body md d' H. destruct body; simpl in H; try discriminate.
    - eapply do_proposed_sum; eassumption.
    - eapply do_received_acceptance_sum; eassumption.
    - eapply do_received_rejection_sum; eassumption.
    - eapply do_executing_sum; eassumption.
    - eapply do_aborted_sum; eassumption.
  Qed.
End Methods.

(* ---------- the process: store invariant and the shape of a step ---------- *)
Section Proc.
  Variable joiner_ok : bytes -> participant -> bool.
  Variable key_ok : bytes -> bool.
  Variable verify_message : gpacket -> terms -> option err.
  Variable me : participant.
  Variable B : bytes.

  Definition inv (s : store) : Prop :=
    (forall f, finished s = Some f ->
       st_state f = Complete /\ st_final_group f <> None /\ st_key_share f <> None
       /\ exists c, current s = Some c /\ (c = f \/ st_epoch f < st_epoch c))
    /\ (forall c, current s = Some c -> st_state c <> Fresh /\ (st_state c = Complete -> finished s = Some c)).

  Lemma inv_init : inv init_store.
  Proof. split; simpl; intros; discriminate. Qed.

  Lemma eff_cases : forall s,
    (is_terminal (st_state (get_current B s)) = false /\ effective B s = get_current B s)
    \/ (is_terminal (st_state (get_current B s)) = true
        /\ ((exists f, finished s = Some f /\ effective B s = f) \/ (finished s = None /\ effective B s = fresh B))).
  Proof.
    intros s; unfold effective. destruct (is_terminal (st_state (get_current B s))); [right|left]; split; auto.
    destruct (finished s) as [f|]; [left; eauto|right; auto].
  Qed.

  Lemma eff_nonterminal : forall s, inv s -> is_terminal (st_state (effective B s)) = false.
  Proof.
    intros s [I1 _]. destruct (eff_cases s) as [[T E] | [T [[f [F E]] | [F E]]]]; rewrite E; auto.
    destruct (I1 f F) as [C _]; rewrite C; reflexivity.
  Qed.

  Lemma eff_epoch_ge : forall s f, inv s -> finished s = Some f -> st_epoch f <= st_epoch (effective B s).
  Proof.
    intros s f [I1 _] F. destruct (I1 f F) as [_ [_ [_ [c [C D]]]]].
    destruct (eff_cases s) as [[T E] | [T [[f' [F' E]] | [F' E]]]]; rewrite E.
    - unfold get_current; rewrite C. destruct D as [-> | D]; lia.
    - rewrite F in F'; inversion F'; subst; lia.
    - rewrite F in F'; discriminate.
  Qed.

  (* the base state of a command/packet is the finished record itself whenever their epochs agree *)
  Lemma eff_epoch_eq : forall s f, inv s -> finished s = Some f ->
    st_epoch (effective B s) = st_epoch f -> effective B s = f.
  Proof.
    intros s f [I1 _] F Eq. destruct (I1 f F) as [_ [_ [_ [c [C D]]]]].
    destruct (eff_cases s) as [[T E] | [T [[f' [F' E]] | [F' E]]]]; rewrite E in *.
    - unfold get_current in *; rewrite C in *. destruct D as [-> | D]; [reflexivity|lia].
    - rewrite F in F'; inversion F'; reflexivity.
    - rewrite F in F'; discriminate.
  Qed.

  Definition saved (s s' : store) (d' : dbstate) : Prop :=
    current s' = Some d' /\ finished s' = finished s /\ msum (effective B s) d'.

  Lemma saved_mark : forall s d' sg (c : bool),
    msum (effective B s) d' ->
    saved s (if c then save_current s d' else mark_seen (save_current s d') sg) d'.
  Proof. intros; unfold saved; destruct c; simpl; (split; [reflexivity|split; [reflexivity|assumption]]). Qed.

  Lemma packet_apply_shape : forall now s p md s' o,
    packet_apply joiner_ok key_ok verify_message me B now s p md = (s', o) ->
    (s' = s /\ o <> OK) \/ (exists d', saved s s' d' /\ (o = OK \/ o = Rej EExecSetup)).
  Proof.
    unfold packet_apply; intros now s p md s' o H.
    destruct (negb (bytes_eqb (md_beacon md) B)); [inversion H; left; split; [auto|discriminate]|].
    destruct (apply_packet joiner_ok now me (effective B s) (gp_body p) md) as [next|e] eqn:A;
      [|inversion H; left; split; [auto|discriminate]].
    destruct (verify_message p (terms_from_state next)); [inversion H; left; split; [auto|discriminate]|].
    apply apply_packet_sum in A. right; exists next.
    destruct (gp_body p); try (inversion H; subst; split; [apply saved_mark; assumption|auto]).
    destruct (exec_setup key_ok B _); inversion H; subst; (split; [apply saved_mark; assumption|auto]).
  Qed.

  Lemma packet_shape : forall now s p s' o,
    packet_step joiner_ok key_ok verify_message me B now s p = (s', o) ->
    s' = s \/ (exists d', saved s s' d' /\ (o = OK \/ o = Rej EExecSetup)).
  Proof.
    unfold packet_step; intros now s p s' o H.
    destruct (gp_md p) as [md|]; [|inversion H; auto].
    destruct (len (md_sig md) <? 4); [inversion H; auto|].
    destruct (mem_bytes (md_sig md) (seen s)); [inversion H; auto|].
    destruct (gp_body p) eqn:Eb; try (inversion H; auto; fail);
      apply packet_apply_shape in H; destruct H as [[-> _]|H]; auto.
  Qed.

  (* a packet that is not accepted and is not the save-then-fail Execute path changes nothing *)
  Lemma packet_rejected : forall now s p s' e,
    packet_step joiner_ok key_ok verify_message me B now s p = (s', Rej e) -> e <> EExecSetup -> s' = s.
  Proof.
    intros now s p s' e H N. apply packet_shape in H. destruct H as [->|[d' [_ [H|H]]]]; auto; [discriminate|congruence].
  Qed.

  Lemma start_cmd_shape : forall now s c s1 r,
    start_cmd joiner_ok key_ok me B now s (effective B s) c = (s1, r) ->
    match r with
    | Err e => s1 = s \/ (e = EExecSetup /\ exists d', saved s s1 d')
    | Ok (d', g) => s1 = save_current s d' /\ msum (effective B s) d'
    end.
  Proof.
    intros now s c s1 r H. destruct c; unfold start_cmd in H.
    - destruct (do_proposing _ _ _ _ _) eqn:D; inversion H; subst; auto. split; auto. eapply do_proposing_sum; eassumption.
    - destruct (migration_branch _ _); [inversion H; auto|].
      destruct (do_proposing _ _ _ _ _) eqn:D; inversion H; subst; auto. split; auto. eapply do_proposing_sum; eassumption.
    - destruct (1 <? st_epoch (effective B s)).
      + destruct f; try (inversion H; auto; fail).
        destruct (do_joined _ _ _ _) eqn:D; inversion H; subst; auto. split; auto. eapply do_joined_sum; eassumption.
      + destruct (do_joined _ _ _ _) eqn:D; inversion H; subst; auto. split; auto. eapply do_joined_sum; eassumption.
    - destruct (do_accepted _ _ _) eqn:D; inversion H; subst; auto. split; auto. eapply do_accepted_sum; eassumption.
    - destruct (do_rejected _ _ _) eqn:D; inversion H; subst; auto. split; auto. eapply do_rejected_sum; eassumption.
    - destruct (do_start_executing _ _ _) eqn:D; [|inversion H; auto].
      apply do_start_executing_sum in D.
      destruct (exec_setup _ _ _); inversion H; subst; auto.
      right; split; auto. exists a; split; [reflexivity|split; [reflexivity|assumption]].
    - destruct (do_start_abort _) eqn:D; inversion H; subst; auto. split; auto. eapply do_start_abort_sum; eassumption.
    - inversion H; auto.
  Qed.

  Lemma command_shape : forall now s c s' o,
    command_step joiner_ok key_ok me B now s c = (s', o) ->
    s' = s \/ (exists d', saved s s' d' /\ (o = OK \/ o = Rej EGossip \/ o = Rej EExecSetup)).
  Proof.
    unfold command_step; intros now s c s' o H.
    destruct (c_md c); [|inversion H; auto].
    destruct (negb (bytes_eqb b B)); [inversion H; auto|].
    destruct (start_cmd _ _ _ _ _ _ _ _) as [s1 r] eqn:S. apply start_cmd_shape in S.
    destruct r as [[d' g]|e].
    - destruct S as [-> M]. right; exists d'.
      destruct g.
      + match type of H with (if ?c then _ else _) = _ => destruct c end; inversion H; subst;
          (split; [apply saved_mark; assumption|auto]).
      + inversion H; subst. split; [split; [reflexivity|split; [reflexivity|assumption]]|auto].
    - inversion H; subst. destruct S as [->|[-> [d' S]]]; auto. right; exists d'; auto.
  Qed.

  Lemma command_rejected : forall now s c s' e,
    command_step joiner_ok key_ok me B now s c = (s', Rej e) -> e <> EGossip -> e <> EExecSetup -> s' = s.
  Proof.
    intros now s c s' e H N1 N2. apply command_shape in H.
    destruct H as [->|[d' [_ [H|[H|H]]]]]; auto; [discriminate|congruence|congruence].
  Qed.

  (* executeAndFinishDKG *)
  Lemma finish_shape : forall now s out s' o,
    finish_step B now s out = (s', o) ->
    (s' = s /\ o <> OK)
    \/ (exists g sh d, out = Some (g, sh) /\ o = OK /\ st_state (get_current B s) = Executing
          /\ current s' = Some d /\ finished s' = Some d /\ st_state d = Complete
          /\ st_epoch d = st_epoch (get_current B s) /\ st_final_group d = Some g /\ st_key_share d = Some sh)
    \/ (out = None /\ o = OK /\ st_state (get_current B s) = Executing
          /\ current s' = Some (with_state (get_current B s) Failed) /\ finished s' = finished s).
  Proof.
    unfold finish_step; intros now s out s' o H. destruct out as [[g sh]|].
    - match type of H with context [do_complete now ?c _ _] => destruct (do_complete now c (Some g) (Some sh)) as [d|e] eqn:D end;
        [|inversion H; left; split; [auto|discriminate]].
      right; left. unfold do_complete in D. brk D. inversion D; subst; clear D. inversion H; subst; clear H.
      apply negb_false in E. apply vc_to_complete in E.
      exists g, sh. eexists. repeat split; try reflexivity.
      + destruct (is_empty (st_joining (get_current B s))); simpl in E; assumption.
      + destruct (is_empty (st_joining (get_current B s))); reflexivity.
    - destruct (do_failed (get_current B s)) as [d|e] eqn:D; [|inversion H; left; split; [auto|discriminate]].
      right; right. unfold do_failed in D. brk D. inversion D; subst; clear D. inversion H; subst; clear H.
      apply negb_false in E. apply vc_to_failed in E. repeat split; auto.
  Qed.

  (* ---------- the invariant is preserved ---------- *)
  Lemma saved_inv : forall s s' d', inv s -> saved s s' d' -> inv s'.
  Proof.
    intros s s' d' I [C [F M]]. pose proof I as [I1 I2].
    destruct M as [NF [NC M]].
    split.
    - intros f Ff. rewrite F in Ff. destruct (I1 f Ff) as [S [G [K _]]].
      repeat split; auto. exists d'; split; auto.
      pose proof (eff_epoch_ge s f I Ff) as GE.
      pose proof (eff_nonterminal s I) as NT.
      destruct M as [[Es [Ee _]] | [[V [Ee [N1 N2]]] | [V [Lt _]]]].
      + (* state and epoch kept: the base cannot be the finished record (it is not in the proposal phase) *)
        destruct (Z.eq_dec (st_epoch (effective B s)) (st_epoch f)) as [Q|Q]; [|right; lia].
        pose proof (eff_epoch_eq s f I Ff Q) as Q'. rewrite Q', S in Es. contradiction.
      + destruct (Z.eq_dec (st_epoch (effective B s)) (st_epoch f)) as [Q|Q]; [|right; lia].
        pose proof (eff_epoch_eq s f I Ff Q) as Q'. rewrite Q', S in V.
        apply vc_from_complete in V. destruct V; contradiction.
      + specialize (Lt NT). right; lia.
    - intros c Cc. rewrite C in Cc; inversion Cc; subst. split; [assumption|intros; contradiction].
  Qed.

  Lemma step_inv : forall s ev, inv s -> inv (fst (step joiner_ok key_ok verify_message me B s ev)).
  Proof.
    intros s [now ev] I. unfold step; simpl. destruct ev as [c|p|out].
    - destruct (command_step _ _ _ _ _ _ _) as [s' o] eqn:H; simpl. apply command_shape in H.
      destruct H as [->|[d' [S _]]]; auto. eapply saved_inv; eassumption.
    - destruct (packet_step _ _ _ _ _ _ _ _) as [s' o] eqn:H; simpl. apply packet_shape in H.
      destruct H as [->|[d' [S _]]]; auto. eapply saved_inv; eassumption.
    - destruct (finish_step _ _ _ _) as [s' o] eqn:H; simpl. apply finish_shape in H.
      destruct H as [[-> _] | [H | H]]; auto.
      + destruct H as (g & sh & d & _ & _ & _ & C & F & S & _ & G & K).
        split.
        * intros f Ff. rewrite F in Ff; inversion Ff; subst. repeat split; auto; try congruence. exists f; auto.
        * intros c Cc. rewrite C in Cc; inversion Cc; subst. split; [rewrite S; discriminate|auto].
      + destruct H as (_ & _ & X & C & F). destruct I as [I1 I2]. split.
        * intros f Ff. rewrite F in Ff. destruct (I1 f Ff) as [S [G [K [c [Cc D]]]]]. repeat split; auto.
          eexists; split; [eassumption|]. unfold get_current in *; rewrite Cc in *. simpl.
          destruct D as [->|D]; [rewrite S in X; discriminate|right; assumption].
        * intros c Cc. rewrite C in Cc; inversion Cc; subst. simpl; split; discriminate.
  Qed.

  Lemma run_inv : forall h s, inv s -> inv (run joiner_ok key_ok verify_message me B s h).
  Proof. induction h as [|e h IH]; simpl; intros s I; auto. apply IH. apply step_inv; assumption. Qed.

  (* ---------- step-level consequences ---------- *)
  Notation pstep := (step joiner_ok key_ok verify_message me B).

  Definition base_of (s : store) (ev : event) : dbstate :=
    match ev with EvFinish _ => get_current B s | _ => effective B s end.

  (* the base after a fallback is the finished record (state Complete) or Fresh *)
  Lemma fallback_base : forall s, inv s -> is_terminal (st_state (get_current B s)) = true ->
    (exists f, finished s = Some f /\ effective B s = f /\ st_state f = Complete)
    \/ (finished s = None /\ effective B s = fresh B).
  Proof.
    intros s I T. destruct (eff_cases s) as [[T' _] | [_ [[f [F E]] | [F E]]]]; [congruence| |right; auto].
    left; exists f; repeat split; auto. destruct I as [I1 _]. destruct (I1 f F); auto.
  Qed.

  Lemma saved_legal : forall s s' d', inv s -> saved s s' d' ->
    st_state (get_current B s') = st_state (get_current B s)
    \/ valid_change (st_state (effective B s)) (st_state (get_current B s')) = true.
  Proof.
    intros s s' d' I [C [F [_ [_ M]]]]. unfold get_current at 1 3; rewrite C.
    destruct M as [[Es [_ Ph]] | [[V _] | [V _]]]; auto.
    left. destruct (eff_cases s) as [[_ E] | [T _]]; [rewrite E in Es; exact Es|].
    exfalso. unfold is_proposal_phase in Ph. apply phase_not_complete_fresh in Ph. destruct Ph as [P1 P2].
    destruct (fallback_base s I T) as [[f [_ [E S]]] | [_ E]]; rewrite E in *; [contradiction|apply P2; reflexivity].
  Qed.

  Lemma step_legal : forall s ev s' o, inv s -> pstep s ev = (s', o) ->
    st_state (get_current B s') = st_state (get_current B s)
    \/ valid_change (st_state (base_of s (snd ev))) (st_state (get_current B s')) = true.
  Proof.
    intros s [now ev] s' o I H. unfold step in H; simpl in H. destruct ev as [c|p|out]; simpl.
    - apply command_shape in H. destruct H as [->|[d' [S _]]]; auto. eapply saved_legal; eassumption.
    - apply packet_shape in H. destruct H as [->|[d' [S _]]]; auto. eapply saved_legal; eassumption.
    - apply finish_shape in H. destruct H as [[-> _] | [H | H]]; auto.
      + destruct H as (g & sh & d & _ & _ & X & C & _ & S & _). right. unfold get_current at 2; rewrite C, S, X. reflexivity.
      + destruct H as (_ & _ & X & C & _). right. unfold get_current at 2; rewrite C. simpl. rewrite X. reflexivity.
  Qed.

  (* the finished record changes only by a successful completion, to a strictly larger epoch *)
  Lemma step_finished : forall s ev s' o, inv s -> pstep s ev = (s', o) ->
    finished s' = finished s
    \/ (exists g sh d, snd ev = EvFinish (Some (g, sh)) /\ o = OK /\ finished s' = Some d /\ current s' = Some d
          /\ st_state d = Complete /\ st_final_group d = Some g /\ st_key_share d = Some sh
          /\ st_state (get_current B s) = Executing /\ st_epoch d = st_epoch (get_current B s)
          /\ (forall f, finished s = Some f -> st_epoch f < st_epoch d)).
  Proof.
    intros s [now ev] s' o I H. unfold step in H; simpl in H. destruct ev as [c|p|out]; simpl.
    - apply command_shape in H. destruct H as [->|[d' [[_ [F _]] _]]]; auto.
    - apply packet_shape in H. destruct H as [->|[d' [[_ [F _]] _]]]; auto.
    - apply finish_shape in H. destruct H as [[-> _] | [H | H]]; auto.
      + destruct H as (g & sh & d & -> & -> & X & C & F & S & Ep & G & K). right.
        exists g, sh, d. repeat split; auto. intros f Ff. rewrite Ep.
        destruct I as [I1 _]. destruct (I1 f Ff) as [Sf [_ [_ [c [Cc D]]]]].
        unfold get_current in *; rewrite Cc in *. destruct D as [->|D]; [rewrite Sf in X; discriminate|assumption].
      + destruct H as (_ & _ & _ & _ & F). auto.
  Qed.

  (* every rejected command/packet/finish leaves BOTH buckets (and the seen set) unchanged, except
     the two save-then-fail paths: a proposal command whose gossip failed (EGossip) and an Execute
     whose kyber set-up failed (EExecSetup); these change only the current bucket *)
  Lemma step_rejected : forall s ev s' e, pstep s ev = (s', Rej e) -> e <> EGossip -> e <> EExecSetup -> s' = s.
  Proof.
    intros s [now ev] s' e H N1 N2. unfold step in H; simpl in H. destruct ev as [c|p|out].
    - eapply command_rejected; eassumption.
    - eapply packet_rejected; eassumption.
    - apply finish_shape in H. destruct H as [[-> _] | [H | H]]; auto.
      + destruct H as (g & sh & d & _ & X & _). discriminate.
      + destruct H as (_ & X & _). discriminate.
  Qed.

  Lemma step_rejected_finished : forall s ev s' e, inv s -> pstep s ev = (s', Rej e) -> finished s' = finished s.
  Proof.
    intros s ev s' e I H. destruct (step_finished _ _ _ _ I H) as [F|(g & sh & d & _ & X & _)]; auto. discriminate.
  Qed.

  (* a step that ends in Aborted / TimedOut / Failed leaves the finished record unchanged *)
  Lemma step_terminal_finished : forall s ev s' o, inv s -> pstep s ev = (s', o) ->
    is_terminal (st_state (get_current B s')) = true -> finished s' = finished s.
  Proof.
    intros s ev s' o I H T. destruct (step_finished _ _ _ _ I H) as [F|(g & sh & d & _ & _ & _ & C & S & _)]; auto.
    unfold get_current in T; rewrite C, S in T. discriminate.
  Qed.

  (* epochs: never below the base; a decrease of current.Epoch happens only through the fallback *)
  Lemma saved_epoch : forall s s' d', inv s -> saved s s' d' ->
    st_epoch (effective B s) <= st_epoch d'
    /\ (is_terminal (st_state (get_current B s)) = true -> st_epoch (effective B s) < st_epoch d').
  Proof.
    intros s s' d' I [C [F [_ [_ M]]]]. pose proof (eff_nonterminal s I) as NT.
    destruct M as [[Es [Ee Ph]] | [[V [Ee [N1 N2]]] | [V [Lt _]]]].
    - split; [lia|]. intros T. exfalso. unfold is_proposal_phase in Ph. apply phase_not_complete_fresh in Ph.
      destruct Ph as [P1 P2]. destruct (fallback_base s I T) as [[f [_ [E S]]] | [_ E]]; rewrite E in *; [contradiction|apply P2; reflexivity].
    - split; [lia|]. intros T. exfalso.
      destruct (fallback_base s I T) as [[f [_ [E S]]] | [_ E]]; rewrite E in *.
      + rewrite S in V. apply vc_from_complete in V. destruct V; contradiction.
      + simpl in V. apply vc_from_fresh in V. destruct V; contradiction.
    - specialize (Lt NT). split; [lia|auto].
  Qed.

  Lemma step_epoch : forall s ev s' o, inv s -> pstep s ev = (s', o) ->
    st_epoch (get_current B s) <= st_epoch (get_current B s')
    \/ (is_terminal (st_state (get_current B s)) = true
        /\ st_epoch (effective B s) < st_epoch (get_current B s')).
  Proof.
    intros s [now ev] s' o I H. unfold step in H; simpl in H.
    assert (SV : forall d', saved s s' d' ->
      st_epoch (get_current B s) <= st_epoch (get_current B s')
      \/ (is_terminal (st_state (get_current B s)) = true /\ st_epoch (effective B s) < st_epoch (get_current B s'))).
    { intros d' S. destruct (saved_epoch s s' d' I S) as [G L]. destruct S as [C _].
      unfold get_current at 2 4; rewrite C.
      destruct (eff_cases s) as [[_ E] | [T _]]; [left; rewrite E in G; exact G|right; auto]. }
    destruct ev as [c|p|out].
    - apply command_shape in H. destruct H as [->|[d' [S _]]]; [left; lia|eapply SV; eassumption].
    - apply packet_shape in H. destruct H as [->|[d' [S _]]]; [left; lia|eapply SV; eassumption].
    - apply finish_shape in H. destruct H as [[-> _] | [H | H]]; [left; lia| |].
      + destruct H as (g & sh & d & _ & _ & _ & C & _ & _ & Ep & _). left. unfold get_current at 2; rewrite C. lia.
      + destruct H as (_ & _ & _ & C & _). left. unfold get_current at 2; rewrite C. simpl. lia.
  Qed.

  (* a node with a finished record: current epoch is the finished epoch or the next one, as long as
     the node does not pass through Left (the only non-Fresh state that accepts epoch jumps) *)
  Definition tight (s : store) : Prop :=
    exists f c, finished s = Some f /\ current s = Some c
      /\ (st_epoch c = st_epoch f \/ st_epoch c = st_epoch f + 1).

  Lemma proposal_sources : forall a b, valid_change a b = true -> (b = Proposing \/ b = Proposed) ->
    a = Fresh \/ a = Complete \/ a = Left \/ is_terminal a = true.
  Proof. intros a b V [-> | ->]; destruct a; vm_compute in V; try discriminate; auto. Qed.

  Lemma u32_succ_next : forall x y, x < y -> y <= u32_succ x -> y = x + 1.
  Proof. unfold u32_succ, u32_max; intros x y L H. destruct (x =? 4294967295) eqn:E; [apply Z.eqb_eq in E|]; lia. Qed.

  Lemma saved_tight : forall s s' d', inv s -> tight s -> st_state (get_current B s) <> Left -> saved s s' d' ->
    tight s' /\ st_epoch (get_current B s) <= st_epoch (get_current B s').
  Proof.
    intros s s' d' I (f & c & Ff & Cc & Ep) NL S. pose proof S as [C [F [_ [_ M]]]].
    pose proof I as [I1 I2]. destruct (I1 f Ff) as [Sf _]. destruct (I2 c Cc) as [NFr CF].
    pose proof (eff_nonterminal s I) as NT.
    unfold get_current in *; rewrite Cc in *. rewrite C.
    assert (Base : (effective B s = c /\ is_terminal (st_state c) = false) \/ (effective B s = f /\ is_terminal (st_state c) = true)).
    { destruct (eff_cases s) as [[T E] | [T [[f' [F' E]] | [F' E]]]]; unfold get_current in *; rewrite Cc in *.
      - left; auto.
      - rewrite Ff in F'; inversion F'; subst; right; auto.
      - rewrite Ff in F'; discriminate. }
    assert (Goal1 : forall e', st_epoch d' = e' -> (e' = st_epoch f \/ e' = st_epoch f + 1) -> st_epoch c <= e' ->
                     tight s' /\ st_epoch c <= st_epoch d').
    { intros e' E1 E2 E3. split; [|lia]. exists f, d'. rewrite F. repeat split; auto. rewrite E1; exact E2. }
    destruct M as [[Es [Ee Ph]] | [[V [Ee [N1 N2]]] | [V [Lt [Nx PP]]]]].
    - destruct Base as [[E T] | [E T]]; rewrite E in Es, Ee, Ph.
      + apply (Goal1 (st_epoch c)); auto; lia.
      + exfalso. unfold is_proposal_phase in Ph. apply phase_not_complete_fresh in Ph. rewrite Sf in Ph. destruct Ph; congruence.
    - destruct Base as [[E T] | [E T]]; rewrite E in V, Ee.
      + apply (Goal1 (st_epoch c)); auto; lia.
      + exfalso. rewrite Sf in V. apply vc_from_complete in V. destruct V; contradiction.
    - specialize (Lt NT).
      assert (FromF : effective B s = f -> tight s' /\ st_epoch c <= st_epoch d').
      { intros E. rewrite E in Lt, Nx.
        assert (st_epoch d' = st_epoch f + 1).
        { apply u32_succ_next; auto. apply Nx; rewrite Sf; discriminate. }
        apply (Goal1 (st_epoch f + 1)); auto; lia. }
      destruct Base as [[E T] | [E T]]; [|auto].
      (* a non-terminal current state that accepts a proposal is Complete (hence the finished record) *)
      rewrite E in V.
      destruct (proposal_sources _ _ V PP) as [X | [X | [X | X]]]; try contradiction; try congruence.
      specialize (CF X). rewrite Ff in CF; inversion CF. apply FromF. congruence.
  Qed.

  Lemma step_tight : forall s ev s' o, inv s -> tight s -> st_state (get_current B s) <> Left ->
    pstep s ev = (s', o) -> tight s' /\ st_epoch (get_current B s) <= st_epoch (get_current B s').
  Proof.
    intros s [now ev] s' o I T NL H. unfold step in H; simpl in H. destruct ev as [c|p|out].
    - apply command_shape in H. destruct H as [->|[d' [S _]]]; [split; [auto|lia]|eapply saved_tight; eassumption].
    - apply packet_shape in H. destruct H as [->|[d' [S _]]]; [split; [auto|lia]|eapply saved_tight; eassumption].
    - apply finish_shape in H. destruct H as [[-> _] | [H | H]]; [split; [auto|lia]| |].
      + destruct H as (g & sh & d & _ & _ & _ & C & F & _ & Ep & _). split.
        * exists d, d; repeat split; auto.
        * unfold get_current at 2; rewrite C. lia.
      + destruct H as (_ & _ & _ & C & F). destruct T as (f & c & Ff & Cc & Ep). split.
        * exists f. eexists. rewrite F, C. repeat split; auto. unfold get_current; rewrite Cc. simpl. exact Ep.
        * unfold get_current at 2; rewrite C. simpl. lia.
  Qed.

End Proc.

Lemma bytes_eqb_eq : forall a b, bytes_eqb a b = true <-> a = b.
Proof.
  induction a as [|x a IH]; destruct b as [|y b]; simpl; split; intros H; try discriminate; auto.
  - apply andb_prop in H; destruct H as [H1 H2]. apply Z.eqb_eq in H1; apply IH in H2; subst; auto.
  - inversion H; subst. rewrite Z.eqb_refl. simpl. apply IH; auto.
Qed.

(* ---------- rejections lifted to the process step; retry after abort / timeout / failure ---------- *)
Section Proc2.
  Variable joiner_ok : bytes -> participant -> bool.
  Variable key_ok : bytes -> bool.
  Variable verify_message : gpacket -> terms -> option err.
  Variable me : participant.
  Variable B : bytes.

  Lemma do_proposed_rejects : forall now d t md,
    validate_proposal joiner_ok now d (Some t) <> None -> exists e, do_proposed joiner_ok now me d t md = Err e.
  Proof.
    intros now d t md H. unfold do_proposed.
    destruct (negb (valid_change (st_state d) Proposed)); [eauto|].
    destruct (t_leader t); [|eauto]. destruct (negb (bytes_eqb _ _)); [eauto|].
    destruct (validate_proposal joiner_ok now d (Some t)); [eauto|contradiction].
  Qed.

  Lemma do_proposing_rejects : forall now lm d t,
    validate_proposal joiner_ok now d (Some t) <> None -> exists e, do_proposing joiner_ok now lm d t = Err e.
  Proof.
    intros now lm d t H. unfold do_proposing.
    destruct (negb (valid_change (st_state d) Proposing)); [eauto|]. destruct (negb lm); [eauto|].
    destruct (validate_proposal joiner_ok now d (Some t)); [eauto|contradiction].
  Qed.

  (* a proposal that names no leader is refused (explicit nil check in Proposed) *)
  Lemma proposal_without_leader_refused : forall now s p t,
    gp_body p = PProposal t -> t_leader t = None ->
    fst (packet_step joiner_ok key_ok verify_message me B now s p) = s.
  Proof.
    intros now s p t Hb H. unfold packet_step.
    destruct (gp_md p) as [md|]; auto. destruct (len (md_sig md) <? 4); auto.
    destruct (mem_bytes _ _); auto. rewrite Hb. unfold packet_apply.
    destruct (negb (bytes_eqb _ _)); auto. rewrite Hb. simpl. unfold do_proposed. rewrite H.
    destruct (negb (valid_change _ _)); reflexivity.
  Qed.

  (* a proposal packet whose terms ValidateProposal refuses (for the base state the node applies it
     to) leaves the store exactly as it was *)
  Lemma proposal_packet_refused : forall now s p t,
    gp_body p = PProposal t -> validate_proposal joiner_ok now (effective B s) (Some t) <> None ->
    fst (packet_step joiner_ok key_ok verify_message me B now s p) = s.
  Proof.
    intros now s p t Hb H. unfold packet_step.
    destruct (gp_md p) as [md|]; auto. destruct (len (md_sig md) <? 4); auto.
    destruct (mem_bytes _ _); auto. rewrite Hb. unfold packet_apply.
    destruct (negb (bytes_eqb _ _)); auto. rewrite Hb. simpl.
    destruct (do_proposed_rejects now (effective B s) t md H) as [e ->]. reflexivity.
  Qed.

  (* the same for the operator's reshare command: the terms it builds are refused *)
  Lemma reshare_command_refused : forall now s c o,
    c_body c = CResharing o ->
    validate_proposal joiner_ok now (effective B s)
      (Some (mkT B (po_threshold o) (u32_succ (st_epoch (effective B s))) (po_timeout o) (Some me) (po_catchup o)
                 (st_period (effective B s)) (st_scheme (effective B s)) (st_genesis_time (effective B s))
                 (st_genesis_seed (effective B s)) (po_joining o) (po_remaining o) (po_leaving o))) <> None ->
    fst (command_step joiner_ok key_ok me B now s c) = s.
  Proof.
    intros now s c o Hb H. unfold command_step.
    destruct (c_md c); auto. destruct (negb (bytes_eqb _ _)); auto. rewrite Hb. unfold start_cmd.
    destruct (migration_branch _ _); auto.
    destruct (do_proposing_rejects now true (effective B s) _ H) as [e ->]. reflexivity.
  Qed.

  (* ---- what a well-formed next-epoch proposal is, and that a node whose base state is a completed
     epoch accepts it ---- *)
  Definition good_reshare (now : Z) (f : dbstate) (g : group) (t : terms) (l : participant) : Prop :=
    let nc := len (t_joining t) + len (t_remaining t) in
    st_beacon f = t_beacon t /\ scheme_known (t_scheme t) = true
    /\ forallb (joiner_ok (t_scheme t)) (t_joining t) = true
    /\ now <= t_timeout t /\ t_threshold t <= nc /\ minimum_t nc <= t_threshold t
    /\ t_epoch t = st_epoch f + 1 /\ st_epoch f < u32_max /\ t_epoch t <> 1
    /\ is_empty (t_remaining t) = false
    /\ contains (t_joining t) l = false /\ contains (t_leaving t) l = false /\ contains (t_remaining t) l = true
    /\ st_threshold f <= len (t_remaining t)
    /\ unix (t_genesis_time t) = unix (st_genesis_time f) /\ t_genesis_seed t = st_genesis_seed f
    /\ contains_all_ak (g_nodes g) (t_remaining t ++ t_leaving t) = true
    /\ contains_all_ak (t_remaining t ++ t_leaving t) (g_nodes g) = true.

  Lemma ltb_false : forall a b, b <= a -> (a <? b) = false.
  Proof. intros; apply Z.ltb_ge; assumption. Qed.

  Lemma good_reshare_valid : forall now f g t l,
    st_state f = Complete -> st_final_group f = Some g -> t_leader t = Some l ->
    good_reshare now f g t l -> validate_proposal joiner_ok now f (Some t) = None.
  Proof.
    intros now f g t l S G L (H1 & H2 & H3 & H4 & H5 & H6 & H7 & H8 & H9 & H10 & H11 & H12 & H13 & H14 & H15 & H16 & H17 & H18).
    unfold validate_proposal, validate_for_all_dkgs.
    rewrite H1. assert (Q : bytes_eqb (t_beacon t) (t_beacon t) = true) by (apply bytes_eqb_eq; reflexivity).
    rewrite Q, H2, H3. simpl.
    rewrite (ltb_false _ _ H4), (ltb_false _ _ H5), (ltb_false _ _ H6).
    assert (VE : validate_epoch f t = None).
    { unfold validate_epoch. rewrite H7, S.
      rewrite (ltb_false (st_epoch f + 1) (st_epoch f)) by lia.
      assert (E1 : (st_epoch f + 1 =? st_epoch f) = false) by (apply Z.eqb_neq; lia). rewrite E1. simpl.
      assert (E2 : u32_succ (st_epoch f) = st_epoch f + 1).
      { unfold u32_succ. assert (E3 : (st_epoch f =? u32_max) = false) by (apply Z.eqb_neq; lia). rewrite E3; reflexivity. }
      rewrite E2, Z.ltb_irrefl. reflexivity. }
    rewrite VE. apply Z.eqb_neq in H9; rewrite H9.
    unfold validate_reshare_terms. rewrite H10, L. simpl getp. rewrite H11, H12, H13. simpl.
    rewrite (ltb_false _ _ H14). rewrite S. simpl.
    unfold validate_reshare_for_remainers. rewrite H15, Z.eqb_refl, H16. simpl.
    assert (Q2 : bytes_eqb (st_genesis_seed f) (st_genesis_seed f) = true) by (apply bytes_eqb_eq; reflexivity).
    rewrite Q2, G, H17, H18. simpl. rewrite (ltb_false _ _ H14). reflexivity.
  Qed.

  (* the proposal packet is then accepted (state Proposed at the next epoch), provided the packet is
     new, carries this beacon id, names its leader as sender, includes this node, and is signed *)
  Lemma good_proposal_accepted : forall now s f g t l p md,
    effective B s = f -> st_state f = Complete -> st_final_group f = Some g ->
    gp_md p = Some md -> gp_body p = PProposal t -> t_leader t = Some l ->
    4 <= len (md_sig md) -> mem_bytes (md_sig md) (seen s) = false -> md_beacon md = B ->
    p_addr l = md_addr md -> good_reshare now f g t l ->
    contains (t_joining t) me || contains (t_remaining t) me || contains (t_leaving t) me = true ->
    verify_message p (terms_from_state (new_state_from f t Proposed (t_genesis_seed t))) = None ->
    exists s', packet_step joiner_ok key_ok verify_message me B now s p = (s', OK)
      /\ current s' = Some (new_state_from f t Proposed (t_genesis_seed t)) /\ finished s' = finished s.
  Proof.
    intros now s f g t l p md E S G Hmd Hb L Hlen Hseen Hbe Hl GR Hme Hv.
    unfold packet_step. rewrite Hmd, (ltb_false _ _ Hlen), Hseen, Hb. unfold packet_apply.
    rewrite Hbe. assert (Q : bytes_eqb B B = true) by (apply bytes_eqb_eq; reflexivity). rewrite Q. simpl negb. cbv iota.
    rewrite Hb, E. simpl apply_packet. unfold do_proposed. rewrite S. simpl valid_change. simpl negb. cbv iota.
    rewrite L, Hl. assert (Q2 : bytes_eqb (md_addr md) (md_addr md) = true) by (apply bytes_eqb_eq; reflexivity).
    rewrite Q2. simpl negb. cbv iota.
    rewrite (good_reshare_valid now f g t l S G L GR).
    assert (Hme' : negb (contains (t_joining t) me) && negb (contains (t_remaining t) me) && negb (contains (t_leaving t) me) = false).
    { destruct (contains (t_joining t) me), (contains (t_remaining t) me), (contains (t_leaving t) me); simpl in *; auto; discriminate. }
    rewrite Hme', Hv.
    match goal with |- context [if ?c then _ else _] => destruct c end; eexists; split; reflexivity || (split; reflexivity).
  Qed.

  (* ---- retry: a node whose current state is terminal treats every later command/packet exactly
     as a node whose current state is the last completed one (or Fresh when there is none) ---- *)
  Definition rolled_back (s : store) : store := mkStore (finished s) (finished s) (seen s).

  Lemma eff_rolled_back : forall s, inv s -> is_terminal (st_state (get_current B s)) = true ->
    effective B (rolled_back s) = effective B s.
  Proof.
    intros s I T. unfold effective at 2. rewrite T.
    unfold effective, rolled_back, get_current; simpl.
    destruct (finished s) as [f|] eqn:F; [|reflexivity].
    destruct I as [I1 _]. destruct (I1 f F) as [S _]. rewrite S. reflexivity.
  Qed.

  Lemma save_rolled_back : forall s d, save_current (rolled_back s) d = save_current s d.
  Proof. reflexivity. Qed.

  Definition same_result (s t : store) (r1 r2 : store * outcome) : Prop :=
    snd r1 = snd r2 /\ ((fst r1 = s /\ fst r2 = t) \/ fst r1 = fst r2).

  Lemma packet_retry : forall now s p, inv s -> is_terminal (st_state (get_current B s)) = true ->
    same_result s (rolled_back s)
      (packet_step joiner_ok key_ok verify_message me B now s p)
      (packet_step joiner_ok key_ok verify_message me B now (rolled_back s) p).
  Proof.
    intros now s p I T. unfold packet_step.
    destruct (gp_md p) as [md|]; [|split; auto]. destruct (len (md_sig md) <? 4); [split; auto|].
    change (seen (rolled_back s)) with (seen s). destruct (mem_bytes _ _); [split; auto|].
    assert (PA : same_result s (rolled_back s) (packet_apply joiner_ok key_ok verify_message me B now s p md)
                   (packet_apply joiner_ok key_ok verify_message me B now (rolled_back s) p md)).
    { unfold packet_apply. destruct (negb (bytes_eqb _ _)); [split; auto|].
      rewrite (eff_rolled_back s I T).
      destruct (apply_packet _ _ _ _ _ _) as [next|e]; [|split; auto].
      destruct (verify_message _ _); [split; auto|].
      rewrite save_rolled_back. split; [reflexivity|right; reflexivity]. }
    destruct (gp_body p); auto; split; auto.
  Qed.

  Lemma start_cmd_retry : forall now s b c,
    let r1 := start_cmd joiner_ok key_ok me B now s b c in
    let r2 := start_cmd joiner_ok key_ok me B now (rolled_back s) b c in
    snd r1 = snd r2 /\ match snd r2 with
                       | Ok _ => fst r1 = fst r2
                       | Err _ => (fst r1 = s /\ fst r2 = rolled_back s) \/ fst r1 = fst r2
                       end.
  Proof.
    intros now s b c. destruct c; unfold start_cmd; cbv zeta; rewrite ?save_rolled_back.
    - destruct (do_proposing _ _ _ _ _); simpl; auto.
    - destruct (migration_branch _ _); [simpl; auto|]. destruct (do_proposing _ _ _ _ _); simpl; auto.
    - destruct (1 <? st_epoch b); [destruct f; simpl; auto|]; destruct (do_joined _ _ _ _); simpl; auto.
    - destruct (do_accepted _ _ _); simpl; auto.
    - destruct (do_rejected _ _ _); simpl; auto.
    - destruct (do_start_executing _ _ _); [|simpl; auto]. rewrite save_rolled_back.
      destruct (exec_setup _ _ _); simpl; auto.
    - destruct (do_start_abort _); simpl; auto.
    - simpl; auto.
  Qed.

  Lemma command_retry : forall now s c, inv s -> is_terminal (st_state (get_current B s)) = true ->
    same_result s (rolled_back s)
      (command_step joiner_ok key_ok me B now s c)
      (command_step joiner_ok key_ok me B now (rolled_back s) c).
  Proof.
    intros now s c I T. unfold command_step.
    destruct (c_md c); [|split; auto]. destruct (negb (bytes_eqb _ _)); [split; auto|].
    rewrite (eff_rolled_back s I T).
    pose proof (start_cmd_retry now s (effective B s) (c_body c)) as R. cbv zeta in R.
    destruct (start_cmd joiner_ok key_ok me B now s (effective B s) (c_body c)) as [s1 r1].
    destruct (start_cmd joiner_ok key_ok me B now (rolled_back s) (effective B s) (c_body c)) as [s2 r2].
    simpl in R. destruct R as [-> R].
    destruct r2 as [[after g]|e]; [|split; auto].
    destruct g; [|subst s1; split; auto].
    subst s1.
    destruct (is_empty _ && is_empty _); destruct (is_proposal_cmd _ && _); split; auto.
  Qed.
End Proc2.

(* ---------- rejection rules of ValidateProposal (one lemma per rule) ---------- *)
Section Reject.
  Variable joiner_ok : bytes -> participant -> bool.
  Notation vp := (validate_proposal joiner_ok).

  Lemma vfa_some : forall now d t e, validate_for_all_dkgs joiner_ok now d (Some t) = Some e -> vp now d (Some t) <> None.
  Proof. unfold validate_proposal; intros now d t e H; rewrite H; discriminate. Qed.

  Lemma vp_needs_epoch : forall now d t, validate_epoch d t <> None -> vp now d (Some t) <> None.
  Proof. intros now d t H C. apply H. eapply validate_proposal_epoch; eassumption. Qed.

  (* stale epoch: below the node's epoch, in every state *)
  Lemma reject_stale_epoch : forall now d t, t_epoch t < st_epoch d -> vp now d (Some t) <> None.
  Proof.
    intros now d t H. apply vp_needs_epoch. unfold validate_epoch.
    apply Z.ltb_lt in H; rewrite H; discriminate.
  Qed.

  (* the same epoch again is refused unless the state is Aborted / TimedOut / Failed *)
  Lemma reject_same_epoch : forall now d t, t_epoch t = st_epoch d -> is_terminal (st_state d) = false -> vp now d (Some t) <> None.
  Proof.
    intros now d t H T C. apply validate_proposal_epoch in C. apply validate_epoch_strict in C; auto. lia.
  Qed.

  (* skipping an epoch is refused unless the node is Fresh or has Left *)
  Lemma reject_epoch_skip : forall now d t, u32_succ (st_epoch d) < t_epoch t -> st_state d <> Left -> st_state d <> Fresh ->
    vp now d (Some t) <> None.
  Proof.
    intros now d t H L F C. apply validate_proposal_epoch in C. apply validate_epoch_next in C; auto. lia.
  Qed.

  (* nil terms *)
  Lemma reject_nil_terms : forall now d, vp now d None = Some EMissingTerms.
  Proof. reflexivity. Qed.

  Lemma reject_wrong_beacon : forall now d t, st_beacon d <> t_beacon t -> vp now d (Some t) <> None.
  Proof.
    intros now d t H. unfold validate_proposal, validate_for_all_dkgs.
    destruct (bytes_eqb (st_beacon d) (t_beacon t)) eqn:E; simpl; [|discriminate].
    exfalso; apply H. apply bytes_eqb_eq; assumption.
  Qed.

  Lemma reject_unknown_scheme : forall now d t, scheme_known (t_scheme t) = false -> vp now d (Some t) <> None.
  Proof.
    intros now d t H. unfold validate_proposal, validate_for_all_dkgs.
    destruct (negb (bytes_eqb _ _)); [discriminate|]. rewrite H; discriminate.
  Qed.

  Lemma reject_bad_joiner_signature : forall now d t j, In j (t_joining t) -> joiner_ok (t_scheme t) j = false ->
    vp now d (Some t) <> None.
  Proof.
    intros now d t j Hin H. unfold validate_proposal, validate_for_all_dkgs.
    destruct (negb (bytes_eqb _ _)); [discriminate|]. destruct (negb (scheme_known _)); [discriminate|].
    assert (F : forallb (joiner_ok (t_scheme t)) (t_joining t) = false).
    { destruct (forallb _ _) eqn:E; auto. rewrite forallb_forall in E. rewrite (E j Hin) in H; discriminate. }
    rewrite F; discriminate.
  Qed.

  Lemma reject_expired : forall now d t, t_timeout t < now -> vp now d (Some t) <> None.
  Proof.
    intros now d t H. unfold validate_proposal, validate_for_all_dkgs.
    destruct (negb (bytes_eqb _ _)); [discriminate|]. destruct (negb (scheme_known _)); [discriminate|].
    destruct (negb (forallb _ _)); [discriminate|]. apply Z.ltb_lt in H; rewrite H; discriminate.
  Qed.

  Lemma reject_threshold_above_node_count : forall now d t,
    len (t_joining t) + len (t_remaining t) < t_threshold t -> vp now d (Some t) <> None.
  Proof.
    intros now d t H. unfold validate_proposal, validate_for_all_dkgs.
    destruct (negb (bytes_eqb _ _)); [discriminate|]. destruct (negb (scheme_known _)); [discriminate|].
    destruct (negb (forallb _ _)); [discriminate|]. destruct (t_timeout t <? now); [discriminate|].
    apply Z.ltb_lt in H; rewrite H; discriminate.
  Qed.

  Lemma reject_threshold_below_minimum : forall now d t,
    t_threshold t < minimum_t (len (t_joining t) + len (t_remaining t)) -> vp now d (Some t) <> None.
  Proof.
    intros now d t H. unfold validate_proposal, validate_for_all_dkgs.
    destruct (negb (bytes_eqb _ _)); [discriminate|]. destruct (negb (scheme_known _)); [discriminate|].
    destruct (negb (forallb _ _)); [discriminate|]. destruct (t_timeout t <? now); [discriminate|].
    destruct (_ <? t_threshold t); [discriminate|].
    apply Z.ltb_lt in H; rewrite H; discriminate.
  Qed.

  (* the remainer rules: applied whenever the node's base state is not Fresh and the proposal is
     not an epoch-1 proposal (which a non-Fresh node refuses by the epoch rule anyway) *)
  Lemma vp_remainer : forall now d t, st_state d <> Fresh -> t_epoch t <> 1 ->
    validate_reshare_for_remainers d t <> None -> vp now d (Some t) <> None.
  Proof.
    intros now d t F E H. unfold validate_proposal.
    destruct (validate_for_all_dkgs joiner_ok now d (Some t)); [discriminate|].
    apply Z.eqb_neq in E; rewrite E.
    destruct (validate_reshare_terms d t); [discriminate|].
    apply status_eqb_neq in F; rewrite F; simpl. assumption.
  Qed.

  Lemma reject_genesis_time_change : forall now d t, st_state d <> Fresh -> t_epoch t <> 1 ->
    unix (t_genesis_time t) <> unix (st_genesis_time d) -> vp now d (Some t) <> None.
  Proof.
    intros now d t F E H. apply vp_remainer; auto. unfold validate_reshare_for_remainers.
    apply Z.eqb_neq in H; rewrite H; discriminate.
  Qed.

  Lemma reject_genesis_seed_change : forall now d t, st_state d <> Fresh -> t_epoch t <> 1 ->
    t_genesis_seed t <> st_genesis_seed d -> vp now d (Some t) <> None.
  Proof.
    intros now d t F E H. apply vp_remainer; auto. unfold validate_reshare_for_remainers.
    destruct (negb (_ =? _)); [discriminate|].
    destruct (bytes_eqb (t_genesis_seed t) (st_genesis_seed d)) eqn:Q; [apply bytes_eqb_eq in Q; contradiction|discriminate].
  Qed.

  Lemma contains_all_ak_false : forall hay needles n, In n needles -> has_addr_key hay n = false -> contains_all_ak hay needles = false.
  Proof.
    intros hay needles n Hin H. unfold contains_all_ak. destruct (forallb _ _) eqn:E; auto.
    rewrite forallb_forall in E. rewrite (E n Hin) in H. discriminate.
  Qed.

  (* no participant with that address at all implies no participant with that address and key *)
  Lemma has_addr_key_addr : forall hay n, has_addr hay (p_addr n) = false -> has_addr_key hay n = false.
  Proof.
    unfold has_addr, has_addr_key. induction hay as [|v hay IH]; simpl; intros n H; auto.
    apply orb_false_elim in H. destruct H as [H1 H2]. rewrite H1. simpl. apply IH; assumption.
  Qed.

  (* a proposal that INVENTS a current member, or keeps a member's address under ANOTHER KEY: some
     remaining/leaving participant has no node with the same address and key in the group *)
  Lemma reject_invented_member : forall now d t g n, st_state d <> Fresh -> t_epoch t <> 1 ->
    st_final_group d = Some g -> In n (t_remaining t ++ t_leaving t) -> has_addr_key (g_nodes g) n = false ->
    vp now d (Some t) <> None.
  Proof.
    intros now d t g n F E G Hin H. apply vp_remainer; auto. unfold validate_reshare_for_remainers.
    destruct (negb (_ =? _)); [discriminate|]. destruct (negb (bytes_eqb _ _)); [discriminate|].
    rewrite G. rewrite (contains_all_ak_false _ _ n Hin H). discriminate.
  Qed.

  (* a proposal that DROPS a current member: some group node is neither remaining nor leaving (with
     its address and key) *)
  Lemma reject_dropped_member : forall now d t g n, st_state d <> Fresh -> t_epoch t <> 1 ->
    st_final_group d = Some g -> In n (g_nodes g) -> has_addr_key (t_remaining t ++ t_leaving t) n = false ->
    vp now d (Some t) <> None.
  Proof.
    intros now d t g n F E G Hin H. apply vp_remainer; auto. unfold validate_reshare_for_remainers.
    destruct (negb (_ =? _)); [discriminate|]. destruct (negb (bytes_eqb _ _)); [discriminate|].
    rewrite G. destruct (negb (contains_all_ak (g_nodes g) _)); [discriminate|].
    rewrite (contains_all_ak_false _ _ n Hin H). discriminate.
  Qed.

  (* F13b (fixed): a non-Fresh base state without FinalGroup (state Left reached from Proposed) used to
     make the remainer check dereference nil; it now refuses the proposal with an error *)
  Lemma left_state_refuses : forall now d t,
    st_state d <> Fresh -> st_final_group d = None -> t_epoch t <> 1 ->
    vp now d (Some t) <> None.
  Proof.
    intros now d t F G E. apply vp_remainer; auto. unfold validate_reshare_for_remainers.
    destruct (negb (_ =? _)); [discriminate|]. destruct (negb (bytes_eqb _ _)); [discriminate|].
    rewrite G. discriminate.
  Qed.

  Lemma left_state_error : forall now d t,
    st_state d <> Fresh -> st_final_group d = None -> t_epoch t <> 1 ->
    validate_for_all_dkgs joiner_ok now d (Some t) = None -> validate_reshare_terms d t = None ->
    unix (t_genesis_time t) = unix (st_genesis_time d) -> t_genesis_seed t = st_genesis_seed d ->
    vp now d (Some t) = Some EMissingPreviousGroup.
  Proof.
    intros now d t F G E V R GT GS. unfold validate_proposal. rewrite V.
    apply Z.eqb_neq in E; rewrite E. rewrite R. apply status_eqb_neq in F; rewrite F; simpl.
    unfold validate_reshare_for_remainers. rewrite GT, Z.eqb_refl. simpl.
    rewrite GS. assert (Q : bytes_eqb (st_genesis_seed d) (st_genesis_seed d) = true) by (apply bytes_eqb_eq; reflexivity).
    rewrite Q; simpl. rewrite G. reflexivity.
  Qed.
End Reject.

(* ---------- whole histories ---------- *)
Section Histories.
  Variable joiner_ok : bytes -> participant -> bool.
  Variable key_ok : bytes -> bool.
  Variable verify_message : gpacket -> terms -> option err.
  Variable me : participant.
  Variable B : bytes.
  Notation pstep := (step joiner_ok key_ok verify_message me B).

  (* the stores after each event of a history *)
  Fixpoint trace (s : store) (h : list (Z * event)) : list store :=
    match h with
    | [] => []
    | e :: h' => let s' := fst (pstep s e) in s' :: trace s' h'
    end.

  (* R holds between every two consecutive stores *)
  Fixpoint chain (R : store -> store -> Prop) (s : store) (l : list store) : Prop :=
    match l with
    | [] => True
    | s' :: l' => R s s' /\ chain R s' l'
    end.

  Lemma chain_steps : forall (R : store -> store -> Prop),
    (forall s e, inv s -> R s (fst (pstep s e))) ->
    forall h s, inv s -> chain R s (trace s h).
  Proof.
    intros R HR. induction h as [|e h IH]; simpl; intros s I; auto.
    split; [apply HR; assumption|]. apply IH. apply step_inv; assumption.
  Qed.

  (* a step-indexed variant: the relation may mention the event *)
  Definition legal_edge (s s' : store) : Prop :=
    let a := st_state (get_current B s) in
    let b := st_state (get_current B s') in
    a = b \/ valid_change a b = true
    \/ (is_terminal a = true
        /\ ((exists f, finished s = Some f /\ st_state f = Complete /\ valid_change Complete b = true)
            \/ (finished s = None /\ valid_change Fresh b = true))).

  Lemma step_legal_edge : forall s e, inv s -> legal_edge s (fst (pstep s e)).
  Proof.
    intros s e I. destruct (pstep s e) as [s' o] eqn:H. simpl.
    destruct (step_legal _ _ _ _ _ _ _ _ _ I H) as [Q|Q]; unfold legal_edge; [left; auto|].
    destruct e as [now ev]; simpl in Q. unfold base_of in Q.
    assert (EFF : valid_change (st_state (effective B s)) (st_state (get_current B s')) = true ->
                  legal_edge s s').
    { intros V. unfold legal_edge. destruct (eff_cases B s) as [[_ E] | [T _]]; [rewrite E in V; auto|].
      right; right; split; auto.
      destruct (fallback_base B s I T) as [[f [F [E S]]] | [F E]]; rewrite E in V.
      - left; exists f; rewrite S in V; auto.
      - right; auto. }
    destruct ev; [apply EFF; exact Q|apply EFF; exact Q|right; left; exact Q].
  Qed.

  Definition finished_edge (s s' : store) : Prop :=
    finished s' = finished s
    \/ (exists d, finished s' = Some d /\ current s' = Some d /\ st_state d = Complete
          /\ st_final_group d <> None /\ st_key_share d <> None
          /\ st_state (get_current B s) = Executing
          /\ (forall f, finished s = Some f -> st_epoch f < st_epoch d)).

  Lemma step_finished_edge : forall s e, inv s -> finished_edge s (fst (pstep s e)).
  Proof.
    intros s e I. destruct (pstep s e) as [s' o] eqn:H. simpl.
    destruct (step_finished _ _ _ _ _ _ _ _ _ I H) as [Q|(g & sh & d & _ & _ & F & C & S & G & K & X & _ & L)]; [left; auto|].
    right; exists d. repeat split; auto; congruence.
  Qed.

  Definition epoch_edge (s s' : store) : Prop :=
    st_epoch (get_current B s) <= st_epoch (get_current B s')
    \/ (is_terminal (st_state (get_current B s)) = true /\ st_epoch (effective B s) < st_epoch (get_current B s')).

  Lemma step_epoch_edge : forall s e, inv s -> epoch_edge s (fst (pstep s e)).
  Proof.
    intros s e I. destruct (pstep s e) as [s' o] eqn:H. simpl. eapply step_epoch; eassumption.
  Qed.

  (* members: histories that never visit Left *)
  Fixpoint never_left (s : store) (l : list store) : Prop :=
    st_state (get_current B s) <> Left /\ match l with [] => True | s' :: l' => never_left s' l' end.

  Definition member_edge (s s' : store) : Prop :=
    tight s' /\ st_epoch (get_current B s) <= st_epoch (get_current B s').

  Lemma members_chain : forall h s, inv s -> tight s -> never_left s (trace s h) -> chain member_edge s (trace s h).
  Proof.
    induction h as [|e h IH]; simpl; intros s I T NL; auto.
    destruct NL as [N NL]. destruct (pstep s e) as [s' o] eqn:H. simpl in *.
    destruct (step_tight _ _ _ _ _ _ _ _ _ I T N H) as [T' E].
    split; [split; assumption|]. apply IH; auto.
    pose proof (step_inv joiner_ok key_ok verify_message me B s e I) as I'. rewrite H in I'. exact I'.
  Qed.
End Histories.
