(* Proofs about Model/Cache.v (property C12): structural invariants for every operation list,
   isolation by signer index, bounds when round caches are not shared between signers, the store
   window, and stability of a victim's entries. *)
From Coq Require Import ZArith List Bool Lia.
From DV Require Import Model.Cache.
Import ListNotations.
Open Scope Z_scope.


Lemma bytes_eqb_eq a b : bytes_eqb a b = true <-> a = b.
Proof.
  revert b; induction a as [|x a IH]; destruct b as [|y b]; simpl; split; intro H; try congruence; try discriminate.
  - apply andb_true_iff in H as [H1 H2]. apply Z.eqb_eq in H1. apply IH in H2. congruence.
  - inversion H; subst. rewrite Z.eqb_refl. simpl. apply IH. reflexivity.
Qed.
Lemma cid_eqb_eq a b : cid_eqb a b = true <-> a = b.
Proof.
  unfold cid_eqb. destruct a as [r p], b as [r' p']; simpl. rewrite andb_true_iff, Z.eqb_eq, bytes_eqb_eq.
  split; [intros [-> ->]; reflexivity | intros H; inversion H; auto].
Qed.
Lemma cid_eqb_refl a : cid_eqb a a = true. Proof. apply cid_eqb_eq; reflexivity. Qed.
Lemma cid_eqb_neq a b : a <> b -> cid_eqb a b = false.
Proof. intro H. destruct (cid_eqb a b) eqn:E; auto. apply cid_eqb_eq in E. contradiction. Qed.
Lemma cid_eq_dec (a b : cid) : {a = b} + {a <> b}.
Proof. destruct (cid_eqb a b) eqn:E; [left; apply cid_eqb_eq; auto | right; intro H; apply cid_eqb_eq in H; congruence]. Qed.

Lemma zmem_In x l : zmem x l = true <-> In x l.
Proof.
  induction l as [|y l IH]; simpl; [split; [discriminate|tauto]|].
  rewrite orb_true_iff, Z.eqb_eq, IH. split; intros [H|H]; auto.
Qed.
Lemma zmem_app x a b : zmem x (a ++ b) = zmem x a || zmem x b.
Proof. induction a; simpl; auto. rewrite IHa. apply orb_assoc. Qed.
Lemma zmem_zremove x y l : zmem x (zremove y l) = negb (x =? y) && zmem x l.
Proof.
  induction l as [|z l IH]; simpl; [rewrite andb_false_r; auto|].
  destruct (y =? z) eqn:E.
  - apply Z.eqb_eq in E; subst z. rewrite IH. destruct (x =? y); simpl; auto.
  - simpl. rewrite IH. destruct (x =? y) eqn:E2; simpl; auto.
    apply Z.eqb_eq in E2; subst. rewrite E. auto.
Qed.

Definition b2n (b : bool) : nat := if b then 1%nat else 0%nat.

Section AL.
  Context {K V : Type} (eqb : K -> K -> bool).
  Hypothesis eqb_eq : forall a b, eqb a b = true <-> a = b.
  Lemma eqb_rfl a : eqb a a = true. Proof. apply eqb_eq; auto. Qed.
  Lemma eqb_nq a b : a <> b -> eqb a b = false.
  Proof. intro H. destruct (eqb a b) eqn:E; auto. apply eqb_eq in E; contradiction. Qed.

  Lemma aget_aset_same k v (l : list (K*V)) : aget eqb k (aset eqb k v l) = Some v.
  Proof.
    induction l as [|[k' v'] l IH]; simpl; [rewrite eqb_rfl; auto|].
    destruct (eqb k k') eqn:E; simpl; [rewrite eqb_rfl; auto | rewrite E; auto].
  Qed.
  Lemma aget_aset_other k k' v (l : list (K*V)) : k' <> k -> aget eqb k' (aset eqb k v l) = aget eqb k' l.
  Proof.
    intro N. induction l as [|[k2 v2] l IH]; simpl.
    - rewrite eqb_nq; auto.
    - destruct (eqb k k2) eqn:E; simpl.
      + apply eqb_eq in E; subst k2. rewrite eqb_nq; auto.
      + rewrite IH; auto.
  Qed.
  Lemma aget_adel_same k (l : list (K*V)) : aget eqb k (adel eqb k l) = None.
  Proof.
    induction l as [|[k' v'] l IH]; simpl; auto.
    destruct (eqb k k') eqn:E; simpl; auto. rewrite E; auto.
  Qed.
  Lemma aget_adel_other k k' (l : list (K*V)) : k' <> k -> aget eqb k' (adel eqb k l) = aget eqb k' l.
  Proof.
    intro N. induction l as [|[k2 v2] l IH]; simpl; auto.
    destruct (eqb k k2) eqn:E; simpl.
    - apply eqb_eq in E; subst k2. rewrite eqb_nq; auto.
    - rewrite IH; auto.
  Qed.
  Lemma aget_In k v (l : list (K*V)) : aget eqb k l = Some v -> In (k, v) l.
  Proof.
    induction l as [|[k' v'] l IH]; simpl; [discriminate|].
    destruct (eqb k k') eqn:E; [apply eqb_eq in E; subst; intro H; inversion H; auto | auto].
  Qed.
  Lemma aget_None_notin k (l : list (K*V)) : aget eqb k l = None <-> ~ In k (map fst l).
  Proof.
    induction l as [|[k' v'] l IH]; simpl; [tauto|].
    destruct (eqb k k') eqn:E.
    - apply eqb_eq in E; subst. split; [discriminate | intro H; exfalso; apply H; auto].
    - rewrite IH. split; [intros H [H1|H1]; [subst; rewrite eqb_rfl in E; discriminate | auto] | tauto].
  Qed.
  Lemma In_aget k v (l : list (K*V)) : NoDup (map fst l) -> In (k, v) l -> aget eqb k l = Some v.
  Proof.
    induction l as [|[k' v'] l IH]; simpl; [tauto|].
    intros ND [H|H].
    - inversion H; subst. rewrite eqb_rfl; auto.
    - inversion ND; subst. destruct (eqb k k') eqn:E.
      + apply eqb_eq in E; subst. exfalso. apply H2. change k' with (fst (k', v)). apply in_map; auto.
      + auto.
  Qed.
  Lemma keys_aset k v (l : list (K*V)) k' :
    In k' (map fst (aset eqb k v l)) <-> k' = k \/ In k' (map fst l).
  Proof.
    induction l as [|[k2 v2] l IH]; simpl; [intuition|].
    destruct (eqb k k2) eqn:E; simpl.
    - apply eqb_eq in E; subst. intuition.
    - rewrite IH. intuition.
  Qed.
  Lemma keys_adel k (l : list (K*V)) k' :
    In k' (map fst (adel eqb k l)) <-> k' <> k /\ In k' (map fst l).
  Proof.
    induction l as [|[k2 v2] l IH]; simpl; [intuition|].
    destruct (eqb k k2) eqn:E; simpl.
    - apply eqb_eq in E; subst. rewrite IH. intuition congruence.
    - rewrite IH. split.
      + intros [H|H]; [subst; split; auto; intro; subst; rewrite eqb_rfl in E; discriminate | tauto].
      + tauto.
  Qed.
  Lemma nodup_aset k v (l : list (K*V)) : NoDup (map fst l) -> NoDup (map fst (aset eqb k v l)).
  Proof.
    induction l as [|[k2 v2] l IH]; simpl; intro ND.
    - constructor; [intros []|constructor].
    - inversion ND; subst. destruct (eqb k k2) eqn:E; simpl.
      + apply eqb_eq in E; subst. constructor; auto.
      + constructor; auto. rewrite keys_aset. intros [H|H]; [subst; rewrite eqb_rfl in E; discriminate | auto].
  Qed.
  Lemma nodup_adel k (l : list (K*V)) : NoDup (map fst l) -> NoDup (map fst (adel eqb k l)).
  Proof.
    induction l as [|[k2 v2] l IH]; simpl; intro ND; auto.
    inversion ND; subst. destruct (eqb k k2) eqn:E; simpl; auto.
    constructor; auto. rewrite keys_adel. tauto.
  Qed.

  (* counting entries that satisfy a predicate *)
  Definition cnt (P : K * V -> bool) (l : list (K*V)) : nat := length (filter P l).
  Lemma cnt_aset_new P k v (l : list (K*V)) : aget eqb k l = None ->
    cnt P (aset eqb k v l) = (cnt P l + b2n (P (k, v)))%nat.
  Proof.
    unfold cnt. induction l as [|[k2 v2] l IH]; simpl; intro H.
    - destruct (P (k, v)); auto.
    - destruct (eqb k k2) eqn:E; [discriminate|]. simpl. destruct (P (k2, v2)); simpl; rewrite IH; auto.
  Qed.
  Lemma cnt_aset_old P k v v0 (l : list (K*V)) : NoDup (map fst l) -> aget eqb k l = Some v0 ->
    (cnt P (aset eqb k v l) + b2n (P (k, v0)) = cnt P l + b2n (P (k, v)))%nat.
  Proof.
    unfold cnt. induction l as [|[k2 v2] l IH]; simpl; intros ND H; [discriminate|].
    inversion ND; subst. destruct (eqb k k2) eqn:E.
    - apply eqb_eq in E; subst k2. inversion H; subst v2. simpl.
      destruct (P (k, v)), (P (k, v0)); simpl; lia.
    - simpl. destruct (P (k2, v2)); simpl; specialize (IH H3 H); lia.
  Qed.
  Lemma adel_absent k (l : list (K*V)) : aget eqb k l = None -> adel eqb k l = l.
  Proof.
    induction l as [|[k2 v2] l IH]; simpl; auto.
    destruct (eqb k k2) eqn:E; [discriminate|]. intro H. rewrite IH; auto.
  Qed.
  Lemma cnt_adel P k v0 (l : list (K*V)) : NoDup (map fst l) -> aget eqb k l = Some v0 ->
    (cnt P (adel eqb k l) + b2n (P (k, v0)) = cnt P l)%nat.
  Proof.
    unfold cnt. induction l as [|[k2 v2] l IH]; simpl; intros ND H; [discriminate|].
    inversion ND; subst. destruct (eqb k k2) eqn:E.
    - apply eqb_eq in E; subst k2. inversion H; subst v2.
      assert (aget eqb k l = None) by (apply aget_None_notin; auto).
      rewrite adel_absent; auto. destruct (P (k, v0)); simpl; lia.
    - simpl. destruct (P (k2, v2)); simpl; specialize (IH H3 H); lia.
  Qed.
  Lemma len_aset_new k v (l : list (K*V)) : aget eqb k l = None -> length (aset eqb k v l) = S (length l).
  Proof.
    induction l as [|[k2 v2] l IH]; simpl; auto.
    destruct (eqb k k2) eqn:E; [discriminate|]. intro H. simpl. rewrite IH; auto.
  Qed.
End AL.


Lemma zeqb_eq : forall a b, Z.eqb a b = true <-> a = b. Proof. exact Z.eqb_eq. Qed.

Lemma sigs_aset k v R X id' :
  sigs_of (mkPC (aset cid_eqb k v R) X) id' = if cid_eqb id' k then Some v else aget cid_eqb id' R.
Proof.
  unfold sigs_of; simpl. destruct (cid_eqb id' k) eqn:E.
  - apply cid_eqb_eq in E; subst. apply (aget_aset_same cid_eqb cid_eqb_eq).
  - apply (aget_aset_other cid_eqb cid_eqb_eq). intro H; subst. rewrite cid_eqb_refl in E; discriminate.
Qed.
Lemma sigs_adel k R X id' :
  sigs_of (mkPC (adel cid_eqb k R) X) id' = if cid_eqb id' k then None else aget cid_eqb id' R.
Proof.
  unfold sigs_of; simpl. destruct (cid_eqb id' k) eqn:E.
  - apply cid_eqb_eq in E; subst. apply (aget_adel_same cid_eqb).
  - apply (aget_adel_other cid_eqb cid_eqb_eq). intro H; subst. rewrite cid_eqb_refl in E; discriminate.
Qed.
Lemma rcvd_aset k l R X j :
  rcvd_of (mkPC R (aset Z.eqb k l X)) j = if j =? k then l else rcvd_of (mkPC R X) j.
Proof.
  unfold rcvd_of; simpl. destruct (j =? k) eqn:E.
  - apply Z.eqb_eq in E; subst. rewrite (aget_aset_same Z.eqb zeqb_eq). auto.
  - rewrite (aget_aset_other Z.eqb zeqb_eq); auto. intro; subst. rewrite Z.eqb_refl in E; discriminate.
Qed.
Lemma rcvd_rounds_irrel R R' X j : rcvd_of (mkPC R X) j = rcvd_of (mkPC R' X) j.
Proof. reflexivity. Qed.

(* the four ways Append can go, at the level of the two views *)
Inductive app_case (cap : Z) (c : pcache) (idx : Z) (id : cid) (c' : pcache) (e : cerr) : Prop :=
| AC_noop : c' = c -> app_case cap c idx id c' e
| AC_join sigs :
    sigs_of c id = Some sigs -> zmem idx sigs = false -> e = COk ->
    rounds c' = aset cid_eqb id (sigs ++ [idx]) (rounds c) ->
    rcvd c' = aset Z.eqb idx (rcvd_of c idx ++ [id]) (rcvd c) ->
    (forall id', sigs_of c' id' = if cid_eqb id' id then Some (sigs ++ [idx]) else sigs_of c id') ->
    (forall j, rcvd_of c' j = if j =? idx then rcvd_of c idx ++ [id] else rcvd_of c j) ->
    app_case cap c idx id c' e
| AC_create :
    sigs_of c id = None -> Z.of_nat (length (rcvd_of c idx)) < cap -> e = COk ->
    rounds c' = aset cid_eqb id [idx] (rounds c) ->
    rcvd c' = aset Z.eqb idx (rcvd_of c idx ++ [id]) (rcvd c) ->
    (forall id', sigs_of c' id' = if cid_eqb id' id then Some [idx] else sigs_of c id') ->
    (forall j, rcvd_of c' j = if j =? idx then rcvd_of c idx ++ [id] else rcvd_of c j) ->
    app_case cap c idx id c' e
| AC_evict h t hs :
    sigs_of c id = None -> cap <= Z.of_nat (length (rcvd_of c idx)) -> e = COk ->
    rcvd_of c idx = h :: t -> sigs_of c h = Some hs -> h <> id ->
    rounds c' = aset cid_eqb id [idx]
                  (if is_nil (zremove idx hs) then adel cid_eqb h (rounds c)
                   else aset cid_eqb h (zremove idx hs) (rounds c)) ->
    rcvd c' = aset Z.eqb idx ((t ++ [id]) ++ [id]) (rcvd c) ->
    (forall id', sigs_of c' id' =
       if cid_eqb id' id then Some [idx]
       else if cid_eqb id' h then (if is_nil (zremove idx hs) then None else Some (zremove idx hs))
       else sigs_of c id') ->
    (forall j, rcvd_of c' j = if j =? idx then (t ++ [id]) ++ [id] else rcvd_of c j) ->
    app_case cap c idx id c' e.

Lemma pc_append_cases cap c idx id c' e :
  pc_append cap c idx id = (c', e) -> app_case cap c idx id c' e.
Proof.
  unfold pc_append. destruct (sigs_of c id) as [sigs|] eqn:Hs.
  - destruct (zmem idx sigs) eqn:Hm; intro H; inversion H; subst.
    + apply AC_noop; auto.
    + apply (AC_join _ _ _ _ _ _ sigs); auto.
      * intro id'. rewrite sigs_aset. reflexivity.
      * intro j. rewrite rcvd_aset. destruct c; reflexivity.
  - destruct (cap <=? Z.of_nat (length (rcvd_of c idx))) eqn:Hc.
    + apply Z.leb_le in Hc. destruct (rcvd_of c idx) as [|h t] eqn:HL.
      * intro H; inversion H; subst. apply AC_noop; auto.
      * destruct (sigs_of c h) as [hs|] eqn:Hh; intro H; inversion H; subst.
        2:{ apply AC_noop; auto. }
        assert (Hne : h <> id) by (intro; subst; congruence).
        apply (AC_evict _ _ _ _ _ _ h t hs); auto.
        -- rewrite HL; auto.
        -- intro id'. rewrite sigs_aset. destruct (cid_eqb id' id) eqn:E1; auto.
           destruct (is_nil (zremove idx hs)).
           ++ pose proof (sigs_adel h (rounds c) [] id') as Q; unfold sigs_of in Q; simpl in Q; rewrite Q. reflexivity.
           ++ pose proof (sigs_aset h (zremove idx hs) (rounds c) [] id') as Q; unfold sigs_of in Q; simpl in Q; rewrite Q. reflexivity.
        -- intro j. rewrite rcvd_aset. destruct c; reflexivity.
    + apply Z.leb_gt in Hc. intro H; inversion H; subst.
      apply AC_create; auto.
      * intro id'. rewrite sigs_aset. reflexivity.
      * intro j. rewrite rcvd_aset. destruct c; reflexivity.
Qed.


Lemma aget_filter_key (p : cid -> bool) (l : list (cid * list Z)) k :
  aget cid_eqb k (filter (fun e => p (fst e)) l) = if p k then aget cid_eqb k l else None.
Proof.
  induction l as [|[k' v] l IH]; simpl; [destruct (p k); auto|].
  destruct (p k') eqn:Ep; simpl.
  - destruct (cid_eqb k k') eqn:E.
    + apply cid_eqb_eq in E; subst. rewrite Ep. auto.
    + exact IH.
  - destruct (cid_eqb k k') eqn:E.
    + apply cid_eqb_eq in E; subst. rewrite Ep in *. exact IH.
    + exact IH.
Qed.

Lemma sigs_flush c r id : sigs_of (pc_flush c r) id = if fst id <=? r then None else sigs_of c id.
Proof.
  unfold sigs_of, pc_flush; simpl.
  rewrite (aget_filter_key (fun k => negb (fst k <=? r))). destruct (fst id <=? r); auto.
Qed.

Lemma flushed_spec c r x j :
  flushed c r x j = true <-> exists sigs, In (x, sigs) (rounds c) /\ fst x <= r /\ zmem j sigs = true.
Proof.
  unfold flushed. rewrite existsb_exists. split.
  - intros [[k v] [Hin H]]. simpl in H. apply andb_true_iff in H as [H H3]. apply andb_true_iff in H as [H1 H2].
    apply cid_eqb_eq in H1; subst k. apply Z.leb_le in H2. exists v; auto.
  - intros [sigs [Hin [H1 H2]]]. exists (x, sigs). split; auto. simpl.
    rewrite cid_eqb_refl, H2. apply Z.leb_le in H1. rewrite H1. auto.
Qed.
Lemma flushed_cached c r x j : flushed c r x j = true -> sigs_of c x <> None.
Proof.
  rewrite flushed_spec. intros [sigs [Hin _]] H.
  apply (aget_None_notin cid_eqb cid_eqb_eq) in H. apply H.
  change x with (fst (x, sigs)). apply in_map; auto.
Qed.

Lemma rcvd_flush_aux (f : Z -> list cid -> list cid) (l : list (Z * list cid)) j :
  NoDup (map fst l) -> (forall k, f k [] = []) ->
  match aget Z.eqb j (filter (fun e => negb (is_nil (snd e))) (map (fun e => (fst e, f (fst e) (snd e))) l)) with
  | Some v => v | None => [] end =
  f j (match aget Z.eqb j l with Some v => v | None => [] end).
Proof.
  intros ND Hf. induction l as [|[k v] l IH]; simpl; [rewrite Hf; auto|].
  inversion ND; subst. destruct (j =? k) eqn:E.
  - apply Z.eqb_eq in E; subst k. destruct (f j v) eqn:Ef; simpl.
    + (* dropped: the rest has no key j *)
      assert (aget Z.eqb j l = None) by (apply (aget_None_notin Z.eqb zeqb_eq); auto).
      rewrite IH; auto. rewrite H. apply Hf.
    + rewrite Z.eqb_refl. auto.
  - destruct (is_nil (f k v)); simpl; [|rewrite E]; apply IH; auto.
Qed.

Lemma rcvd_flush c r j : NoDup (map fst (rcvd c)) ->
  rcvd_of (pc_flush c r) j = filter (fun x => negb (flushed c r x j)) (rcvd_of c j).
Proof.
  intro ND. unfold rcvd_of, pc_flush; simpl.
  apply (rcvd_flush_aux (fun k l => filter (fun x => negb (flushed c r x k)) l)); auto.
Qed.

Lemma keys_filter_map {A} (g : Z -> A -> A) (p : Z * A -> bool) (l : list (Z * A)) :
  NoDup (map fst l) -> NoDup (map fst (filter p (map (fun e => (fst e, g (fst e) (snd e))) l))).
Proof.
  induction l as [|[k v] l IH]; simpl; intro ND; [constructor|].
  inversion ND; subst. destruct (p (k, g k v)); simpl; auto.
  constructor; auto. intro H. apply H1.
  apply in_map_iff in H as [[k' v'] [E H]]. simpl in E; subst k'.
  apply filter_In in H as [H _]. apply in_map_iff in H as [[k2 v2] [E H]]. inversion E; subst.
  change k with (fst (k, v2)). apply in_map; auto.
Qed.

Lemma nodup_filter_keys {A B} (p : A * B -> bool) (l : list (A * B)) :
  NoDup (map fst l) -> NoDup (map fst (filter p l)).
Proof.
  induction l as [|[k v] l IH]; simpl; intro ND; [constructor|].
  inversion ND; subst. destruct (p (k, v)); simpl; auto.
  constructor; auto. intro H. apply H1. apply in_map_iff in H as [[k' v'] [E H]]. simpl in E; subst.
  apply filter_In in H as [H _]. change k with (fst (k, v')). apply in_map; auto.
Qed.

(* ---- structural invariants that hold for every operation list ---- *)
Record wf (c : pcache) : Prop := {
  wf_keys : NoDup (map fst (rounds c));
  wf_rkeys : NoDup (map fst (rcvd c));
  wf_nonempty : forall id sigs, sigs_of c id = Some sigs -> sigs <> [];
  wf_rcvd : forall id sigs j, sigs_of c id = Some sigs -> zmem j sigs = true -> In id (rcvd_of c j)
}.

Lemma wf_init : wf pc_init.
Proof. split; simpl; try constructor; unfold sigs_of; simpl; discriminate. Qed.

Lemma is_nil_spec {A} (l : list A) : is_nil l = true <-> l = [].
Proof. destruct l; simpl; split; congruence. Qed.

Lemma wf_append cap c idx id c' e : wf c -> pc_append cap c idx id = (c', e) -> wf c'.
Proof.
  intros W H. apply pc_append_cases in H. destruct W as [W1 W2 W3 W4].
  destruct H as [-> | sigs Hs Hm He Hr Hrc Hv Hrv | Hs Hlt He Hr Hrc Hv Hrv | h t hs Hs Hle He HL Hh Hne Hr Hrc Hv Hrv].
  - split; auto.
  - split.
    + rewrite Hr. apply (nodup_aset cid_eqb cid_eqb_eq); auto.
    + rewrite Hrc. apply (nodup_aset Z.eqb zeqb_eq); auto.
    + intros id' s. rewrite Hv. destruct (cid_eqb id' id); [intro Q; inversion Q; destruct sigs; discriminate | apply W3].
    + intros id' s j. rewrite Hv, Hrv. destruct (cid_eqb id' id) eqn:E.
      * apply cid_eqb_eq in E; subst id'. intro Q; inversion Q; subst s. rewrite zmem_app. simpl. rewrite orb_false_r.
        intro M. destruct (j =? idx) eqn:Ej.
        -- apply in_or_app; right; left; auto.
        -- rewrite orb_false_r in M. apply (W4 _ _ _ Hs M).
      * intros Q M. destruct (j =? idx) eqn:Ej.
        -- apply Z.eqb_eq in Ej; subst j. apply in_or_app; left. apply (W4 _ _ _ Q M).
        -- apply (W4 _ _ _ Q M).
  - split.
    + rewrite Hr. apply (nodup_aset cid_eqb cid_eqb_eq); auto.
    + rewrite Hrc. apply (nodup_aset Z.eqb zeqb_eq); auto.
    + intros id' s. rewrite Hv. destruct (cid_eqb id' id); [intro Q; inversion Q; discriminate | apply W3].
    + intros id' s j. rewrite Hv, Hrv. destruct (cid_eqb id' id) eqn:E.
      * apply cid_eqb_eq in E; subst id'. intro Q; inversion Q; subst s. simpl. rewrite orb_false_r. intro M. rewrite M.
        apply in_or_app; right; left; auto.
      * intros Q M. destruct (j =? idx) eqn:Ej.
        -- apply Z.eqb_eq in Ej; subst j. apply in_or_app; left. apply (W4 _ _ _ Q M).
        -- apply (W4 _ _ _ Q M).
  - split.
    + rewrite Hr. apply (nodup_aset cid_eqb cid_eqb_eq).
      destruct (is_nil (zremove idx hs)); [apply (nodup_adel cid_eqb cid_eqb_eq) | apply (nodup_aset cid_eqb cid_eqb_eq)]; auto.
    + rewrite Hrc. apply (nodup_aset Z.eqb zeqb_eq); auto.
    + intros id' s. rewrite Hv. destruct (cid_eqb id' id); [intro Q; inversion Q; discriminate|].
      destruct (cid_eqb id' h); [|apply W3].
      destruct (is_nil (zremove idx hs)) eqn:En; [discriminate|]. intro Q; inversion Q; subst s.
      intro Z0. rewrite Z0 in En. discriminate.
    + intros id' s j. rewrite Hv, Hrv. destruct (cid_eqb id' id) eqn:E.
      * apply cid_eqb_eq in E; subst id'. intro Q; inversion Q; subst s. simpl. rewrite orb_false_r. intro M. rewrite M.
        apply in_or_app; right; left; auto.
      * destruct (cid_eqb id' h) eqn:E2.
        -- apply cid_eqb_eq in E2; subst id'. destruct (is_nil (zremove idx hs)); [discriminate|].
           intro Q; inversion Q; subst s. rewrite zmem_zremove. intro M. apply andb_true_iff in M as [M1 M2].
           apply negb_true_iff in M1. rewrite M1. apply (W4 _ _ _ Hh M2).
        -- intros Q M. destruct (j =? idx) eqn:Ej.
           ++ apply Z.eqb_eq in Ej; subst j. pose proof (W4 _ _ _ Q M) as I. rewrite HL in I.
              destruct I as [I|I]; [subst; rewrite cid_eqb_refl in E2; discriminate|].
              apply in_or_app; left. apply in_or_app; left; auto.
           ++ apply (W4 _ _ _ Q M).
Qed.

Lemma wf_flush c r : wf c -> wf (pc_flush c r).
Proof.
  intros [W1 W2 W3 W4]. split.
  - simpl. apply nodup_filter_keys; auto.
  - simpl. apply (keys_filter_map (fun k l => filter (fun x => negb (flushed c r x k)) l)); auto.
  - intros id s. rewrite sigs_flush. destruct (fst id <=? r); [discriminate | apply W3].
  - intros id s j. rewrite sigs_flush, rcvd_flush; auto. destruct (fst id <=? r) eqn:E; [discriminate|].
    intros Q M. apply filter_In. split; [apply (W4 _ _ _ Q M)|].
    apply negb_true_iff. destruct (flushed c r id j) eqn:F; auto.
    apply flushed_spec in F as [s' [_ [F _]]]. apply Z.leb_gt in E. lia.
Qed.

Lemma wf_step cap c o : wf c -> wf (fst (pc_step cap c o)).
Proof.
  intro W. destruct o as [idx id | id | r]; simpl; auto.
  - destruct (pc_append cap c idx id) as [c' e] eqn:H. simpl. eapply wf_append; eauto.
  - apply wf_flush; auto.
Qed.
Lemma wf_run cap ops : forall c, wf c -> wf (pc_run cap c ops).
Proof. induction ops as [|o t IH]; simpl; auto. intros c W. apply IH. apply wf_step; auto. Qed.


(* ---- isolation by index: one Append on behalf of signer A never removes (j, id') for j <> A;
        holds in every state, for every scheme ---- *)
Lemma isolation_step cap c A id c' e j id' :
  pc_append cap c A id = (c', e) -> j <> A -> has_entry c j id' = true -> has_entry c' j id' = true.
Proof.
  intros H N. apply pc_append_cases in H. unfold has_entry.
  destruct H as [-> | sigs Hs Hm He Hr Hrc Hv Hrv | Hs Hlt He Hr Hrc Hv Hrv | h t hs Hs Hle He HL Hh Hne Hr Hrc Hv Hrv]; auto.
  - rewrite Hv. destruct (cid_eqb id' id) eqn:E; auto. apply cid_eqb_eq in E; subst. rewrite Hs.
    intro M. rewrite zmem_app, M. auto.
  - rewrite Hv. destruct (cid_eqb id' id) eqn:E; auto. apply cid_eqb_eq in E; subst. rewrite Hs. discriminate.
  - rewrite Hv. destruct (cid_eqb id' id) eqn:E.
    + apply cid_eqb_eq in E; subst. rewrite Hs. discriminate.
    + destruct (cid_eqb id' h) eqn:E2; auto. apply cid_eqb_eq in E2; subst. rewrite Hh. intro M.
      assert (M' : zmem j (zremove A hs) = true).
      { rewrite zmem_zremove, M. destruct (j =? A) eqn:EE; auto. apply Z.eqb_eq in EE; contradiction. }
      destruct (zremove A hs); simpl in *; [discriminate | auto].
Qed.

Lemma flush_keeps c r j id : has_entry c j id = true -> r < fst id -> has_entry (pc_flush c r) j id = true.
Proof.
  unfold has_entry. rewrite sigs_flush. intros H L. destruct (fst id <=? r) eqn:E; auto. apply Z.leb_le in E. lia.
Qed.

(* ---- counting ---- *)
Lemma live_count_cnt c j : live_count c j = cnt (fun e => zmem j (snd e)) (rounds c).
Proof. reflexivity. Qed.

Lemma live_le_rcvd c j : wf c -> (live_count c j <= length (rcvd_of c j))%nat.
Proof.
  intros [W1 W2 W3 W4]. unfold live_count.
  rewrite <- (map_length fst). apply NoDup_incl_length.
  - apply nodup_filter_keys; auto.
  - intros id H. apply in_map_iff in H as [[k s] [E H]]. simpl in E; subst k.
    apply filter_In in H as [H M]. simpl in M.
    apply (W4 id s j); auto. apply (In_aget cid_eqb cid_eqb_eq); auto.
Qed.

Lemma cnt_filter_le {K V} (P Q : K * V -> bool) l : (cnt P (filter Q l) <= cnt P l)%nat.
Proof.
  unfold cnt. induction l as [|e l IH]; simpl; auto.
  destruct (Q e); simpl; destruct (P e); simpl; lia.
Qed.

(* ---- doubled lists ---- *)
Definition dbl (D : list cid) : list cid := flat_map (fun x => [x; x]) D.
Lemma dbl_app a b : dbl (a ++ b) = dbl a ++ dbl b.
Proof. unfold dbl. apply flat_map_app. Qed.
Lemma filter_dbl f D : filter f (dbl D) = dbl (filter f D).
Proof. induction D as [|x D IH]; simpl; auto. destruct (f x); simpl; rewrite IH; auto. Qed.
Lemma length_dbl D : length (dbl D) = (2 * length D)%nat.
Proof. induction D; simpl; auto. rewrite IHD. lia. Qed.
Lemma filter_length_le {A} (f : A -> bool) l : (length (filter f l) <= length l)%nat.
Proof. induction l; simpl; auto. destruct (f a); simpl; lia. Qed.

(* ---- bounds when no round cache is shared by two signer indices ---- *)
Section Private.
  Variable cap : Z.
  Hypothesis cap_pos : 0 < cap.
  Variable own : Z -> cid -> Prop.
  Hypothesis own_fun : forall i j id, own i id -> own j id -> i = j.

  Definition shape (c : pcache) (j : Z) : Prop :=
    exists A D, rcvd_of c j = A ++ dbl D /\
      (Z.of_nat (length A + length D) <= cap \/
       (Z.of_nat (length A + length D) = cap + 1 /\ exists h A0, A = h :: A0 /\ sigs_of c h = None)).

  Record pinv (c : pcache) : Prop := {
    pi_wf : wf c;
    pi_single : forall id sigs, sigs_of c id = Some sigs -> exists i, sigs = [i] /\ own i id;
    pi_own : forall j id, In id (rcvd_of c j) -> own j id;
    pi_shape : forall j, shape c j;
    pi_live : forall j, Z.of_nat (live_count c j) <= cap
  }.

  Lemma pinv_init : pinv pc_init.
  Proof.
    split.
    - apply wf_init.
    - unfold sigs_of; simpl; discriminate.
    - unfold rcvd_of; simpl; tauto.
    - intro j. exists [], []. split; auto. left. simpl. lia.
    - intro j. simpl. lia.
  Qed.

  Lemma shape_other c c' j :
    rcvd_of c' j = rcvd_of c j ->
    (forall h, In h (rcvd_of c j) -> sigs_of c h = None -> sigs_of c' h = None) ->
    shape c j -> shape c' j.
  Proof.
    intros E Hs [A [D [HL HC]]]. exists A, D. rewrite E. split; auto.
    destruct HC as [HC | [HC [h [A0 [EA Hn]]]]]; [left; auto|right]. split; auto.
    exists h, A0. split; auto. apply Hs; auto. rewrite HL, EA. left; auto.
  Qed.

  Lemma pinv_append c idx id c' e : pinv c -> own idx id -> pc_append cap c idx id = (c', e) -> pinv c'.
  Proof.
    intros I O H. pose proof (wf_append _ _ _ _ _ _ (pi_wf _ I) H) as W'.
    apply pc_append_cases in H. destruct I as [W S1 S2 S3 S4].
    destruct H as [-> | sigs Hs Hm He Hr Hrc Hv Hrv | Hs Hlt He Hr Hrc Hv Hrv | h t hs Hs Hle He HL Hh Hne Hr Hrc Hv Hrv].
    - split; auto.
    - (* join: impossible, the cache of id can only hold its owner *)
      exfalso. destruct (S1 _ _ Hs) as [i [E Oi]]. subst sigs. rewrite (own_fun _ _ _ Oi O) in Hm.
      simpl in Hm. rewrite Z.eqb_refl in Hm. discriminate.
    - (* create without eviction *)
      split; auto.
      + intros id' s. rewrite Hv. destruct (cid_eqb id' id) eqn:E; [|apply S1].
        apply cid_eqb_eq in E; subst. intro Q; inversion Q. exists idx; auto.
      + intros j id'. rewrite Hrv. destruct (j =? idx) eqn:E; [|apply S2].
        apply Z.eqb_eq in E; subst. intro Q. apply in_app_or in Q as [Q|[Q|[]]]; [apply S2; auto | subst; auto].
      + intro j. destruct (Z.eq_dec j idx) as [->|N].
        * exists (rcvd_of c idx ++ [id]), []. rewrite Hrv, Z.eqb_refl. simpl. rewrite app_nil_r. split; auto.
          left. rewrite app_length. simpl. lia.
        * apply (shape_other c); auto.
          -- rewrite Hrv. destruct (j =? idx) eqn:E; auto. apply Z.eqb_eq in E; contradiction.
          -- intros h Hin Hn. rewrite Hv. destruct (cid_eqb h id) eqn:E; auto.
             apply cid_eqb_eq in E; subst. exfalso. apply N. apply (own_fun _ _ id); auto.
      + intro j. rewrite live_count_cnt, Hr.
        rewrite (cnt_aset_new cid_eqb); auto. simpl. rewrite orb_false_r.
        destruct (j =? idx) eqn:E; simpl.
        * apply Z.eqb_eq in E; subst. pose proof (live_le_rcvd c idx W). rewrite live_count_cnt in H. lia.
        * specialize (S4 j). rewrite live_count_cnt in S4. lia.
    - (* create with eviction: the evicted cache holds idx only, so it is deleted *)
      assert (Oh : own idx h) by (apply S2; rewrite HL; left; auto).
      destruct (S1 _ _ Hh) as [i [E Oi]]. assert (i = idx) by (apply (own_fun _ _ h); auto). subst i hs.
      simpl in Hv, Hr. rewrite Z.eqb_refl in Hv, Hr. simpl in Hv, Hr.
      split; auto.
      + intros id' s. rewrite Hv. destruct (cid_eqb id' id) eqn:E.
        * apply cid_eqb_eq in E; subst. intro Q; inversion Q. exists idx; auto.
        * destruct (cid_eqb id' h); [discriminate | apply S1].
      + intros j id'. rewrite Hrv. destruct (j =? idx) eqn:E; [|apply S2].
        apply Z.eqb_eq in E; subst. intro Q.
        apply in_app_or in Q as [Q|[Q|[]]]; [|subst; auto].
        apply in_app_or in Q as [Q|[Q|[]]]; [|subst; auto].
        apply S2. rewrite HL. right; auto.
      + intro j. destruct (Z.eq_dec j idx) as [->|N].
        * destruct (S3 idx) as [A [D [EL HC]]]. pose proof (Hrv idx) as Hri. rewrite Z.eqb_refl in Hri.
          unfold shape. rewrite Hri.
          destruct A as [|a A0].
          -- (* the list is all pairs: the head pair is split, its second copy becomes stale *)
             simpl in EL. destruct D as [|d D0]; [rewrite HL in EL; discriminate|].
             simpl in EL. rewrite HL in EL. inversion EL; subst d t.
             exists [h], (D0 ++ [id]). split.
             ++ rewrite dbl_app. simpl. rewrite <- !app_assoc. reflexivity.
             ++ destruct HC as [HC | [_ [h' [A0' [EA _]]]]]; [|discriminate].
                simpl in HC. rewrite app_length. simpl.
                destruct (Z.eq_dec (Z.of_nat (1 + (length D0 + 1))) (cap + 1)) as [Q|Q].
                ** right. split; auto. exists h, []. split; auto. rewrite Hv.
                   rewrite (cid_eqb_neq h id); auto. rewrite cid_eqb_refl. auto.
                ** left. lia.
          -- simpl in EL. rewrite HL in EL. inversion EL; subst a t.
             exists A0, (D ++ [id]). split.
             ++ rewrite dbl_app. simpl. rewrite <- !app_assoc. reflexivity.
             ++ destruct HC as [HC | [_ [h' [A0' [EA Hn]]]]].
                ** left. simpl in HC. rewrite app_length. simpl. lia.
                ** inversion EA; subst. congruence.
        * apply (shape_other c); auto.
          -- rewrite Hrv. destruct (j =? idx) eqn:E; auto. apply Z.eqb_eq in E; contradiction.
          -- intros h' Hin Hn. rewrite Hv. destruct (cid_eqb h' id) eqn:E.
             ++ apply cid_eqb_eq in E; subst. exfalso. apply N. apply (own_fun _ _ id); auto.
             ++ destruct (cid_eqb h' h); auto.
      + intro j. rewrite live_count_cnt, Hr.
        assert (Hn : aget cid_eqb id (adel cid_eqb h (rounds c)) = None).
        { pose proof (sigs_adel h (rounds c) [] id) as Q. unfold sigs_of in Q; simpl in Q. rewrite Q.
          destruct (cid_eqb id h); auto. }
        rewrite (cnt_aset_new cid_eqb); auto.
        pose proof (cnt_adel cid_eqb cid_eqb_eq (fun e => zmem j (snd e)) h [idx] (rounds c) (wf_keys _ W) Hh) as Q.
        simpl in *. rewrite orb_false_r in *. specialize (S4 j). rewrite live_count_cnt in S4.
        destruct (j =? idx); simpl in *; lia.
  Qed.

  Lemma pinv_flush c r : pinv c -> pinv (pc_flush c r).
  Proof.
    intros [W S1 S2 S3 S4]. split.
    - apply wf_flush; auto.
    - intros id s. rewrite sigs_flush. destruct (fst id <=? r); [discriminate | apply S1].
    - intros j id. rewrite rcvd_flush; [|apply (wf_rkeys _ W)]. intro Q. apply filter_In in Q as [Q _]. apply S2; auto.
    - intro j. destruct (S3 j) as [A [D [EL HC]]].
      unfold shape. rewrite rcvd_flush; [|apply (wf_rkeys _ W)]. rewrite EL, filter_app, filter_dbl.
      set (f := fun x => negb (flushed c r x j)).
      exists (filter f A), (filter f D). split; auto.
      pose proof (filter_length_le f A). pose proof (filter_length_le f D).
      destruct HC as [HC | [HC [h [A0 [EA Hn]]]]]; [left; lia|].
      destruct (Z.eq_dec (Z.of_nat (length (filter f A) + length (filter f D))) (cap + 1)) as [Q|Q]; [right|left; lia].
      split; auto. subst A. simpl. assert (Fh : f h = true).
      { unfold f. apply negb_true_iff. destruct (flushed c r h j) eqn:F; auto. apply flushed_cached in F. contradiction. }
      rewrite Fh. exists h, (filter f A0). split; auto. rewrite sigs_flush. destruct (fst h <=? r); auto.
    - intro j. specialize (S4 j). unfold live_count in *. unfold pc_flush; simpl rounds.
      pose proof (cnt_filter_le (fun e : cid * list Z => zmem j (snd e)) (fun e => negb (fst (fst e) <=? r)) (rounds c)) as Q.
      unfold cnt in Q. eapply Z.le_trans; [|exact S4]. apply Nat2Z.inj_le. exact Q.
  Qed.

  Definition op_private (o : cop) : Prop :=
    match o with CAppend idx id => own idx id | _ => True end.

  Lemma pinv_run ops : forall c, pinv c -> Forall op_private ops -> pinv (pc_run cap c ops).
  Proof.
    induction ops as [|o t IH]; simpl; auto. intros c I F. inversion F; subst. apply IH; auto.
    destruct o as [idx id | id | r]; simpl; auto.
    - destruct (pc_append cap c idx id) as [c' e] eqn:H. simpl. eapply pinv_append; eauto.
    - apply pinv_flush; auto.
  Qed.

  Lemma shape_bound c j : shape c j -> Z.of_nat (length (rcvd_of c j)) <= 2 * cap + 1.
  Proof.
    intros [A [D [EL HC]]]. rewrite EL, app_length, length_dbl.
    destruct HC as [HC | [HC [h [A0 [EA _]]]]]; [lia|]. subst A. cbn [length] in *. lia.
  Qed.
End Private.


Lemma pc_run_app cap a b : forall c, pc_run cap c (a ++ b) = pc_run cap (pc_run cap c a) b.
Proof. induction a as [|o a IH]; simpl; auto. Qed.

(* ---- signers of cached entries come from the operation list ---- *)
Definition sig_in (S : list Z) (c : pcache) : Prop :=
  forall id sigs i, sigs_of c id = Some sigs -> zmem i sigs = true -> In i S.

Lemma sig_in_append S cap c idx id c' e : sig_in S c -> In idx S -> pc_append cap c idx id = (c', e) -> sig_in S c'.
Proof.
  intros I Hin H. apply pc_append_cases in H. unfold sig_in in *.
  destruct H as [-> | sigs Hs Hm He Hr Hrc Hv Hrv | Hs Hlt He Hr Hrc Hv Hrv | h t hs Hs Hle He HL Hh Hne Hr Hrc Hv Hrv]; auto.
  - intros id' s i. rewrite Hv. destruct (cid_eqb id' id); [|apply I].
    intro Q; inversion Q; subst. rewrite zmem_app. simpl. rewrite orb_false_r. intro M.
    apply orb_true_iff in M as [M|M]; [apply (I _ _ _ Hs M) | apply Z.eqb_eq in M; subst; auto].
  - intros id' s i. rewrite Hv. destruct (cid_eqb id' id); [|apply I].
    intro Q; inversion Q; subst. simpl. rewrite orb_false_r. intro M. apply Z.eqb_eq in M; subst; auto.
  - intros id' s i. rewrite Hv. destruct (cid_eqb id' id).
    + intro Q; inversion Q; subst. simpl. rewrite orb_false_r. intro M. apply Z.eqb_eq in M; subst; auto.
    + destruct (cid_eqb id' h); [|apply I]. destruct (is_nil (zremove idx hs)); [discriminate|].
      intro Q; inversion Q; subst. rewrite zmem_zremove. intro M. apply andb_true_iff in M as [_ M]. apply (I _ _ _ Hh M).
Qed.
Lemma sig_in_flush S c r : sig_in S c -> sig_in S (pc_flush c r).
Proof. unfold sig_in. intros I id s i. rewrite sigs_flush. destruct (fst id <=? r); [discriminate | apply I]. Qed.

Definition op_signer_in (S : list Z) (o : cop) : Prop :=
  match o with CAppend idx _ => In idx S | _ => True end.
Lemma sig_in_run S cap ops : forall c, sig_in S c -> Forall (op_signer_in S) ops -> sig_in S (pc_run cap c ops).
Proof.
  induction ops as [|o t IH]; simpl; auto. intros c I F. inversion F; subst. apply IH; auto.
  destruct o as [idx id | id | r]; simpl; auto.
  - destruct (pc_append cap c idx id) as [c' e] eqn:H. simpl. eapply sig_in_append; eauto.
  - apply sig_in_flush; auto.
Qed.

(* ---- sums ---- *)
Lemma sum_split {A} (f g : A -> nat) S :
  list_sum (map (fun k => (f k + g k)%nat) S) = (list_sum (map f S) + list_sum (map g S))%nat.
Proof. induction S; simpl; auto. rewrite IHS. lia. Qed.
Lemma sum_ge1 {A} (f : A -> nat) S k : In k S -> (1 <= f k)%nat -> (1 <= list_sum (map f S))%nat.
Proof. induction S; simpl; [tauto|]. intros [->|H] Q; [lia|]. specialize (IHS H Q). lia. Qed.
Lemma length_le_sum {A} (P : Z -> A -> bool) (S : list Z) (l : list A) :
  (forall x, In x l -> exists k, In k S /\ P k x = true) ->
  (length l <= list_sum (map (fun k => length (filter (P k) l)) S))%nat.
Proof.
  induction l as [|x l IH]; intro H; simpl; [lia|].
  assert (E : map (fun k => length (if P k x then x :: filter (P k) l else filter (P k) l)) S =
              map (fun k => (b2n (P k x) + length (filter (P k) l))%nat) S).
  { apply map_ext. intro k. destruct (P k x); auto. }
  rewrite E, sum_split.
  destruct (H x (or_introl eq_refl)) as [k [Hk Pk]].
  pose proof (sum_ge1 (fun k => b2n (P k x)) S k Hk) as G. simpl in G. rewrite Pk in G. specialize (G (le_n _)).
  assert (IH' : (length l <= list_sum (map (fun k => length (filter (P k) l)) S))%nat) by (apply IH; intros; apply H; right; auto).
  lia.
Qed.
Lemma sum_le_const {A} (f : A -> nat) (cap : Z) S : (forall k, Z.of_nat (f k) <= cap) ->
  Z.of_nat (list_sum (map f S)) <= cap * Z.of_nat (length S).
Proof.
  intro H. induction S as [|k S IH]; simpl length; simpl list_sum; [lia|].
  rewrite Nat2Z.inj_add, Nat2Z.inj_succ. unfold Z.succ. rewrite Z.mul_add_distr_l. specialize (H k). lia.
Qed.

Lemma rounds_le_signers cap c S : wf c -> sig_in S c ->
  (forall j, Z.of_nat (live_count c j) <= cap) ->
  Z.of_nat (length (rounds c)) <= cap * Z.of_nat (length S).
Proof.
  intros W I L.
  eapply Z.le_trans; [apply Nat2Z.inj_le; apply (length_le_sum (fun k (e : cid * list Z) => zmem k (snd e)) S)|].
  - intros [id s] Hin. simpl.
    assert (Q : sigs_of c id = Some s) by (apply (In_aget cid_eqb cid_eqb_eq); auto; apply (wf_keys _ W)).
    destruct s as [|i s']; [exfalso; apply (wf_nonempty _ W _ _ Q); auto|].
    exists i. split; [apply (I _ _ _ Q); simpl; rewrite Z.eqb_refl; auto | simpl; rewrite Z.eqb_refl; auto].
  - apply sum_le_const. intro k. apply L.
Qed.

(* ---- store window ---- *)
Definition in_window (limit extra : Z) (a : agg) : Prop :=
  forall id sigs, sigs_of (a_cache a) id = Some sigs -> a_head a < fst id <= a_head a + limit + extra.

Lemma window_step cap limit extra a e :
  in_window limit extra a -> (forall r, e = AStored r -> a_head a <= r) ->
  in_window limit extra (agg_step cap limit extra a e).
Proof.
  intros I M. destruct e as [r | idx id | r ok]; simpl.
  - specialize (M r eq_refl). intros id s. simpl. rewrite sigs_flush. destruct (fst id <=? r) eqn:E; [discriminate|].
    apply Z.leb_gt in E. intro Q. specialize (I _ _ Q). lia.
  - destruct (should_store limit extra (a_head a) (fst id)) eqn:Sh; auto.
    unfold should_store in Sh. apply andb_true_iff in Sh as [S1 S2]. apply Z.ltb_lt in S1. apply Z.leb_le in S2.
    destruct (pc_append cap (a_cache a) idx id) as [c' er] eqn:H. simpl. apply pc_append_cases in H.
    intros id' s. simpl.
    destruct H as [-> | sigs Hs Hm He Hr Hrc Hv Hrv | Hs Hlt He Hr Hrc Hv Hrv | h t hs Hs Hle He HL Hh Hne Hr Hrc Hv Hrv].
    + apply I.
    + rewrite Hv. destruct (cid_eqb id' id) eqn:E; [apply cid_eqb_eq in E; subst; intros _; lia | apply I].
    + rewrite Hv. destruct (cid_eqb id' id) eqn:E; [apply cid_eqb_eq in E; subst; intros _; lia | apply I].
    + rewrite Hv. destruct (cid_eqb id' id) eqn:E; [apply cid_eqb_eq in E; subst; intros _; lia |].
      destruct (cid_eqb id' h) eqn:E2; [|apply I]. apply cid_eqb_eq in E2; subst. intros _. apply (I _ _ Hh).
  - intros id s. simpl. rewrite sigs_flush. destruct (fst id <=? r) eqn:E; [discriminate|].
    apply Z.leb_gt in E. intro Q. specialize (I _ _ Q).
    destruct ((a_head a + 1 =? r) && ok) eqn:B; [|lia].
    apply andb_true_iff in B as [B _]. apply Z.eqb_eq in B. lia.
Qed.

Lemma window_run cap limit extra es : forall a,
  in_window limit extra a -> heads_mono (a_head a) es -> in_window limit extra (agg_run cap limit extra a es).
Proof.
  induction es as [|e t IH]; simpl; auto. intros a I M. destruct e as [r | idx id | r ok].
  - destruct M as [M1 M2]. apply IH; [apply window_step; auto; intros r' Q; inversion Q; subst; auto | exact M2].
  - apply IH; [apply window_step; auto; intros r' Q; discriminate|].
    simpl. destruct (should_store limit extra (a_head a) (fst id)); auto.
  - apply IH; [apply window_step; auto; intros r' Q; discriminate|]. simpl. exact M.
Qed.

Lemma nodup_range_length (l : list Z) h n : NoDup l -> (forall x, In x l -> h < x <= h + Z.of_nat n) -> (length l <= n)%nat.
Proof.
  intros ND H. rewrite <- (seq_length n 0), <- (map_length (fun k => h + 1 + Z.of_nat k) (seq 0 n)).
  apply NoDup_incl_length; auto. intros x Hx. specialize (H x Hx).
  apply in_map_iff. exists (Z.to_nat (x - h - 1)). split; [lia|]. apply in_seq. lia.
Qed.

Definition cached_rounds (c : pcache) : list Z := nodup Z.eq_dec (map (fun e => fst (fst e)) (rounds c)).

Lemma window_distinct limit extra a : 0 <= limit + extra -> wf (a_cache a) -> in_window limit extra a ->
  Z.of_nat (length (cached_rounds (a_cache a))) <= limit + extra.
Proof.
  intros P W I. unfold cached_rounds.
  assert (Q : (length (nodup Z.eq_dec (map (fun e : cid * list Z => fst (fst e)) (rounds (a_cache a)))) <= Z.to_nat (limit + extra))%nat).
  { apply (nodup_range_length _ (a_head a)); [apply NoDup_nodup|].
    intros x Hx. apply nodup_In in Hx. apply in_map_iff in Hx as [[id s] [E Hin]]. simpl in E; subst x.
    assert (Q : sigs_of (a_cache a) id = Some s) by (apply (In_aget cid_eqb cid_eqb_eq); auto; apply (wf_keys _ W)).
    specialize (I _ _ Q). rewrite Z2Nat.id; auto. lia. }
  apply Nat2Z.inj_le in Q. rewrite Z2Nat.id in Q; auto.
Qed.

Lemma wf_agg_step cap limit extra a e : wf (a_cache a) -> wf (a_cache (agg_step cap limit extra a e)).
Proof.
  intro W. destruct e as [r | idx id | r ok]; simpl.
  - apply wf_flush; auto.
  - destruct (should_store limit extra (a_head a) (fst id)); auto. simpl.
    destruct (pc_append cap (a_cache a) idx id) as [c' er] eqn:H. simpl. eapply wf_append; eauto.
  - apply wf_flush; auto.
Qed.
Lemma wf_agg_run cap limit extra es : forall a, wf (a_cache a) -> wf (a_cache (agg_run cap limit extra a es)).
Proof. induction es as [|e t IH]; simpl; auto. intros a W. apply IH. apply wf_agg_step; auto. Qed.

Lemma NoDup_app_single {A} (l : list A) x : NoDup l -> ~ In x l -> NoDup (l ++ [x]).
Proof.
  induction l as [|a l IH]; simpl; intros ND N; [constructor; auto; constructor|].
  inversion ND; subst. constructor.
  - intro Q. apply in_app_or in Q as [Q|[Q|[]]]; [auto | subst; apply N; auto].
  - apply IH; auto.
Qed.

(* ---- a victim that signs at most cap ids is never evicted ---- *)
Section Victim.
  Variable cap : Z.
  Variable V : Z.
  Variable G : list cid.
  Hypothesis G_small : Z.of_nat (length G) <= cap.

  Record vinv (c : pcache) : Prop := {
    vi_wf : wf c;
    vi_nodup : NoDup (rcvd_of c V);
    vi_in : forall id, In id (rcvd_of c V) -> In id G /\ has_entry c V id = true
  }.
  Definition op_genuine (o : cop) : Prop :=
    match o with CAppend idx id => idx = V -> In id G | _ => True end.

  Lemma vinv_init : vinv pc_init.
  Proof. split; [apply wf_init | constructor | unfold rcvd_of; simpl; tauto]. Qed.

  Lemma short_list (L : list cid) id : NoDup L -> incl L G -> In id G -> ~ In id L -> Z.of_nat (length L) < cap.
  Proof.
    intros ND I Hin Hn.
    assert ((length (id :: L) <= length G)%nat).
    { apply NoDup_incl_length; [constructor; auto|]. intros x [->|Hx]; auto. }
    simpl in H. lia.
  Qed.

  Lemma has_entry_rcvd c j id : wf c -> has_entry c j id = true -> In id (rcvd_of c j).
  Proof.
    unfold has_entry. intros W H. destruct (sigs_of c id) as [s|] eqn:Q; [|discriminate].
    apply (wf_rcvd _ W _ _ _ Q H).
  Qed.

  (* an Append on behalf of V with a genuine id never takes the eviction path *)
  Lemma victim_no_evict c id :
    vinv c -> In id G -> sigs_of c id = None -> cap <= Z.of_nat (length (rcvd_of c V)) -> False.
  Proof.
    intros [W ND Hin] Hg Hs Hle.
    assert (~ In id (rcvd_of c V)).
    { intro Q. destruct (Hin _ Q) as [_ Q2]. unfold has_entry in Q2. rewrite Hs in Q2. discriminate. }
    pose proof (short_list (rcvd_of c V) id ND (fun x Hx => proj1 (Hin x Hx)) Hg H). lia.
  Qed.

  Lemma victim_append_keeps c idx id c' e id0 :
    vinv c -> op_genuine (CAppend idx id) -> pc_append cap c idx id = (c', e) ->
    has_entry c V id0 = true -> has_entry c' V id0 = true.
  Proof.
    intros I Og H E0. destruct (Z.eq_dec idx V) as [->|N].
    2:{ eapply isolation_step; eauto. }
    simpl in Og. specialize (Og eq_refl).
    apply pc_append_cases in H. unfold has_entry in *.
    destruct H as [-> | sigs Hs Hm He Hr Hrc Hv Hrv | Hs Hlt He Hr Hrc Hv Hrv | h t hs Hs Hle He HL Hh Hne Hr Hrc Hv Hrv]; auto.
    - rewrite Hv. destruct (cid_eqb id0 id) eqn:E; auto. rewrite zmem_app. simpl. rewrite Z.eqb_refl. rewrite orb_true_r; auto.
    - rewrite Hv. destruct (cid_eqb id0 id) eqn:E; auto. simpl. rewrite Z.eqb_refl; auto.
    - exfalso. eapply (victim_no_evict c id); eauto.
  Qed.

  Lemma vinv_append c idx id c' e : vinv c -> op_genuine (CAppend idx id) -> pc_append cap c idx id = (c', e) -> vinv c'.
  Proof.
    intros I Og H. pose proof (wf_append _ _ _ _ _ _ (vi_wf _ I) H) as W'.
    pose proof (victim_append_keeps c idx id c' e) as Keep.
    pose proof H as H0. apply pc_append_cases in H. destruct (Z.eq_dec idx V) as [->|N].
    - simpl in Og. specialize (Og eq_refl).
      destruct H as [-> | sigs Hs Hm He Hr Hrc Hv Hrv | Hs Hlt He Hr Hrc Hv Hrv | h t hs Hs Hle He HL Hh Hne Hr Hrc Hv Hrv]; auto.
      + assert (Hn : ~ In id (rcvd_of c V)).
        { intro Q. destruct (vi_in _ I _ Q) as [_ Q2]. unfold has_entry in Q2. rewrite Hs, Hm in Q2. discriminate. }
        split; auto.
        * rewrite Hrv, Z.eqb_refl. apply NoDup_app_single; auto. apply (vi_nodup _ I).
        * intro x. rewrite Hrv, Z.eqb_refl. intro Q. apply in_app_or in Q as [Q|[Q|[]]].
          -- destruct (vi_in _ I _ Q) as [Q1 Q2]. split; auto. apply (Keep x I); auto. simpl; auto.
          -- subst x. split; auto. unfold has_entry. rewrite Hv, cid_eqb_refl, zmem_app. simpl. rewrite Z.eqb_refl, orb_true_r; auto.
      + assert (Hn : ~ In id (rcvd_of c V)).
        { intro Q. destruct (vi_in _ I _ Q) as [_ Q2]. unfold has_entry in Q2. rewrite Hs in Q2. discriminate. }
        split; auto.
        * rewrite Hrv, Z.eqb_refl. apply NoDup_app_single; auto. apply (vi_nodup _ I).
        * intro x. rewrite Hrv, Z.eqb_refl. intro Q. apply in_app_or in Q as [Q|[Q|[]]].
          -- destruct (vi_in _ I _ Q) as [Q1 Q2]. split; auto. apply (Keep x I); auto. simpl; auto.
          -- subst x. split; auto. unfold has_entry. rewrite Hv, cid_eqb_refl. simpl. rewrite Z.eqb_refl; auto.
      + exfalso. eapply (victim_no_evict c id); eauto.
    - assert (ER : rcvd_of c' V = rcvd_of c V).
      { assert (EV : (V =? idx) = false) by (apply Z.eqb_neq; auto).
        destruct H as [-> | sigs Hs Hm He Hr Hrc Hv Hrv | Hs Hlt He Hr Hrc Hv Hrv | h t hs Hs Hle He HL Hh Hne Hr Hrc Hv Hrv]; auto;
        rewrite Hrv, EV; auto. }
      split; auto.
      + rewrite ER. apply (vi_nodup _ I).
      + intro x. rewrite ER. intro Q. destruct (vi_in _ I _ Q) as [Q1 Q2]. split; auto; apply (Keep x I); auto.
  Qed.

  Lemma vinv_flush c r : vinv c -> vinv (pc_flush c r).
  Proof.
    intros [W ND Hin]. split.
    - apply wf_flush; auto.
    - rewrite rcvd_flush; [|apply (wf_rkeys _ W)]. apply NoDup_filter; auto.
    - intro x. rewrite rcvd_flush; [|apply (wf_rkeys _ W)]. intro Q. apply filter_In in Q as [Q F].
      destruct (Hin _ Q) as [Q1 Q2]. split; auto. apply negb_true_iff in F.
      unfold has_entry in *. rewrite sigs_flush. destruct (sigs_of c x) as [s|] eqn:Hs; [|discriminate].
      destruct (fst x <=? r) eqn:E; auto. exfalso.
      assert (flushed c r x V = true); [|congruence].
      apply flushed_spec. exists s. split; [apply (aget_In cid_eqb cid_eqb_eq); auto|]. split; auto. apply Z.leb_le; auto.
  Qed.

  Lemma vinv_run ops : forall c, vinv c -> Forall op_genuine ops -> vinv (pc_run cap c ops).
  Proof.
    induction ops as [|o t IH]; simpl; auto. intros c I F. inversion F; subst. apply IH; auto.
    destruct o as [idx id | id | r]; simpl; auto.
    - destruct (pc_append cap c idx id) as [c' e] eqn:H. simpl. eapply vinv_append; eauto.
    - apply vinv_flush; auto.
  Qed.

  Theorem victim_stable ops o id :
    Forall op_genuine (ops ++ [o]) ->
    has_entry (pc_run cap pc_init ops) V id = true ->
    (forall r, o = CFlush r -> r < fst id) ->
    has_entry (pc_run cap pc_init (ops ++ [o])) V id = true.
  Proof.
    intros F E Hf. apply Forall_app in F as [F1 F2]. inversion F2; subst.
    rewrite pc_run_app. simpl. pose proof (vinv_run ops pc_init vinv_init F1) as I.
    destruct o as [idx id' | id' | r]; simpl; auto.
    - destruct (pc_append cap (pc_run cap pc_init ops) idx id') as [c' e] eqn:H. simpl.
      eapply victim_append_keeps; eauto.
    - apply flush_keeps; auto.
  Qed.
End Victim.


(* ---- closed statements over operation lists ---- *)
Definition ids_private (ops : list cop) : Prop :=
  forall i j id, In (CAppend i id) ops -> In (CAppend j id) ops -> i = j.
Definition op_signers (ops : list cop) : list Z :=
  nodup Z.eq_dec (flat_map (fun o => match o with CAppend i _ => [i] | _ => [] end) ops).

Definition cache_bounds (cap : Z) (ops : list cop) : Prop :=
  let c := pc_run cap pc_init ops in
  (forall idx, Z.of_nat (live_count c idx) <= cap) /\
  (forall idx, Z.of_nat (length (rcvd_of c idx)) <= 2 * cap + 1) /\
  Z.of_nat (length (rounds c)) <= cap * Z.of_nat (length (op_signers ops)).

Lemma sig_in_init S : sig_in S pc_init.
Proof. unfold sig_in, sigs_of; simpl; discriminate. Qed.

Lemma cache_bounded_private cap ops : 0 < cap -> ids_private ops -> cache_bounds cap ops.
Proof.
  intros Hc Hp.
  set (own := fun i id => In (CAppend i id) ops).
  assert (Hf : forall i j id, own i id -> own j id -> i = j) by (intros i j id; apply Hp).
  assert (F : Forall (op_private own) ops).
  { apply Forall_forall. intros o Ho. destruct o; simpl; auto. }
  pose proof (pinv_run cap own Hf ops pc_init (pinv_init cap Hc own) F) as I.
  unfold cache_bounds. split; [|split].
  - apply (pi_live _ _ _ I).
  - intro idx. apply shape_bound. apply (pi_shape _ _ _ I).
  - apply rounds_le_signers.
    + apply (pi_wf _ _ _ I).
    + apply sig_in_run; [apply sig_in_init|]. apply Forall_forall. intros o Ho. destruct o as [i id| |]; simpl; auto.
      unfold op_signers. apply nodup_In. apply in_flat_map. exists (CAppend i id). split; auto. left; auto.
    + apply (pi_live _ _ _ I).
Qed.

(* every state reachable by any operation list is well formed: unique keys, no empty round
   cache, and every cached (idx, id) has id in rcvd[idx] *)
Lemma reachable_wf cap ops : wf (pc_run cap pc_init ops).
Proof. apply wf_run. apply wf_init. Qed.

(* ---- packets: who can cause an Append on behalf of V ---- *)
Definition genuine_sigs (k : scheme_kind) (V : Z) (G : list cid) : list psig :=
  map (fun g => honest_sig k V (fst g) (snd g)) G.

Definition isolation_stmt (k : scheme_kind) : Prop :=
  forall cap V G es e id, 0 < cap -> Z.of_nat (length G) <= cap ->
    (forall p, In (NPacket p) (es ++ [e]) -> ps_signer (pk_sig p) = V -> In (pk_sig p) (genuine_sigs k V G)) ->
    has_entry (pc_run cap pc_init (cops_of k es)) V id = true ->
    (forall r, e = NFlush r -> r < fst id) ->
    has_entry (pc_run cap pc_init (cops_of k (es ++ [e]))) V id = true.

Lemma cops_of_app k a b : cops_of k (a ++ b) = cops_of k a ++ cops_of k b.
Proof. unfold cops_of. apply flat_map_app. Qed.

Lemma genuine_chained V G es :
  (forall p, In (NPacket p) es -> ps_signer (pk_sig p) = V -> In (pk_sig p) (genuine_sigs Chained V G)) ->
  Forall (op_genuine V G) (cops_of Chained es).
Proof.
  intro H. apply Forall_forall. intros o Ho. unfold cops_of in Ho. apply in_flat_map in Ho as [e [He Ho]].
  destruct e as [p | r]; simpl in Ho.
  - destruct (pkt_valid Chained p) eqn:Val; [|destruct Ho]. destruct Ho as [<-|[]]. simpl. intro EV.
    specialize (H p He EV). unfold genuine_sigs in H. apply in_map_iff in H as [[r prev] [E Hg]]. simpl in E.
    unfold pkt_valid in Val. rewrite <- E in Val. simpl in Val. apply andb_true_iff in Val as [V1 V2].
    apply Z.eqb_eq in V1. apply bytes_eqb_eq in V2. subst. destruct p as [pr pp ps]; simpl in *. subst. exact Hg.
  - destruct Ho as [<-|[]]. simpl. auto.
Qed.

Lemma isolation_chained : isolation_stmt Chained.
Proof.
  intros cap V G es e id Hc Hs Hgen E Hf.
  rewrite cops_of_app. unfold cops_of at 2. simpl. rewrite app_nil_r.
  pose proof (genuine_chained V G (es ++ [e]) Hgen) as F. rewrite cops_of_app in F. unfold cops_of at 2 in F. simpl in F. rewrite app_nil_r in F.
  destruct e as [p | r]; simpl in *.
  - destruct (pkt_valid Chained p); [|rewrite app_nil_r; auto].
    apply (victim_stable cap V G Hs); auto. intros r Q; discriminate.
  - apply (victim_stable cap V G Hs); auto. intros r' Q; inversion Q; subst. apply Hf; auto.
Qed.
