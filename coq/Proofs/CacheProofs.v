(* Proofs about Model/Cache.v (property C12): structural invariants for every operation list (the
   ids recorded for a signer index are exactly the round caches it is in), the per-signer cap,
   isolation by signer index, the store window, and stability of a victim's entries. *)
From Coq Require Import ZArith List Bool Lia.
From DV Require Import Model.Cache.
Import ListNotations.
Open Scope Z_scope.


Lemma bytes_eqb_eq a b : bytes_eqb a b = true <-> a = b.
Proof.
  revert b; induction a as [|x a IH]; destruct b as [|y b]; simpl; split; intro H; try congruence; try discriminate.
  - apply andb_true_iff in H as [H1 H2]. apply Z.eqb_eq in H1. apply IH in H2. congruence.
  - inversion H; subst. rewrite Z.eqb_refl. simpl. apply IH. reflexivity.
Qed.
Lemma cid_eqb_eq a b : cid_eqb a b = true <-> a = b.
Proof.
  unfold cid_eqb. destruct a as [r p], b as [r' p']; simpl. rewrite andb_true_iff, Z.eqb_eq, bytes_eqb_eq.
  split; [intros [-> ->]; reflexivity | intros H; inversion H; auto].
Qed.
Lemma cid_eqb_refl a : cid_eqb a a = true. Proof. apply cid_eqb_eq; reflexivity. Qed.
Lemma cid_eqb_neq a b : a <> b -> cid_eqb a b = false.
Proof. intro H. destruct (cid_eqb a b) eqn:E; auto. apply cid_eqb_eq in E. contradiction. Qed.
Lemma cid_eq_dec (a b : cid) : {a = b} + {a <> b}.
Proof. destruct (cid_eqb a b) eqn:E; [left; apply cid_eqb_eq; auto | right; intro H; apply cid_eqb_eq in H; congruence]. Qed.

Lemma zmem_In x l : zmem x l = true <-> In x l.
Proof.
  induction l as [|y l IH]; simpl; [split; [discriminate|tauto]|].
  rewrite orb_true_iff, Z.eqb_eq, IH. split; intros [H|H]; auto.
Qed.
Lemma zmem_app x a b : zmem x (a ++ b) = zmem x a || zmem x b.
Proof. induction a; simpl; auto. rewrite IHa. apply orb_assoc. Qed.
Lemma zmem_zremove x y l : zmem x (zremove y l) = negb (x =? y) && zmem x l.
Proof.
  induction l as [|z l IH]; simpl; [rewrite andb_false_r; auto|].
  destruct (y =? z) eqn:E.
  - apply Z.eqb_eq in E; subst z. rewrite IH. destruct (x =? y); simpl; auto.
  - simpl. rewrite IH. destruct (x =? y) eqn:E2; simpl; auto.
    apply Z.eqb_eq in E2; subst. rewrite E. auto.
Qed.

Definition b2n (b : bool) : nat := if b then 1%nat else 0%nat.

Section AL.
  Context {K V : Type} (eqb : K -> K -> bool).
  Hypothesis eqb_eq : forall a b, eqb a b = true <-> a = b.
  Lemma eqb_rfl a : eqb a a = true. Proof. apply eqb_eq; auto. Qed.
  Lemma eqb_nq a b : a <> b -> eqb a b = false.
  Proof. intro H. destruct (eqb a b) eqn:E; auto. apply eqb_eq in E; contradiction. Qed.

  Lemma aget_aset_same k v (l : list (K*V)) : aget eqb k (aset eqb k v l) = Some v.
  Proof.
    induction l as [|[k' v'] l IH]; simpl; [rewrite eqb_rfl; auto|].
    destruct (eqb k k') eqn:E; simpl; [rewrite eqb_rfl; auto | rewrite E; auto].
  Qed.
  Lemma aget_aset_other k k' v (l : list (K*V)) : k' <> k -> aget eqb k' (aset eqb k v l) = aget eqb k' l.
  Proof.
    intro N. induction l as [|[k2 v2] l IH]; simpl.
    - rewrite eqb_nq; auto.
    - destruct (eqb k k2) eqn:E; simpl.
      + apply eqb_eq in E; subst k2. rewrite eqb_nq; auto.
      + rewrite IH; auto.
  Qed.
  Lemma aget_adel_same k (l : list (K*V)) : aget eqb k (adel eqb k l) = None.
  Proof.
    induction l as [|[k' v'] l IH]; simpl; auto.
    destruct (eqb k k') eqn:E; simpl; auto. rewrite E; auto.
  Qed.
  Lemma aget_adel_other k k' (l : list (K*V)) : k' <> k -> aget eqb k' (adel eqb k l) = aget eqb k' l.
  Proof.
    intro N. induction l as [|[k2 v2] l IH]; simpl; auto.
    destruct (eqb k k2) eqn:E; simpl.
    - apply eqb_eq in E; subst k2. rewrite eqb_nq; auto.
    - rewrite IH; auto.
  Qed.
  Lemma aget_In k v (l : list (K*V)) : aget eqb k l = Some v -> In (k, v) l.
  Proof.
    induction l as [|[k' v'] l IH]; simpl; [discriminate|].
    destruct (eqb k k') eqn:E; [apply eqb_eq in E; subst; intro H; inversion H; auto | auto].
  Qed.
  Lemma aget_None_notin k (l : list (K*V)) : aget eqb k l = None <-> ~ In k (map fst l).
  Proof.
    induction l as [|[k' v'] l IH]; simpl; [tauto|].
    destruct (eqb k k') eqn:E.
    - apply eqb_eq in E; subst. split; [discriminate | intro H; exfalso; apply H; auto].
    - rewrite IH. split; [intros H [H1|H1]; [subst; rewrite eqb_rfl in E; discriminate | auto] | tauto].
  Qed.
  Lemma In_aget k v (l : list (K*V)) : NoDup (map fst l) -> In (k, v) l -> aget eqb k l = Some v.
  Proof.
    induction l as [|[k' v'] l IH]; simpl; [tauto|].
    intros ND [H|H].
    - inversion H; subst. rewrite eqb_rfl; auto.
    - inversion ND; subst. destruct (eqb k k') eqn:E.
      + apply eqb_eq in E; subst. exfalso. apply H2. change k' with (fst (k', v)). apply in_map; auto.
      + auto.
  Qed.
  Lemma keys_aset k v (l : list (K*V)) k' :
    In k' (map fst (aset eqb k v l)) <-> k' = k \/ In k' (map fst l).
  Proof.
    induction l as [|[k2 v2] l IH]; simpl; [intuition|].
    destruct (eqb k k2) eqn:E; simpl.
    - apply eqb_eq in E; subst. intuition.
    - rewrite IH. intuition.
  Qed.
  Lemma keys_adel k (l : list (K*V)) k' :
    In k' (map fst (adel eqb k l)) <-> k' <> k /\ In k' (map fst l).
  Proof.
    induction l as [|[k2 v2] l IH]; simpl; [intuition|].
    destruct (eqb k k2) eqn:E; simpl.
    - apply eqb_eq in E; subst. rewrite IH. intuition congruence.
    - rewrite IH. split.
      + intros [H|H]; [subst; split; auto; intro; subst; rewrite eqb_rfl in E; discriminate | tauto].
      + tauto.
  Qed.
  Lemma nodup_aset k v (l : list (K*V)) : NoDup (map fst l) -> NoDup (map fst (aset eqb k v l)).
  Proof.
    induction l as [|[k2 v2] l IH]; simpl; intro ND.
    - constructor; [intros []|constructor].
    - inversion ND; subst. destruct (eqb k k2) eqn:E; simpl.
      + apply eqb_eq in E; subst. constructor; auto.
      + constructor; auto. rewrite keys_aset. intros [H|H]; [subst; rewrite eqb_rfl in E; discriminate | auto].
  Qed.
  Lemma nodup_adel k (l : list (K*V)) : NoDup (map fst l) -> NoDup (map fst (adel eqb k l)).
  Proof.
    induction l as [|[k2 v2] l IH]; simpl; intro ND; auto.
    inversion ND; subst. destruct (eqb k k2) eqn:E; simpl; auto.
    constructor; auto. rewrite keys_adel. tauto.
  Qed.

  (* counting entries that satisfy a predicate *)
  Definition cnt (P : K * V -> bool) (l : list (K*V)) : nat := length (filter P l).
  Lemma cnt_aset_new P k v (l : list (K*V)) : aget eqb k l = None ->
    cnt P (aset eqb k v l) = (cnt P l + b2n (P (k, v)))%nat.
  Proof.
    unfold cnt. induction l as [|[k2 v2] l IH]; simpl; intro H.
    - destruct (P (k, v)); auto.
    - destruct (eqb k k2) eqn:E; [discriminate|]. simpl. destruct (P (k2, v2)); simpl; rewrite IH; auto.
  Qed.
  Lemma cnt_aset_old P k v v0 (l : list (K*V)) : NoDup (map fst l) -> aget eqb k l = Some v0 ->
    (cnt P (aset eqb k v l) + b2n (P (k, v0)) = cnt P l + b2n (P (k, v)))%nat.
  Proof.
    unfold cnt. induction l as [|[k2 v2] l IH]; simpl; intros ND H; [discriminate|].
    inversion ND; subst. destruct (eqb k k2) eqn:E.
    - apply eqb_eq in E; subst k2. inversion H; subst v2. simpl.
      destruct (P (k, v)), (P (k, v0)); simpl; lia.
    - simpl. destruct (P (k2, v2)); simpl; specialize (IH H3 H); lia.
  Qed.
  Lemma adel_absent k (l : list (K*V)) : aget eqb k l = None -> adel eqb k l = l.
  Proof.
    induction l as [|[k2 v2] l IH]; simpl; auto.
    destruct (eqb k k2) eqn:E; [discriminate|]. intro H. rewrite IH; auto.
  Qed.
  Lemma cnt_adel P k v0 (l : list (K*V)) : NoDup (map fst l) -> aget eqb k l = Some v0 ->
    (cnt P (adel eqb k l) + b2n (P (k, v0)) = cnt P l)%nat.
  Proof.
    unfold cnt. induction l as [|[k2 v2] l IH]; simpl; intros ND H; [discriminate|].
    inversion ND; subst. destruct (eqb k k2) eqn:E.
    - apply eqb_eq in E; subst k2. inversion H; subst v2.
      assert (aget eqb k l = None) by (apply aget_None_notin; auto).
      rewrite adel_absent; auto. destruct (P (k, v0)); simpl; lia.
    - simpl. destruct (P (k2, v2)); simpl; specialize (IH H3 H); lia.
  Qed.
  Lemma len_aset_new k v (l : list (K*V)) : aget eqb k l = None -> length (aset eqb k v l) = S (length l).
  Proof.
    induction l as [|[k2 v2] l IH]; simpl; auto.
    destruct (eqb k k2) eqn:E; [discriminate|]. intro H. simpl. rewrite IH; auto.
  Qed.
End AL.


Lemma zeqb_eq : forall a b, Z.eqb a b = true <-> a = b. Proof. exact Z.eqb_eq. Qed.
Lemma is_nil_spec {A} (l : list A) : is_nil l = true <-> l = [].
Proof. destruct l; simpl; split; congruence. Qed.

Lemma sigs_aset k v R X id' :
  sigs_of (mkPC (aset cid_eqb k v R) X) id' = if cid_eqb id' k then Some v else aget cid_eqb id' R.
Proof.
  unfold sigs_of; simpl. destruct (cid_eqb id' k) eqn:E.
  - apply cid_eqb_eq in E; subst. apply (aget_aset_same cid_eqb cid_eqb_eq).
  - apply (aget_aset_other cid_eqb cid_eqb_eq). intro H; subst. rewrite cid_eqb_refl in E; discriminate.
Qed.
Lemma sigs_adel k R X id' :
  sigs_of (mkPC (adel cid_eqb k R) X) id' = if cid_eqb id' k then None else aget cid_eqb id' R.
Proof.
  unfold sigs_of; simpl. destruct (cid_eqb id' k) eqn:E.
  - apply cid_eqb_eq in E; subst. apply (aget_adel_same cid_eqb).
  - apply (aget_adel_other cid_eqb cid_eqb_eq). intro H; subst. rewrite cid_eqb_refl in E; discriminate.
Qed.
Lemma rcvd_aset k l R X j :
  rcvd_of (mkPC R (aset Z.eqb k l X)) j = if j =? k then l else rcvd_of (mkPC R X) j.
Proof.
  unfold rcvd_of; simpl. destruct (j =? k) eqn:E.
  - apply Z.eqb_eq in E; subst. rewrite (aget_aset_same Z.eqb zeqb_eq). auto.
  - rewrite (aget_aset_other Z.eqb zeqb_eq); auto. intro; subst. rewrite Z.eqb_refl in E; discriminate.
Qed.
Lemma rcvd_rounds_irrel R R' X j : rcvd_of (mkPC R X) j = rcvd_of (mkPC R' X) j.
Proof. reflexivity. Qed.
Lemma aget_filter_key (p : cid -> bool) (l : list (cid * list Z)) k :
  aget cid_eqb k (filter (fun e => p (fst e)) l) = if p k then aget cid_eqb k l else None.
Proof.
  induction l as [|[k' v] l IH]; simpl; [destruct (p k); auto|].
  destruct (p k') eqn:Ep; simpl.
  - destruct (cid_eqb k k') eqn:E.
    + apply cid_eqb_eq in E; subst. rewrite Ep. auto.
    + exact IH.
  - destruct (cid_eqb k k') eqn:E.
    + apply cid_eqb_eq in E; subst. rewrite Ep in *. exact IH.
    + exact IH.
Qed.

Lemma sigs_flush c r id : sigs_of (pc_flush c r) id = if fst id <=? r then None else sigs_of c id.
Proof.
  unfold sigs_of, pc_flush; simpl.
  rewrite (aget_filter_key (fun k => negb (fst k <=? r))). destruct (fst id <=? r); auto.
Qed.

Lemma flushed_spec c r x j :
  flushed c r x j = true <-> exists sigs, In (x, sigs) (rounds c) /\ fst x <= r /\ zmem j sigs = true.
Proof.
  unfold flushed. rewrite existsb_exists. split.
  - intros [[k v] [Hin H]]. simpl in H. apply andb_true_iff in H as [H H3]. apply andb_true_iff in H as [H1 H2].
    apply cid_eqb_eq in H1; subst k. apply Z.leb_le in H2. exists v; auto.
  - intros [sigs [Hin [H1 H2]]]. exists (x, sigs). split; auto. simpl.
    rewrite cid_eqb_refl, H2. apply Z.leb_le in H1. rewrite H1. auto.
Qed.
Lemma flushed_cached c r x j : flushed c r x j = true -> sigs_of c x <> None.
Proof.
  rewrite flushed_spec. intros [sigs [Hin _]] H.
  apply (aget_None_notin cid_eqb cid_eqb_eq) in H. apply H.
  change x with (fst (x, sigs)). apply in_map; auto.
Qed.

Lemma rcvd_flush_aux (f : Z -> list cid -> list cid) (l : list (Z * list cid)) j :
  NoDup (map fst l) -> (forall k, f k [] = []) ->
  match aget Z.eqb j (filter (fun e => negb (is_nil (snd e))) (map (fun e => (fst e, f (fst e) (snd e))) l)) with
  | Some v => v | None => [] end =
  f j (match aget Z.eqb j l with Some v => v | None => [] end).
Proof.
  intros ND Hf. induction l as [|[k v] l IH]; simpl; [rewrite Hf; auto|].
  inversion ND; subst. destruct (j =? k) eqn:E.
  - apply Z.eqb_eq in E; subst k. destruct (f j v) eqn:Ef; simpl.
    + (* dropped: the rest has no key j *)
      assert (aget Z.eqb j l = None) by (apply (aget_None_notin Z.eqb zeqb_eq); auto).
      rewrite IH; auto. rewrite H. apply Hf.
    + rewrite Z.eqb_refl. auto.
  - destruct (is_nil (f k v)); simpl; [|rewrite E]; apply IH; auto.
Qed.

Lemma rcvd_flush c r j : NoDup (map fst (rcvd c)) ->
  rcvd_of (pc_flush c r) j = filter (fun x => negb (flushed c r x j)) (rcvd_of c j).
Proof.
  intro ND. unfold rcvd_of, pc_flush; simpl.
  apply (rcvd_flush_aux (fun k l => filter (fun x => negb (flushed c r x k)) l)); auto.
Qed.

Lemma keys_filter_map {A} (g : Z -> A -> A) (p : Z * A -> bool) (l : list (Z * A)) :
  NoDup (map fst l) -> NoDup (map fst (filter p (map (fun e => (fst e, g (fst e) (snd e))) l))).
Proof.
  induction l as [|[k v] l IH]; simpl; intro ND; [constructor|].
  inversion ND; subst. destruct (p (k, g k v)); simpl; auto.
  constructor; auto. intro H. apply H1.
  apply in_map_iff in H as [[k' v'] [E H]]. simpl in E; subst k'.
  apply filter_In in H as [H _]. apply in_map_iff in H as [[k2 v2] [E H]]. inversion E; subst.
  change k with (fst (k, v2)). apply in_map; auto.
Qed.

Lemma nodup_filter_keys {A B} (p : A * B -> bool) (l : list (A * B)) :
  NoDup (map fst l) -> NoDup (map fst (filter p l)).
Proof.
  induction l as [|[k v] l IH]; simpl; intro ND; [constructor|].
  inversion ND; subst. destruct (p (k, v)); simpl; auto.
  constructor; auto. intro H. apply H1. apply in_map_iff in H as [[k' v'] [E H]]. simpl in E; subst.
  apply filter_In in H as [H _]. change k with (fst (k, v')). apply in_map; auto.
Qed.

(* ---- structural invariants that hold for every operation list ---- *)

(* ---- what Append does, at the level of membership (who has a partial where) ---- *)
Definition evh_is (evh : option cid) (id' : cid) : bool :=
  match evh with Some h => cid_eqb id' h | None => false end.

Record add_spec (cap : Z) (c : pcache) (idx : Z) (id : cid) (c' : pcache) (L1 : list cid) (evh : option cid) : Prop := {
  as_new : has_entry c idx id = false;
  as_plain : evh = None -> Z.of_nat (length (rcvd_of c idx)) < cap /\ L1 = rcvd_of c idx;
  as_evict : forall h, evh = Some h ->
     cap <= Z.of_nat (length (rcvd_of c idx)) /\ rcvd_of c idx = h :: L1 /\ sigs_of c h <> None;
  as_has : forall x id', has_entry c' x id' =
     (has_entry c x id' && negb (evh_is evh id' && (x =? idx))) || (cid_eqb id' id && (x =? idx));
  as_rcvd : forall j, rcvd_of c' j = if j =? idx then L1 ++ [id] else rcvd_of c j;
  as_keys : NoDup (map fst (rounds c)) -> NoDup (map fst (rounds c'));
  as_rkeys : NoDup (map fst (rcvd c)) -> NoDup (map fst (rcvd c'));
  as_nonempty : (forall i s, sigs_of c i = Some s -> s <> []) -> (forall i s, sigs_of c' i = Some s -> s <> []);
  as_exists : forall i s, sigs_of c' i = Some s -> i = id \/ exists s0, sigs_of c i = Some s0
}.

Lemma has_entry_sigs c x id : has_entry c x id = true <-> exists s, sigs_of c id = Some s /\ zmem x s = true.
Proof.
  unfold has_entry. destruct (sigs_of c id) as [s|]; split.
  - intro H; exists s; auto.
  - intros [s0 [E H]]. inversion E; subst; auto.
  - discriminate.
  - intros [s0 [E _]]; discriminate.
Qed.

Lemma app_not_nil' {A} (l : list A) x : l ++ [x] <> [].
Proof. destruct l; discriminate. Qed.

Lemma pc_append_spec cap c idx id c' e : pc_append cap c idx id = (c', e) ->
  c' = c \/ exists L1 evh, add_spec cap c idx id c' L1 evh.
Proof.
  unfold pc_append. destruct (has_entry c idx id) eqn:Hn; [intro H; inversion H; auto|].
  unfold pc_evict. destruct (cap <=? Z.of_nat (length (rcvd_of c idx))) eqn:Hc.
  - apply Z.leb_le in Hc. destruct (rcvd_of c idx) as [|h t] eqn:HL; [intro H; inversion H; auto|].
    destruct (sigs_of c h) as [hs|] eqn:Hh; [|intro H; inversion H; auto].
    intro H; inversion H; subst c' e. clear H. right. exists t, (Some h).
    set (rs := if is_nil (zremove idx hs) then adel cid_eqb h (rounds c) else aset cid_eqb h (zremove idx hs) (rounds c)).
    assert (V : forall i, aget cid_eqb i rs =
              if cid_eqb i h then (if is_nil (zremove idx hs) then None else Some (zremove idx hs)) else sigs_of c i).
    { intro i. unfold rs. destruct (is_nil (zremove idx hs)).
      - pose proof (sigs_adel h (rounds c) [] i) as Q. unfold sigs_of in Q; simpl in Q. exact Q.
      - pose proof (sigs_aset h (zremove idx hs) (rounds c) [] i) as Q. unfold sigs_of in Q; simpl in Q. exact Q. }
    assert (HV : forall x i, (match aget cid_eqb i rs with Some s => zmem x s | None => false end) =
                             has_entry c x i && negb (cid_eqb i h && (x =? idx))).
    { intros x i. rewrite V. unfold has_entry. destruct (cid_eqb i h) eqn:E.
      - apply cid_eqb_eq in E; subst i. rewrite Hh. simpl.
        destruct (is_nil (zremove idx hs)) eqn:En.
        + apply is_nil_spec in En. pose proof (zmem_zremove x idx hs) as Q. rewrite En in Q. simpl in Q.
          destruct (x =? idx); simpl in *; [rewrite andb_false_r; auto | rewrite andb_true_r; auto].
        + rewrite zmem_zremove. destruct (x =? idx); simpl; [rewrite andb_false_r; auto | rewrite andb_true_r; auto].
      - simpl. rewrite andb_true_r. auto. }
    split; auto.
    + discriminate.
    + intros h0 E. inversion E; subst h0. rewrite HL. repeat split; auto. congruence.
    + intros x i. unfold has_entry at 1. rewrite sigs_aset. destruct (cid_eqb i id) eqn:E.
      * apply cid_eqb_eq in E; subst i. rewrite zmem_app. simpl. rewrite orb_false_r.
        specialize (HV x id). destruct (aget cid_eqb id rs); simpl in *; rewrite ?HV; auto.
        rewrite <- HV. auto.
      * rewrite orb_false_r. apply HV.
    + intro j. rewrite rcvd_aset. destruct c; reflexivity.
    + intro ND. simpl. apply (nodup_aset cid_eqb cid_eqb_eq). unfold rs.
      destruct (is_nil (zremove idx hs)); [apply (nodup_adel cid_eqb cid_eqb_eq) | apply (nodup_aset cid_eqb cid_eqb_eq)]; auto.
    + intro ND. simpl. apply (nodup_aset Z.eqb zeqb_eq); auto.
    + intros NE i s. rewrite sigs_aset. destruct (cid_eqb i id); [intro Q; inversion Q; apply app_not_nil'|].
      rewrite V. destruct (cid_eqb i h); [|apply NE].
      destruct (is_nil (zremove idx hs)) eqn:En; [discriminate|]. intro Q; inversion Q; subst.
      intro Z0. rewrite Z0 in En. discriminate.
    + intros i s. rewrite sigs_aset. destruct (cid_eqb i id) eqn:E; [apply cid_eqb_eq in E; auto|].
      rewrite V. destruct (cid_eqb i h) eqn:E2; [apply cid_eqb_eq in E2; subst; right; eauto | intro Q; right; eauto].
  - apply Z.leb_gt in Hc. intro H; inversion H; subst c' e. clear H. right. exists (rcvd_of c idx), None.
    split; auto.
    + intros h E; discriminate.
    + intros x i. unfold has_entry at 1. rewrite sigs_aset. simpl. rewrite andb_true_r. destruct (cid_eqb i id) eqn:E.
      * apply cid_eqb_eq in E; subst i. rewrite zmem_app. simpl. rewrite orb_false_r. unfold has_entry.
        fold (sigs_of c id). destruct (sigs_of c id); simpl; auto.
      * rewrite orb_false_r. reflexivity.
    + intro j. rewrite rcvd_aset. destruct c; reflexivity.
    + intro ND. simpl. apply (nodup_aset cid_eqb cid_eqb_eq); auto.
    + intro ND. simpl. apply (nodup_aset Z.eqb zeqb_eq); auto.
    + intros NE i s. rewrite sigs_aset. destruct (cid_eqb i id); [intro Q; inversion Q; apply app_not_nil' | apply NE].
    + intros i s. rewrite sigs_aset. destruct (cid_eqb i id) eqn:E; [apply cid_eqb_eq in E; auto | intro Q; right; eauto].
Qed.

(* ---- structural invariants that hold for every operation list ---- *)
Record wf (c : pcache) : Prop := {
  wf_keys : NoDup (map fst (rounds c));
  wf_rkeys : NoDup (map fst (rcvd c));
  wf_nonempty : forall id sigs, sigs_of c id = Some sigs -> sigs <> [];
  wf_rcvd : forall id j, has_entry c j id = true -> In id (rcvd_of c j);
  wf_stale : forall id j, In id (rcvd_of c j) -> has_entry c j id = true;
  wf_nodup : forall j, NoDup (rcvd_of c j)
}.

Lemma wf_init : wf pc_init.
Proof.
  split; simpl; try constructor; unfold has_entry, sigs_of, rcvd_of; simpl; try discriminate; try tauto.
Qed.

Lemma NoDup_app_single {A} (l : list A) x : NoDup l -> ~ In x l -> NoDup (l ++ [x]).
Proof.
  induction l as [|a l IH]; simpl; intros ND N; [constructor; auto; constructor|].
  inversion ND; subst. constructor.
  - intro Q. apply in_app_or in Q as [Q|[Q|[]]]; [auto | subst; apply N; auto].
  - apply IH; auto.
Qed.

(* the ids the signer keeps are its old ones (minus the evicted head) *)
Lemma add_kept cap c idx id c' L1 evh : add_spec cap c idx id c' L1 evh -> wf c ->
  NoDup L1 /\ (forall i, In i L1 -> In i (rcvd_of c idx) /\ evh_is evh i = false) /\
  (forall i, In i (rcvd_of c idx) -> evh_is evh i = false -> In i L1).
Proof.
  intros A W. pose proof (wf_nodup _ W idx) as ND. destruct evh as [h|].
  - destruct (as_evict _ _ _ _ _ _ _ A h eq_refl) as [_ [E _]]. rewrite E in *. inversion ND; subst.
    split; auto. split.
    + intros i Hi. split; [right; auto|]. simpl. apply cid_eqb_neq. intro; subst; contradiction.
    + intros i [Hi|Hi] N; auto. subst. simpl in N. rewrite cid_eqb_refl in N. discriminate.
  - destruct (as_plain _ _ _ _ _ _ _ A eq_refl) as [_ E]. subst L1. split; auto.
Qed.

Lemma wf_append cap c idx id c' e : wf c -> pc_append cap c idx id = (c', e) -> wf c'.
Proof.
  intros W H. apply pc_append_spec in H as [->|[L1 [evh A]]]; auto.
  destruct (add_kept _ _ _ _ _ _ _ A W) as [K1 [K2 K3]]. destruct W as [W1 W2 W3 W4 W5 W6].
  split.
  - apply (as_keys _ _ _ _ _ _ _ A); auto.
  - apply (as_rkeys _ _ _ _ _ _ _ A); auto.
  - apply (as_nonempty _ _ _ _ _ _ _ A); auto.
  - intros i j. rewrite (as_has _ _ _ _ _ _ _ A), (as_rcvd _ _ _ _ _ _ _ A). intro H.
    apply orb_true_iff in H as [H|H].
    + apply andb_true_iff in H as [H1 H2]. apply negb_true_iff in H2. destruct (j =? idx) eqn:Ej.
      * apply Z.eqb_eq in Ej; subst j. rewrite andb_true_r in H2. apply in_or_app; left. apply K3; auto.
      * apply W4; auto.
    + apply andb_true_iff in H as [H1 H2]. apply cid_eqb_eq in H1. subst i. rewrite H2. apply in_or_app; right; left; auto.
  - intros i j. rewrite (as_has _ _ _ _ _ _ _ A), (as_rcvd _ _ _ _ _ _ _ A). destruct (j =? idx) eqn:Ej.
    + intro H. apply in_app_or in H as [H|[H|[]]].
      * destruct (K2 _ H) as [Q1 Q2]. apply Z.eqb_eq in Ej; subst j. rewrite (W5 _ _ Q1), Q2. auto.
      * subst i. rewrite cid_eqb_refl. simpl. apply orb_true_r.
    + intro H. rewrite (W5 _ _ H). rewrite andb_false_r. auto.
  - intro j. rewrite (as_rcvd _ _ _ _ _ _ _ A). destruct (j =? idx); auto.
    apply NoDup_app_single; auto. intro H. destruct (K2 _ H) as [Q1 _].
    pose proof (W5 _ _ Q1) as Q. rewrite (as_new _ _ _ _ _ _ _ A) in Q. discriminate.
Qed.

Lemma flushed_has c r x j : wf c -> flushed c r x j = true <-> (has_entry c j x = true /\ fst x <= r).
Proof.
  intro W. rewrite flushed_spec, has_entry_sigs. split.
  - intros [s [Hin [H1 H2]]]. split; auto. exists s. split; auto. apply (In_aget cid_eqb cid_eqb_eq); auto. apply (wf_keys _ W).
  - intros [[s [E H2]] H1]. exists s. split; auto. apply (aget_In cid_eqb cid_eqb_eq); auto.
Qed.

Lemma has_flush c r j id : has_entry (pc_flush c r) j id = has_entry c j id && negb (fst id <=? r).
Proof. unfold has_entry. rewrite sigs_flush. destruct (fst id <=? r); simpl; [rewrite andb_false_r | rewrite andb_true_r]; auto. Qed.

Lemma wf_flush c r : wf c -> wf (pc_flush c r).
Proof.
  intro W. pose proof W as [W1 W2 W3 W4 W5 W6]. split.
  - simpl. apply nodup_filter_keys; auto.
  - simpl. apply (keys_filter_map (fun k l => filter (fun x => negb (flushed c r x k)) l)); auto.
  - intros id s. rewrite sigs_flush. destruct (fst id <=? r); [discriminate | apply W3].
  - intros i j. rewrite has_flush, rcvd_flush; auto. intro H. apply andb_true_iff in H as [H1 H2].
    apply filter_In. split; [apply W4; auto|]. apply negb_true_iff. destruct (flushed c r i j) eqn:F; auto.
    apply (flushed_has c r i j W) in F as [_ F]. apply negb_true_iff in H2. apply Z.leb_gt in H2. lia.
  - intros i j. rewrite has_flush, rcvd_flush; auto. intro H. apply filter_In in H as [H F].
    rewrite (W5 _ _ H). simpl. apply negb_true_iff in F. destruct (fst i <=? r) eqn:E; auto.
    assert (flushed c r i j = true); [|congruence]. apply (flushed_has c r i j W). split; [apply W5; auto | apply Z.leb_le; auto].
  - intro j. rewrite rcvd_flush; auto. apply NoDup_filter; auto.
Qed.

Lemma wf_step cap c o : wf c -> wf (fst (pc_step cap c o)).
Proof.
  intro W. destruct o as [idx id | id | r]; simpl; auto.
  - destruct (pc_append cap c idx id) as [c' e] eqn:H. simpl. eapply wf_append; eauto.
  - apply wf_flush; auto.
Qed.
Lemma wf_run cap ops : forall c, wf c -> wf (pc_run cap c ops).
Proof. induction ops as [|o t IH]; simpl; auto. intros c W. apply IH. apply wf_step; auto. Qed.

(* ---- the per-signer cap ---- *)
Definition capped (cap : Z) (c : pcache) : Prop := forall j, Z.of_nat (length (rcvd_of c j)) <= cap.

Lemma filter_length_le {A} (f : A -> bool) l : (length (filter f l) <= length l)%nat.
Proof. induction l; simpl; auto. destruct (f a); simpl; lia. Qed.

Lemma capped_append cap c idx id c' e : capped cap c -> pc_append cap c idx id = (c', e) -> capped cap c'.
Proof.
  intros Cp H. apply pc_append_spec in H as [->|[L1 [evh A]]]; auto.
  intro j. rewrite (as_rcvd _ _ _ _ _ _ _ A). destruct (j =? idx); auto. rewrite app_length. simpl.
  destruct evh as [h|].
  - destruct (as_evict _ _ _ _ _ _ _ A h eq_refl) as [_ [E _]]. specialize (Cp idx). rewrite E in Cp. simpl in Cp. lia.
  - destruct (as_plain _ _ _ _ _ _ _ A eq_refl) as [Lt E]. subst L1. lia.
Qed.
Lemma capped_flush cap c r : wf c -> capped cap c -> capped cap (pc_flush c r).
Proof.
  intros W Cp j. rewrite rcvd_flush; [|apply (wf_rkeys _ W)]. specialize (Cp j).
  pose proof (filter_length_le (fun x => negb (flushed c r x j)) (rcvd_of c j)). lia.
Qed.
Lemma capped_run cap ops : forall c, wf c -> capped cap c -> capped cap (pc_run cap c ops).
Proof.
  induction ops as [|o t IH]; simpl; auto. intros c W Cp. apply IH; [apply wf_step; auto|].
  destruct o as [idx id | id | r]; simpl; auto.
  - destruct (pc_append cap c idx id) as [c' e] eqn:H. simpl. eapply capped_append; eauto.
  - apply capped_flush; auto.
Qed.

(* ---- isolation by index ---- *)
Lemma isolation_step cap c A id c' e j id' :
  pc_append cap c A id = (c', e) -> j <> A -> has_entry c j id' = true -> has_entry c' j id' = true.
Proof.
  intros H N E. apply pc_append_spec in H as [->|[L1 [evh S]]]; auto.
  rewrite (as_has _ _ _ _ _ _ _ S), E. apply Z.eqb_neq in N. rewrite N, andb_false_r. auto.
Qed.
Lemma flush_keeps c r j id : has_entry c j id = true -> r < fst id -> has_entry (pc_flush c r) j id = true.
Proof. intros H L. rewrite has_flush, H. simpl. apply negb_true_iff. apply Z.leb_gt. lia. Qed.

(* ---- counting ---- *)
Lemma live_le_rcvd c j : wf c -> (live_count c j <= length (rcvd_of c j))%nat.
Proof.
  intro W. unfold live_count. rewrite <- (map_length fst). apply NoDup_incl_length.
  - apply nodup_filter_keys; auto. apply (wf_keys _ W).
  - intros id H. apply in_map_iff in H as [[k s] [E H]]. simpl in E; subst k.
    apply filter_In in H as [H M]. simpl in M. apply (wf_rcvd _ W). apply has_entry_sigs. exists s. split; auto.
    apply (In_aget cid_eqb cid_eqb_eq); auto. apply (wf_keys _ W).
Qed.

Lemma pc_run_app cap a b : forall c, pc_run cap c (a ++ b) = pc_run cap (pc_run cap c a) b.
Proof. induction a as [|o a IH]; simpl; auto. Qed.

(* ---- signers of cached entries come from the operation list ---- *)
Definition sig_in (S : list Z) (c : pcache) : Prop := forall id i, has_entry c i id = true -> In i S.

Lemma sig_in_append S cap c idx id c' e : sig_in S c -> In idx S -> pc_append cap c idx id = (c', e) -> sig_in S c'.
Proof.
  intros I Hin H. apply pc_append_spec in H as [->|[L1 [evh A]]]; auto.
  intros i x. rewrite (as_has _ _ _ _ _ _ _ A). intro Q. apply orb_true_iff in Q as [Q|Q].
  - apply andb_true_iff in Q as [Q _]. apply (I _ _ Q).
  - apply andb_true_iff in Q as [_ Q]. apply Z.eqb_eq in Q. subst; auto.
Qed.
Lemma sig_in_flush S c r : sig_in S c -> sig_in S (pc_flush c r).
Proof. intros I i x. rewrite has_flush. intro Q. apply andb_true_iff in Q as [Q _]. apply (I _ _ Q). Qed.

Definition op_signer_in (S : list Z) (o : cop) : Prop :=
  match o with CAppend idx _ => In idx S | _ => True end.
Lemma sig_in_run S cap ops : forall c, sig_in S c -> Forall (op_signer_in S) ops -> sig_in S (pc_run cap c ops).
Proof.
  induction ops as [|o t IH]; simpl; auto. intros c I F. inversion F; subst. apply IH; auto.
  destruct o as [idx id | id | r]; simpl; auto.
  - destruct (pc_append cap c idx id) as [c' e] eqn:H. simpl. eapply sig_in_append; eauto.
  - apply sig_in_flush; auto.
Qed.
Lemma sum_split {A} (f g : A -> nat) S :
  list_sum (map (fun k => (f k + g k)%nat) S) = (list_sum (map f S) + list_sum (map g S))%nat.
Proof. induction S; simpl; auto. rewrite IHS. lia. Qed.
Lemma sum_ge1 {A} (f : A -> nat) S k : In k S -> (1 <= f k)%nat -> (1 <= list_sum (map f S))%nat.
Proof. induction S; simpl; [tauto|]. intros [->|H] Q; [lia|]. specialize (IHS H Q). lia. Qed.
Lemma length_le_sum {A} (P : Z -> A -> bool) (S : list Z) (l : list A) :
  (forall x, In x l -> exists k, In k S /\ P k x = true) ->
  (length l <= list_sum (map (fun k => length (filter (P k) l)) S))%nat.
Proof.
  induction l as [|x l IH]; intro H; simpl; [lia|].
  assert (E : map (fun k => length (if P k x then x :: filter (P k) l else filter (P k) l)) S =
              map (fun k => (b2n (P k x) + length (filter (P k) l))%nat) S).
  { apply map_ext. intro k. destruct (P k x); auto. }
  rewrite E, sum_split.
  destruct (H x (or_introl eq_refl)) as [k [Hk Pk]].
  pose proof (sum_ge1 (fun k => b2n (P k x)) S k Hk) as G. simpl in G. rewrite Pk in G. specialize (G (le_n _)).
  assert (IH' : (length l <= list_sum (map (fun k => length (filter (P k) l)) S))%nat) by (apply IH; intros; apply H; right; auto).
  lia.
Qed.
Lemma sum_le_const {A} (f : A -> nat) (cap : Z) S : (forall k, Z.of_nat (f k) <= cap) ->
  Z.of_nat (list_sum (map f S)) <= cap * Z.of_nat (length S).
Proof.
  intro H. induction S as [|k S IH]; simpl length; simpl list_sum; [lia|].
  rewrite Nat2Z.inj_add, Nat2Z.inj_succ. unfold Z.succ. rewrite Z.mul_add_distr_l. specialize (H k). lia.
Qed.

Lemma rounds_le_signers cap c S : wf c -> sig_in S c ->
  (forall j, Z.of_nat (live_count c j) <= cap) ->
  Z.of_nat (length (rounds c)) <= cap * Z.of_nat (length S).
Proof.
  intros W I L.
  eapply Z.le_trans; [apply Nat2Z.inj_le; apply (length_le_sum (fun k (e : cid * list Z) => zmem k (snd e)) S)|].
  - intros [id s] Hin. simpl.
    assert (Q : sigs_of c id = Some s) by (apply (In_aget cid_eqb cid_eqb_eq); auto; apply (wf_keys _ W)).
    destruct s as [|i s']; [exfalso; apply (wf_nonempty _ W _ _ Q); auto|].
    exists i. split; [|simpl; rewrite Z.eqb_refl; auto]. apply (I id). apply has_entry_sigs. exists (i :: s'). split; auto.
    simpl. rewrite Z.eqb_refl; auto.
  - apply sum_le_const. intro k. apply L.
Qed.

Definition in_window (limit extra : Z) (a : agg) : Prop :=
  forall id sigs, sigs_of (a_cache a) id = Some sigs -> a_head a < fst id <= a_head a + limit + extra.

Lemma window_step cap limit extra a e :
  in_window limit extra a -> (forall r, e = AStored r -> a_head a <= r) ->
  in_window limit extra (agg_step cap limit extra a e).
Proof.
  intros I M. destruct e as [r | idx id | r ok]; simpl.
  - specialize (M r eq_refl). intros id s. simpl. rewrite sigs_flush. destruct (fst id <=? r) eqn:E; [discriminate|].
    apply Z.leb_gt in E. intro Q. specialize (I _ _ Q). lia.
  - destruct (should_store limit extra (a_head a) (fst id)) eqn:Sh; auto.
    unfold should_store in Sh. apply andb_true_iff in Sh as [S1 S2]. apply Z.ltb_lt in S1. apply Z.leb_le in S2.
    destruct (pc_append cap (a_cache a) idx id) as [c' er] eqn:H. simpl.
    apply pc_append_spec in H as [->|[L1 [evh A]]]; [apply I|].
    intros id' s Q. destruct (as_exists _ _ _ _ _ _ _ A _ _ Q) as [->|[s0 Q0]]; simpl; [lia | apply (I _ _ Q0)].
  - intros id s. simpl. rewrite sigs_flush. destruct (fst id <=? r) eqn:E; [discriminate|].
    apply Z.leb_gt in E. intro Q. specialize (I _ _ Q).
    destruct ((a_head a + 1 =? r) && ok) eqn:B; [|lia].
    apply andb_true_iff in B as [B _]. apply Z.eqb_eq in B. lia.
Qed.

Lemma window_run cap limit extra es : forall a,
  in_window limit extra a -> heads_mono (a_head a) es -> in_window limit extra (agg_run cap limit extra a es).
Proof.
  induction es as [|e t IH]; simpl; auto. intros a I M. destruct e as [r | idx id | r ok].
  - destruct M as [M1 M2]. apply IH; [apply window_step; auto; intros r' Q; inversion Q; subst; auto | exact M2].
  - apply IH; [apply window_step; auto; intros r' Q; discriminate|].
    simpl. destruct (should_store limit extra (a_head a) (fst id)); auto.
  - apply IH; [apply window_step; auto; intros r' Q; discriminate|]. simpl. exact M.
Qed.

Lemma nodup_range_length (l : list Z) h n : NoDup l -> (forall x, In x l -> h < x <= h + Z.of_nat n) -> (length l <= n)%nat.
Proof.
  intros ND H. rewrite <- (seq_length n 0), <- (map_length (fun k => h + 1 + Z.of_nat k) (seq 0 n)).
  apply NoDup_incl_length; auto. intros x Hx. specialize (H x Hx).
  apply in_map_iff. exists (Z.to_nat (x - h - 1)). split; [lia|]. apply in_seq. lia.
Qed.

Definition cached_rounds (c : pcache) : list Z := nodup Z.eq_dec (map (fun e => fst (fst e)) (rounds c)).

Lemma window_distinct limit extra a : 0 <= limit + extra -> wf (a_cache a) -> in_window limit extra a ->
  Z.of_nat (length (cached_rounds (a_cache a))) <= limit + extra.
Proof.
  intros P W I. unfold cached_rounds.
  assert (Q : (length (nodup Z.eq_dec (map (fun e : cid * list Z => fst (fst e)) (rounds (a_cache a)))) <= Z.to_nat (limit + extra))%nat).
  { apply (nodup_range_length _ (a_head a)); [apply NoDup_nodup|].
    intros x Hx. apply nodup_In in Hx. apply in_map_iff in Hx as [[id s] [E Hin]]. simpl in E; subst x.
    assert (Q : sigs_of (a_cache a) id = Some s) by (apply (In_aget cid_eqb cid_eqb_eq); auto; apply (wf_keys _ W)).
    specialize (I _ _ Q). rewrite Z2Nat.id; auto. lia. }
  apply Nat2Z.inj_le in Q. rewrite Z2Nat.id in Q; auto.
Qed.

Lemma wf_agg_step cap limit extra a e : wf (a_cache a) -> wf (a_cache (agg_step cap limit extra a e)).
Proof.
  intro W. destruct e as [r | idx id | r ok]; simpl.
  - apply wf_flush; auto.
  - destruct (should_store limit extra (a_head a) (fst id)); auto. simpl.
    destruct (pc_append cap (a_cache a) idx id) as [c' er] eqn:H. simpl. eapply wf_append; eauto.
  - apply wf_flush; auto.
Qed.
Lemma wf_agg_run cap limit extra es : forall a, wf (a_cache a) -> wf (a_cache (agg_run cap limit extra a es)).
Proof. induction es as [|e t IH]; simpl; auto. intros a W. apply IH. apply wf_agg_step; auto. Qed.


(* ---- a victim that signs at most cap ids is never evicted ---- *)
Section Victim.
  Variable cap : Z.
  Variable V : Z.
  Variable G : list cid.
  Hypothesis G_small : Z.of_nat (length G) <= cap.

  Record vinv (c : pcache) : Prop := {
    vi_wf : wf c;
    vi_in : forall id, In id (rcvd_of c V) -> In id G
  }.
  Definition op_genuine (o : cop) : Prop :=
    match o with CAppend idx id => idx = V -> In id G | _ => True end.

  Lemma vinv_init : vinv pc_init.
  Proof. split; [apply wf_init | unfold rcvd_of; simpl; tauto]. Qed.

  Lemma short_list (L : list cid) id : NoDup L -> incl L G -> In id G -> ~ In id L -> Z.of_nat (length L) < cap.
  Proof.
    intros ND I Hin Hn.
    assert ((length (id :: L) <= length G)%nat).
    { apply NoDup_incl_length; [constructor; auto|]. intros x [->|Hx]; auto. }
    simpl in H. lia.
  Qed.

  (* an Append on behalf of V with a genuine id never evicts *)
  Lemma victim_no_evict c id c' L1 h :
    vinv c -> In id G -> add_spec cap c V id c' L1 (Some h) -> False.
  Proof.
    intros [W Hin] Hg A. destruct (as_evict _ _ _ _ _ _ _ A h eq_refl) as [Hle _].
    assert (~ In id (rcvd_of c V)).
    { intro Q. pose proof (wf_stale _ W _ _ Q) as Q2. rewrite (as_new _ _ _ _ _ _ _ A) in Q2. discriminate. }
    pose proof (short_list (rcvd_of c V) id (wf_nodup _ W V) Hin Hg H). lia.
  Qed.

  Lemma victim_append_keeps c idx id c' e id0 :
    vinv c -> op_genuine (CAppend idx id) -> pc_append cap c idx id = (c', e) ->
    has_entry c V id0 = true -> has_entry c' V id0 = true.
  Proof.
    intros I Og H E0. destruct (Z.eq_dec idx V) as [->|N].
    2:{ eapply isolation_step; eauto. }
    simpl in Og. specialize (Og eq_refl).
    apply pc_append_spec in H as [->|[L1 [evh A]]]; auto.
    destruct evh as [h|]; [exfalso; eapply victim_no_evict; eauto|].
    rewrite (as_has _ _ _ _ _ _ _ A), E0. simpl. auto.
  Qed.

  Lemma vinv_append c idx id c' e : vinv c -> op_genuine (CAppend idx id) -> pc_append cap c idx id = (c', e) -> vinv c'.
  Proof.
    intros I Og H. pose proof (wf_append _ _ _ _ _ _ (vi_wf _ I) H) as W'. split; auto.
    apply pc_append_spec in H as [->|[L1 [evh A]]]; [apply (vi_in _ I)|].
    intro x. rewrite (as_rcvd _ _ _ _ _ _ _ A). destruct (V =? idx) eqn:E; [|apply (vi_in _ I)].
    apply Z.eqb_eq in E. subst idx. specialize (Og eq_refl). intro Q. apply in_app_or in Q as [Q|[Q|[]]]; [|subst; auto].
    destruct (add_kept _ _ _ _ _ _ _ A (vi_wf _ I)) as [_ [K2 _]]. apply (vi_in _ I). apply K2; auto.
  Qed.

  Lemma vinv_flush c r : vinv c -> vinv (pc_flush c r).
  Proof.
    intros [W Hin]. split; [apply wf_flush; auto|].
    intro x. rewrite rcvd_flush; [|apply (wf_rkeys _ W)]. intro Q. apply filter_In in Q as [Q _]. auto.
  Qed.

  Lemma vinv_run ops : forall c, vinv c -> Forall op_genuine ops -> vinv (pc_run cap c ops).
  Proof.
    induction ops as [|o t IH]; simpl; auto. intros c I F. inversion F; subst. apply IH; auto.
    destruct o as [idx id | id | r]; simpl; auto.
    - destruct (pc_append cap c idx id) as [c' e] eqn:H. simpl. eapply vinv_append; eauto.
    - apply vinv_flush; auto.
  Qed.

  Theorem victim_stable ops o id :
    Forall op_genuine (ops ++ [o]) ->
    has_entry (pc_run cap pc_init ops) V id = true ->
    (forall r, o = CFlush r -> r < fst id) ->
    has_entry (pc_run cap pc_init (ops ++ [o])) V id = true.
  Proof.
    intros F E Hf. apply Forall_app in F as [F1 F2]. inversion F2; subst.
    rewrite pc_run_app. simpl. pose proof (vinv_run ops pc_init vinv_init F1) as I.
    destruct o as [idx id' | id' | r]; simpl; auto.
    - destruct (pc_append cap (pc_run cap pc_init ops) idx id') as [c' e] eqn:H. simpl.
      eapply victim_append_keeps; eauto.
    - apply flush_keeps; auto.
  Qed.
End Victim.

(* ---- closed statements over operation lists ---- *)
Definition op_signers (ops : list cop) : list Z :=
  nodup Z.eq_dec (flat_map (fun o => match o with CAppend i _ => [i] | _ => [] end) ops).

(* per signer index: at most cap round caches and at most cap recorded ids; in total at most
   cap x (number of signer indices) round caches *)
Definition cache_bounds (cap : Z) (ops : list cop) : Prop :=
  let c := pc_run cap pc_init ops in
  (forall idx, Z.of_nat (live_count c idx) <= cap) /\
  (forall idx, Z.of_nat (length (rcvd_of c idx)) <= cap) /\
  Z.of_nat (length (rounds c)) <= cap * Z.of_nat (length (op_signers ops)).

Lemma sig_in_init S : sig_in S pc_init.
Proof. unfold sig_in, has_entry, sigs_of; simpl; discriminate. Qed.

Lemma reachable_wf cap ops : wf (pc_run cap pc_init ops).
Proof. apply wf_run. apply wf_init. Qed.

Theorem cache_bounded cap ops : 0 < cap -> cache_bounds cap ops.
Proof.
  intro Hc. pose proof (reachable_wf cap ops) as W.
  assert (Cp : capped cap (pc_run cap pc_init ops)).
  { apply capped_run; [apply wf_init|]. intro j. unfold rcvd_of; simpl. lia. }
  assert (Lv : forall idx, Z.of_nat (live_count (pc_run cap pc_init ops) idx) <= cap).
  { intro idx. pose proof (live_le_rcvd _ idx W). specialize (Cp idx). lia. }
  unfold cache_bounds. split; [exact Lv|]. split; [exact Cp|].
  apply rounds_le_signers; auto.
  apply sig_in_run; [apply sig_in_init|]. apply Forall_forall. intros o Ho. destruct o as [i id| |]; simpl; auto.
  unfold op_signers. apply nodup_In. apply in_flat_map. exists (CAppend i id). split; auto. left; auto.
Qed.

(* the recorded ids of an index are exactly the round caches it is in: the eviction never meets a
   missing round cache *)
Theorem append_never_misses cap ops idx id :
  snd (pc_append cap (pc_run cap pc_init ops) idx id) <> CErrEvictMissing.
Proof.
  pose proof (reachable_wf cap ops) as W. set (c := pc_run cap pc_init ops) in *.
  unfold pc_append. destruct (has_entry c idx id); [discriminate|].
  unfold pc_evict. destruct (cap <=? Z.of_nat (length (rcvd_of c idx))); [|discriminate].
  destruct (rcvd_of c idx) as [|h t] eqn:HL; [discriminate|].
  assert (Q : has_entry c idx h = true) by (apply (wf_stale _ W); rewrite HL; left; auto).
  unfold has_entry in Q. destruct (sigs_of c h); [discriminate | discriminate].
Qed.

(* ---- packets: who can cause an Append on behalf of V ---- *)
Definition genuine_sigs (k : scheme_kind) (V : Z) (G : list cid) : list psig :=
  map (fun g => honest_sig k V (fst g) (snd g)) G.

Definition isolation_stmt (k : scheme_kind) : Prop :=
  forall cap V G es e id, 0 < cap -> Z.of_nat (length G) <= cap ->
    (forall p, In (NPacket p) (es ++ [e]) -> ps_signer (pk_sig p) = V -> In (pk_sig p) (genuine_sigs k V G)) ->
    has_entry (pc_run cap pc_init (cops_of k es)) V id = true ->
    (forall r, e = NFlush r -> r < fst id) ->
    has_entry (pc_run cap pc_init (cops_of k (es ++ [e]))) V id = true.

Lemma cops_of_app k a b : cops_of k (a ++ b) = cops_of k a ++ cops_of k b.
Proof. unfold cops_of. apply flat_map_app. Qed.

Lemma genuine_chained V G es :
  (forall p, In (NPacket p) es -> ps_signer (pk_sig p) = V -> In (pk_sig p) (genuine_sigs Chained V G)) ->
  Forall (op_genuine V G) (cops_of Chained es).
Proof.
  intro H. apply Forall_forall. intros o Ho. unfold cops_of in Ho. apply in_flat_map in Ho as [e [He Ho]].
  destruct e as [p | r]; simpl in Ho.
  - destruct (pkt_valid Chained p) eqn:Val; [|destruct Ho]. destruct Ho as [<-|[]]. simpl. intro EV.
    specialize (H p He EV). unfold genuine_sigs in H. apply in_map_iff in H as [[r prev] [E Hg]]. simpl in E.
    unfold pkt_valid in Val. rewrite <- E in Val. simpl in Val. apply andb_true_iff in Val as [V1 V2].
    apply Z.eqb_eq in V1. apply bytes_eqb_eq in V2. subst. destruct p as [pr pp ps]; simpl in *. subst. exact Hg.
  - destruct Ho as [<-|[]]. simpl. auto.
Qed.

Lemma isolation_chained : isolation_stmt Chained.
Proof.
  intros cap V G es e id Hc Hs Hgen E Hf.
  rewrite cops_of_app. unfold cops_of at 2. simpl. rewrite app_nil_r.
  pose proof (genuine_chained V G (es ++ [e]) Hgen) as F. rewrite cops_of_app in F. unfold cops_of at 2 in F. simpl in F. rewrite app_nil_r in F.
  destruct e as [p | r]; simpl in *.
  - destruct (pkt_valid Chained p); [|rewrite app_nil_r; auto].
    apply (victim_stable cap V G Hs); auto. intros r Q; discriminate.
  - apply (victim_stable cap V G Hs); auto. intros r' Q; inversion Q; subst. apply Hf; auto.
Qed.

(* ---- pending partials while the aggregator is stalled ---- *)
Lemma np_run_le cap : forall sent pending, pending <= cap -> np_run cap pending sent <= cap.
Proof.
  induction sent as [|k IH]; intros p H; simpl; auto.
  destruct (p <? cap) eqn:E; auto. apply Z.ltb_lt in E. apply IH. lia.
Qed.
Lemma np_run_min cap : forall sent pending, pending <= cap ->
  np_run cap pending sent = Z.min (pending + Z.of_nat sent) cap.
Proof.
  induction sent as [|k IH]; intros p H.
  - simpl. lia.
  - cbn [np_run]. destruct (p <? cap) eqn:E.
    + apply Z.ltb_lt in E. rewrite IH by lia. lia.
    + apply Z.ltb_ge in E. lia.
Qed.
