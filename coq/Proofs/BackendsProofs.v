(* Proofs about Model/Backends.v (C18): the byte-key ordering lemma, the simulations between the
   three back-end models and the sorted-map specification, and the properties of the
   specification machines that carry over to the back-ends through the refinement. *)
From Coq Require Import ZArith List Bool Lia Sorted.
From DV Require Import Model.Backends.
Import ListNotations.
Open Scope Z_scope.

(* ---------- A. byte keys ---------- *)
Lemma pow256_pos n : 0 < 256 ^ Z.of_nat n.
Proof. apply Z.pow_pos_nonneg; lia. Qed.

Lemma pow256_S n : 256 ^ Z.of_nat (S n) = 256 * 256 ^ Z.of_nat n.
Proof. rewrite Nat2Z.inj_succ, Z.pow_succ_r; lia. Qed.

Lemma be_bytes_order : forall n r r',
  0 <= r < 256 ^ Z.of_nat n -> 0 <= r' < 256 ^ Z.of_nat n ->
  lex_cmp (be_bytes n r) (be_bytes n r') = (r ?= r').
Proof.
  induction n; intros r r' Hr Hr'.
  - simpl in *. assert (r = 0) by lia. assert (r' = 0) by lia. subst. reflexivity.
  - rewrite pow256_S in Hr, Hr'. pose proof (pow256_pos n) as HB.
    set (B := 256 ^ Z.of_nat n) in *.
    cbn [be_bytes lex_cmp]. fold B.
    pose proof (Z.div_mod r B ltac:(lia)) as E. pose proof (Z.div_mod r' B ltac:(lia)) as E'.
    pose proof (Z.mod_pos_bound r B HB) as M. pose proof (Z.mod_pos_bound r' B HB) as M'.
    destruct (Z.compare_spec (r / B) (r' / B)) as [Q|Q|Q].
    + rewrite IHn by lia. rewrite E at 2. rewrite E' at 2. rewrite Q.
      symmetry. destruct (Z.compare_spec (r mod B) (r' mod B));
        [apply Z.compare_eq_iff|apply Z.compare_lt_iff|apply Z.compare_gt_iff]; nia.
    + symmetry. apply Z.compare_lt_iff. nia.
    + symmetry. apply Z.compare_gt_iff. nia.
Qed.

Lemma be_val_be_bytes : forall n r acc, 0 <= r < 256 ^ Z.of_nat n ->
  be_val acc (be_bytes n r) = acc * 256 ^ Z.of_nat n + r.
Proof.
  induction n; intros r acc Hr.
  - simpl in *. lia.
  - rewrite pow256_S in *. pose proof (pow256_pos n) as HB.
    set (B := 256 ^ Z.of_nat n) in *. cbn [be_bytes be_val]. fold B.
    pose proof (Z.div_mod r B ltac:(lia)) as E.
    pose proof (Z.mod_pos_bound r B HB) as M.
    rewrite IHn by lia. nia.
Qed.

Lemma two64_pow : two64 = 256 ^ Z.of_nat 8.
Proof. reflexivity. Qed.

Lemma be64_order r r' : in_range r -> in_range r' -> lex_cmp (be64 r) (be64 r') = (r ?= r').
Proof. unfold in_range, be64. rewrite two64_pow. apply be_bytes_order. Qed.

Lemma be64_dec_enc r : in_range r -> be64_dec (be64 r) = r.
Proof. unfold in_range, be64, be64_dec. rewrite two64_pow. intros. rewrite be_val_be_bytes by assumption. lia. Qed.
Global Opaque be64 be64_dec.

(* ---------- list helpers ---------- *)
Lemma zlen_map {A B} (f : A -> B) l : zlen (map f l) = zlen l.
Proof. unfold zlen. now rewrite map_length. Qed.

Lemma znth_map {A B} (f : A -> B) l i : znth (map f l) i = option_map f (znth l i).
Proof.
  unfold znth. destruct (i <? 0); [reflexivity|].
  revert l. induction (Z.to_nat i); intros [|x l]; simpl; auto.
Qed.

Lemma zlast_map {A B} (f : A -> B) l : zlast (map f l) = option_map f (zlast l).
Proof. unfold zlast. now rewrite zlen_map, znth_map. Qed.

Lemma zlen_nonneg {A} (l : list A) : 0 <= zlen l.
Proof. unfold zlen. lia. Qed.

Lemma zlen_cons {A} (x : A) l : zlen (x :: l) = 1 + zlen l.
Proof. unfold zlen. simpl length. lia. Qed.

Lemma znth_In {A} (l : list A) i x : znth l i = Some x -> In x l.
Proof. unfold znth. destruct (i <? 0); [discriminate|]. apply nth_error_In. Qed.

Lemma znth_cons_0 {A} (x : A) l : znth (x :: l) 0 = Some x.
Proof. reflexivity. Qed.

Lemma znth_cons_pos {A} (x : A) l i : 0 < i -> znth (x :: l) i = znth l (i - 1).
Proof.
  intros H. unfold znth. destruct (Z.ltb_spec i 0); [lia|]. destruct (Z.ltb_spec (i - 1) 0); [lia|].
  replace (Z.to_nat i) with (S (Z.to_nat (i - 1))) by lia. reflexivity.
Qed.

Lemma znth_none {A} (l : list A) i : zlen l <= i -> znth l i = None.
Proof.
  intros H. unfold znth. destruct (Z.ltb_spec i 0); [reflexivity|].
  apply nth_error_None. unfold zlen in H. lia.
Qed.

(* ---------- B. bucket with big-endian keys = smap with integer keys ---------- *)
Section Enc.
  Context {V : Type}.
  Implicit Type m : @smap V.
  Definition enc_entry (e : Z * V) : list Z * V := (be64 (fst e), snd e).
  Definition enc_map (m : smap (V := V)) : bucket (V := V) := map enc_entry m.
  Definition keys_in_range (m : smap (V := V)) : Prop := Forall in_range (keys m).

  Lemma keys_in_range_cons k v m : keys_in_range ((k, v) :: m) <-> in_range k /\ keys_in_range m.
  Proof. unfold keys_in_range. simpl. split; intros H; [inversion H; auto|constructor; tauto]. Qed.

  Lemma bk_put_enc m r v : keys_in_range m -> in_range r ->
    bk_put (enc_map m) (be64 r) v = enc_map (sm_put m r v).
  Proof.
    intros Hm Hr. induction m as [|[k x] m IH]; simpl; [reflexivity|].
    apply keys_in_range_cons in Hm as [Hk Hm].
    rewrite be64_order by assumption. destruct (r ?= k); simpl; try reflexivity.
    now rewrite IH.
  Qed.

  Lemma bk_get_enc m r : keys_in_range m -> in_range r ->
    bk_get (enc_map m) (be64 r) = sm_get m r.
  Proof.
    intros Hm Hr. induction m as [|[k x] m IH]; simpl; [reflexivity|].
    apply keys_in_range_cons in Hm as [Hk Hm].
    rewrite be64_order by assumption. rewrite Z.eqb_compare. destruct (k ?= r); auto.
  Qed.

  Lemma bk_del_enc m r : keys_in_range m -> in_range r ->
    bk_del (enc_map m) (be64 r) = enc_map (sm_del m r).
  Proof.
    intros Hm Hr. induction m as [|[k x] m IH]; simpl; [reflexivity|].
    apply keys_in_range_cons in Hm as [Hk Hm].
    rewrite be64_order by assumption. rewrite Z.eqb_compare. destruct (k ?= r); simpl; auto; now rewrite IH.
  Qed.

  Lemma bk_seek_enc m r : keys_in_range m -> in_range r ->
    bk_seek (enc_map m) (be64 r) = sm_seek m r.
  Proof.
    intros Hm Hr. induction m as [|[k x] m IH]; simpl; [reflexivity|].
    apply keys_in_range_cons in Hm as [Hk Hm].
    rewrite be64_order by assumption. unfold Z.ltb. destruct (k ?= r); auto. now rewrite IH.
  Qed.

  Lemma keys_sm_put m r v k : In k (keys (sm_put m r v)) <-> k = r \/ In k (keys m).
  Proof.
    induction m as [|[k0 x] m IH]; simpl; [intuition|].
    destruct (Z.compare_spec r k0); simpl; try rewrite IH; subst; intuition.
  Qed.

  Lemma keys_sm_del_incl m r k : In k (keys (sm_del m r)) -> In k (keys m).
  Proof.
    induction m as [|[k0 x] m IH]; simpl; [auto|].
    destruct (k0 =? r); simpl; intuition.
  Qed.

  Lemma keys_in_range_put m r v : keys_in_range m -> in_range r -> keys_in_range (sm_put m r v).
  Proof.
    unfold keys_in_range. rewrite !Forall_forall. intros H Hr k Hk.
    apply keys_sm_put in Hk as [->|Hk]; auto.
  Qed.

  Lemma keys_in_range_del m r : keys_in_range m -> keys_in_range (sm_del m r).
  Proof.
    unfold keys_in_range. rewrite !Forall_forall. intros H k Hk. apply keys_sm_del_incl in Hk. auto.
  Qed.

  Lemma znth_enc m i : znth (enc_map m) i = option_map enc_entry (znth m i).
  Proof. apply znth_map. Qed.
  Lemma zlast_enc m : zlast (enc_map m) = option_map enc_entry (zlast m).
  Proof. apply zlast_map. Qed.
  Lemma zlen_enc m : zlen (enc_map m) = zlen m.
  Proof. apply zlen_map. Qed.

  Lemma znth_in_range m i e : keys_in_range m -> znth m i = Some e -> in_range (fst e).
  Proof.
    intros H Hn. apply znth_In in Hn. unfold keys_in_range in H. rewrite Forall_forall in H.
    apply H. now apply in_map.
  Qed.
End Enc.

(* ---------- C. simulation: the bolt models refine the bolt specification ---------- *)

Definition RU (c : bu_state) (s : sb_state (V := beacon)) : Prop :=
  bu_db c = enc_map (sb_map s) /\ bu_cur c = sb_cur s /\ keys_in_range (sb_map s).

Lemma bu_out_enc m e : bu_out (option_map enc_entry e) = sb_out viewU m e.
Proof. destruct e as [[k v]|]; reflexivity. Qed.

Lemma simU c s o : RU c s -> op_wf o ->
  RU (fst (bu_step c o)) (fst (specU_step s o)) /\ snd (bu_step c o) = snd (specU_step s o).
Proof.
  destruct c as [db cur], s as [m cur']. unfold RU. simpl. intros (-> & -> & Hk) Hw.
  unfold bu_step, specU_step, sb_step; cbn [bu_db bu_cur sb_map sb_cur].
  destruct o; destruct cur' as [|p]; cbn [fst snd op_wf] in *;
    rewrite ?bk_put_enc, ?bk_get_enc, ?bk_del_enc, ?bk_seek_enc, ?zlen_enc, ?zlast_enc, ?znth_enc by assumption;
    try match goal with |- context [cur_next ?n ?q] => destruct (cur_next n q) as [[i|] [|]] end;
    cbn [fst snd bu_db bu_cur sb_map sb_cur];
    rewrite ?znth_enc;
    repeat split; auto using keys_in_range_put, keys_in_range_del, bu_out_enc.
  all: destruct (sm_get m r); reflexivity.
Qed.

Definition RT (c : bt_state) (s : sb_state (V := list Z)) : Prop :=
  bt_db c = enc_map (sb_map s) /\ bt_cur c = sb_cur s /\ keys_in_range (sb_map s).

Lemma bt_get_beacon_enc rp m r fetch : keys_in_range m -> in_range r ->
  bt_get_beacon rp (enc_map m) r fetch =
  match sm_get m r with
  | None => None
  | Some sig =>
      if fetch && rp && (0 <? r) then
        match sm_get m (r - 1) with None => None | Some p => Some (mkB r p sig) end
      else Some (mkB r [] sig)
  end.
Proof.
  intros Hm Hr. unfold bt_get_beacon. rewrite bk_get_enc by assumption.
  destruct (sm_get m r); [|reflexivity].
  destruct (fetch && rp && (0 <? r)) eqn:E; [|reflexivity].
  rewrite bk_get_enc; [reflexivity|assumption|].
  apply andb_true_iff in E as [_ E]. apply Z.ltb_lt in E. unfold in_range in *. lia.
Qed.

Lemma bt_cursor_beacon_enc rp m e : keys_in_range m -> (forall x, e = Some x -> in_range (fst x)) ->
  bt_cursor_beacon rp (enc_map m) (option_map enc_entry e) = sb_out (viewT rp) m e.
Proof.
  intros Hm He. destruct e as [[k sig]|]; [|reflexivity].
  specialize (He _ eq_refl). simpl in He. cbn [option_map enc_entry fst snd bt_cursor_beacon sb_out viewT].
  rewrite be64_dec_enc by assumption.
  destruct (rp && (0 <? k)) eqn:E; [|reflexivity].
  rewrite bt_get_beacon_enc; [|assumption|].
  - cbn [andb]. destruct (sm_get m (k - 1)); reflexivity.
  - apply andb_true_iff in E as [_ E]. apply Z.ltb_lt in E. unfold in_range in *. lia.
Qed.

Lemma bt_seek_beacon_eq rp db e : bt_seek_beacon rp db e = bt_cursor_beacon rp db e.
Proof. destruct e as [[k v]|]; reflexivity. Qed.

Lemma simT rp c s o : RT c s -> op_wf o ->
  RT (fst (bt_step rp c o)) (fst (specT_step rp s o)) /\ snd (bt_step rp c o) = snd (specT_step rp s o).
Proof.
  destruct c as [db cur], s as [m cur']. unfold RT. simpl. intros (-> & -> & Hk) Hw.
  assert (Hn : forall i x, znth m i = Some x -> in_range (fst x)) by (intros; eapply znth_in_range; eauto).
  assert (Hl : forall x, zlast m = Some x -> in_range (fst x)) by (unfold zlast; intros; eapply znth_in_range; eauto).
  unfold bt_step, specT_step, sb_step; cbn [bt_db bt_cur sb_map sb_cur].
  destruct o; destruct cur' as [|p]; cbn [fst snd op_wf] in *;
    rewrite ?bt_seek_beacon_eq, ?bk_put_enc, ?bk_del_enc, ?bk_seek_enc, ?zlen_enc, ?zlast_enc, ?znth_enc by assumption;
    try match goal with |- context [cur_next ?n ?q] => destruct (cur_next n q) as [[i|] [|]] end;
    cbn [fst snd bt_db bt_cur sb_map sb_cur];
    rewrite ?znth_enc;
    repeat split; eauto using keys_in_range_put, keys_in_range_del, bt_cursor_beacon_enc.
  all: rewrite bt_get_beacon_enc by assumption; cbn [andb viewT]; destruct (sm_get m r); [|reflexivity];
       destruct (rp && (0 <? r)); [destruct (sm_get m (r - 1))|]; reflexivity.
Qed.

(* ---------- ascending maps ---------- *)
Definition asc {V} (m : smap (V := V)) : Prop := StronglySorted Z.lt (keys m).

Section Asc.
  Context {V : Type}.
  Implicit Type m : @smap V.

  Lemma asc_nil : asc ([] : @smap V).
  Proof. constructor. Qed.

  Lemma asc_cons k v m : asc ((k, v) :: m) <-> asc m /\ Forall (Z.lt k) (keys m).
  Proof.
    unfold asc. simpl. split.
    - intros H. inversion H; subst. auto.
    - intros [H1 H2]. constructor; auto.
  Qed.

  Lemma asc_put m r v : asc m -> asc (sm_put m r v).
  Proof.
    induction m as [|[k x] m IH]; intros H.
    - simpl. apply asc_cons. split; [apply asc_nil|constructor].
    - apply asc_cons in H as [Hm Hk]. simpl. destruct (Z.compare_spec r k).
      + subst. apply asc_cons. auto.
      + apply asc_cons. split; [apply asc_cons; auto|].
        simpl. constructor; [assumption|]. eapply Forall_impl; [|exact Hk]. intros; lia.
      + apply asc_cons. split; [auto|]. apply Forall_forall. intros k' Hk'.
        apply keys_sm_put in Hk' as [->|Hk']; [assumption|].
        rewrite Forall_forall in Hk. auto.
  Qed.

  Lemma asc_del m r : asc m -> asc (sm_del m r).
  Proof.
    induction m as [|[k x] m IH]; intros H; [exact H|].
    apply asc_cons in H as [Hm Hk]. simpl. destruct (k =? r); [assumption|].
    apply asc_cons. split; [auto|]. apply Forall_forall. intros k' Hk'.
    apply keys_sm_del_incl in Hk'. rewrite Forall_forall in Hk. auto.
  Qed.

  Lemma Forall_skipn {A} (P : A -> Prop) n (l : list A) : Forall P l -> Forall P (skipn n l).
  Proof. revert l. induction n; intros l H; [exact H|]. destruct l; [constructor|]. inversion H; subst. simpl. auto. Qed.

  Lemma keys_skipn n m : keys (skipn n m) = skipn n (keys m).
  Proof. unfold keys. revert m. induction n; intros [|e m]; simpl; auto. Qed.

  Lemma asc_skipn n m : asc m -> asc (skipn n m).
  Proof.
    revert m. induction n; intros m H; [exact H|]. destruct m as [|[k x] m]; [exact H|].
    apply asc_cons in H as [Hm _]. simpl. auto.
  Qed.

  Lemma asc_trim cap m : asc m -> asc (sm_trim cap m).
  Proof. unfold sm_trim, md_trim. destruct (zlen m >? cap); auto using asc_skipn. Qed.

  Lemma sm_get_None m r : sm_get m r = None <-> ~ In r (keys m).
  Proof.
    induction m as [|[k x] m IH]; simpl; [tauto|].
    destruct (Z.eqb_spec k r); [subst; split; [discriminate|tauto]|].
    rewrite IH. tauto.
  Qed.

  Lemma sm_get_In m r v : asc m -> (sm_get m r = Some v <-> In (r, v) m).
  Proof.
    induction m as [|[k x] m IH]; intros H; simpl; [split; [discriminate|tauto]|].
    apply asc_cons in H as [Hm Hk]. destruct (Z.eqb_spec k r).
    - subst. split; [intros [= ->]; auto|]. intros [[= ->]|Hin]; [reflexivity|].
      rewrite Forall_forall in Hk. apply (in_map fst) in Hin. apply Hk in Hin. simpl in Hin. lia.
    - rewrite IH by assumption. split; [auto|]. intros [[= -> ->]|Hin]; [lia|assumption].
  Qed.

  Lemma sm_get_put_same m r v : sm_get (sm_put m r v) r = Some v.
  Proof.
    induction m as [|[k x] m IH]; simpl; [now rewrite Z.eqb_refl|].
    destruct (Z.compare_spec r k); simpl; rewrite ?Z.eqb_refl; auto.
    destruct (Z.eqb_spec k r); [lia|assumption].
  Qed.

  Lemma sm_get_put_other m r v r' : r' <> r -> sm_get (sm_put m r v) r' = sm_get m r'.
  Proof.
    intros Hne. induction m as [|[k x] m IH]; simpl.
    - destruct (Z.eqb_spec r r'); [lia|reflexivity].
    - destruct (Z.compare_spec r k); simpl.
      + subst. destruct (Z.eqb_spec k r'); [lia|reflexivity].
      + destruct (Z.eqb_spec r r'); [lia|reflexivity].
      + destruct (k =? r'); auto.
  Qed.

  Lemma sm_get_del_same m r : asc m -> sm_get (sm_del m r) r = None.
  Proof.
    induction m as [|[k x] m IH]; intros H; simpl; [reflexivity|].
    apply asc_cons in H as [Hm Hk]. destruct (Z.eqb_spec k r).
    - subst. apply sm_get_None. intros Hin. rewrite Forall_forall in Hk. apply Hk in Hin. lia.
    - simpl. destruct (Z.eqb_spec k r); [lia|auto].
  Qed.

  Lemma sm_get_del_other m r r' : r' <> r -> sm_get (sm_del m r) r' = sm_get m r'.
  Proof.
    intros Hne. induction m as [|[k x] m IH]; simpl; [reflexivity|].
    destruct (Z.eqb_spec k r); simpl.
    - subst. destruct (Z.eqb_spec r r'); [lia|reflexivity].
    - destruct (k =? r'); auto.
  Qed.

  Lemma sm_put_above m r v : Forall (fun k => k < r) (keys m) -> sm_put m r v = m ++ [(r, v)].
  Proof.
    induction m as [|[k x] m IH]; intros H; simpl; [reflexivity|].
    inversion H; subst. destruct (Z.compare_spec r k); try lia. now rewrite IH.
  Qed.

  Lemma sm_put_below m r v : Forall (Z.lt r) (keys m) -> sm_put m r v = (r, v) :: m.
  Proof.
    destruct m as [|[k x] m]; intros H; simpl; [reflexivity|].
    inversion H; subst. destruct (Z.compare_spec r k); try lia. reflexivity.
  Qed.
End Asc.

Lemma zlast_single {A} (x : A) : zlast [x] = Some x.
Proof. reflexivity. Qed.

Lemma zlast_cons2 {A} (x y : A) l : zlast (x :: y :: l) = zlast (y :: l).
Proof.
  unfold zlast. rewrite (zlen_cons x). rewrite znth_cons_pos; [f_equal; lia|].
  rewrite zlen_cons. pose proof (zlen_nonneg l). lia.
Qed.

Lemma zlast_nil {A} : zlast ([] : list A) = None.
Proof. reflexivity. Qed.

Lemma zlast_In {A} (l : list A) x : zlast l = Some x -> In x l.
Proof. apply znth_In. Qed.

(* ---------- D. the ring model refines the ring specification ---------- *)

Definition keyed (m : smap (V := beacon)) : Prop := Forall (fun e => fst e = b_round (snd e)) m.

Lemma keyed_cons k x m : keyed ((k, x) :: m) <-> k = b_round x /\ keyed m.
Proof. unfold keyed. split; intros H; [inversion H; auto|constructor; tauto]. Qed.

Lemma md_find_map m r : keyed m -> md_find (map snd m) r = sm_get m r.
Proof.
  induction m as [|[k x] m IH]; intros H; simpl; [reflexivity|].
  apply keyed_cons in H as [-> H]. destruct (b_round x =? r); auto.
Qed.

Lemma md_index_map m r : keyed m -> md_index (map snd m) r = sm_index m r.
Proof.
  induction m as [|[k x] m IH]; intros H; simpl; [reflexivity|].
  apply keyed_cons in H as [-> H]. destruct (b_round x =? r); auto. now rewrite IH.
Qed.

Lemma md_remove_map m r : keyed m -> md_remove (map snd m) r = map snd (sm_del m r).
Proof.
  induction m as [|[k x] m IH]; intros H; simpl; [reflexivity|].
  apply keyed_cons in H as [-> H]. destruct (b_round x =? r); simpl; auto. now rewrite IH.
Qed.

Lemma md_trim_map {A B} (f : A -> B) cap l : md_trim cap (map f l) = map f (md_trim cap l).
Proof.
  unfold md_trim. rewrite zlen_map. destruct (zlen l >? cap); [|reflexivity].
  generalize (Z.to_nat (zlen l - cap)). intros n. revert l. induction n; intros [|x l]; simpl; auto.
Qed.

Lemma keyed_put m b : keyed m -> keyed (sm_put m (b_round b) b).
Proof.
  induction m as [|[k x] m IH]; intros H; simpl.
  - apply keyed_cons. split; [reflexivity|constructor].
  - destruct (b_round b ?= k); repeat (apply keyed_cons; split); auto; try (apply keyed_cons in H; tauto).
Qed.

Lemma keyed_del m r : keyed m -> keyed (sm_del m r).
Proof.
  induction m as [|[k x] m IH]; intros H; simpl; [exact H|].
  apply keyed_cons in H as [-> H]. destruct (b_round x =? r); [assumption|]. apply keyed_cons. auto.
Qed.

Lemma keyed_trim cap m : keyed m -> keyed (sm_trim cap m).
Proof. unfold sm_trim, md_trim, keyed. destruct (zlen m >? cap); auto using Forall_skipn. Qed.

Lemma keyed_put_keep m b : keyed m -> keyed (sm_put_keep m (b_round b) b).
Proof. unfold sm_put_keep. destruct (sm_get m (b_round b)); auto using keyed_put. Qed.

Lemma asc_put_keep {V} (m : @smap V) r v : asc m -> asc (sm_put_keep m r v).
Proof. unfold sm_put_keep. destruct (sm_get m r); auto using asc_put. Qed.

Lemma ins_sorted_below x l : Forall (fun y => b_round x < b_round y) l -> ins_sorted x l = x :: l.
Proof.
  destruct l as [|y l]; intros H; simpl; [reflexivity|]. inversion H; subst.
  destruct (Z.ltb_spec (b_round x) (b_round y)); [reflexivity|lia].
Qed.

Lemma keyed_rounds m : keyed m -> map b_round (map snd m) = keys m.
Proof.
  induction m as [|[k x] m IH]; intros H; simpl; [reflexivity|].
  apply keyed_cons in H as [-> H]. now rewrite IH.
Qed.

Lemma sort_insert m b : asc m -> keyed m -> sm_get m (b_round b) = None ->
  fold_right ins_sorted [b] (map snd m) = map snd (sm_put m (b_round b) b).
Proof.
  induction m as [|[k x] m IH]; intros Ha Hk Hg; [reflexivity|].
  apply asc_cons in Ha as [Ha Hlt]. apply keyed_cons in Hk as [-> Hk].
  simpl in Hg. destruct (Z.eqb_spec (b_round x) (b_round b)) as [|Hne]; [discriminate|].
  cbn [map fold_right snd]. rewrite IH by assumption.
  assert (Hx : forall l : smap, keyed l -> Forall (Z.lt (b_round x)) (keys l) ->
                Forall (fun y => b_round x < b_round y) (map snd l)).
  { intros l Hl Hf. rewrite <- (keyed_rounds l Hl) in Hf. rewrite Forall_map in Hf. exact Hf. }
  simpl. destruct (Z.compare_spec (b_round b) (b_round x)) as [E|E|E]; [lia| |].
  - rewrite sm_put_below by (eapply Forall_impl; [|exact Hlt]; intros; lia).
    cbn [map snd ins_sorted]. destruct (Z.ltb_spec (b_round x) (b_round b)); [lia|].
    rewrite ins_sorted_below by auto. reflexivity.
  - cbn [map snd]. apply ins_sorted_below. apply Hx; [now apply keyed_put|].
    apply Forall_forall. intros k Hin. apply keys_sm_put in Hin as [->|Hin]; [assumption|].
    rewrite Forall_forall in Hlt. auto.
Qed.

Lemma above_of_last (m : smap (V := beacon)) l r : asc m -> zlast m = Some l -> ~ r < fst l ->
  sm_get m r = None -> Forall (fun k => k < r) (keys m).
Proof.
  induction m as [|[k x] m IH]; intros Ha Hl Hr Hg; [constructor|].
  apply asc_cons in Ha as [Ha Hlt]. simpl in Hg. destruct (Z.eqb_spec k r); [discriminate|].
  destruct m as [|[k' x'] m].
  - rewrite zlast_single in Hl. injection Hl as <-. simpl in *. constructor; [lia|constructor].
  - rewrite zlast_cons2 in Hl. specialize (IH Ha Hl Hr Hg).
    simpl. constructor; [|exact IH]. inversion IH; subst. inversion Hlt; subst. lia.
Qed.

Lemma md_put_map cap m b : asc m -> keyed m ->
  md_put cap (map snd m) b = map snd (sm_trim cap (sm_put_keep m (b_round b) b)).
Proof.
  intros Ha Hk. unfold md_put, sm_put_keep, sm_trim. rewrite md_find_map by assumption.
  rewrite <- md_trim_map. f_equal.
  destruct (sm_get m (b_round b)) eqn:Hg; [reflexivity|].
  rewrite zlast_map. destruct (zlast m) as [[kl xl]|] eqn:Hl; cbn [option_map snd].
  - assert (kl = b_round xl) as ->.
    { apply zlast_In in Hl. unfold keyed in Hk. rewrite Forall_forall in Hk. apply (Hk _ Hl). }
    destruct (Z.ltb_spec (b_round b) (b_round xl)).
    + unfold sort_by_round. rewrite fold_right_app. simpl. now apply sort_insert.
    + rewrite (sm_put_above m); [now rewrite map_app|].
      eapply above_of_last; eauto. simpl. lia.
  - destruct m as [|e m]; [reflexivity|]. exfalso.
    assert (H : zlast (e :: m) <> None).
    { clear. revert e. induction m as [|y m IH]; intros e; [discriminate|]. rewrite zlast_cons2. apply IH. }
    contradiction.
Qed.

Definition RM (c : md_state) (s : sr_state) : Prop :=
  md_store c = map snd (sr_map s) /\ md_cur c = sr_cur s /\ keyed (sr_map s) /\ asc (sr_map s).

Lemma md_out_map e : md_out (option_map snd e) = sr_out e.
Proof. destruct e as [[k v]|]; reflexivity. Qed.

Lemma simM cap c s o : RM c s ->
  RM (fst (md_step cap c o)) (fst (sr_step cap s o)) /\ snd (md_step cap c o) = snd (sr_step cap s o).
Proof.
  destruct c as [st cur], s as [m cur']. unfold RM. simpl. intros (-> & -> & Hk & Ha).
  unfold md_step, sr_step; cbn [md_store md_cur sr_map sr_cur].
  destruct o; destruct cur' as [p|]; cbn [fst snd];
    rewrite ?md_put_map, ?md_find_map, ?md_index_map, ?md_remove_map, ?zlen_map, ?zlast_map, ?znth_map by assumption;
    try match goal with |- context [zlen m =? 0] => destruct (zlen m =? 0) end;
    try match goal with |- context [sm_index m ?r] => destruct (sm_index m r) end;
    cbn [fst snd md_store md_cur sr_map sr_cur];
    rewrite ?znth_map;
    repeat split;
    auto using md_out_map, keyed_trim, keyed_put_keep, keyed_del, asc_trim, asc_put_keep, asc_del.
  all: try (destruct (sm_get m r); reflexivity).
  all: try (destruct (p + 1 >=? zlen m); auto using md_out_map).
Qed.

(* ---------- E. traces, refinement, and what carries over ---------- *)

Section Exec.
  Context {S : Type} (step : S -> op -> S * out).

  Lemma exec_app s a b : exec step s (a ++ b) = exec step (exec step s a) b.
  Proof. revert s. induction a; intros s; simpl; auto. Qed.

  Lemma run_app s a b : run step s (a ++ b) = run step s a ++ run step (exec step s a) b.
  Proof. revert s. induction a; intros s; simpl; [reflexivity|]. now rewrite IHa. Qed.

  Lemma run_length s a : length (run step s a) = length a.
  Proof. revert s. induction a; intros s; simpl; auto. Qed.

  Lemma run_single s o : run step s [o] = [snd (step s o)].
  Proof. reflexivity. Qed.
End Exec.

Lemma wf_app a b : wf (a ++ b) <-> wf a /\ wf b.
Proof. apply Forall_app. Qed.

Definition refines {C S : Type} (cstep : C -> op -> C * out) (cinit : C)
                   (sstep : S -> op -> S * out) (sinit : S) : Prop :=
  forall pre suf, wf pre -> wf suf -> outs_from cstep cinit pre suf = outs_from sstep sinit pre suf.

Lemma sim_refines {C S : Type} (cstep : C -> op -> C * out) (sstep : S -> op -> S * out)
  (R : C -> S -> Prop) cinit sinit :
  R cinit sinit ->
  (forall c s o, R c s -> op_wf o ->
     R (fst (cstep c o)) (fst (sstep s o)) /\ snd (cstep c o) = snd (sstep s o)) ->
  refines cstep cinit sstep sinit.
Proof.
  intros H0 Hs pre suf Hp Hq. unfold outs_from.
  assert (HR : R (exec cstep cinit pre) (exec sstep sinit pre)).
  { clear Hq suf. revert cinit sinit H0. induction Hp as [|o pre Ho Hp IH]; intros c s H; simpl; [exact H|].
    apply IH. now apply Hs. }
  revert HR. generalize (exec cstep cinit pre) (exec sstep sinit pre).
  induction Hq as [|o suf Ho Hq IH]; intros c s H; simpl; [reflexivity|].
  destruct (Hs c s o H Ho) as [H1 H2]. rewrite H2. f_equal. now apply IH.
Qed.

Lemma refines_after {C S : Type} (cstep : C -> op -> C * out) cinit (sstep : S -> op -> S * out) sinit :
  refines cstep cinit sstep sinit ->
  forall pre o, wf pre -> op_wf o -> out_after cstep cinit pre o = out_after sstep sinit pre o.
Proof.
  intros H pre o Hp Ho. specialize (H pre [o] Hp (Forall_cons _ Ho (Forall_nil _))).
  unfold outs_from in H. simpl in H. unfold out_after. now injection H.
Qed.

Lemma refines_run {C S : Type} (cstep : C -> op -> C * out) cinit (sstep : S -> op -> S * out) sinit :
  refines cstep cinit sstep sinit -> forall ops, wf ops -> run cstep cinit ops = run sstep sinit ops.
Proof. intros H ops Ho. exact (H [] ops (Forall_nil _) Ho). Qed.

Theorem boltU_refines : refines bu_step bu_init specU_step sb_init.
Proof.
  apply (sim_refines _ _ RU); [|apply simU].
  repeat split. constructor.
Qed.

Theorem boltT_refines rp : refines (bt_step rp) bt_init (specT_step rp) sb_init.
Proof.
  apply (sim_refines _ _ RT); [|apply simT].
  repeat split. constructor.
Qed.

Theorem memdb_refines cap : refines (md_step cap) md_init (sr_step cap) sr_init.
Proof.
  apply (sim_refines _ _ RM); [|intros; now apply simM].
  repeat split; constructor.
Qed.

(* the properties, as predicates on the observable behaviour of a machine *)
Section Preds.
  Context {S : Type} (step : S -> op -> S * out) (init : S).

  (* a returned beacon is what Get of the round it is labelled with returns *)
  Definition label_ok : Prop := forall pre o b, wf pre -> op_wf o ->
    out_after step init pre o = OBeacon b ->
    in_range (b_round b) /\ out_after step init pre (Get (b_round b)) = OBeacon b.

  (* seeking a stored round returns that round's beacon (OBad: no cursor session open) *)
  Definition seek_ok : Prop := forall pre r b, wf pre -> in_range r ->
    out_after step init pre (Get r) = OBeacon b ->
    out_after step init pre (CSeek r) = OBeacon b \/ out_after step init pre (CSeek r) = OBad.

  (* First, Next, ... inside a session without interleaved mutation: strictly ascending,
     complete, each position answers like Get *)
  Definition iter_ok : Prop := forall pre, wf pre ->
    out_after step init pre CFirst <> OBad ->
    exists ks, StronglySorted Z.lt ks /\ Forall in_range ks /\
      out_after step init pre Len = OLen (zlen ks) /\
      (forall r b, in_range r -> out_after step init pre (Get r) = OBeacon b -> In r ks) /\
      outs_from step init pre (CFirst :: repeat CNext (length ks)) =
        map (fun k => out_after step init pre (Get k)) ks ++ [OErr ENoBeacon].
End Preds.

Section Transfer.
  Context {C S : Type} (cstep : C -> op -> C * out) (cinit : C)
          (sstep : S -> op -> S * out) (sinit : S).
  Hypothesis Href : refines cstep cinit sstep sinit.

  Lemma label_ok_transfer : label_ok sstep sinit -> label_ok cstep cinit.
  Proof.
    intros H pre o b Hp Ho Hb. rewrite (refines_after _ _ _ _ Href) in Hb by assumption.
    destruct (H pre o b Hp Ho Hb) as [Hr Hg]. split; [assumption|].
    now rewrite (refines_after _ _ _ _ Href).
  Qed.

  Lemma seek_ok_transfer : seek_ok sstep sinit -> seek_ok cstep cinit.
  Proof.
    intros H pre r b Hp Hr Hb. rewrite !(refines_after _ _ _ _ Href) in * by assumption.
    now apply H.
  Qed.

  Lemma iter_ok_transfer : iter_ok sstep sinit -> iter_ok cstep cinit.
  Proof.
    intros H pre Hp Hf. rewrite (refines_after _ _ _ _ Href) in Hf by (simpl; auto).
    destruct (H pre Hp Hf) as (ks & Hs & Hrg & Hl & Hc & Hscan). exists ks.
    repeat split; try assumption.
    - now rewrite (refines_after _ _ _ _ Href) by (simpl; auto).
    - intros r b Hr Hb. rewrite (refines_after _ _ _ _ Href) in Hb by assumption. eauto.
    - rewrite Href; [|assumption|].
      + rewrite Hscan. f_equal. apply map_ext_in. intros k Hk.
        rewrite Forall_forall in Hrg. now rewrite (refines_after _ _ _ _ Href) by (simpl; auto).
      + constructor; [exact I|]. apply Forall_forall. intros o Ho. apply repeat_spec in Ho. subst. exact I.
  Qed.
End Transfer.

(* ---------- F. properties of the specification machines ---------- *)

Lemma znth_app_mid {A} (l1 : list A) x l2 : znth (l1 ++ x :: l2) (zlen l1) = Some x.
Proof.
  unfold znth, zlen. destruct (Z.ltb_spec (Z.of_nat (length l1)) 0); [lia|].
  rewrite Nat2Z.id. rewrite nth_error_app2 by lia. now rewrite Nat.sub_diag.
Qed.

Lemma zlen_app {A} (l1 l2 : list A) : zlen (l1 ++ l2) = zlen l1 + zlen l2.
Proof. unfold zlen. rewrite app_length. lia. Qed.

Section SMapFacts.
  Context {V : Type}.
  Implicit Type m : @smap V.

  Lemma sm_get_Some_In m r v : sm_get m r = Some v -> In (r, v) m.
  Proof.
    induction m as [|[k x] m IH]; simpl; [discriminate|].
    destruct (Z.eqb_spec k r); [intros [= ->]; subst; auto|auto].
  Qed.

  Lemma sm_seek_nonneg m r : 0 <= sm_seek m r.
  Proof. induction m as [|[k x] m IH]; cbn [sm_seek]; [lia|]. destruct (k <? r); lia. Qed.

  Lemma sm_seek_found m r v : asc m -> sm_get m r = Some v -> znth m (sm_seek m r) = Some (r, v).
  Proof.
    induction m as [|[k x] m IH]; intros Ha Hg; cbn [sm_seek sm_get] in *; [discriminate|].
    apply asc_cons in Ha as [Ha Hlt].
    destruct (Z.ltb_spec k r).
    - destruct (Z.eqb_spec k r); [lia|]. pose proof (sm_seek_nonneg m r).
      rewrite znth_cons_pos by lia. replace (1 + sm_seek m r - 1) with (sm_seek m r) by lia. auto.
    - destruct (Z.eqb_spec k r); [injection Hg as ->; subst; reflexivity|].
      exfalso. apply sm_get_Some_In in Hg. apply (in_map fst) in Hg. simpl in Hg.
      rewrite Forall_forall in Hlt. apply Hlt in Hg. lia.
  Qed.

  Lemma sm_index_found m r v : sm_get m r = Some v ->
    exists i, sm_index m r = Some i /\ 0 <= i /\ znth m i = Some (r, v).
  Proof.
    induction m as [|[k x] m IH]; simpl; [discriminate|].
    destruct (Z.eqb_spec k r).
    - intros [= ->]. subst. exists 0. repeat split; lia.
    - intros Hg. destruct (IH Hg) as (i & -> & Hi & Hn). exists (i + 1). repeat split; [lia|].
      rewrite znth_cons_pos by lia. now replace (i + 1 - 1) with i by lia.
  Qed.

  Lemma zlen_keys m : zlen (keys m) = zlen m.
  Proof. apply zlen_map. Qed.

  Lemma keys_in_range_nil : keys_in_range ([] : @smap V).
  Proof. constructor. Qed.

  Lemma zlen_sm_del_le m r : zlen (sm_del m r) <= zlen m.
  Proof.
    induction m as [|[k x] m IH]; simpl; [lia|]. destruct (k =? r); rewrite !zlen_cons; lia.
  Qed.
End SMapFacts.

Section SpecBoltProofs.
  Context {V : Type}.
  Variable val_of : beacon -> V.
  Variable view : smap (V := V) -> Z * V -> out.
  Variable good : smap (V := V) -> Prop.
  Hypothesis good_nil : good [].
  Hypothesis good_put : forall m b, good m -> good (sm_put m (b_round b) (val_of b)).
  Hypothesis good_del : forall m r, good m -> good (sm_del m r).
  Hypothesis view_round : forall m k v b, good m -> In (k, v) m -> view m (k, v) = OBeacon b -> b_round b = k.

  Notation step := (sb_step val_of view).
  Notation init := (@sb_init V).

  Lemma sb_step_map s o :
    sb_map (fst (step s o)) =
    match o, sb_cur s with
    | Put b, NoCur => sm_put (sb_map s) (b_round b) (val_of b)
    | Del r, NoCur => sm_del (sb_map s) r
    | _, _ => sb_map s
    end.
  Proof.
    destruct s as [m cur]. unfold sb_step. cbn [sb_map sb_cur].
    destruct o, cur; try reflexivity.
    destruct (cur_next (zlen m) p) as [p' mv]. reflexivity.
  Qed.

  Definition sb_inv (s : sb_state) : Prop :=
    asc (sb_map s) /\ keys_in_range (sb_map s) /\ good (sb_map s).

  Lemma sb_inv_step s o : sb_inv s -> op_wf o -> sb_inv (fst (step s o)).
  Proof.
    unfold sb_inv. intros (Ha & Hk & Hg) Hw. rewrite sb_step_map.
    destruct o, (sb_cur s); simpl in Hw; auto using asc_put, asc_del, keys_in_range_put, keys_in_range_del.
  Qed.

  Lemma sb_inv_exec pre : wf pre -> sb_inv (exec step init pre).
  Proof.
    assert (H0 : sb_inv init) by (repeat split; [apply asc_nil|apply keys_in_range_nil|apply good_nil]).
    revert H0. generalize init. intros s Hs Hw. revert s Hs.
    induction Hw as [|o pre Ho Hw IH]; intros s Hs; simpl; [exact Hs|].
    apply IH. now apply sb_inv_step.
  Qed.

  (* every beacon a step returns is the view of an entry of the map *)
  Lemma sb_out_entry s o b : snd (step s o) = OBeacon b ->
    exists k v, In (k, v) (sb_map s) /\ view (sb_map s) (k, v) = OBeacon b.
  Proof.
    destruct s as [m cur]. unfold sb_step, sb_out. cbn [sb_map sb_cur].
    assert (Hn : forall i, match znth m i with None => OErr ENoBeacon | Some kv => view m kv end = OBeacon b ->
                  exists k v, In (k, v) m /\ view m (k, v) = OBeacon b).
    { intros i. destruct (znth m i) as [[k v]|] eqn:E; [|discriminate]. intros H. exists k, v. split; [eapply znth_In; eauto|assumption]. }
    destruct o, cur; cbn [snd]; try discriminate; try (apply Hn); unfold zlast; try (apply Hn).
    - destruct (sm_get m r) eqn:E; [|discriminate]. intros H. exists r, v. split; [now apply sm_get_Some_In|assumption].
    - destruct (sm_get m r) eqn:E; [|discriminate]. intros H. exists r, v. split; [now apply sm_get_Some_In|assumption].
    - destruct (cur_next (zlen m) p) as [[i|] [|]]; cbn [snd]; try discriminate. apply Hn.
  Qed.

  Lemma sb_get_entry s k v : asc (sb_map s) -> In (k, v) (sb_map s) ->
    snd (step s (Get k)) = view (sb_map s) (k, v).
  Proof.
    intros Ha Hin. apply sm_get_In in Hin; [|assumption].
    destruct s as [m cur]. unfold sb_step. cbn [sb_map sb_cur] in *. destruct cur; cbn [snd]; now rewrite Hin.
  Qed.

  Lemma sb_get_inv s r b : snd (step s (Get r)) = OBeacon b ->
    exists v, sm_get (sb_map s) r = Some v /\ view (sb_map s) (r, v) = OBeacon b.
  Proof.
    destruct s as [m cur]. unfold sb_step. cbn [sb_map sb_cur].
    destruct cur; cbn [snd]; (destruct (sm_get m r) as [v|]; [|discriminate]); intros H; exists v; auto.
  Qed.

  Theorem sb_label_ok : label_ok step init.
  Proof.
    intros pre o b Hp Ho Hb. unfold out_after in *.
    destruct (sb_inv_exec pre Hp) as (Ha & Hk & Hg). set (s := exec step init pre) in *.
    destruct (sb_out_entry s o b Hb) as (k & v & Hin & Hv).
    assert (b_round b = k) as -> by eauto.
    split.
    - unfold keys_in_range in Hk. rewrite Forall_forall in Hk. apply Hk. now apply (in_map fst) in Hin.
    - now rewrite (sb_get_entry s k v).
  Qed.

  Theorem sb_seek_ok : seek_ok step init.
  Proof.
    intros pre r b Hp Hr Hb. unfold out_after in *.
    destruct (sb_inv_exec pre Hp) as (Ha & Hk & Hg). set (s := exec step init pre) in *.
    destruct (sb_get_inv s r b Hb) as (v & Hget & Hv).
    destruct s as [m cur]. unfold sb_step. cbn [sb_map sb_cur] in *.
    destruct cur; cbn [snd]; [now right|left].
    unfold sb_out. now rewrite (sm_seek_found m r v).
  Qed.

  Lemma sb_next_step m i : i + 1 < zlen m ->
    step (mkSB m (Cur (Some i))) CNext = (mkSB m (Cur (Some (i + 1))), sb_out view m (znth m (i + 1))).
  Proof.
    intros H. unfold sb_step. cbn [sb_map sb_cur cur_next].
    destruct (Z.ltb_spec (i + 1) (zlen m)); [reflexivity|lia].
  Qed.

  Lemma sb_next_end m i : ~ i + 1 < zlen m ->
    step (mkSB m (Cur (Some i))) CNext = (mkSB m (Cur (Some i)), OErr ENoBeacon).
  Proof.
    intros H. unfold sb_step. cbn [sb_map sb_cur cur_next].
    destruct (Z.ltb_spec (i + 1) (zlen m)); [lia|reflexivity].
  Qed.

  Lemma sb_scan_from m l1 x l2 : m = l1 ++ x :: l2 ->
    run step (mkSB m (Cur (Some (zlen l1)))) (repeat CNext (Datatypes.S (length l2))) =
    map (fun e => view m e) l2 ++ [OErr ENoBeacon].
  Proof.
    intros Hm. revert l1 x Hm. induction l2 as [|y l2 IH]; intros l1 x Hm.
    - assert (zlen m = zlen l1 + 1) by (subst; rewrite zlen_app, zlen_cons; unfold zlen; simpl; lia).
      cbn [length repeat run]. rewrite sb_next_end by lia. reflexivity.
    - assert (zlen m = zlen l1 + 1 + (1 + zlen l2)) by (subst; rewrite zlen_app, !zlen_cons; lia).
      pose proof (zlen_nonneg l2).
      cbn [length repeat run]. rewrite sb_next_step by lia. cbn [fst snd].
      assert (Hm' : m = (l1 ++ [x]) ++ y :: l2) by (subst; now rewrite <- app_assoc).
      assert (Hz : zlen l1 + 1 = zlen (l1 ++ [x])) by (rewrite zlen_app; reflexivity).
      assert (Hn : znth m (zlen (l1 ++ [x])) = Some y) by (rewrite Hm'; apply znth_app_mid).
      rewrite Hz. unfold sb_out. rewrite Hn.
      cbn [map app]. f_equal. apply (IH (l1 ++ [x]) y Hm').
  Qed.

  Theorem sb_iter_ok : iter_ok step init.
  Proof.
    intros pre Hp Hf. unfold out_after, outs_from in *.
    destruct (sb_inv_exec pre Hp) as (Ha & Hk & Hg). set (s := exec step init pre) in *.
    exists (keys (sb_map s)). destruct s as [m cur]. cbn [sb_map] in *.
    assert (exists p, cur = Cur p) as [p ->].
    { destruct cur; [|eauto]. exfalso. apply Hf. reflexivity. }
    repeat split; try assumption.
    - unfold sb_step. cbn [snd sb_map sb_cur]. now rewrite zlen_keys.
    - intros r b Hr Hb. destruct (sb_get_inv _ r b Hb) as (v & Hget & _). cbn [sb_map] in Hget.
      apply sm_get_Some_In in Hget. now apply (in_map fst) in Hget.
    - unfold keys. rewrite map_length, map_map.
      assert (Hmap : map (fun e => snd (step (mkSB m (Cur p)) (Get (fst e)))) m = map (fun e => view m e) m).
      { apply map_ext_in. intros [k v] Hin. cbn [fst]. now rewrite (sb_get_entry (mkSB m (Cur p)) k v). }
      rewrite Hmap. destruct m as [|x l2]; [reflexivity|].
      cbn [length repeat run]. unfold sb_step at 1 2. cbn [sb_map sb_cur fst snd sb_out cur_first].
      rewrite znth_cons_0. cbn [map app]. f_equal.
      exact (sb_scan_from (x :: l2) [] x l2 eq_refl).
  Qed.

  (* what Get answers, in terms of the history *)
  Lemma sb_content pre : wf pre -> ~ In OBad (run step init pre) ->
    forall r, sm_get (sb_map (exec step init pre)) r = hist val_of pre r.
  Proof.
    unfold hist.
    assert (H0 : forall r, sm_get (sb_map init) r = (fun _ : Z => @None V) r) by reflexivity.
    assert (Hi : sb_inv init) by (repeat split; [apply asc_nil|apply keys_in_range_nil|apply good_nil]).
    revert H0 Hi. generalize (fun _ : Z => @None V). generalize init.
    induction pre as [|o pre IH]; intros s h H0 Hi Hw Hb r; simpl; [apply H0|].
    inversion Hw as [|? ? Ho Hw']; subst. simpl in Hb.
    apply IH; try assumption; [|now apply sb_inv_step|tauto].
    intros r'. rewrite sb_step_map. destruct Hi as (Ha & _).
    assert (Hne : snd (step s o) <> OBad) by (intros E; apply Hb; now left).
    destruct s as [m cur]. cbn [sb_map sb_cur] in *.
    destruct o, cur; cbn [hist_step]; try apply H0; try (exfalso; apply Hne; reflexivity).
    - destruct (Z.eqb_spec r' (b_round b)) as [->|Hn]; [apply sm_get_put_same|].
      rewrite sm_get_put_other by assumption. apply H0.
    - destruct (Z.eqb_spec r' r0) as [->|Hn]; [now apply sm_get_del_same|].
      rewrite sm_get_del_other by assumption. apply H0.
  Qed.
End SpecBoltProofs.

(* ---------- G. the ring specification ---------- *)

Lemma keys_in_range_skipn {V} n (m : @smap V) : keys_in_range m -> keys_in_range (skipn n m).
Proof. unfold keys_in_range. rewrite keys_skipn. apply Forall_skipn. Qed.

Lemma keys_in_range_trim {V} cap (m : @smap V) : keys_in_range m -> keys_in_range (sm_trim cap m).
Proof. unfold sm_trim, md_trim. destruct (zlen m >? cap); auto using keys_in_range_skipn. Qed.

Lemma keys_in_range_put_keep {V} (m : @smap V) r v : keys_in_range m -> in_range r -> keys_in_range (sm_put_keep m r v).
Proof. unfold sm_put_keep. destruct (sm_get m r); auto using keys_in_range_put. Qed.

Lemma zlen_trim_le {A} cap (l : list A) : 0 <= cap -> zlen (md_trim cap l) <= cap.
Proof.
  intros Hc. unfold md_trim. destruct (Z.gtb_spec (zlen l) cap); [|assumption].
  unfold zlen in *. rewrite skipn_length. lia.
Qed.

Lemma trim_id {A} cap (l : list A) : zlen l <= cap -> md_trim cap l = l.
Proof. intros H. unfold md_trim. destruct (Z.gtb_spec (zlen l) cap); [lia|reflexivity]. Qed.

Lemma In_skipn {A} n (l : list A) x : In x (skipn n l) -> In x l.
Proof. revert l. induction n; intros [|y l]; simpl; auto. Qed.

Lemma In_trim {A} cap (l : list A) x : In x (md_trim cap l) -> In x l.
Proof. unfold md_trim. destruct (zlen l >? cap); eauto using In_skipn. Qed.

Lemma In_sm_put {V} (m : @smap V) r v e : In e (sm_put m r v) -> e = (r, v) \/ In e m.
Proof.
  induction m as [|[k x] m IH]; simpl; [intuition|].
  destruct (r ?= k); simpl; intuition.
Qed.

Lemma In_sm_del {V} (m : @smap V) r k v : asc m -> In (k, v) (sm_del m r) -> In (k, v) m /\ k <> r.
Proof.
  induction m as [|[k0 x] m IH]; intros Ha; simpl; [tauto|].
  apply asc_cons in Ha as [Ha Hlt]. destruct (Z.eqb_spec k0 r).
  - subst. intros Hin. split; [auto|]. apply (in_map fst) in Hin. rewrite Forall_forall in Hlt.
    apply Hlt in Hin. simpl in Hin. lia.
  - intros [[= -> ->]|Hin]; [auto|]. destruct (IH Ha Hin). auto.
Qed.

(* re-putting a stored round changes nothing that can be observed afterwards *)
Definition keep_ok {S} (stp : S -> op -> S * out) (ini : S) : Prop :=
  forall pre b b0 suf, wf pre -> op_wf (Put b) -> wf suf ->
    out_after stp ini pre (Get (b_round b)) = OBeacon b0 ->
    out_after stp ini pre (Put b) = ODone /\
    outs_from stp ini (pre ++ [Put b]) suf = outs_from stp ini pre suf.

Definition hist_ok {S} (stp : S -> op -> S * out) (ini : S) : Prop :=
  forall pre o b, wf pre -> op_wf o -> out_after stp ini pre o = OBeacon b ->
    exists p1 p2, pre = p1 ++ Put b :: p2 /\ ~ In (Del (b_round b)) p2.

Section RingProofs.
  Variable cap : Z.
  Notation step := (sr_step cap).
  Notation init := sr_init.

  Lemma sr_step_map s o :
    sr_map (fst (step s o)) =
    match o with
    | Put b => sm_trim cap (sm_put_keep (sr_map s) (b_round b) b)
    | Del r => sm_del (sr_map s) r
    | _ => sr_map s
    end.
  Proof.
    destruct s as [m cur]. unfold sr_step. cbn [sr_map sr_cur].
    destruct o, cur; try reflexivity; try (destruct (zlen m =? 0); reflexivity).
    destruct (sm_index m r); reflexivity.
  Qed.

  Definition sr_inv (s : sr_state) : Prop := asc (sr_map s) /\ keyed (sr_map s).

  Lemma sr_inv_step s o : sr_inv s -> sr_inv (fst (step s o)).
  Proof.
    unfold sr_inv. intros (Ha & Hk). rewrite sr_step_map.
    destruct o; auto using asc_trim, asc_put_keep, asc_del, keyed_trim, keyed_put_keep, keyed_del.
  Qed.

  Lemma sr_inv_exec pre : sr_inv (exec step init pre).
  Proof.
    assert (H0 : sr_inv init) by (split; [apply asc_nil|constructor]).
    revert H0. generalize init. induction pre as [|o pre IH]; intros s Hs; simpl; [exact Hs|].
    apply IH. now apply sr_inv_step.
  Qed.

  Lemma sr_range_exec pre : wf pre -> keys_in_range (sr_map (exec step init pre)).
  Proof.
    assert (H0 : keys_in_range (sr_map init)) by constructor.
    revert H0. generalize init. intros s Hs Hw. revert s Hs.
    induction Hw as [|o pre Ho Hw IH]; intros s Hs; simpl; [exact Hs|].
    apply IH. rewrite sr_step_map.
    destruct o; simpl in Ho; auto using keys_in_range_trim, keys_in_range_put_keep, keys_in_range_del.
  Qed.

  Lemma sr_len_exec pre : 0 <= cap -> zlen (sr_map (exec step init pre)) <= cap.
  Proof.
    intros Hc. assert (H0 : zlen (sr_map init) <= cap) by (simpl; exact Hc).
    revert H0. generalize init. induction pre as [|o pre IH]; intros s Hs; simpl; [exact Hs|].
    apply IH. rewrite sr_step_map. destruct o; try assumption.
    - now apply zlen_trim_le.
    - pose proof (zlen_sm_del_le (sr_map s) r). lia.
  Qed.

  Lemma sr_out_entry s o b : snd (step s o) = OBeacon b -> exists k, In (k, b) (sr_map s).
  Proof.
    destruct s as [m cur]. unfold sr_step, sr_out. cbn [sr_map sr_cur].
    assert (Hn : forall i, match znth m i with Some (_, b0) => OBeacon b0 | None => OErr ENoBeacon end = OBeacon b ->
                  exists k, In (k, b) m).
    { intros i. destruct (znth m i) as [[k v]|] eqn:E; [|discriminate]. intros [= ->]. exists k. eapply znth_In; eauto. }
    assert (Hg : forall r, match sm_get m r with Some b0 => OBeacon b0 | None => OErr ENoBeacon end = OBeacon b ->
                  exists k, In (k, b) m).
    { intros r. destruct (sm_get m r) eqn:E; [|discriminate]. intros [= ->]. exists r. now apply sm_get_Some_In. }
    destruct o, cur; cbn [snd]; try discriminate; try apply Hg; unfold zlast; try apply Hn;
      try (destruct (zlen m =? 0); cbn [snd]; try discriminate; try apply Hn).
    all: try (destruct (z + 1 >=? zlen m); [discriminate|apply Hn]).
    all: destruct (sm_index m r); cbn [snd]; [apply Hn|discriminate].
  Qed.

  Lemma sr_get_entry s k b : asc (sr_map s) -> In (k, b) (sr_map s) -> snd (step s (Get k)) = OBeacon b.
  Proof.
    intros Ha Hin. apply sm_get_In in Hin; [|assumption].
    destruct s as [m cur]. unfold sr_step. cbn [sr_map sr_cur] in *. destruct cur; cbn [snd]; now rewrite Hin.
  Qed.

  Lemma sr_get_inv s r b : snd (step s (Get r)) = OBeacon b -> sm_get (sr_map s) r = Some b.
  Proof.
    destruct s as [m cur]. unfold sr_step. cbn [sr_map sr_cur].
    destruct cur; cbn [snd]; (destruct (sm_get m r) as [v|]; [|discriminate]); now intros [= ->].
  Qed.

  Theorem sr_label_ok : label_ok step init.
  Proof.
    intros pre o b Hp Ho Hb. unfold out_after in *.
    destruct (sr_inv_exec pre) as (Ha & Hk). pose proof (sr_range_exec pre Hp) as Hr.
    set (s := exec step init pre) in *.
    destruct (sr_out_entry s o b Hb) as (k & Hin).
    assert (k = b_round b) as ->.
    { unfold keyed in Hk. rewrite Forall_forall in Hk. apply (Hk _ Hin). }
    split.
    - unfold keys_in_range in Hr. rewrite Forall_forall in Hr. apply Hr. now apply (in_map fst) in Hin.
    - now apply sr_get_entry.
  Qed.

  Theorem sr_seek_ok : seek_ok step init.
  Proof.
    intros pre r b Hp Hr Hb. unfold out_after in *. set (s := exec step init pre) in *.
    apply sr_get_inv in Hb. destruct s as [m cur]. unfold sr_step. cbn [sr_map sr_cur] in *.
    destruct cur; cbn [snd]; [left|now right].
    destruct (sm_index_found m r b Hb) as (i & -> & _ & Hn). cbn [snd]. now rewrite Hn.
  Qed.

  Lemma sr_next_step m i : zlen m <> 0 -> i + 1 < zlen m ->
    step (mkSR m (Some i)) CNext = (mkSR m (Some (i + 1)), sr_out (znth m (i + 1))).
  Proof.
    intros H0 H. unfold sr_step. cbn [sr_map sr_cur].
    destruct (Z.eqb_spec (zlen m) 0); [lia|]. destruct (Z.geb_spec (i + 1) (zlen m)); [lia|reflexivity].
  Qed.

  Lemma sr_next_end m i : zlen m <> 0 -> ~ i + 1 < zlen m ->
    step (mkSR m (Some i)) CNext = (mkSR m (Some (i + 1)), OErr ENoBeacon).
  Proof.
    intros H0 H. unfold sr_step. cbn [sr_map sr_cur].
    destruct (Z.eqb_spec (zlen m) 0); [lia|]. destruct (Z.geb_spec (i + 1) (zlen m)); [reflexivity|lia].
  Qed.

  Lemma sr_scan_from m l1 x l2 : m = l1 ++ x :: l2 ->
    run step (mkSR m (Some (zlen l1))) (repeat CNext (Datatypes.S (length l2))) =
    map (fun e => sr_out (Some e)) l2 ++ [OErr ENoBeacon].
  Proof.
    intros Hm. revert l1 x Hm. induction l2 as [|y l2 IH]; intros l1 x Hm.
    - assert (zlen m = zlen l1 + 1) by (subst; rewrite zlen_app, zlen_cons; unfold zlen; simpl; lia).
      pose proof (zlen_nonneg l1).
      cbn [length repeat run]. rewrite sr_next_end by lia. reflexivity.
    - assert (zlen m = zlen l1 + 1 + (1 + zlen l2)) by (subst; rewrite zlen_app, !zlen_cons; lia).
      pose proof (zlen_nonneg l2). pose proof (zlen_nonneg l1).
      cbn [length repeat run]. rewrite sr_next_step by lia. cbn [fst snd].
      assert (Hm' : m = (l1 ++ [x]) ++ y :: l2) by (subst; now rewrite <- app_assoc).
      assert (Hz : zlen l1 + 1 = zlen (l1 ++ [x])) by (rewrite zlen_app; reflexivity).
      assert (Hn : znth m (zlen (l1 ++ [x])) = Some y) by (rewrite Hm'; apply znth_app_mid).
      rewrite Hz, Hn. cbn [map app]. f_equal. apply (IH (l1 ++ [x]) y Hm').
  Qed.

  Theorem sr_iter_ok : iter_ok step init.
  Proof.
    intros pre Hp Hf. unfold out_after, outs_from in *.
    destruct (sr_inv_exec pre) as (Ha & Hk). pose proof (sr_range_exec pre Hp) as Hr.
    set (s := exec step init pre) in *.
    exists (keys (sr_map s)). destruct s as [m cur]. cbn [sr_map] in *.
    assert (exists p, cur = Some p) as [p ->].
    { destruct cur; [eauto|]. exfalso. apply Hf. reflexivity. }
    repeat split; try assumption.
    - unfold sr_step. cbn [snd sr_map sr_cur]. now rewrite zlen_keys.
    - intros r b _ Hb. apply sr_get_inv in Hb. cbn [sr_map] in Hb.
      apply sm_get_Some_In in Hb. now apply (in_map fst) in Hb.
    - unfold keys. rewrite map_length, map_map.
      assert (Hmap : map (fun e => snd (step (mkSR m (Some p)) (Get (fst e)))) m = map (fun e => sr_out (Some e)) m).
      { apply map_ext_in. intros [k v] Hin. cbn [fst sr_out]. now apply sr_get_entry. }
      rewrite Hmap. destruct m as [|x l2]; [reflexivity|].
      cbn [length repeat run]. unfold sr_step at 1 2. cbn [sr_map sr_cur].
      rewrite zlen_cons. pose proof (zlen_nonneg l2).
      destruct (Z.eqb_spec (1 + zlen l2) 0); [lia|]. cbn [fst snd]. rewrite znth_cons_0.
      cbn [map app]. f_equal.
      exact (sr_scan_from (x :: l2) [] x l2 eq_refl).
  Qed.

  Theorem sr_keep_ok : 0 <= cap -> keep_ok step init.
  Proof.
    intros Hc pre b b0 suf Hp Hb Hs Hg. unfold out_after, outs_from in *. rewrite exec_app.
    pose proof (sr_len_exec pre Hc) as Hl. set (s := exec step init pre) in *.
    apply sr_get_inv in Hg. destruct s as [m cur]. cbn [sr_map] in *.
    simpl exec. unfold sr_step at 1 2 3. cbn [sr_map sr_cur fst snd]. unfold sm_put_keep. rewrite Hg.
    unfold sm_trim. rewrite trim_id by assumption. split; reflexivity.
  Qed.

  Theorem sr_bounded : 0 <= cap -> forall pre n, out_after step init pre Len = OLen n -> 0 <= n <= cap.
  Proof.
    intros Hc pre n. unfold out_after. pose proof (sr_len_exec pre Hc) as Hl.
    set (s := exec step init pre) in *. destruct s as [m cur]. unfold sr_step. cbn [sr_map sr_cur snd] in *.
    destruct cur; intros [= <-]; pose proof (zlen_nonneg m); lia.
  Qed.

  (* every stored entry was put for its round and that round was not deleted since *)
  Lemma sr_hist pre k b : In (k, b) (sr_map (exec step init pre)) ->
    exists p1 p2, pre = p1 ++ Put b :: p2 /\ ~ In (Del (b_round b)) p2.
  Proof.
    revert k b. induction pre as [|o pre IH] using rev_ind; intros k b Hin; [contradiction|].
    rewrite exec_app in Hin. simpl in Hin. rewrite sr_step_map in Hin.
    destruct (sr_inv_exec pre) as (Ha & Hk). set (s := exec step init pre) in *.
    assert (Hold : In (k, b) (sr_map s) -> (forall r, o = Del r -> r <> b_round b) ->
                   exists p1 p2, pre ++ [o] = p1 ++ Put b :: p2 /\ ~ In (Del (b_round b)) p2).
    { intros Hi Hd. destruct (IH k b Hi) as (p1 & p2 & -> & Hn). exists p1, (p2 ++ [o]).
      split; [now rewrite <- app_assoc|]. intros Hx. apply in_app_or in Hx as [Hx|[Hx|[]]]; [tauto|].
      now apply (Hd _ Hx). }
    destruct o; try (apply Hold; [assumption|discriminate]).
    - apply In_trim in Hin. unfold sm_put_keep in Hin.
      destruct (sm_get (sr_map s) (b_round b0)); [apply Hold; [assumption|discriminate]|].
      apply In_sm_put in Hin as [[= -> ->]|Hin]; [|apply Hold; [assumption|discriminate]].
      exists pre, []. split; [reflexivity|tauto].
    - apply In_sm_del in Hin as [Hin Hne]; [|assumption]. apply Hold; [assumption|].
      intros r0 [= <-]. unfold keyed in Hk. rewrite Forall_forall in Hk. specialize (Hk _ Hin). simpl in Hk. congruence.
  Qed.

  Theorem sr_hist_ok : hist_ok step init.
  Proof.
    intros pre o b _ _ Hb. unfold out_after in Hb. apply sr_out_entry in Hb as [k Hin]. eauto using sr_hist.
  Qed.
End RingProofs.

(* what trimming does to an ascending map: it drops a prefix (the oldest rounds) and keeps the
   newest cap entries *)
Lemma trim_spec {V} cap (m : @smap V) : 0 <= cap -> asc m ->
  exists old, m = old ++ sm_trim cap m /\ zlen (sm_trim cap m) = Z.min (zlen m) cap /\
    forall k k', In k (keys old) -> In k' (keys (sm_trim cap m)) -> k < k'.
Proof.
  intros Hc Ha. unfold sm_trim, md_trim. destruct (Z.gtb_spec (zlen m) cap).
  - set (n := Z.to_nat (zlen m - cap)). exists (firstn n m). repeat split.
    + now rewrite firstn_skipn.
    + unfold zlen in *. rewrite skipn_length. lia.
    + rewrite <- (firstn_skipn n m) in Ha. revert Ha. generalize (firstn n m) (skipn n m). clear.
      intros a b Ha k k' Hk Hk'. unfold asc, keys in Ha. rewrite map_app in Ha.
      induction a as [|[k0 v0] a IH]; [contradiction|]. simpl in Ha. inversion Ha; subst.
      destruct Hk as [<-|Hk]; [|auto]. rewrite Forall_forall in H2. apply H2. apply in_or_app. now right.
  - exists []. repeat split; [lia|contradiction].
Qed.

Section KeepTransfer.
  Context {C S : Type} (cstep : C -> op -> C * out) (cinit : C)
          (sstep : S -> op -> S * out) (sinit : S).
  Hypothesis Href : refines cstep cinit sstep sinit.

  Lemma keep_ok_transfer : keep_ok sstep sinit -> keep_ok cstep cinit.
  Proof.
    intros H pre b b0 suf Hp Hb Hs Hg.
    assert (Hw : wf (pre ++ [Put b])) by (apply wf_app; split; [assumption|constructor; [assumption|constructor]]).
    rewrite (refines_after _ _ _ _ Href) in Hg by assumption.
    rewrite (refines_after _ _ _ _ Href) by assumption.
    rewrite !Href by assumption. exact (H pre b b0 suf Hp Hb Hs Hg).
  Qed.

  Lemma hist_ok_transfer : hist_ok sstep sinit -> hist_ok cstep cinit.
  Proof.
    intros H pre o b Hp Ho Hb. rewrite (refines_after _ _ _ _ Href) in Hb by assumption. exact (H pre o b Hp Ho Hb).
  Qed.
End KeepTransfer.

(* ---------- H. instances and the statements used by Props/C18.v ---------- *)

Lemma keyed_view_round : forall (m : smap (V := beacon)) k v b,
  keyed m -> In (k, v) m -> viewU m (k, v) = OBeacon b -> b_round b = k.
Proof.
  intros m k v b Hk Hin [= <-]. unfold keyed in Hk. rewrite Forall_forall in Hk.
  symmetry. exact (Hk _ Hin).
Qed.

Lemma viewT_round rp : forall (m : smap (V := list Z)) k v b,
  True -> In (k, v) m -> viewT rp m (k, v) = OBeacon b -> b_round b = k.
Proof.
  intros m k v b _ _. unfold viewT. destruct (rp && (0 <? k)); [destruct (sm_get m (k - 1))|];
    try discriminate; now intros [= <-].
Qed.

Definition specU_label := sb_label_ok (fun b => b) viewU keyed (Forall_nil _) keyed_put keyed_del keyed_view_round.
Definition specU_seek := sb_seek_ok (fun b => b) viewU keyed (Forall_nil _) keyed_put keyed_del.
Definition specU_iter := sb_iter_ok (fun b => b) viewU keyed (Forall_nil _) keyed_put keyed_del.
Definition specU_inv := sb_inv_exec (fun b => b) viewU keyed (Forall_nil _) keyed_put keyed_del.
Definition specU_content := sb_content (fun b => b) viewU keyed (Forall_nil _) keyed_put keyed_del.

Section SpecT.
  Variable rp : bool.
  Let goodT := fun _ : smap (V := list Z) => True.
  Definition specT_label := sb_label_ok b_sig (viewT rp) goodT I (fun _ _ _ => I) (fun _ _ _ => I) (viewT_round rp).
  Definition specT_seek := sb_seek_ok b_sig (viewT rp) goodT I (fun _ _ _ => I) (fun _ _ _ => I).
  Definition specT_iter := sb_iter_ok b_sig (viewT rp) goodT I (fun _ _ _ => I) (fun _ _ _ => I).
  Definition specT_inv := sb_inv_exec b_sig (viewT rp) goodT I (fun _ _ _ => I) (fun _ _ _ => I).
  Definition specT_content := sb_content b_sig (viewT rp) goodT I (fun _ _ _ => I) (fun _ _ _ => I).
End SpecT.

Theorem label_integrity_all :
  label_ok bu_step bu_init /\
  (forall rp, label_ok (bt_step rp) bt_init) /\
  (forall cap, label_ok (md_step cap) md_init).
Proof.
  split; [|split].
  - exact (label_ok_transfer _ _ _ _ boltU_refines specU_label).
  - intros rp. exact (label_ok_transfer _ _ _ _ (boltT_refines rp) (specT_label rp)).
  - intros cap. exact (label_ok_transfer _ _ _ _ (memdb_refines cap) (sr_label_ok cap)).
Qed.

Theorem seek_stored_all :
  seek_ok bu_step bu_init /\
  (forall rp, seek_ok (bt_step rp) bt_init) /\
  (forall cap, seek_ok (md_step cap) md_init).
Proof.
  split; [|split].
  - exact (seek_ok_transfer _ _ _ _ boltU_refines specU_seek).
  - intros rp. exact (seek_ok_transfer _ _ _ _ (boltT_refines rp) (specT_seek rp)).
  - intros cap. exact (seek_ok_transfer _ _ _ _ (memdb_refines cap) (sr_seek_ok cap)).
Qed.

Theorem iteration_all :
  iter_ok bu_step bu_init /\
  (forall rp, iter_ok (bt_step rp) bt_init) /\
  (forall cap, iter_ok (md_step cap) md_init).
Proof.
  split; [|split].
  - exact (iter_ok_transfer _ _ _ _ boltU_refines specU_iter).
  - intros rp. exact (iter_ok_transfer _ _ _ _ (boltT_refines rp) (specT_iter rp)).
  - intros cap. exact (iter_ok_transfer _ _ _ _ (memdb_refines cap) (sr_iter_ok cap)).
Qed.

Lemma sb_get_out {V} (val_of : beacon -> V) view (s : sb_state) r :
  snd (sb_step val_of view s (Get r)) =
  match sm_get (sb_map s) r with Some v => view (sb_map s) (r, v) | None => OErr ENoBeacon end.
Proof. destruct s as [m cur]. unfold sb_step. cbn [sb_map sb_cur]. destruct cur; reflexivity. Qed.

Theorem boltU_get_hist : forall pre r, wf pre -> in_range r ->
  ~ In OBad (run bu_step bu_init pre) ->
  out_after bu_step bu_init pre (Get r) =
  match hist (fun b => b) pre r with Some b => OBeacon b | None => OErr ENoBeacon end.
Proof.
  intros pre r Hp Hr Hb. rewrite (refines_after _ _ _ _ boltU_refines) by assumption.
  rewrite (refines_run _ _ _ _ boltU_refines) in Hb by assumption.
  unfold out_after, specU_step. rewrite sb_get_out. rewrite (specU_content pre Hp Hb).
  destruct (hist (fun b => b) pre r); reflexivity.
Qed.

Theorem boltT_get_hist : forall rp pre r, wf pre -> in_range r ->
  ~ In OBad (run (bt_step rp) bt_init pre) ->
  out_after (bt_step rp) bt_init pre (Get r) =
  match hist b_sig pre r with
  | None => OErr ENoBeacon
  | Some sig =>
      if rp && (0 <? r) then
        match hist b_sig pre (r - 1) with
        | Some p => OBeacon (mkB r p sig)
        | None => OErr ENoBeacon
        end
      else OBeacon (mkB r [] sig)
  end.
Proof.
  intros rp pre r Hp Hr Hb. rewrite (refines_after _ _ _ _ (boltT_refines rp)) by assumption.
  rewrite (refines_run _ _ _ _ (boltT_refines rp)) in Hb by assumption.
  unfold out_after, specT_step. rewrite sb_get_out. rewrite !(specT_content rp pre Hp Hb).
  destruct (hist b_sig pre r); [|reflexivity]. unfold viewT.
  destruct (rp && (0 <? r)); [|reflexivity]. now rewrite (specT_content rp pre Hp Hb).
Qed.

Theorem boltU_returned : forall pre o b, wf pre -> op_wf o ->
  ~ In OBad (run bu_step bu_init pre) ->
  out_after bu_step bu_init pre o = OBeacon b ->
  hist (fun b => b) pre (b_round b) = Some b.
Proof.
  intros pre o b Hp Ho Hb Hout.
  destruct (proj1 label_integrity_all pre o b Hp Ho Hout) as [Hr Hg].
  rewrite (boltU_get_hist pre _ Hp Hr Hb) in Hg.
  destruct (hist (fun b0 => b0) pre (b_round b)); [now injection Hg as ->|discriminate].
Qed.

Theorem boltT_returned : forall rp pre o b, wf pre -> op_wf o ->
  ~ In OBad (run (bt_step rp) bt_init pre) ->
  out_after (bt_step rp) bt_init pre o = OBeacon b ->
  hist b_sig pre (b_round b) = Some (b_sig b) /\
  (if rp && (0 <? b_round b) then hist b_sig pre (b_round b - 1) = Some (b_prev b)
   else b_prev b = []).
Proof.
  intros rp pre o b Hp Ho Hb Hout.
  destruct (proj1 (proj2 label_integrity_all) rp pre o b Hp Ho Hout) as [Hr Hg].
  rewrite (boltT_get_hist rp pre _ Hp Hr Hb) in Hg.
  destruct (hist b_sig pre (b_round b)) as [sig|]; [|discriminate].
  destruct (rp && (0 <? b_round b)).
  - destruct (hist b_sig pre (b_round b - 1)) as [p|]; [|discriminate].
    injection Hg as Hg. rewrite <- Hg. split; reflexivity.
  - injection Hg as Hg. rewrite <- Hg. split; reflexivity.
Qed.

Theorem memdb_hist_ok : forall cap, hist_ok (md_step cap) md_init.
Proof. intros cap. exact (hist_ok_transfer _ _ _ _ (memdb_refines cap) (sr_hist_ok cap)). Qed.

Theorem memdb_keep_ok : forall cap, 0 <= cap -> keep_ok (md_step cap) md_init.
Proof. intros cap Hc. exact (keep_ok_transfer _ _ _ _ (memdb_refines cap) (sr_keep_ok cap Hc)). Qed.

Theorem memdb_bounded : forall cap pre n, 0 <= cap -> wf pre ->
  out_after (md_step cap) md_init pre Len = OLen n -> 0 <= n <= cap.
Proof.
  intros cap pre n Hc Hp H. rewrite (refines_after _ _ _ _ (memdb_refines cap)) in H by (simpl; auto).
  exact (sr_bounded cap Hc pre n H).
Qed.
